"""C12 — experimental variograms equal their pairwise definition.
Theorems of coq/C12 + correspondence of Vario::computeFromDb (getSwVec/getHhVec/getGgVec, all directions and
variable pairs) with the extracted model, + brute-force spec (all pairs, no sorting/pruning) + metamorphic checks
run directly on the implementation (permutation of samples, translation, permutation of variables, grid vs general)."""
import sys, os, math, copy
sys.path.insert(0, os.path.dirname(__file__))
from common import *

CALC = {0: 'vg', 1: 'cov', 2: 'covg', 3: 'mado', 4: 'rodo', 5: 'poisson', 9: 'covnc', 10: 'order4'}
ASYM = (1, 2, 9)
TOLANGS = [0, 10, 22.5, 30, 45, 60, 90]
F = Fraction

# ------------------------------------------------------------------------------------------- generators
def gen_points(rng, ndim, n, style):
    """coordinates as small dyadics (multiples of 1/8, |x| < 64): every difference, square and sum of squares is exact in binary64"""
    pts = []
    span = rng.choice([4, 6, 10, 16])
    step = rng.choice([F(1), F(1), F(1, 2), F(1, 4)])
    for i in range(n):
        if style == 'dup' and pts and rng.random() < .25:
            pts.append(list(rng.choice(pts))); continue
        p = [step * rng.randint(0, span) for _ in range(ndim)]
        if style == 'columns':      # many equal first coordinates: stresses the stable sort and the 1-D break
            p[0] = step * rng.choice([0, 1, 2, span])
        if style == 'jitter':
            p = [v + F(rng.randint(-3, 3), 8) for v in p]
        if style == 'line' and ndim > 1:   # collinear along a lattice direction: aligned pairs for tolang = 0
            t = rng.randint(0, span); p = [step * t * (1 if k == 0 else (k % 2)) for k in range(ndim)]
        pts.append(p)
    return pts

def gen_dir(rng, ndim, psmin_of, quick):
    npas = rng.choice([1, 2, 3, 4, 5, 8, 12, 20])
    dpas = rng.choice([F(1, 2), F(1), F(1), F(3, 2), F(2), F(3, 4), F(3)])
    tol = rng.choice([F(0), F(1, 8), F(1, 4), F(3, 8), F(1, 2), F(1, 2)])
    tolang = rng.choice(TOLANGS + [90, 90])
    if ndim == 1:
        codir = [rng.choice([1, -1, 2])]
    elif ndim == 2:
        codir = rng.choice([[1, 0], [0, 1], [1, 1], [1, -1], [2, 1], [-1, 0], [3, 4]])
    else:
        codir = rng.choice([[1, 0, 0], [0, 0, 1], [1, 1, 0], [1, 1, 1], [0, 1, -1], [2, 1, 1]])
    bench = rng.choice([None, None, None, F(1, 2), F(1), F(2), F(0)])
    cyl = rng.choice([None, None, None, F(3, 4), F(3, 2), F(37, 16), F(-1)]) if ndim > 1 else None
    return [npas, dy(dpas), dy(tol), dy(F(tolang)), dy(psmin_of[tolang]), [dy(F(v)) for v in codir], dy(bench), dy(cyl), 0]

def gen_case(rng, quick, psmin_of, family=None):
    ndim = rng.choice([1, 2, 2, 2, 3])
    if quick: n = rng.choice([3, 5, 8, 12, 20, 40, 40, 80])
    else: n = rng.choices([3, 5, 8, 12, 20, 40, 80, 150, 300], [8, 8, 10, 12, 16, 20, 18, 5, 2])[0]
    fam = family or rng.choices(['vg', 'cov', 'covnc', 'mado', 'rodo', 'order4', 'poisson', 'covg', 'bysample', 'bysample2dir', 'dates'],
                                [32, 18, 10, 8, 5, 5, 5, 5, 5, 2, 8])[0]
    calc = {'vg': 0, 'cov': 1, 'covnc': 9, 'mado': 3, 'rodo': 4, 'order4': 10, 'poisson': 5, 'covg': 2, 'bysample': rng.choice([0, 1, 3]),
            'bysample2dir': rng.choice([0, 2]), 'dates': 0}[fam]
    flag_sample = 1 if fam in ('bysample', 'bysample2dir') else 0
    if fam in ('covg', 'bysample', 'bysample2dir'): n = min(n, 40)      # rational sums with unrelated denominators: keep the model fast
    style = rng.choice(['lattice', 'lattice', 'dup', 'columns', 'jitter', 'line'])
    pts = gen_points(rng, ndim, n, style)
    nvar = rng.choice([1, 1, 2, 2, 3]) if n <= 150 else rng.choice([1, 1, 2])
    if fam == 'poisson': nvar = 1      # the cross Poisson term subtracts the mean of ONE of the two variables: no pairwise definition to compare with
    hasSel = rng.random() < .4; hasW = rng.random() < .4
    hasDate = fam == 'dates'
    na_rate = rng.choice([0, 0, .1, .3])
    zscale = rng.choice([1, 1, F(1, 4), 5])
    ss = []
    for i in range(n):
        z = [None if rng.random() < na_rate else zscale * rng.randint(-12, 12) for _ in range(nvar)]
        if fam == 'poisson': w = rng.choice([F(1, 2), 1, 2, 3, None])
        else: w = rng.choice([F(1, 2), 1, 1, 2, 3, F(1, 4), None, None, 0, -1])
        date = rng.choice([0, 1, 2, 3, F(5, 2), None]) if hasDate else None
        ss.append([[dy(v) for v in pts[i]], 1 if (not hasSel or rng.random() < .75) else 0,
                   dy(w) if hasW else [], dy(date) if hasDate else [], [dy(v) for v in z]])
    dirs = [gen_dir(rng, ndim, psmin_of, quick) for _ in range(rng.choice([1, 1, 2, 3]))]
    if fam == 'bysample2dir':     # two directions of equal size (regression case of the stale direction index of the by-sample algorithm)
        dirs = [gen_dir(rng, ndim, psmin_of, quick) for _ in range(2)]; dirs[1][0] = dirs[0][0]
    # irregular lags: increasing breaks b_0 < .. < b_npas (lag k = ]b_k, b_{k+1}])
    if fam in ('vg', 'cov', 'covnc', 'mado', 'order4') and rng.random() < .2:
        for d in dirs:
            npas = min(d[0], 6); d[0] = npas
            b = [rng.choice([F(0), F(0), F(1, 2)])]
            for _ in range(npas): b.append(b[-1] + rng.choice([F(1, 2), F(1), F(3, 2), F(3, 4)]))
            d.append([dy(v) for v in b])
    dates = []
    if hasDate:
        # either an unbounded interval (no date checker, but the date-mode loop) or a real one
        dates = rng.choice([[dy(-F(2) ** 100), dy(F(2) ** 100)], [dy(F(-1)), dy(F(3, 2))], [dy(F(0)), dy(F(1))]])
    return [0, ndim, calc, flag_sample, [int(hasSel), int(hasW), int(hasDate), nvar], ss, dirs, dates, 1], fam

# ------------------------------------------------------------------------------------------- comparison
TOL = 1e-9
def fl(x): return None if x is None else float(x)

def in_iv(x, iv, scale=1.0):
    """impl double x against the model enclosure iv=[lo,hi] widened by TOL relative"""
    if x is None or iv is None: return x is None and iv is None
    lo, hi = iv
    t = TOL * (scale + max(abs(float(lo)), abs(float(hi))))
    return float(lo) - t <= x <= float(hi) + t

def cell_of_model(c):
    sw = unq(c[0]); hh = (unq(c[1][0]), unq(c[1][1])) if c[1] else None; gg = (unq(c[2][0]), unq(c[2][1])) if c[2] else None
    return sw, hh, gg

def cmp_blocks(impl_blocks, mblocks):
    """impl_blocks: [(sw,hh,gg,ggswapped)] lists of doubles/None ; mblocks: model/spec cells. Returns None or a description"""
    if len(impl_blocks) != len(mblocks): return 'number of variable pairs %d vs %d' % (len(impl_blocks), len(mblocks))
    for b, (ib, mb) in enumerate(zip(impl_blocks, mblocks)):
        sw, hh, gg, ggs = ib
        if not (len(sw) == len(hh) == len(gg) == len(mb)): return 'block %d: %d lags vs %d' % (b, len(sw), len(mb))
        for k, mc in enumerate(mb):
            msw, mhh, mgg = mc
            if sw[k] is None or abs(sw[k] - float(msw)) > TOL * (1 + abs(float(msw))):
                return 'varpair %d lag-slot %d: sw impl=%r expected=%r' % (b, k, sw[k], float(msw))
            if not in_iv(hh[k], mhh): return 'varpair %d lag-slot %d: hh impl=%r expected=%s' % (b, k, hh[k], mhh and [float(mhh[0]), float(mhh[1])])
            gscale = 1.0
            if not in_iv(gg[k], mgg, gscale): return 'varpair %d lag-slot %d: gg impl=%r expected=%s' % (b, k, gg[k], mgg and [float(mgg[0]), float(mgg[1])])
            if (ggs[k] is None) != (gg[k] is None) or (gg[k] is not None and ggs[k] != gg[k]):
                return 'varpair %d lag-slot %d: getGgVec(i,j)=%r but getGgVec(j,i)=%r' % (b, k, gg[k], ggs[k])
    return None

def impl_dir(r):
    """one direction of the harness result -> (psmin, maxdist, blocks)"""
    blocks = []
    for blk in r[2:]:
        blocks.append(tuple([fl(undy(v)) for v in blk[j]] for j in range(4)))
    return undy(r[0]), undy(r[1]), blocks

def cmp_impl_impl(b1, b2, what):
    """two impl results that the property says are equal"""
    if len(b1) != len(b2): return '%s: block count differs' % what
    for b, (x, y) in enumerate(zip(b1, b2)):
        for j, nm in ((0, 'sw'), (1, 'hh'), (2, 'gg')):
            if len(x[j]) != len(y[j]): return '%s: varpair %d %s length differs' % (what, b, nm)
            for k, (u, v) in enumerate(zip(x[j], y[j])):
                if (u is None) != (v is None) or (u is not None and abs(u - v) > 1e-8 * (1 + abs(u))):
                    return '%s: varpair %d lag-slot %d %s: %r vs %r' % (what, b, k, nm, u, v)
    return None

# ------------------------------------------------------------------------------------------- exact helpers on a case (python side, for keys only)
def case_undirected(c, idir):
    """(has a pair of coincident usable samples, has a non-coincident usable pair orthogonal to the direction)"""
    d = c[6][idir]; codir = [undy(v) for v in d[5]]
    act = [s for s in c[5] if (not c[4][0]) or s[1]]
    xs = [[undy(v) for v in s[0]] for s in act]
    coinc = ortho = False
    for i in range(len(xs)):
        for j in range(i + 1, len(xs)):
            dl = [xs[j][k] - xs[i][k] for k in range(len(codir))]
            if all(v == 0 for v in dl): coinc = True
            elif sum(dl[k] * codir[k] for k in range(len(codir))) == 0: ortho = True
    return coinc, ortho

def case_has_na(c): return any(v == [] for s in c[5] for v in s[4])

def generic_key(c, idir):
    feats = []
    d = c[6][idir]
    if undy(d[4]) not in (0, 1): feats.append('tolang')
    if d[6] != [] and undy(d[6]) > 0: feats.append('bench')
    if d[7] != [] and undy(d[7]) > 0: feats.append('cylinder')
    if c[4][0]: feats.append('sel')
    if c[4][1]: feats.append('weights')
    if c[7]: feats.append('dates')
    if c[3]: feats.append('bysample')
    if len(d) > 9: feats.append('breaks')
    if case_has_na(c): feats.append('na')
    return 'impl-vs-spec:%s:%s' % (CALC[c[2]], '+'.join(feats) or 'plain')

def classify(c, idir, model_agrees):
    """canonical key of the call site / option combination of a (shrunk) witness where impl violates the pairwise definition.
       model_agrees: the model (which mirrors the current, fixed code) reproduces the implementation, i.e. the deviation from the
       definition is one the model has too: only the residual orientation of pairs orthogonal to the direction is of that kind.
       Otherwise the implementation left the model as well: the keys of the defects cured by fixes/C12_1..5 are given back to the
       option combinations they lived in (regression), anything else gets a key built from the estimator and the options in use."""
    calc = c[2]; nvar = c[4][3]
    if model_agrees:
        if calc in ASYM and nvar > 1 and case_undirected(c, idir)[1]: return 'evaluateCovariance:undirected-pair-orientation'
        return generic_key(c, idir)
    if (c[3] or calc == 2) and len(c[6]) > 1: return 'generalSolution2:IDIRLOC-not-set'
    if c[7]:
        big = F(10) ** 30
        d0, d1 = undy(c[7][0]), undy(c[7][1])
        if d0 > -big or d1 < big: return 'getSampleAsSTInPlace:date-stored-as-code'
        if c[4][2]:
            d = c[6][idir]; md = undy(d[1]) * (d[0] + undy(d[2]))
            x1 = [undy(s[0][0]) for s in c[5] if (not c[4][0]) or s[1]]
            return 'generalSolution:dates-break' if x1 and max(x1) - min(x1) > md else 'generalSolution:dates-loop-bounds'
    if c[3] or calc == 2: return 'generalSolution2:accumulators-not-reset'
    if calc == 5: return 'getStatistics:mean-loop-bound'
    if calc in ASYM and nvar > 1:
        coinc, ortho = case_undirected(c, idir)
        if coinc: return 'evaluateCovariance:undirected-pair-orientation'
        if case_has_na(c): return 'evaluateCovariance:heterotopic-test-on-first-variable'
    return generic_key(c, idir)

# ------------------------------------------------------------------------------------------- evaluation of a batch
def run_model_files(ctx, runner, casefile, timeout=3000):
    """extracted model on a case file, split round-robin over the cores; every worker writes to its own file
       (results of large cases are long lines: no pipes)"""
    lines = [l for l in open(casefile) if l.strip() and not l.startswith('#')]
    jobs = min(NPROC, max(1, len(lines) // 2))
    procs = []
    for j in range(jobs):
        part = casefile + '.mpart%d' % j
        with open(part, 'w') as f: f.writelines(lines[j::jobs])
        fo = open(part + '.out', 'w')
        procs.append((j, part, fo, subprocess.Popen(['bash', '-c', 'ulimit -s unlimited; exec "%s" "%s"' % (runner, part)],
                                                    stdout=fo, stderr=subprocess.DEVNULL)))
    t0 = time.time()
    res = [None] * len(lines)
    for j, part, fo, p in procs:
        try: p.wait(timeout=max(1, timeout - (time.time() - t0)))
        except subprocess.TimeoutExpired: p.kill()
        fo.close()
        out = [sx_parse(l) for l in open(part + '.out') if l.strip()]
        for k, idx in enumerate(range(j, len(lines), jobs)):
            if k < len(out): res[idx] = out[k]
        os.remove(part); os.remove(part + '.out')
    return [r for r in res if r is not None] if any(r is None for r in res) else res

class Engine:
    def __init__(self, ctx, exe, runner): self.ctx, self.exe, self.runner = ctx, exe, runner
    def run(self, name, cases):
        cf = write_cases(self.ctx, name, cases)
        model = run_model_files(self.ctx, self.runner, cf)
        if len(model) != len(cases) or any(m and m[0] == -999 for m in model if isinstance(m, list) and m and isinstance(m[0], int)):
            print('ERROR: model runner rejected a case or returned %d results for %d cases' % (len(model), len(cases))); sys.exit(3)
        if any(m and isinstance(m[0], int) and m[0] == -998 for m in model):
            print('ERROR: model runner failed (stack/exception)'); sys.exit(3)
        # the harness may die on a case (the model is total): the case is marked None and the batch resumes after it
        impl = []; start = 0; ncrash = 0
        while start < len(cases):
            cfi = cf if start == 0 else write_cases(self.ctx, name + '_resume', cases[start:])
            rc_i, part = run_impl(self.ctx, self.exe, cfi)
            impl += part; start += len(part)
            if start < len(cases):
                impl.append(None); start += 1; ncrash += 1
                if ncrash > 25: impl += [None] * (len(cases) - start); break
        return impl, model
    def verdicts(self, name, cases):
        """per case: list over directions of dict(status, detail, key)
           status: ok | tie | crash | impl-vs-spec | drift"""
        impl, model = self.run(name, cases)
        out = []
        for i, c in enumerate(cases):
            ii = impl[i] if i < len(impl) else None
            vs = []
            for idir in range(len(c[6])):
                m = model[i][idir]
                if ii is None or (ii and isinstance(ii[0], int)):
                    vs.append({'status': 'crash', 'detail': 'implementation produced no result (%r)' % (ii,), 'key': 'crash:computeFromDb:' + CALC[c[2]], 'impl': None}); continue
                psm, md, ib = impl_dir(ii[idir])
                if psm != undy(c[6][idir][4]):
                    print('ERROR: harvested psmin differs from the library value for direction %d of case %d' % (idir, i)); sys.exit(3)
                if m[0]:
                    vs.append({'status': 'tie', 'impl': ib}); continue
                mb = [[cell_of_model(x) for x in blk] for blk in m[1]]
                sb = [[cell_of_model(x) for x in blk] for blk in m[2]]
                d_im = cmp_blocks(ib, mb); d_is = cmp_blocks(ib, sb)
                if d_is is not None:
                    vs.append({'status': 'impl-vs-spec', 'detail': d_is, 'model_agrees': d_im is None, 'key': classify(c, idir, d_im is None), 'impl': ib})
                elif d_im is not None:
                    vs.append({'status': 'drift', 'detail': d_im, 'key': 'model-drift:computeFromDb:' + CALC[c[2]], 'impl': ib})
                else:
                    vs.append({'status': 'ok', 'impl': ib, 'spec': sb})
            out.append(vs)
        return out

KNOWN_CLASS = ('getSampleAsSTInPlace:date-stored-as-code', 'generalSolution:dates-break', 'generalSolution:dates-loop-bounds',
               'generalSolution2:IDIRLOC-not-set', 'generalSolution2:accumulators-not-reset', 'getStatistics:mean-loop-bound',
               'evaluateCovariance:undirected-pair-orientation', 'evaluateCovariance:heterotopic-test-on-first-variable')

def shrink(eng, c, idir, key, budget=40):
    """greedy reduction of a witness. A witness of one of the classified defects must keep its key; any other witness must
       stay a violation of the pairwise definition that is NOT one of the classified defects (its key is recomputed at the end)."""
    cur = copy.deepcopy(c); cur[6] = [cur[6][idir]]
    generic = key not in KNOWN_CLASS
    def holds(cands):
        vs = eng.verdicts('shrink', cands)
        return [v[0]['status'] in ('impl-vs-spec', 'crash') and ((v[0]['key'] not in KNOWN_CLASS) if generic else v[0]['key'] == key) for v in vs]
    if not holds([cur])[0]: return c, idir
    rounds = 0
    chunk = max(1, len(cur[5]) // 2)
    while rounds < budget:
        rounds += 1
        n = len(cur[5])
        cands = []
        for st in range(0, n, chunk):
            if n - min(chunk, n - st) >= 2:
                cc = copy.deepcopy(cur); del cc[5][st:st + chunk]; cands.append(cc)
        if not cands:
            if chunk == 1: break
            chunk = max(1, chunk // 2); continue
        ok = holds(cands)
        good = [cands[k] for k in range(len(cands)) if ok[k]]
        if good: cur = good[0]; chunk = min(chunk, max(1, len(cur[5]) // 2))
        elif chunk == 1: break
        else: chunk = max(1, chunk // 2)
    # simplifications that keep the key
    simp = []
    cc = copy.deepcopy(cur)
    if cc[4][0] and all(s[1] for s in cc[5]): cc[4][0] = 0; simp.append(cc)
    cc = copy.deepcopy(cur)
    if cc[4][1]:
        cc[4][1] = 0
        for s in cc[5]: s[2] = []
        simp.append(cc)
    for cc in simp:
        if holds([cc])[0]: cur = cc
    # one at a time, on the current witness: fewer variables, no bench, no cylinder, no angular tolerance, no missing value
    def try_(mod):
        nonlocal cur
        cc = copy.deepcopy(cur)
        if mod(cc) and holds([cc])[0]: cur = cc
    def m_nvar(cc):
        if cc[4][3] <= 1: return False
        cc[4][3] -= 1
        for s in cc[5]: s[4] = s[4][:cc[4][3]]
        return True
    def m_bench(cc):
        if cc[6][0][6] == []: return False
        cc[6][0][6] = []; return True
    def m_cyl(cc):
        if cc[6][0][7] == []: return False
        cc[6][0][7] = []; return True
    def m_tolang(cc):
        if cc[6][0][4] == [0, 0]: return False
        cc[6][0][3] = dy(F(90)); cc[6][0][4] = [0, 0]; return True
    def m_na(cc):
        if not case_has_na(cc): return False
        for s in cc[5]: s[4] = [v if v != [] else [1, 0] for v in s[4]]
        return True
    for mod in (m_nvar, m_nvar, m_bench, m_cyl, m_tolang, m_na): try_(mod)
    return cur, 0

# ------------------------------------------------------------------------------------------- metamorphic variants
def variant_perm(rng, c):
    cc = copy.deepcopy(c); rng.shuffle(cc[5]); return cc
def variant_translate(rng, c):
    cc = copy.deepcopy(c)
    t = [rng.choice([F(1000), F(-517), F(2001, 2), F(64), F(-3, 8)]) for _ in range(c[1])]
    for s in cc[5]: s[0] = [dy(undy(v) + t[k]) for k, v in enumerate(s[0])]
    return cc
def variant_varperm(rng, c):
    nvar = c[4][3]
    sig = list(range(nvar)); rng.shuffle(sig)
    if sig == list(range(nvar)): sig = sig[1:] + sig[:1]
    cc = copy.deepcopy(c)
    for s in cc[5]: s[4] = [s[4][sig[k]] for k in range(nvar)]
    return cc, sig
def rank(iv, jv): return iv * (iv + 1) // 2 + jv if iv >= jv else jv * (jv + 1) // 2 + iv
def map_varperm(blocks, sig, asym):
    """blocks of the base case re-indexed as the variable-permuted case should see them: new (iv,jv) = old (sig iv, sig jv);
       an asymmetric cross term is mirrored when the order of the two variables flips: C_ij(h) = C_ji(-h)"""
    nvar = len(sig); out = []
    for iv in range(nvar):
        for jv in range(iv + 1):
            a, b = sig[iv], sig[jv]
            blk = blocks[rank(a, b)]
            if asym and a < b: blk = tuple(list(reversed(x)) for x in blk)
            if asym and a < b:      # hh changes sign with the mirror
                blk = (blk[0], [None if v is None else -v for v in blk[1]], blk[2], blk[3])
            out.append(blk)
    return out

# ------------------------------------------------------------------------------------------- grid
def gen_grid(rng, quick):
    ndim = rng.choice([1, 2, 2, 3])
    nx = [rng.randint(2, 9 if ndim < 3 else 5) for _ in range(ndim)]
    dx = [rng.choice([F(1), F(1, 2), F(2), F(3, 2)]) for _ in range(ndim)]
    x0 = [rng.choice([F(0), F(-5), F(3, 4)]) for _ in range(ndim)]
    nvar = rng.choice([1, 2]); hasSel = rng.random() < .4
    calc = rng.choice([0, 0, 1, 9, 3, 10])
    n = 1
    for v in nx: n *= v
    cells = []
    for i in range(n):
        cells.append([1 if (not hasSel or rng.random() < .8) else 0, [([] if rng.random() < .1 else dy(F(rng.randint(-9, 9)))) for _ in range(nvar)]])
    while True:
        g = [rng.randint(-2, 2) for _ in range(ndim)]
        if any(g) and math.gcd(*[abs(v) for v in g] + [0]) == 1: break
    npas = rng.randint(2, 6)
    kind1 = [1, calc, nx, [dy(v) for v in dx], [dy(v) for v in x0], nvar, cells, int(hasSel), [[npas, g]], 0]
    # the same data as an ordinary point set, same direction, zero angular tolerance: the model covers the general algorithm
    ss = []
    for i in range(n):
        idx = []; r = i
        for k in range(ndim): idx.append(r % nx[k]); r //= nx[k]
        ss.append([[dy(x0[k] + idx[k] * dx[k]) for k in range(ndim)], cells[i][0], [], [], cells[i][1]])
    codir = [g[k] * dx[k] for k in range(ndim)]
    dp2 = sum(v * v for v in codir)
    return kind1, ss, codir, dp2

# ------------------------------------------------------------------------------------------- main
def run(ctx):
    quick = ctx.quick()
    build_lib(ctx)
    proofs_ok = coq_properties(ctx)
    runner = build_runner(ctx)
    exe = build_harness(ctx, 'C12')
    if runner is None or exe is None:
        print('ERROR: model runner or harness does not build'); sys.exit(3)
    rng = ctx.rng
    eng = Engine(ctx, exe, runner)
    # psmin as the library computes it from the angular tolerance (GH::getCosineAngularTolerance), read back exactly
    cf = write_cases(ctx, 'psmin', [[9, [dy(F(t)) for t in TOLANGS]]])
    _, r = run_impl(ctx, exe, cf)
    if not r or len(r[0]) != len(TOLANGS): print('ERROR: cannot harvest psmin from the library'); sys.exit(3)
    psmin_of = {t: undy(v) for t, v in zip(TOLANGS, r[0])}
    for t in TOLANGS:
        if abs(float(psmin_of[t]) - abs(math.cos(math.radians(t)))) > 1e-12:
            ctx.violation('getCosineAngularTolerance:value', 'psmin(%g) = %r' % (t, float(psmin_of[t])), {'tolang': t});

    ncase = 260 if quick else 1400
    cases, meta = [], []
    corpus_all = load_corpus(ctx)
    corpus = [c for c in corpus_all if c[0] == 0]            # point-set cases; gridded regression cases (kind 1) join the grid families below
    corpus_grid = [c for c in corpus_all if c[0] == 1]
    for c in corpus: cases.append(c); meta.append({'fam': 'corpus'})
    for i in range(ncase):
        c, fam = gen_case(rng, quick, psmin_of)
        cases.append(c); meta.append({'fam': fam})
        ctx.dist('family_' + fam); ctx.dist('ndim_%d' % c[1]); ctx.dist('nvar_%d' % c[4][3]); ctx.dist('n_%d' % (10 * (len(c[5]) // 10)))
        for d in c[6]:
            ctx.dist('tolang_%s' % float(undy(d[3])))
    nbase = len(cases)
    # metamorphic variants (each is also an ordinary correspondence case)
    for i in range(len(corpus), nbase):
        c = cases[i]; fam = meta[i]['fam']
        if rng.random() < .35:
            cases.append(variant_perm(rng, c)); meta.append({'fam': fam, 'meta': 'permutation', 'base': i}); ctx.dist('metamorphic_permutation')
        if rng.random() < .25:
            cases.append(variant_translate(rng, c)); meta.append({'fam': fam, 'meta': 'translation', 'base': i}); ctx.dist('metamorphic_translation')
        if c[4][3] > 1 and rng.random() < .4:
            cc, sig = variant_varperm(rng, c)
            cases.append(cc); meta.append({'fam': fam, 'meta': 'variables', 'base': i, 'sig': sig}); ctx.dist('metamorphic_variables')
    # grids: the data as a point set (general algorithm, modelled) ...
    ngrid = 40 if quick else 300
    grids = []
    for i in range(ngrid):
        k1, ss, codir, dp2 = gen_grid(rng, quick)
        sq = math.isqrt(dp2.numerator * dp2.denominator)
        if sq * sq != dp2.numerator * dp2.denominator: continue     # lag length must be an exact double for the point-set twin
        dpas = F(sq, dp2.denominator)
        c = [0, len(codir), k1[1], 0, [k1[7], 0, 0, k1[5]], ss,
             [[k1[8][0][0], dy(dpas), dy(F(1, 4)), dy(F(0)), dy(psmin_of[0]), [dy(v) for v in codir], [], [], 0]], [], 1]
        cases.append(c); meta.append({'fam': 'gridtwin'}); ctx.dist('family_gridtwin')
        grids.append((k1, len(cases) - 1))

    ctx.log('%d cases (%d base, %d metamorphic variants, %d grid twins)' % (len(cases), nbase, len(cases) - nbase - len(grids), len(grids)))
    vs = eng.verdicts('main', cases)
    found_input = False
    ndis = 0
    reported = set(); nshrunk = [0]
    def report(i, idir, v):
        nonlocal found_input, ndis
        ndis += 1
        key = v['key']
        if key in reported: return
        reported.add(key)
        c = cases[i]
        if v['status'] == 'drift':
            ctx.violation(key, 'model and implementation disagree (%s) but the implementation agrees with the pairwise definition on this input: '
                          'the correspondence coq/C12/Model.v <-> Vario::computeFromDb no longer checks' % v['detail'],
                          {'case': sx_str([c[0], c[1], c[2], c[3], c[4], c[5], [c[6][idir]], c[7], c[8]]), 'correspondence': 'coq/C12/Model.v vs Vario::computeFromDb'}, found_input=False)
            return
        nshrunk[0] += 1
        if nshrunk[0] > 14 and key not in KNOWN_CLASS: return      # enough witnesses of unclassified violations
        small, sd = shrink(eng, c, idir, key) if (len(c[5]) <= 120 and nshrunk[0] <= 14) else (c, idir)
        sv = eng.verdicts('replay', [small])[0][sd]
        fkey = sv.get('key', key) if sv['status'] in ('impl-vs-spec', 'crash') else key
        if fkey != key and fkey in reported: return
        reported.add(fkey)
        rv = ctx.violation(fkey, '%s (%s, %d samples, %d variable(s)): %s%s' % (
                          'Vario::computeFromDb differs from the pairwise definition' if v['status'] != 'crash' else 'crash',
                          CALC[c[2]] + (' by-sample' if c[3] else ''), len(small[5]), small[4][3], sv.get('detail', v.get('detail')),
                          '' if v['status'] == 'crash' else (' [model reproduces the implementation]' if v.get('model_agrees') else ' [model differs too]')),
                      {'case': sx_str(small), 'direction': sd, 'how': 'one line of a case file for build/harness/C12 (impl) and build/ocaml/C12/runner (model, spec)'})
        if rv == 'new': found_input = True

    for i, c in enumerate(cases):
        for idir, v in enumerate(vs[i]):
            if v['status'] == 'tie':
                ctx.cov['tie_excluded'] += 1; ctx.count(None, False); continue
            nontriv = v['impl'] is not None and any(x is not None and x > 0 for blk in v['impl'] for x in blk[0])
            ctx.count(sx_str(c)[:4000] + '#%d' % idir, nontriv)
            if v['status'] == 'ok':
                if nontriv: ctx.sample({'case': sx_str(c)[:300], 'direction': idir, 'sw': v['impl'][0][0][:8], 'gg': v['impl'][0][2][:8]})
                continue
            report(i, idir, v)

    # metamorphic relations on the implementation itself
    nmeta = 0
    for i in range(nbase, len(cases)):
        m = meta[i]
        if 'meta' not in m: continue
        b = m['base']; c = cases[b]
        for idir in range(len(c[6])):
            vb, vv = vs[b][idir], vs[i][idir]
            if vb['status'] in ('tie', 'crash') or vv['status'] in ('tie', 'crash'): continue
            nmeta += 1
            asym = c[2] in ASYM
            exp = vb['impl']
            if m['meta'] == 'variables': exp = map_varperm(exp, m['sig'], asym)
            if m['meta'] == 'permutation' and (c[3] or c[2] == 2): continue     # by-sample: ties of the first coordinate are resolved by sample order
            d = cmp_impl_impl(exp, vv['impl'], m['meta'])
            if d is None: continue
            ndis += 1
            # a relation broken on impl: same canonical key as the underlying defect when it is one of the classified ones
            key = 'metamorphic:%s:%s' % (m['meta'], CALC[c[2]])
            for w in (vb, vv):
                if w['status'] == 'impl-vs-spec': key = w['key']
            if key in reported: continue
            reported.add(key)
            rv = ctx.violation(key, 'Vario::computeFromDb is not invariant under %s of the %s: %s' % (
                              m['meta'], 'samples' if m['meta'] == 'permutation' else ('coordinates' if m['meta'] == 'translation' else 'variables'), d),
                          {'case': sx_str(c), 'transformed': sx_str(cases[i]), 'direction': idir, 'relation': m['meta'], 'sig': m.get('sig')})
            if rv == 'new': found_input = True
    ctx.cov['metamorphic_comparisons'] = nmeta

    def blocks_of(r): return [tuple([fl(undy(v)) for v in blk[j]] for j in range(4)) for blk in r]
    def mblocks_of(m): return [[cell_of_model(x) for x in blk] for blk in m]
    def ext_violation(key, text, case):
        nonlocal found_input, ndis
        ndis += 1
        if key in reported: return
        reported.add(key)
        if ctx.violation(key, text, {'case': sx_str(case), 'how': 'one line of a case file for build/harness/C12 and build/ocaml/C12/runner'}) == 'new': found_input = True

    # ... and as a DbGrid through the grid-specialised algorithm: impl against the model of _calculateOnGridSolution, against the
    # pairwise definition evaluated on the point-set twin, and against the general algorithm of the implementation
    extra_grid = []
    for i in range(6 if quick else 60):      # several directions at once, non primitive increments allowed (no twin)
        k1, _, _, _ = gen_grid(rng, quick)
        nd = len(k1[2])
        k1[8] = [[rng.randint(2, 5), [rng.randint(-2, 2) for _ in range(nd)]] for _ in range(rng.choice([1, 2, 3]))]
        k1[8] = [gd for gd in k1[8] if any(gd[1])] or [[3, [1] + [0] * (nd - 1)]]
        extra_grid.append(k1)
    gcases = [g[0] for g in grids] + extra_grid
    if gcases:
        gi, gm = eng.run('grid', gcases)
        for k, k1 in enumerate(gcases):
            r = gi[k] if k < len(gi) else None
            ctx.count('grid' + sx_str(k1)[:2000]); ctx.dist('family_grid')
            if r is None or (r and isinstance(r[0], int)):
                ext_violation('crash:calculateOnGrid:' + CALC[k1[1]], 'grid variogram crashed / failed (%r)' % (r,), k1); continue
            for idir in range(len(k1[8])):
                gblk = blocks_of(r[idir])
                d = cmp_blocks(gblk, mblocks_of(gm[k][idir]))
                tw = vs[grids[k][1]][0] if k < len(grids) else None
                dspec = None
                if tw is not None and tw['status'] == 'ok':
                    dspec = cmp_blocks(gblk, tw['spec'])
                    d2 = cmp_impl_impl(gblk, tw['impl'], 'grid-vs-general')
                    if d2 is not None:
                        ext_violation('calculateOnGridSolution:differs-from-general:' + CALC[k1[1]],
                                      'grid algorithm and general algorithm disagree on the same gridded data: ' + d2, k1)
                if dspec is not None:
                    ext_violation('calculateOnGridSolution:' + CALC[k1[1]], 'grid algorithm differs from the pairwise definition: ' + dspec, k1)
                elif d is not None:
                    if tw is not None and tw['status'] == 'ok':
                        if ctx.violation('model-drift:calculateOnGridSolution', 'model of the grid algorithm and implementation disagree (%s) but the implementation '
                                         'agrees with the pairwise definition' % d, {'case': sx_str(k1)}, found_input=False) == 'new': pass
                    else:
                        ext_violation('calculateOnGridSolution:' + CALC[k1[1]], 'grid algorithm differs from its model (no point-set twin for this direction): ' + d, k1)

    # covariogram and generalised variograms on a grid
    special = [(('covg' if c[1] == 2 else 'general%d' % c[9]) if (c[1] == 2 or c[9] > 0) else 'grid', c) for c in corpus_grid]
    for i in range(2 if quick else 10):
        k1, _, _, _ = gen_grid(rng, quick); k1[1] = 2; special.append(('covg', k1))
    for i in range(3 if quick else 15):
        k1, _, _, _ = gen_grid(rng, quick); k1[1] = 0; k1[5] = 1
        for cl in k1[6]: cl[1] = cl[1][:1]
        k1[9] = rng.choice([1, 2, 3]); k1[8][0][0] = rng.randint(2, 4)
        if i % 3 == 2:      # two directions along the axes, order 1: both have data (regression case of the stale direction index)
            nd = len(k1[2]); k1[9] = 1
            e0 = [1] + [0] * (nd - 1); e1 = ([0, 1] + [0] * (nd - 2)) if nd > 1 else [-1]
            k1[8] = [[k1[8][0][0], e0], [k1[8][0][0], e1]]
        k1[8] = [gd for gd in k1[8] if any(gd[1])]
        special.append(('general%d' % k1[9], k1))
    si, sm = eng.run('gridspecial', [c for _, c in special])
    for k, (nm, k1) in enumerate(special):
        r = si[k] if k < len(si) else None
        ctx.count('gridspecial' + sx_str(k1)[:2000]); ctx.dist('family_grid_' + nm)
        if r is None or (r and isinstance(r[0], int)):
            if nm == 'covg':
                ext_violation('calculateOnGrid:covariogram-without-weight-locator',
                              'Vario::computeFromDb(COVARIOGRAM) on a DbGrid without weight locator kills the process: _calculateOnGrid calls '
                              'getUIDByLocator(ELoc::W, 0) which indexes an empty locator table', k1)
            else:
                ext_violation('setCalcul:generalized-variogram-aborts',
                              'Vario::computeFromDb(GENERAL%d) exits the process (messageAbort): AVario::setCalcul has no case for the generalised variograms' % k1[9], k1)
            continue
        for idir in range(len(k1[8])):
            d = cmp_blocks(blocks_of(r[idir]), mblocks_of(sm[k][idir]))
            if d is not None:
                key = ('calculateOnGridSolution:' + nm if nm in ('covg', 'grid') else
                       ('calculateGenOnGridSolution:IDIRLOC-not-set' if len(k1[8]) > 1 else 'calculateGenOnGridSolution:' + nm))
                ext_violation(key, 'grid %s differs from its model: %s' % (nm, d), k1)

    # variogram map on a grid through the FFT path (the default of db_vmap on a DbGrid): zero-padded circular correlations.
    # The padding formula of the source must keep the shape the theorem C12_fft_size_sufficient is about (fail closed otherwise).
    vsrc = open(os.path.join(REPO, 'src', 'Variogram', 'VMap.cpp')).read()
    msz = re.findall(r'dims\[i\]\s*=\s*([^;]+);', vsrc)
    shape = [re.sub(r'\s+', '', x) for x in msz]
    if shape != ['1', '(int)ceil((double)(nxgrid[i]+nxmap[i]-1)/8.)*8']:
        ndis += 1
        if ctx.violation('db_vmap:fft:padding-formula-changed',
                         'VMap::_grid_fft no longer pads its working arrays to ceil((nxgrid + nxmap - 1)/8)*8 (found %r): the theorem '
                         'C12_fft_size_sufficient (padded size >= grid size + half map size, no circular wrap-around) is about that formula' % (msz,),
                         {'source': 'src/Variogram/VMap.cpp', 'expressions': msz, 'theorem': 'coq/C12/Properties.v: C12_fft_size_sufficient'},
                         found_input=False) == 'new': pass
    fftc = []
    def fft_case(calc, nxs, hs, nvar, hasSel, na):
        n = 1
        for v in nxs: n *= v
        cl = [[1 if (not hasSel or rng.random() < .8) else 0, [([] if rng.random() < na else dy(F(rng.randint(-9, 9)))) for _ in range(nvar)]] for _ in range(n)]
        return [7, calc, list(nxs), nvar, cl, int(hasSel), list(hs)]
    modes = [0, 1, 9, 2]
    kcase = 0
    for res in range(8):           # every residue of (N + h - 1) mod 8 along the first axis, half extension below and above the grid size
        for big in (False, True):
            while True:
                N = rng.randint(3, 12) if not big else rng.randint(2, 5)
                cand = [h for h in range(1, 14) if (N + h - 1) % 8 == res and ((h > N - 1) if big else (h <= N - 1))]
                if cand: break
            h = rng.choice(cand)
            nd = 2 if kcase % 3 else 3
            nxs = [N, rng.randint(2, 4)] + ([2] if nd == 3 else [])
            hs = [h, rng.randint(1, 4)] + ([1] if nd == 3 else [])
            if kcase % 2: nxs[0], nxs[1] = nxs[1], nxs[0]; hs[0], hs[1] = hs[1], hs[0]      # the swept axis is not always the first one
            fftc.append(fft_case(modes[kcase % 4], nxs, hs, rng.choice([1, 2]), rng.random() < .3, rng.choice([0, .1])))
            kcase += 1
    for i in range(0 if quick else 150):
        nd = rng.choice([2, 2, 3])
        nxs = [rng.randint(2, 14 if nd == 2 else 7) for _ in range(nd)]
        if nd == 2 and nxs[0] * nxs[1] > 60: nxs[1] = max(2, 60 // nxs[0])
        hs = [rng.randint(1, 13 if nd == 2 else 6) for _ in range(nd)]
        fftc.append(fft_case(rng.choice(modes), nxs, hs, rng.choice([1, 2]), rng.random() < .3, rng.choice([0, .1, .3])))
    fi, fm = eng.run('fft', fftc)
    for k, c in enumerate(fftc):
        r = fi[k] if k < len(fi) else None
        ctx.count('fft' + sx_str(c)[:2000]); ctx.dist('family_db_vmap_fft'); ctx.dist('fft_residue_%d' % ((c[2][0] + c[6][0] - 1) % 8))
        key = 'db_vmap:fft:' + CALC[c[1]]
        if r is None or (r and isinstance(r[0], int)):
            ext_violation('crash:' + key, 'db_vmap (FFT) crashed / failed (%r)' % (r,), c); continue
        d = None
        for b, (ib, mb) in enumerate(zip(r, fm[k][0])):
            nb = [fl(undy(v)) for v in ib[0]]; var = [fl(undy(v)) for v in ib[1]]
            for q, mc in enumerate(mb):
                msw, _, mgg = cell_of_model(mc)
                if nb[q] is None or abs(nb[q] - float(msw)) > 1e-6 * (1 + abs(float(msw))):
                    d = 'varpair %d cell %d: number of pairs impl=%r expected=%r' % (b, q, nb[q], float(msw)); break
                if mgg is not None and (var[q] is None or abs(var[q] - float(mgg[0])) > 1e-6 * (1 + abs(float(mgg[0])))):
                    d = 'varpair %d cell %d: value impl=%r expected=%r' % (b, q, var[q], float(mgg[0])); break
            if d: break
        if d is not None:
            ext_violation(key, 'db_vmap with flag_FFT=true on a %s grid, half extensions %s (padded sizes %s) differs from the pair-by-pair definition: %s' % (
                              'x'.join(map(str, c[2])), c[6], fm[k][1], d), c)

    # variogram maps and variogram clouds
    vm = []
    for i in range(10 if quick else 120):
        ndim = rng.choice([2, 2, 3])
        nx = [rng.randint(2, 5 if ndim == 2 else 3) for _ in range(ndim)]
        nvar = rng.choice([1, 2]); hasSel = rng.random() < .4
        n = 1
        for v in nx: n *= v
        cells = [[1 if (not hasSel or rng.random() < .8) else 0, [([] if rng.random() < .1 else dy(F(rng.randint(-9, 9)))) for _ in range(nvar)]] for _ in range(n)]
        vm.append([3, rng.choice([0, 0, 3, 10]), nx, nvar, cells, int(hasSel), [rng.randint(1, 3) for _ in range(ndim)]])
    for i in range(10 if quick else 120):
        ndim = rng.choice([2, 2, 3])
        n = rng.choice([3, 6, 12, 25])
        nvar = rng.choice([1, 2]); hasSel = rng.random() < .4; hasW = rng.random() < .3
        pts = gen_points(rng, ndim, n, rng.choice(['lattice', 'dup', 'columns', 'jitter']))
        ss = [[[dy(v) for v in pts[k]], 1 if (not hasSel or rng.random() < .75) else 0, dy(rng.choice([F(1, 2), 1, 2, None])) if hasW else [], [],
               [([] if rng.random() < .1 else dy(F(rng.randint(-9, 9)))) for _ in range(nvar)]] for k in range(n)]
        vm.append([4, rng.choice([0, 0, 3, 10]), ndim, nvar, int(hasSel), int(hasW), ss, [rng.randint(1, 3) for _ in range(ndim)],
                   [dy(rng.choice([F(1), F(2), F(1, 2), F(4)])) for _ in range(ndim)]])
    for i in range(10 if quick else 120):
        ndim = rng.choice([1, 2, 2, 3])
        n = rng.choice([3, 6, 12, 25]); hasSel = rng.random() < .4
        pts = gen_points(rng, ndim, n, rng.choice(['lattice', 'dup', 'jitter']))
        ss = [[[dy(v) for v in pts[k]], 1 if (not hasSel or rng.random() < .75) else 0, [], [], [([] if rng.random() < .1 else dy(F(rng.randint(-9, 9))))]] for k in range(n)]
        d = gen_dir(rng, ndim, psmin_of, quick)
        vm.append([5, ndim, int(hasSel), ss, d, rng.randint(2, 6), rng.randint(2, 5), dy(rng.choice([F(1), F(2), F(1, 2)])), dy(rng.choice([F(4), F(16), F(1)]))])
    for i in range(8 if quick else 80):      # generalised variograms along lines: a DbGrid carrying a code, an ordinary direction
        ndim = rng.choice([1, 1, 2])
        nx = [rng.randint(4, 14)] if ndim == 1 else [rng.randint(3, 6), rng.randint(2, 4)]
        dx = [rng.choice([F(1), F(1, 2), F(2)]) for _ in range(ndim)]
        hasSel = rng.random() < .3
        n = 1
        for v in nx: n *= v
        cells = [[1 if (not hasSel or rng.random() < .85) else 0, [([] if rng.random() < .08 else dy(F(rng.randint(-9, 9))))]] for _ in range(n)]
        d = gen_dir(rng, ndim, psmin_of, quick); d[0] = rng.randint(2, 5)
        vm.append([6, rng.choice([1, 2, 3]), nx, [dy(v) for v in dx], [dy(F(0))] * ndim, cells, int(hasSel), d])
    vi, vmo = eng.run('vmap', vm)
    for k, c in enumerate(vm):
        r = vi[k] if k < len(vi) else None
        what = {3: 'db_vmap:grid', 4: 'db_vmap:points', 5: 'db_vcloud', 6: 'calculateOnLineSolution'}[c[0]]
        ctx.count(what + sx_str(c)[:2000]); ctx.dist('family_' + what.replace(':', '_'))
        if r is None or (r and isinstance(r[0], int)):
            ext_violation('crash:' + what, '%s crashed / failed (%r)' % (what, r), c); continue
        if c[0] == 5:
            # a pair decision close to a cell boundary along the distance axis: decided by the model, not compared
            if vmo[k][0]: ctx.cov['tie_excluded'] += 1; continue
            im = [0 if v == [] else int(undy(v)) for v in r[0]]
            if im != vmo[k][1]:
                ext_violation(what, 'counts per cell differ from the pair-by-pair definition: impl %r, expected %r' % (im, vmo[k][1]), c)
            continue
        if c[0] == 6:
            if vmo[k][0]: ctx.cov['tie_excluded'] += 1; continue
            d = cmp_blocks(blocks_of(r), mblocks_of(vmo[k][1]))
            if d is not None: ext_violation('calculateOnLineSolution:general%d' % c[1], 'generalised variogram along lines differs from its model: ' + d, c)
            continue
        mres = vmo[k]
        if c[0] == 4:
            if mres[0]: ctx.cov['tie_excluded'] += 1; continue
            mres = mres[1]
        d = None
        for b, (ib, mb) in enumerate(zip(r, mres)):
            nb = [fl(undy(v)) for v in ib[0]]; var = [fl(undy(v)) for v in ib[1]]
            for q, mc in enumerate(mb):
                msw, _, mgg = cell_of_model(mc)
                if nb[q] is None or abs(nb[q] - float(msw)) > TOL * (1 + abs(float(msw))): d = 'varpair %d cell %d: Nb impl=%r expected=%r' % (b, q, nb[q], float(msw)); break
                if not in_iv(var[q], mgg): d = 'varpair %d cell %d: value impl=%r expected=%s' % (b, q, var[q], mgg and float(mgg[0])); break
            if d: break
        if d is not None: ext_violation(what + ':' + CALC[c[1]], '%s differs from the pair-by-pair definition: %s' % (what, d), c)

    # memory-safety probe of the by-sample algorithm, in a process of its own: two directions with 2 and 20 lags.
    # _setResult addresses the arrays of direction IDIRLOC (left at 0) with the lag ranks of the second direction.
    probe = [0, 1, 0, 1, [0, 0, 0, 1], [[[dy(F(x))], 1, [], [], [dy(F((7 * x) % 5))]] for x in range(31)],
             [[2, dy(F(1)), dy(F(1, 2)), dy(F(90)), dy(psmin_of[90]), [dy(F(1))], [], [], 0],
              [20, dy(F(1)), dy(F(1, 2)), dy(F(90)), dy(psmin_of[90]), [dy(F(1))], [], [], 0]], [], 1]
    pf = write_cases(ctx, 'probe', [probe])
    rc_p, rp = run_impl(ctx, exe, pf)
    ctx.count('probe-bysample-2-20')
    if rc_p != 0 or not rp or (rp and isinstance(rp[0], int)):
        ctx.notes.append('by-sample variogram with directions of 2 and 20 lags: harness process ended with rc=%s (heap corruption by _setResult through the stale IDIRLOC)' % rc_p)
        if ctx.violation('generalSolution2:IDIRLOC-not-set', 'by-sample variogram (flag_sample) with two directions of 2 and 20 lags kills the process (rc=%s): '
                         '_calculateGeneralSolution2 never assigns IDIRLOC, _setResult writes past the arrays of direction 0' % rc_p,
                         {'case': sx_str(probe)}) == 'new': found_input = True
    ctx.cov['disagreements'] = ndis
    ctx.cov['rule'] = ('one evaluation = one (data set, direction) compared on every variable pair and lag slot (sw, hh enclosure, gg); '
                       'distinct = distinct case text + direction; non-trivial = at least one lag with positive weight; directions where some pair '
                       'decision (angular / cylinder / lag boundary) has relative margin < 2^-30 are decided by the model and counted under tie_excluded')
    if not proofs_ok: proof_break_violation(ctx, found_input)
    ctx.assumptions = [
        'coordinates are dyadic with few bits so that increments, squares and dot products are exact in binary64; decisions then coincide with the exact ones except within the tie margin',
        'psmin = |cos(tolang)| is read back from the library (GH::getCosineAngularTolerance) and given to the model as an exact dyadic; 0 <= psmin <= 1, dpas > 0, tol >= 0, codir <> 0',
        'no faults, no code option, no drift (KU), no variance-of-measurement-error correction; trans1/2 and binormal not modelled; generalised variograms modelled on grids only (not along lines); irregular lags: general algorithm, solution 1',
        'conventions taken from the code and not judged: TEST weight counts as 1, negative weight as 0; symmetric estimators need both variables at both ends',
        'cross-covariance spec: C_ij(+h) averages z_i(x) z_j(x+h) over the pairs where these two values exist; a pair with zero projection on the direction contributes half to each side',
        'by-sample estimator (flag_sample, covariogram): spec = per-first-sample ratios averaged with the sample weight, first samples taken in the order of the first coordinate',
        'hh (mean separation) and the madogram are checked against 2^-40 enclosures of the square roots',
        'grid algorithm: model of _calculateOnGridSolution compared with impl, with the pairwise definition of the point-set twin and (impl) with the general algorithm; C12_grid_eq_general is proved for the variogram and a rational increment length',
        'db_vmap (no FFT, radius 0, symmetric estimators) and db_vcloud are compared with their pair-by-pair models; map cells are decided exactly (mesh = power of two)']

def load_corpus(ctx):
    p = os.path.join(VERIF, 'corpus', ctx.pid + '.sx')
    if not os.path.exists(p): return []
    return [sx_parse(l) for l in open(p) if l.strip() and not l.startswith('#')]

if __name__ == '__main__':
    main(run)

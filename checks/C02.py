"""C02 — kriging is exact, unbiased, linear, invariant under relabelling/translation. Theorems of coq/C02 (stated on the
C01 model) + metamorphic runs of the implementation (the relations themselves are the property, so a failure has a
concrete replay) + model correspondence on the base cases."""
import sys, os, copy
sys.path.insert(0, os.path.dirname(__file__))
from common import *
from kriggen import *
import C01 as c01

TOL = 1e-8

def base_case(ctx):
    rng = ctx.rng
    ndim = rng.choice([1, 2, 2, 3]); nvar = rng.choice([1, 1, 2])
    order = rng.choice([-1, 0, 0, 1, 1, 2])
    nfex = rng.choice([0, 0, 1]) if order >= 0 else 0
    nmin = nvar * (monomials(ndim, order) + nfex) + 2
    lo = max(4, (nmin + nvar - 1) // nvar + 2)
    n = rng.randint(lo, lo + 8)
    hetero = rng.random() < .4
    dbin = gen_db(rng, ndim, nvar, n, nfex, p_na=(0.2 if hetero else 0.0), with_verr=rng.random() < .35)
    if dbin['verr']:   # measurement-error variances: defined everywhere, about half of the data error-free (exactness applies to those)
        dbin['verr'] = [[(0 if (x is None or rng.random() < .4) else x) for x in col] for col in dbin['verr']]
    for f in range(nfex):   # external drifts defined everywhere (drift shift needs their values)
        dbin['fext'][f] = [Fraction(rng.randint(-40, 40), 4) for _ in range(n)]
    m = 4
    dbout = gen_db(rng, ndim, 0, m, nfex); dbout['z'] = []; dbout['verr'] = []
    for f in range(nfex): dbout['fext'][f] = [Fraction(rng.randint(-40, 40), 4) for _ in range(m)]
    model = gen_model(rng, ndim, nvar, order=order, nfex=nfex)
    neigh = [0] if rng.random() < .7 else [1, 1, rng.choice([5, 7, n]), dy(1000)]
    return {'ndim': ndim, 'nvar': nvar, 'dbin': dbin, 'dbout': dbout, 'model': model, 'neigh': neigh, 'calcul': [0]}

def to_sx(py):
    return kriging_case(py['ndim'], py['nvar'], py['dbin'], py['dbout'], py['model'], py['neigh'], py['calcul'],
                        list(range(len(py['dbout']['coords'][0]))))

def drift_values(py, drifts, coords, fext):
    """exact drift function values f_l at a point"""
    vals = []
    for d in drifts:
        if d[0] == 0:
            v = Fraction(1)
            for x, p in zip(coords, d[1]): v *= Fraction(x) ** p
            vals.append(v)
        else: vals.append(Fraction(fext[d[1]]))
    return vals

def outputs(per):
    return [([undy(x) for x in t['est']], [undy(x) for x in t['std']]) for t in per]

def run(ctx):
    build_lib(ctx)
    proofs_ok = coq_properties(ctx)
    runner = build_runner(ctx, 'C01'); exe = build_harness(ctx, 'C01')
    if runner is None or exe is None:
        print('ERROR: model runner or harness does not build'); sys.exit(3)
    rng = ctx.rng
    nbase = 40 if ctx.quick() else 600
    bases = [base_case(ctx) for _ in range(nbase)]
    # pass 1: base cases (needed for the drift list and to build variants)
    cf = write_cases(ctx, 'base', [to_sx(b) for b in bases])
    rc, res = run_impl(ctx, exe, cf)
    if len(res) != len(bases):
        ctx.violation('crash:KrigingSystem', 'impl crashed on base case %d' % len(res), {'case': sx_str(to_sx(bases[len(res)]))}); return
    variants = []   # (kind, base index, py variant, extra)
    parsed = []
    for bi, (b, r) in enumerate(zip(bases, res)):
        drifts, ok, per = parse_harness(r); parsed.append((drifts, ok, per))
        if not ok: continue
        n = b['dbin']['n']; ndim, nvar = b['ndim'], b['nvar']
        # exactness: targets on data locations
        v = copy.deepcopy(b)
        ks = rng.sample(range(n), min(4, n))
        for j, k in enumerate(ks):
            for d in range(ndim): v['dbout']['coords'][d][j] = b['dbin']['coords'][d][k]
            for f in range(len(b['dbin']['fext'])): v['dbout']['fext'][f][j] = b['dbin']['fext'][f][k]
        variants.append(('exact', bi, v, ks))
        # permutation of the samples
        perm = list(range(n)); rng.shuffle(perm)
        v = copy.deepcopy(b)
        for key in ('coords', 'z', 'verr', 'fext'):
            v['dbin'][key] = [[col[p] for p in perm] for col in b['dbin'][key]]
        variants.append(('permutation', bi, v, perm))
        # translation of all coordinates
        tvec = [Fraction(rng.randint(-64, 64), 4) for _ in range(ndim)]
        v = copy.deepcopy(b)
        for d in range(ndim):
            v['dbin']['coords'][d] = [None if x is None else x + tvec[d] for x in b['dbin']['coords'][d]]
            v['dbout']['coords'][d] = [x + tvec[d] for x in b['dbout']['coords'][d]]
        variants.append(('translation', bi, v, tvec))
        # drift shift
        if b['model']['order'] >= 0:
            nb = len(drifts)
            coef = [[Fraction(rng.randint(-8, 8), 2) for _ in range(nb)] for _ in range(nvar)]
            v = copy.deepcopy(b)
            for iv in range(nvar):
                for i in range(n):
                    if b['dbin']['z'][iv][i] is None: continue
                    fv = drift_values(b, drifts, [b['dbin']['coords'][d][i] for d in range(ndim)], [b['dbin']['fext'][f][i] for f in range(len(b['dbin']['fext']))])
                    v['dbin']['z'][iv][i] = b['dbin']['z'][iv][i] + sum(c * f for c, f in zip(coef[iv], fv))
            variants.append(('driftshift', bi, v, coef))
        # linearity: z3 = al z1 + be z2 with the same NA pattern
        v2 = copy.deepcopy(b)
        v2['dbin']['z'] = [[None if x is None else Fraction(rng.randint(-200, 200), 8) for x in col] for col in b['dbin']['z']]
        al, be = Fraction(rng.randint(-6, 6), 2), Fraction(rng.randint(-6, 6), 2)
        if b['model']['order'] < 0: be = 1 - al   # known mean: the estimate is affine in the data, so combine with weights summing to one
        v3 = copy.deepcopy(b)
        v3['dbin']['z'] = [[None if x is None else al * x + be * y for x, y in zip(c1, c2)] for c1, c2 in zip(b['dbin']['z'], v2['dbin']['z'])]
        variants.append(('linear2', bi, v2, None)); variants.append(('linear3', bi, v3, (al, be)))
    cf2 = write_cases(ctx, 'variants', [to_sx(v[2]) for v in variants])
    rc, vres = run_impl(ctx, exe, cf2)
    found_input = False
    if len(vres) != len(variants):
        ctx.violation('crash:KrigingSystem', 'impl crashed on variant %d' % len(vres), {'case': sx_str(to_sx(variants[len(vres)][2]))}); found_input = True
        variants = variants[:len(vres)]
    lin2 = {}
    mcases = []; mref = []
    for (kind, bi, v, extra), r in zip(variants, vres):
        b = bases[bi]; drifts, ok, per = parsed[bi]
        vd, vok, vper = parse_harness(r)
        ctx.dist(kind)
        if not vok: continue
        base_out = outputs(per); var_out = outputs(vper)
        nvar = b['nvar']
        zs = float(max([abs(x) for col in v['dbin']['z'] for x in col if x is not None] + [abs(x) for col in b['dbin']['z'] for x in col if x is not None] + [1]))
        c00s = [max(abs(float(undy(t['c00'][iv][iv]))) for t in per) if per else 1.0 for iv in range(nvar)]
        def bad(x, y, scale): return (x is None) != (y is None) or (x is not None and abs(float(x) - float(y)) > TOL * (scale + abs(float(y))))
        def conds(tlist):   # skip ill-conditioned systems (round-off proportional to the conditioning)
            return [c01.cond_number(c01.mat_d(t['lhs'])) if t['lhs'] else 1.0 for t in tlist]
        if kind == 'exact':
            cs = conds(vper)
            for j, k in enumerate(extra):
                t = vper[j]
                if not t['nbgh'] or k not in t['nbgh'] or cs[j] > 1e6: ctx.cov['tie_excluded'] += 1; continue
                for iv in range(nvar):
                    z = b['dbin']['z'][iv][k]
                    if z is None: continue
                    # the datum must be an active equation (sample usable) and carry no measurement error
                    if b['dbin']['verr'] and (b['dbin']['verr'][iv][k] or 0) > 0: continue
                    if any(b['dbin']['coords'][d][k] is None for d in range(b['ndim'])): continue
                    ctx.count('exact:%d:%d:%d' % (bi, k, iv))
                    e, s = var_out[j][0][iv], var_out[j][1][iv]
                    if bad(e, z, zs) or s is None or abs(float(s)) ** 2 > 1e-7 * cs[j] * (c00s[iv] + 1e-300):
                        ctx.violation('exactness:' + c01.site_key(b), 'target on datum %d var %d: estimate %s (datum %s), stdev %s (expected 0)' % (k, iv, None if e is None else float(e), float(z), None if s is None else float(s)),
                                      {'impl_case': sx_str(to_sx(v)), 'target': j}); found_input = True
            # model correspondence on the exactness variant
            for t in vper:
                if t['nbgh']:
                    mcases.append(model_case(v, vd, t)); mref.append((v, t))
        elif kind in ('permutation', 'translation'):
            cs = conds(per)
            for j in range(len(per)):
                if not per[j]['nbgh'] or cs[j] > 1e6: ctx.cov['tie_excluded'] += 1; continue
                if kind == 'permutation' and sorted(extra[r] for r in vper[j]['nbgh']) != sorted(per[j]['nbgh']):
                    # equidistant candidates at the nmaxi cut: the selected set legitimately depends on the order (ties are excluded by C06)
                    ctx.cov['tie_excluded'] += 1; continue
                if kind == 'translation' and sorted(vper[j]['nbgh']) != sorted(per[j]['nbgh']):
                    ctx.cov['tie_excluded'] += 1; continue
                ctx.count('%s:%d:%d' % (kind, bi, j))
                for iv in range(nvar):
                    if bad(var_out[j][0][iv], base_out[j][0][iv], zs * cs[j]) or bad(var_out[j][1][iv], base_out[j][1][iv], (c00s[iv] ** .5) * cs[j]):
                        ctx.violation('%s:%s' % (kind, c01.site_key(b)), 'after %s of the data: estimate %s vs %s, stdev %s vs %s (target %d var %d)' % (
                            kind, var_out[j][0][iv], base_out[j][0][iv], var_out[j][1][iv], base_out[j][1][iv], j, iv),
                            {'base_case': sx_str(to_sx(b)), 'variant_case': sx_str(to_sx(v)), 'target': j, kind: [str(x) for x in extra]}); found_input = True
        elif kind == 'driftshift':
            cs = conds(per)
            for j in range(len(per)):
                if not per[j]['nbgh'] or cs[j] > 1e6: ctx.cov['tie_excluded'] += 1; continue
                if base_out[j][0][0] is None: continue
                ctx.count('driftshift:%d:%d' % (bi, j))
                f0 = drift_values(b, drifts, [b['dbout']['coords'][d][j] for d in range(b['ndim'])], [b['dbout']['fext'][f][j] for f in range(len(b['dbout']['fext']))])
                for iv in range(nvar):
                    exp = base_out[j][0][iv] + sum(c * f for c, f in zip(extra[iv], f0))
                    big = float(max([abs(c * f) for c, f in zip(extra[iv], f0)] + [1]))
                    if bad(var_out[j][0][iv], exp, (zs + big) * cs[j]) or bad(var_out[j][1][iv], base_out[j][1][iv], (c00s[iv] ** .5) * cs[j]):
                        ctx.violation('driftshift:' + c01.site_key(b), 'data shifted by a drift combination: estimate %s, expected %s; stdev %s vs %s (target %d var %d)' % (
                            var_out[j][0][iv], float(exp), var_out[j][1][iv], base_out[j][1][iv], j, iv),
                            {'base_case': sx_str(to_sx(b)), 'variant_case': sx_str(to_sx(v)), 'target': j, 'coefficients': [[str(c) for c in r] for r in extra]}); found_input = True
        elif kind == 'linear2':
            lin2[bi] = var_out
        elif kind == 'linear3':
            al, be = extra; o2 = lin2.get(bi)
            cs = conds(per)
            means = b['model']['means'] if b['model']['means'] else [0] * nvar
            for j in range(len(per)):
                if o2 is None or not per[j]['nbgh'] or cs[j] > 1e6 or base_out[j][0][0] is None: ctx.cov['tie_excluded'] += 1; continue
                ctx.count('linear:%d:%d' % (bi, j))
                for iv in range(nvar):
                    m = means[iv] if b['model']['order'] < 0 else 0
                    exp = m + al * (base_out[j][0][iv] - m) + be * (o2[j][0][iv] - m)
                    if bad(var_out[j][0][iv], exp, zs * cs[j] * (1 + abs(al) + abs(be))):
                        ctx.violation('linearity:' + c01.site_key(b), 'estimate of al*z1+be*z2 is %s, expected %s (target %d var %d)' % (var_out[j][0][iv], float(exp), j, iv),
                                      {'base_case': sx_str(to_sx(b)), 'variant_case': sx_str(to_sx(v)), 'target': j, 'al': str(al), 'be': str(be)}); found_input = True
    # stdev range on every base case; SK: stdev^2 <= C00
    for b, (drifts, ok, per) in zip(bases, parsed):
        if not ok: continue
        for t in per:
            if not t['nbgh']: continue
            for iv in range(b['nvar']):
                s = undy(t['std'][iv]); e = undy(t['est'][iv])
                if e is None: continue
                c00 = float(undy(t['c00'][iv][iv]))
                ctx.count('range:%s' % id(t))
                if s is None or float(s) < 0 or (b['model']['order'] < 0 and float(s) ** 2 > c00 * (1 + 1e-9) + 1e-12):
                    ctx.violation('stdev-range:' + c01.site_key(b), 'stdev %s with a-priori variance %s' % (s, c00), {'impl_case': sx_str(to_sx(b)), 'target': t['it']}); found_input = True
            mcases.append(model_case(b, drifts, t)); mref.append((b, t))
    # model correspondence (ties the C01/C02 model to the code on these cases too)
    mf = write_cases(ctx, 'model', mcases)
    rcm, model = run_model(ctx, runner, mf)
    if len(model) != len(mcases):
        print('ERROR: model runner returned %d results for %d cases' % (len(model), len(mcases))); sys.exit(3)
    for (py, t), mo in zip(mref, model):
        kind, text = c01.compare_target(ctx, py, t, mo)
        if kind == 'excluded': ctx.cov['tie_excluded'] += 1; continue
        ctx.count('model:%s' % id(t))
        if kind and kind.startswith('output:'):
            ctx.violation('KrigingSystem:' + kind[7:], text, {'impl_case': sx_str(to_sx(py)), 'target': t['it'], 'site': c01.site_key(py)}); found_input = True
        elif kind and kind.startswith('output'):
            ctx.violation('impl-vs-system:' + c01.site_key(py), text, {'impl_case': sx_str(to_sx(py)), 'target': t['it']}); found_input = True
        elif kind == 'internal':
            ctx.violation('model-drift:' + c01.site_key(py), text, {'impl_case': sx_str(to_sx(py)), 'target': t['it']}, found_input=False)
    ctx.sample({'relations': ['exact', 'permutation', 'translation', 'driftshift', 'linear', 'stdev-range'], 'base_cases': len(bases), 'variants': len(variants)})
    ctx.sample({'example_base_case': sx_str(to_sx(bases[0]))[:600]})
    ctx.cov['rule'] = ('base case = random (Db, model, neighbourhood, 4 targets); variants: targets moved onto data, samples permuted, all coordinates translated, '
                       'data shifted by a random drift combination, linear combination of two data sets; one evaluation = one (relation, base, target); '
                       'systems with condition number > 1e6 are tie_excluded')
    if not proofs_ok: proof_break_violation(ctx, found_input)
    ctx.assumptions = ['positive semi-definiteness of the covariance (needed for the variance range) is a hypothesis of the theorems; on impl the range is checked directly',
                       'translation invariance: proved for any invertible recombination of the drift basis (C02_basis_change_*) with the explicit translation matrix of the constant+linear basis; stationarity of the covariance oracle and the quadratic basis are checked on the implementation only']

if __name__ == '__main__':
    main(run)

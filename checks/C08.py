"""C08 — saving and reloading an object gives back an equivalent object.

Theorems of coq/C08 (layer 1: token codec of neutral files, C08_lex_print; layer 2: per-class ser/deser models with
C08_<class>_roundtrip / _rewrite / _refuted) + correspondence on instances built through the public API:
 (a) property on the implementation: dumpToNF -> createFromNF -> every getter of the reloaded object equals the original
     to 15 significant digits (NA stays NA); dumping the reloaded object gives a byte-identical file;
 (b) implementation writes, model parses (model's object = getters of the reloaded object; model's rewrite = impl's);
     model writes, implementation reads (getters = model's own reload);
 (c) support: record-trace hook (hooks/C08.patch) - the W-trace of a dump equals the R-trace of the reload, for every
     serialisable class (also those without a model).  Skipped with a note when the hook is not in the library.
"""
import sys, os, math, tempfile, shutil
from decimal import Decimal
sys.path.insert(0, os.path.dirname(__file__))
from common import *

def S(s): return [ord(ch) for ch in s]
def US(l): return ''.join(chr(x) for x in l)

# ----------------------------------------------------------------------------- schemas of the getter trees
# 'i' int, 'b' bool, 'd' double, 's' string, ('L', t) list, ('T', [(name, t), ...]) tuple
def T(*fields): return ('T', list(fields))
def Lst(t): return ('L', t)
ANEIGH = T(('ndim', 'i'), ('flagXvalid', 'b'), ('flagKFold', 'b'), ('useBallSearch', 'b'), ('ballLeafSize', 'i'))
PTS = Lst(T(('x', 'd'), ('y', 'd')))
PE = T(('zmin', 'd'), ('zmax', 'd'), ('vertices', PTS))

def round15(fr):
    """the decimal with 15 significant digits that %.15g prints for this double (exact Fraction)"""
    if fr is None: return None
    return Fraction(Decimal('%.15g' % float(fr)))

def to_model(schema, g):
    """getter tree of the implementation -> object of the model (doubles rounded to the 15 digits of the format)"""
    if schema == 'd':
        v = round15(undy(g))
        return [] if v is None else [v.numerator, v.denominator]
    if schema in ('i', 'b', 's'): return g
    if schema[0] == 'L': return [to_model(schema[1], x) for x in g]
    return [to_model(t, x) for (n, t), x in zip(schema[1], g)]

def same15(a, b):
    """two doubles agree to the 15 significant digits of the format"""
    if a is None or b is None: return a is None and b is None
    if a == b: return True
    if '%.15g' % float(a) == '%.15g' % float(b): return True
    return abs(a - b) <= Fraction(6, 10 ** 15) * max(abs(a), abs(b))

def diffs(schema, a, b, conv_a, conv_b, eq, path=''):
    """list of (path, a, b) where the two trees differ"""
    if schema == 'd':
        x, y = conv_a(a), conv_b(b)
        return [] if eq(x, y) else [(path, None if x is None else float(x), None if y is None else float(y))]
    if schema in ('i', 'b'):
        return [] if a == b else [(path, a, b)]
    if schema == 's':
        return [] if a == b else [(path, US(a), US(b))]
    if schema[0] == 'L':
        if not isinstance(a, list) or not isinstance(b, list) or len(a) != len(b):
            return [(path + '#', len(a) if isinstance(a, list) else a, len(b) if isinstance(b, list) else b)]
        out = []
        for x, y in zip(a, b):
            out += diffs(schema[1], x, y, conv_a, conv_b, eq, path)
            if len(out) > 3: break
        return out
    if not isinstance(a, list) or not isinstance(b, list) or len(a) != len(schema[1]) or len(b) != len(schema[1]):
        return [(path + '!shape', a, b)]
    out = []
    for (n, t), x, y in zip(schema[1], a, b):
        out += diffs(t, x, y, conv_a, conv_b, eq, (path + '.' if path else '') + n)
    return out

def close_model(m, i):
    """model value (exact) vs impl double: the double nearest to the decimal, or a few ulps when the reader computes"""
    if m is None or i is None: return m is None and i is None
    if float(m) == float(i): return True
    return abs(m - i) <= Fraction(1, 10 ** 14) * max(abs(m), abs(i))

# ----------------------------------------------------------------------------- text of files
def is_num(w):
    try:
        if '/' in w:
            a, b = w.split('/'); return Fraction(int(a), int(b))
        return Fraction(Decimal(w))
    except Exception:
        return None

def canon_file(text):
    """lines of (words, comment) with numeric words turned into exact values"""
    out = []
    for line in text.split('\n'):
        if '#' in line:
            k = line.index('#'); data, com = line[:k], line[k:]
        else: data, com = line, ''
        ws = []
        for w in data.split():
            v = is_num(w)
            ws.append(('n', v) if v is not None and w != 'NA' else ('w', w))
        out.append((ws, com.rstrip()))
    return out

def files_equiv(a, b):
    ca, cb = canon_file(a), canon_file(b)
    if len(ca) != len(cb): return 'number of lines %d vs %d' % (len(ca), len(cb))
    for k, (x, y) in enumerate(zip(ca, cb)):
        if x[1] != y[1]: return 'line %d: comment %r vs %r' % (k + 1, x[1], y[1])
        if len(x[0]) != len(y[0]): return 'line %d: %d words vs %d' % (k + 1, len(x[0]), len(y[0]))
        for u, v in zip(x[0], y[0]):
            if u != v: return 'line %d: %r vs %r' % (k + 1, u[1] if u[0] == 'w' else float(u[1]), v[1] if v[0] == 'w' else float(v[1]))
    return None

def render_numbers(text):
    """the model prints exact rationals num/den: turn them into the %.15g literals the library reads (trusted conversion)"""
    out = []
    for line in text.split('\n'):
        if '#' in line:
            k = line.index('#'); data, com = line[:k], line[k:]
        else: data, com = line, ''
        parts = data.split(' ')
        for j, w in enumerate(parts):
            if '/' in w:
                v = is_num(w)
                if v is not None:
                    parts[j] = str(v.numerator) if v.denominator == 1 and abs(v.numerator) < 10 ** 15 else '%.15g' % float(v)
        out.append(' '.join(parts) + com)
    return '\n'.join(out)

# ----------------------------------------------------------------------------- value generators
def gdbl(rng, na=False, pos=False, mag=True):
    r = rng.random()
    if na and r < .12: return None
    if r < .35: v = Fraction(rng.randint(0 if pos else -20, 20))
    elif r < .55: v = Fraction(rng.randint(1 if pos else -400, 400), 8)
    elif r < .80: v = Fraction(float('%.15g' % rng.uniform(0.001 if pos else -1000, 1000)))
    elif r < .88: v = Fraction(rng.uniform(0.001 if pos else -1, 1) * 10 ** rng.randint(-8, 8))          # 17 digits: loses digits in the file
    elif mag and r < .96: v = Fraction(float('%.3g' % (rng.choice([1, 1] if pos else [1, -1]) * rng.uniform(1, 9.99) * 10.0 ** rng.choice([300, -300, 150, -150, 29, 31, 20, -20]))))
    else: v = Fraction(rng.choice([0, 1] if not pos else [1, 2]))
    if pos and v <= 0: v = Fraction(1)
    return v
def D(v): return dy(v)
def gname(rng, k=None):
    base = rng.choice(['z', 'var', 'Zn', 'x_a', 'Pb', 'a.b', 'v-1', 'N', 'na', 'A1'])
    return base + (str(k) if k is not None else str(rng.randint(0, 99)))

def g_aneigh(rng, ndim=None, plain=False):
    ndim = ndim or rng.choice([1, 2, 2, 3, 4])
    if plain or rng.random() < .6: return [ndim, 0, 0, 0, 10]
    return [ndim, rng.random() < .5, rng.random() < .3, rng.random() < .3, rng.choice([10, 5, 30])]

# ----------------------------------------------------------------------------- classes
class Cls:
    def __init__(self, cid, name, G, X, gen, modelled=True):
        self.cid, self.name, self.G, self.X, self.gen, self.modelled = cid, name, G, X, gen, modelled

def gen_unique(rng, quick): return [g_aneigh(rng)], 'ndim%d' % 0
def gen_bench(rng, quick): return [g_aneigh(rng), D(gdbl(rng, na=True, pos=True))], ''
def gen_cell(rng, quick): return [g_aneigh(rng), rng.choice([1, 1, 2, 5, 0, -1234567])], ''
def gen_moving(rng, quick):
    a = g_aneigh(rng); ndim = a[0]
    r = rng.random()
    coeffs = []; angles = []; tag = 'iso'
    radius = gdbl(rng, na=True, pos=True, mag=False)
    if r < .55:
        coeffs = [D(gdbl(rng, pos=True, mag=False)) for _ in range(ndim)]; tag = 'aniso'
        if rng.random() < .25: radius = rng.choice([Fraction(1), None])
        if rng.random() < .5 and ndim >= 2:
            angles = [D(Fraction(rng.choice([30, 45, 10, 90, 123, -20]))) for _ in range(rng.choice([1, ndim]))]; tag = 'rotated'
            if rng.random() < .15: angles = [D(Fraction(0)) for _ in angles]
    nsect = rng.choice([1, 1, 1, 4, 8, 0, 2])
    dc = [] if rng.random() < .8 else D(Fraction(rng.choice([1, 3, 7]), 8))
    return [a, rng.choice([5, 10, 100, 0]), D(radius), rng.choice([1, 2, 0]), nsect, rng.choice([0, 2, 3]), coeffs, angles, dc], tag
def gen_table(rng, quick):
    nr = rng.choice([0, 1, 2, 3, 5, 8] + ([] if quick else [40, 200])); nc = rng.choice([0, 1, 2, 3, 6] + ([] if quick else [25]))
    vals = [D(gdbl(rng, na=True)) for _ in range(nr * nc)]
    rn = [S('r%d' % i) for i in range(nr)] if rng.random() < .3 else []
    cn = [S(gname(rng, j)) for j in range(nc)] if rng.random() < .3 else []
    title = S('Stats of var') if rng.random() < .3 else []
    return [nr, nc, vals, rn, cn, title], 'r%dc%d' % (min(nr, 9), min(nc, 9))
def g_ring(rng, n=None, closed=None):
    n = n or rng.choice([3, 4, 5, 8, 12, 30])
    cx, cy = gdbl(rng, mag=False), gdbl(rng, mag=False)
    angs = sorted(rng.uniform(0, 2 * math.pi) for _ in range(n))
    xs = [Fraction(float(cx) + rng.uniform(1, 5) * math.cos(a)) for a in angs]; ys = [Fraction(float(cy) + rng.uniform(1, 5) * math.sin(a)) for a in angs]
    if rng.random() < .3: xs = [Fraction(round(float(x) * 4), 4) for x in xs]; ys = [Fraction(round(float(y) * 4), 4) for y in ys]
    if closed if closed is not None else rng.random() < .5: xs.append(xs[0]); ys.append(ys[0])
    return [D(x) for x in xs], [D(y) for y in ys]
def gen_polyline(rng, quick):
    n = rng.choice([1, 2, 3, 7, 20])
    return [[D(gdbl(rng)) for _ in range(n)], [D(gdbl(rng)) for _ in range(n)]], 'n%d' % n
def g_zlim(rng):
    if rng.random() < .5: return [], []
    a = gdbl(rng, mag=False); return D(a) if rng.random() < .8 else [], D(a + rng.randint(1, 9)) if rng.random() < .8 else []
def gen_polyelem(rng, quick):
    xs, ys = g_ring(rng); zmin, zmax = g_zlim(rng)
    return [xs, ys, zmin, zmax], 'z' if zmin or zmax else 'noz'
def gen_polygons(rng, quick):
    n = rng.choice([0, 1, 1, 2, 3, 6])
    out = []
    for _ in range(n):
        xs, ys = g_ring(rng); zmin, zmax = g_zlim(rng); out.append([xs, ys, zmin, zmax])
    return out, 'npol%d' % n
def gen_hermite(rng, quick):
    if rng.random() < .5:
        n = rng.choice([1, 2, 3, 8, 30])
        psi = [D(gdbl(rng, mag=False)) for _ in range(n)]
        b = [D(gdbl(rng, na=True, mag=False)) for _ in range(8)] if rng.random() < .7 else []
        force = rng.random() < .2
        return [0, rng.random() < .5, D(Fraction(rng.choice([8, 7, 4, 1]), 8)), psi, b,
                D(gdbl(rng, mag=False)) if force else [], D(gdbl(rng, pos=True, mag=False)) if force else [], 0], 'coeffs'
    n = rng.choice([20, 50, 200]); data = [D(Fraction(math.exp(rng.gauss(0, 1)))) for _ in range(n)]
    return [1, rng.random() < .5, D(Fraction(rng.choice([7, 5]), 8)) if rng.random() < .4 else [], data, [], [], [], rng.choice([3, 10, 30])], 'fitted'

HERMITE = T(('azmin', 'd'), ('azmax', 'd'), ('aymin', 'd'), ('aymax', 'd'), ('pzmin', 'd'), ('pzmax', 'd'), ('pymin', 'd'), ('pymax', 'd'),
            ('mean', 'd'), ('variance', 'd'), ('rCoef', 'd'), ('psiHn', Lst('d')))
CLASSES = [
    Cls(1, 'NeighUnique', ANEIGH, T(), gen_unique),
    Cls(2, 'NeighBench', T(('base', ANEIGH), ('width', 'd'), ('checkerWidth', 'd')), T(), gen_bench),
    Cls(3, 'NeighCell', T(('base', ANEIGH), ('nmini', 'i')), T(), gen_cell),
    Cls(4, 'NeighMoving', T(('base', ANEIGH), ('nmini', 'i'), ('nmaxi', 'i'), ('nsect', 'i'), ('nsmax', 'i'), ('distCont', 'd'), ('radius', 'd'),
                            ('flagAniso', 'b'), ('flagRotation', 'b'), ('anisoCoeffs', Lst('d')), ('anisoRotMat', Lst('d'))),
        T(('checkerNDim', 'i'), ('normalizedDistance', 'd'), ('normalizedDistance', 'd'), ('flagSector', 'b')), gen_moving),
    Cls(5, 'Table', T(('ncols', 'i'), ('nrows', 'i'), ('values', Lst(Lst('d')))), T(('rowNames', Lst('s')), ('colNames', Lst('s')), ('title', 's')), gen_table),
    Cls(6, 'PolyLine2D', PTS, T(), gen_polyline),
    Cls(7, 'PolyElem', PE, T(), gen_polyelem),
    Cls(8, 'Polygons', Lst(PE), Lst('b'), gen_polygons),
    Cls(9, 'AnamHermite', HERMITE, T(('flagBound', 'b'), ('rawValue', 'd'), ('rawValue', 'd'), ('rawValue', 'd'), ('rawValue', 'd')), gen_hermite),
]
BYID = {c.cid: c for c in CLASSES}

# refined keys: (class, path) -> canonical key of a known asymmetry; default is '<Class>:<path>-not-preserved'
def key_of(cls, path, a, b, case):
    p = path.rstrip('#')
    if p.endswith('flagXvalid') or p.endswith('flagKFold') or p.endswith('useBallSearch') or p.endswith('ballLeafSize'):
        return 'ANeigh:%s-not-saved' % p.split('.')[-1]
    if cls.name == 'NeighMoving':
        if p == 'anisoCoeffs': return 'NeighMoving:aniso-coeffs-scaled-by-radius'
        if p in ('flagRotation', 'normalizedDistance'): return 'NeighMoving:rotation-lost' if p == 'flagRotation' else None
        if p == 'distCont': return 'NeighMoving:distCont-not-saved'
    if cls.name == 'NeighBench' and p == 'width': return 'NeighBench:width-getter-stale-after-reload'
    if cls.name == 'Table' and p in ('rowNames', 'colNames', 'title'): return 'Table:%s-not-saved' % p
    return '%s:%s-not-preserved' % (cls.name, p)

# ----------------------------------------------------------------------------- main
def run(ctx):
    quick = ctx.quick()
    build_lib(ctx)
    proofs_ok = coq_properties(ctx)
    runner = build_runner(ctx)
    exe = build_harness(ctx, 'C08')
    if runner is None or exe is None:
        print('ERROR: model runner or harness does not build'); sys.exit(3)
    rng = ctx.rng
    nfdir = tempfile.mkdtemp(prefix='C08_nf_', dir=BUILD)
    env = {'VERIF_C08_DIR': nfdir}
    try:
        found_input = main_part(ctx, quick, rng, runner, exe, env)
    finally:
        shutil.rmtree(nfdir, ignore_errors=True)
    if not proofs_ok: proof_break_violation(ctx, found_input)
    ctx.cov['trusted_base'] += [
        'ExtrOcamlString (ascii -> char) in coq/C08/Extract.v',
        'binary64 <-> 15-digit decimal text ("%.15g" / strtod, DBL_DIG = 15) is outside the model: a number token prints and parses to itself; '
        'the check converts the model\'s exact rationals to %.15g literals before the library reads them',
        'the lexical model (lines of blank-separated words, cut at the first word starting with #) stands for operator>> / gslSafeGetline+trim; tied by correspondence (b)']
    ctx.assumptions = ['objects are built through the public API; strings are non-empty words without blanks (other strings are exercised separately and reported)',
                       'values compared to 15 significant digits (relative 6e-15), undefined values must stay undefined']

def load_corpus(ctx):
    p = os.path.join(VERIF, 'corpus', ctx.pid + '.sx')
    if not os.path.exists(p): return []
    return [sx_parse(l) for l in open(p) if l.strip() and not l.startswith('#')]

def main_part(ctx, quick, rng, runner, exe, env):
    found_input = False
    per = 30 if quick else 400
    cases = []; tags = []
    for c in load_corpus(ctx):
        if c[0] == 1 and c[1] in BYID: cases.append(c); tags.append('corpus')
    for cls in CLASSES:
        for _ in range(per):
            rec, tag = cls.gen(rng, quick)
            cases.append([1, cls.cid, rec]); tags.append(tag)
            ctx.dist('%s:%s' % (cls.name, tag))
    # ---- phase 1: implementation round trip
    cf = write_cases(ctx, 'p1', cases)
    rc, impl = run_impl(ctx, exe, cf, env=env)
    if len(impl) != len(cases):
        k = len(impl)
        ctx.violation('crash:%s' % BYID[cases[k][1]].name, 'the harness stopped (crash) on case %d while saving/reloading a %s' % (k, BYID[cases[k][1]].name),
                      {'case': sx_str(cases[k]), 'how': 'bin/check C08 then harness/C08 on this line'})
        cases = cases[:k]; found_input = True
    hook = any(r[10] for r in impl if len(r) > 10)
    if not hook: ctx.notes.append('record-trace hook (hooks/C08.patch) not present in the library: part (c) skipped')
    # ---- phase 2: the model parses impl's file; the model writes the original object
    mcases = []; mref = []
    for i, (c, r) in enumerate(zip(cases, impl)):
        if len(r) < 11: continue
        cls = BYID[c[1]]
        if not cls.modelled: continue
        if r[0] and r[1]:
            mcases.append([1, cls.cid, r[1]]); mref.append((i, 'parse'))
        mcases.append([2, cls.cid, to_model(cls.G, r[3])]); mref.append((i, 'write'))
    mf = write_cases(ctx, 'p2', mcases)
    rcm, mres = run_model(ctx, runner, mf)
    if len(mres) != len(mcases):
        print('ERROR: model runner returned %d results for %d cases' % (len(mres), len(mcases))); sys.exit(3)
    parsed = {}; written = {}
    for (i, what), res in zip(mref, mres):
        if res and res[0] == -999:
            print('ERROR: model rejected case', i, what, sx_str(mcases[mref.index((i, what))])[:300]); sys.exit(3)
        (parsed if what == 'parse' else written)[i] = res
    # ---- phase 3: implementation reads the files written by the model
    rcases = []; rref = []
    for i, res in written.items():
        text = render_numbers(US(res[0]))
        rcases.append([2, cases[i][1], S(text)]); rref.append(i)
    rf = write_cases(ctx, 'p3', rcases)
    rc3, rres = run_impl(ctx, exe, rf, env=env)
    reread = {i: r for i, r in zip(rref, rres)}
    # ---- verdicts
    ndis = 0
    uq = lambda p: unq(p)
    for i, (c, r) in enumerate(zip(cases, impl)):
        cls = BYID[c[1]]
        if len(r) < 11:
            ctx.violation('crash:%s' % cls.name, 'harness error on a %s' % cls.name, {'case': sx_str(c), 'result': r}); found_input = True; continue
        okd, fileA, okl, G0, X0, G1, X1, fileB, tw, tr, hk = r
        fileA, fileB = US(fileA), US(fileB)
        ctx.count(sx_str(c)); ctx.sample({'class': cls.name, 'recipe': sx_str(c[2])[:200], 'file': fileA[:300]}, maxn=6)
        vio = []          # (key, text)
        if not okd: vio.append(('%s:dump-fails' % cls.name, 'dumpToNF fails'))
        elif not okl: vio.append(('%s:reload-fails' % cls.name, 'createFromNF fails on the file just written'))
        else:
            for path, a, b in diffs(cls.G, G0, G1, undy, undy, same15) + diffs(cls.X, X0, X1, undy, undy, same15):
                k = key_of(cls, path, a, b, c)
                if k: vio.append((k, '%s: %s is %r before saving and %r after reloading' % (cls.name, path, a, b)))
            if fileB != fileA and not vio:
                vio.append(('%s:rewrite-differs' % cls.name, 'the file written by the reloaded object differs from the first one'))
        # model predictions
        pred = None
        if i in written:
            w = written[i]
            if w[1][0] == 1:
                d = diffs(cls.G, to_model(cls.G, G0), w[1][1], uq, uq, lambda x, y: x == y)
                pred = [p for p, _, _ in d]
            else: pred = ['<model reload fails>']
        for k, text in vio:
            st = ctx.violation(k, text + (' [the model predicts the loss of: %s]' % ', '.join(sorted(set(pred))) if pred else ''),
                               {'class': cls.name, 'recipe': sx_str(c), 'file_written': fileA, 'file_rewritten': fileB if fileB != fileA else '(identical)',
                                'how': 'build the object of the recipe (see harness/C08.cpp, class %d), dumpToNF, createFromNF, compare getters' % cls.cid})
            found_input = True
        # correspondence (b)
        drift = []
        if cls.modelled and okd:
            if i in parsed:
                p = parsed[i]
                if (p[0] == 1) != bool(okl): drift.append('model %s the file, implementation %s it' % ('reads' if p[0] == 1 else 'rejects', 'reads' if okl else 'rejects'))
                elif okl:
                    d = diffs(cls.G, p[1], G1, uq, undy, close_model)
                    if d: drift.append('model reading of the file differs from the reloaded object at %s' % d[:2])
                    e = files_equiv(US(p[2]), fileB)
                    if e: drift.append('model rewrite differs from the implementation rewrite: ' + e)
            if i in written:
                w = written[i]
                e = files_equiv(US(w[0]), fileA)
                if e: drift.append('file printed by the model for the original object differs from the dump: ' + e)
                rr = reread.get(i)
                if rr is None: drift.append('implementation crashed reading the model file')
                elif (rr[0] == 1) != (w[1][0] == 1): drift.append('model file: implementation %s, model %s' % ('reads' if rr[0] else 'rejects', 'reads' if w[1][0] == 1 else 'rejects'))
                elif rr[0] == 1:
                    d = diffs(cls.G, w[1][1], rr[1], uq, undy, close_model)
                    if d: drift.append('implementation reading of the model file differs from the model reload at %s' % d[:2])
        if drift:
            ndis += 1
            if not vio:
                ctx.violation('model-drift:%s' % cls.name, 'model and implementation disagree on a %s although the implementation round trip holds: %s' % (cls.name, drift[0]),
                              {'class': cls.name, 'recipe': sx_str(c), 'file': fileA, 'disagreements': drift, 'correspondence': 'coq/C08/Model*.v vs %s::_serialize/_deserialize' % cls.name},
                              found_input=False)
        # support (c)
        if hk and okd and okl:
            e = trace_mismatch(tw, tr)
            if e and not vio:
                ctx.violation('trace:%s' % cls.name, 'record trace of the reload differs from the trace of the dump: ' + e,
                              {'class': cls.name, 'recipe': sx_str(c), 'file': fileA}, found_input=True); found_input = True
    ctx.cov['disagreements'] = ndis
    # ---- container / prefix settings
    ccases = [[3, S(a), S(b), S(n)] for a, b, n in [('', '', 'plain.nf'), ('cont/', '', 'x.nf'), ('', 'pfx.', 'x.nf'), ('cont/', 'pfx.', 'x.nf'),
                                                     ('cont/', 'pfx.', 'abc'), ('', 'pfx.', 'ab'), ('cont/', '', 'a')]]
    cf3 = write_cases(ctx, 'p4', ccases)
    _, cres = run_impl(ctx, exe, cf3, env=env)
    for c, r in zip(ccases, cres):
        ctx.count(sx_str(c)); ctx.dist('container/prefix')
        if len(r) == 3 and r[0] and r[2] and not r[1]:
            name = US(c[3])
            ctx.violation('buildFileName:short-name-read-without-prefix' if len(name) <= 2 else 'buildFileName:container-prefix',
                          'with container %r and prefix %r, the file %r is written but cannot be reloaded under the same name' % (US(c[1]), US(c[2]), name),
                          {'container': US(c[1]), 'prefix': US(c[2]), 'name': name}); found_input = True
    ctx.cov['rule'] = ('case = (class, construction recipe through the public API); evaluations = recipes run through dumpToNF/createFromNF/dumpToNF on the '
                       'implementation, each also parsed / printed / reloaded by the extracted model; distinct = distinct recipe text')
    ctx.cov['modelled_classes'] = [c.name for c in CLASSES if c.modelled]
    ctx.cov['unmodelled_classes'] = [c.name for c in CLASSES if not c.modelled]
    return found_input

def trace_mismatch(tw, tr):
    """flattened sequences of value types written / read (a vector of n counts as n values)"""
    def flat(t):
        out = []
        for rw, ty, cnt, title in t:
            out += [(chr(ty), US(title))] * (1 if cnt < 0 else cnt)
        return out
    a, b = flat(tw), flat(tr)
    for k in range(max(len(a), len(b))):
        if k >= len(a): return 'value %d read as %s (%r) was never written' % (k, b[k][0], b[k][1])
        if k >= len(b): return 'value %d written as %s (%r) is never read' % (k, a[k][0], a[k][1])
        if a[k][0] != b[k][0] and not (a[k][0] == 'd' and b[k][0] == 'i'):
            return 'value %d written as %s (%r) and read as %s (%r)' % (k, a[k][0], a[k][1], b[k][0], b[k][1])
    return None

if __name__ == '__main__':
    main(run)

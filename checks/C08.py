"""C08 — saving and reloading an object gives back an equivalent object.

Theorems of coq/C08 (layer 1: token codec of neutral files, C08_lex_print; layer 2: per-class ser/deser models with
C08_<class>_roundtrip / _rewrite / _refuted) + correspondence on instances built through the public API:
 (a) property on the implementation: dumpToNF -> createFromNF -> every getter of the reloaded object equals the original
     to 15 significant digits (NA stays NA); dumping the reloaded object gives a byte-identical file;
 (b) implementation writes, model parses (model's object = getters of the reloaded object; model's rewrite = impl's);
     model writes, implementation reads (getters = model's own reload);
 (c) support: record-trace hook (hooks/C08.patch) - the W-trace of a dump equals the R-trace of the reload, for every
     serialisable class.  Skipped with a note when the hook is not in the library.
Every serialisable class of the library has a model (24 classes; coq/C08/Model*.v), in the format the library writes now.
Strings that are not one data word (blank inside, leading '#', empty): theorems C08_string_* + directed cases.
"""
import sys, os, math, tempfile, shutil, json
from decimal import Decimal
sys.path.insert(0, os.path.dirname(__file__))
from common import *

def S(s): return [ord(ch) for ch in s]
def US(l): return ''.join(chr(x) for x in l)

# ----------------------------------------------------------------------------- schemas of the getter trees
# 'i' int, 'b' bool, 'd' double, 's' string, ('L', t) list, ('T', [(name, t), ...]) tuple
def T(*fields): return ('T', list(fields))
def Lst(t): return ('L', t)
ANEIGH = T(('ndim', 'i'), ('flagXvalid', 'b'), ('flagKFold', 'b'), ('useBallSearch', 'b'), ('ballLeafSize', 'i'))
PTS = Lst(T(('x', 'd'), ('y', 'd')))
PE = T(('zmin', 'd'), ('zmax', 'd'), ('vertices', PTS))

def round15(fr):
    """the decimal with 15 significant digits that %.15g prints for this double (exact Fraction)"""
    if fr is None: return None
    return Fraction(Decimal('%.15g' % float(fr)))

def to_model(schema, g):
    """getter tree of the implementation -> object of the model (doubles rounded to the 15 digits of the format)"""
    if schema == 'd':
        v = round15(undy(g))
        return [] if v is None else [v.numerator, v.denominator]
    if schema in ('i', 'b', 's'): return g
    if schema[0] == 'L': return [to_model(schema[1], x) for x in g]
    return [to_model(t, x) for (n, t), x in zip(schema[1], g)]

def same15(a, b):
    """two doubles agree to the 15 significant digits of the format"""
    if a is None or b is None: return a is None and b is None
    if a == b: return True
    if '%.15g' % float(a) == '%.15g' % float(b): return True
    return abs(a - b) <= Fraction(6, 10 ** 15) * max(abs(a), abs(b))

def same_beh(a, b):
    """derived quantities (computed from the 15-digit parameters): agreement to 9 digits"""
    if a is None or b is None: return a is None and b is None
    return abs(a - b) <= Fraction(1, 10 ** 9) * max(abs(a), abs(b)) or abs(a - b) <= Fraction(1, 10 ** 12)

def diffs(schema, a, b, conv_a, conv_b, eq, path=''):
    """list of (path, a, b) where the two trees differ"""
    if conv_a is conv_b and a == b and schema != 'd': return []          # same encoding on both sides: equal subtrees are equal
    if schema == 'd':
        x, y = conv_a(a), conv_b(b)
        if '~' in path and eq is same15: eq = same_beh
        return [] if eq(x, y) else [(path, None if x is None else float(x), None if y is None else float(y))]
    if schema in ('i', 'b'):
        return [] if a == b else [(path, a, b)]
    if schema == 's':
        return [] if a == b else [(path, US(a), US(b))]
    if schema[0] == 'L':
        if not isinstance(a, list) or not isinstance(b, list) or len(a) != len(b):
            return [(path + '#', len(a) if isinstance(a, list) else a, len(b) if isinstance(b, list) else b)]
        out = []
        for x, y in zip(a, b):
            out += diffs(schema[1], x, y, conv_a, conv_b, eq, path)
            if len(out) > 3: break
        return out
    if not isinstance(a, list) or not isinstance(b, list) or len(a) != len(schema[1]) or len(b) != len(schema[1]):
        return [(path + '!shape', a, b)]
    out = []
    for (n, t), x, y in zip(schema[1], a, b):
        out += diffs(t, x, y, conv_a, conv_b, eq, (path + '.' if path else '') + n)
    return out

def close_model(m, i):
    """model value (exact) vs impl double: the double nearest to the decimal, or a few ulps when the reader computes"""
    if m is None or i is None: return m is None and i is None
    if float(m) == float(i): return True
    return abs(m - i) <= Fraction(1, 10 ** 14) * max(abs(m), abs(i))

# ----------------------------------------------------------------------------- text of files
def is_num(w):
    try:
        if '/' in w:
            a, b = w.split('/'); return Fraction(int(a), int(b))
        return Fraction(Decimal(w))
    except Exception:
        return None

def canon_file(text):
    """lines of (words, comment) with numeric words turned into exact values"""
    out = []
    for line in text.split('\n'):
        if '#' in line:
            k = line.index('#'); data, com = line[:k], line[k:]
        else: data, com = line, ''
        ws = []
        for w in data.split():
            v = is_num(w)
            ws.append(('n', v) if v is not None and w != 'NA' else ('w', w))
        out.append((ws, com.rstrip()))
    return out

def titles_differ(a, b):
    """same data, different text of a title / comment (informational: no reader looks at it)"""
    return [(x[1], y[1]) for x, y in zip(canon_file(a), canon_file(b)) if x[1] != y[1]]

def files_equiv(a, b):
    ca, cb = canon_file(a), canon_file(b)
    if len(ca) != len(cb): return 'number of lines %d vs %d' % (len(ca), len(cb))
    for k, (x, y) in enumerate(zip(ca, cb)):
        if bool(x[1]) != bool(y[1]): return 'line %d: comment %r vs %r' % (k + 1, x[1], y[1])
        if len(x[0]) != len(y[0]): return 'line %d: %d words vs %d' % (k + 1, len(x[0]), len(y[0]))
        for u, v in zip(x[0], y[0]):
            if u[0] == 'n' and v[0] == 'n' and close_model(u[1], v[1]): continue       # values recomputed by the reader: last digits
            if u != v: return 'line %d: %r vs %r' % (k + 1, u[1] if u[0] == 'w' else float(u[1]), v[1] if v[0] == 'w' else float(v[1]))
    return None

def render_numbers(text):
    """the model prints exact rationals num/den: turn them into the %.15g literals the library reads (trusted conversion)"""
    out = []
    for line in text.split('\n'):
        if '#' in line:
            k = line.index('#'); data, com = line[:k], line[k:]
        else: data, com = line, ''
        parts = data.split(' ')
        for j, w in enumerate(parts):
            if '/' in w:
                v = is_num(w)
                if v is not None:
                    parts[j] = str(v.numerator) if v.denominator == 1 and abs(v.numerator) < 10 ** 15 else '%.15g' % float(v)
        out.append(' '.join(parts) + com)
    return '\n'.join(out)

# ----------------------------------------------------------------------------- value generators
def gdbl(rng, na=False, pos=False, mag=True):
    r = rng.random()
    if na and r < .12: return None
    if r < .35: v = Fraction(rng.randint(0 if pos else -20, 20))
    elif r < .55: v = Fraction(rng.randint(1 if pos else -400, 400), 8)
    elif r < .80: v = Fraction(float('%.15g' % rng.uniform(0.001 if pos else -1000, 1000)))
    elif r < .88: v = Fraction(rng.uniform(0.001 if pos else -1, 1) * 10 ** rng.randint(-8, 8))          # 17 digits: loses digits in the file
    elif mag and r < .96: v = Fraction(float('%.3g' % (rng.choice([1, 1] if pos else [1, -1]) * rng.uniform(1, 9.99) * 10.0 ** rng.choice([300, -300, 150, -150, 29, 31, 20, -20]))))
    else: v = Fraction(rng.choice([0, 1] if not pos else [1, 2]))
    if pos and v <= 0: v = Fraction(1)
    return v
def D(v): return [] if v is None else dy(Fraction(float(v)))
def gname(rng, k=None):
    base = rng.choice(['z', 'var', 'Zn', 'x_a', 'Pb', 'a.b', 'v-1', 'N', 'na', 'A1'])
    return base + (str(k) if k is not None else str(rng.randint(0, 99)))

def g_aneigh(rng, ndim=None, plain=False):
    ndim = ndim or rng.choice([1, 2, 2, 3, 4])
    if plain or rng.random() < .6: return [ndim, 0, 0, 0, 10]
    return [ndim, rng.random() < .5, rng.random() < .3, rng.random() < .3, rng.choice([10, 5, 30])]

# ----------------------------------------------------------------------------- classes
class Cls:
    def __init__(self, cid, name, G, X, gen, modelled=True, wave=1):
        # ndial: number of format dialects the model of the class knows (see "Dialects" in coq/C08/Properties.v)
        # wave 2: classes modelled later (fewer random cases in the quick tier)
        self.cid, self.name, self.G, self.X, self.gen, self.modelled, self.wave = cid, name, G, X, gen, modelled, wave

def gen_unique(rng, quick): return [g_aneigh(rng)], 'ndim%d' % 0
def gen_bench(rng, quick): return [g_aneigh(rng), D(gdbl(rng, na=True, pos=True))], ''
def gen_cell(rng, quick): return [g_aneigh(rng), rng.choice([1, 1, 2, 5, 0, -1234567])], ''
def gen_moving(rng, quick):
    a = g_aneigh(rng); ndim = a[0]
    r = rng.random()
    coeffs = []; angles = []; tag = 'iso'
    radius = gdbl(rng, na=True, pos=True, mag=False)
    if r < .55:
        coeffs = [D(gdbl(rng, pos=True, mag=False)) for _ in range(ndim)]; tag = 'aniso'
        if rng.random() < .25: radius = rng.choice([Fraction(1), None])
        if rng.random() < .5 and ndim >= 2:
            angles = [D(Fraction(rng.choice([30, 45, 10, 90, 123, -20]))) for _ in range(rng.choice([1, ndim]))]; tag = 'rotated'
            if rng.random() < .15: angles = [D(Fraction(0)) for _ in angles]
    nsect = 1 if ndim == 1 else rng.choice([1, 1, 1, 4, 8, 2])      # valid configurations: sectors need 2 dimensions
    dc = [] if rng.random() < .8 else D(Fraction(rng.choice([1, 3, 7]), 8))
    return [a, rng.choice([5, 10, 100, 0]), D(radius), rng.choice([1, 2, 0]), nsect, rng.choice([0, 2, 3]), coeffs, angles, dc], tag
def gen_table(rng, quick):
    nr = rng.choice([0, 1, 2, 3, 5, 8] + ([] if quick else [40, 200])); nc = rng.choice([0, 1, 2, 3, 6] + ([] if quick else [25]))
    vals = [D(gdbl(rng, na=True)) for _ in range(nr * nc)]
    rn = [S('r%d' % i) for i in range(nr)] if rng.random() < .3 else []
    cn = [S(gname(rng, j)) for j in range(nc)] if rng.random() < .3 else []
    title = S('Stats of var') if rng.random() < .3 else []
    return [nr, nc, vals, rn, cn, title], 'r%dc%d' % (min(nr, 9), min(nc, 9))
def g_ring(rng, n=None, closed=None):
    n = n or rng.choice([3, 4, 5, 8, 12, 30])
    cx, cy = gdbl(rng, mag=False), gdbl(rng, mag=False)
    angs = sorted(rng.uniform(0, 2 * math.pi) for _ in range(n))
    xs = [Fraction(float(cx) + rng.uniform(1, 5) * math.cos(a)) for a in angs]; ys = [Fraction(float(cy) + rng.uniform(1, 5) * math.sin(a)) for a in angs]
    if rng.random() < .3: xs = [Fraction(round(float(x) * 4), 4) for x in xs]; ys = [Fraction(round(float(y) * 4), 4) for y in ys]
    if closed if closed is not None else rng.random() < .5: xs.append(xs[0]); ys.append(ys[0])
    return [D(x) for x in xs], [D(y) for y in ys]
def gen_polyline(rng, quick):
    n = rng.choice([1, 2, 3, 7, 20])
    return [[D(gdbl(rng)) for _ in range(n)], [D(gdbl(rng)) for _ in range(n)]], 'n%d' % n
def g_zlim(rng):
    if rng.random() < .5: return [], []
    a = gdbl(rng, mag=False); return D(a) if rng.random() < .8 else [], D(a + rng.randint(1, 9)) if rng.random() < .8 else []
def gen_polyelem(rng, quick):
    xs, ys = g_ring(rng); zmin, zmax = g_zlim(rng)
    return [xs, ys, zmin, zmax], 'z' if zmin or zmax else 'noz'
def gen_polygons(rng, quick):
    n = rng.choice([0, 1, 1, 2, 3, 6])
    out = []
    for _ in range(n):
        xs, ys = g_ring(rng); zmin, zmax = g_zlim(rng); out.append([xs, ys, zmin, zmax])
    return out, 'npol%d' % n
def gen_hermite(rng, quick):
    if rng.random() < .5:
        n = rng.choice([1, 2, 3, 8, 30])
        psi = [D(gdbl(rng, mag=False)) for _ in range(n)]
        b = [D(gdbl(rng, na=True, mag=False)) for _ in range(8)] if rng.random() < .7 else []
        r = Fraction(rng.choice([8, 8, 8, 7, 4, 1, 12]), 8)
        return [0, rng.random() < .5, D(r), psi, b, [], [], 0], 'coeffs-point' if r >= 1 else 'coeffs-block'
    n = rng.choice([20, 50, 200]); data = [D(Fraction(math.exp(rng.gauss(0, 1)))) for _ in range(n)]
    blk = rng.random() < .4
    return [1, rng.random() < .5, D(Fraction(rng.choice([7, 5]), 8)) if blk else [], data, [], [], [], rng.choice([3, 10, 30])], 'fitted-block' if blk else 'fitted-point'


# ---- Db / DbGrid
LOCN = ['x', 'z', 'v', 'f', 'g', 'lower', 'upper', 'p', 'w', 'code', 'sel', 'dom', 'dblk', 'adir', 'adip', 'size', 'bu', 'bd', 'time', 'layer',
        'nostat', 'tangent', 'ncsimu', 'facies', 'gausfac', 'date', 'rklow', 'rkup', 'sum']
UNIQ = {8, 9, 10, 11, 13, 14, 15, 16, 17, 19, 25}
def g_cols(rng, nech, quick, special=None, used=()):
    """columns with a valid locator assignment (contiguous indices per type), in any column order"""
    ncol = rng.choice([0, 1, 2, 3, 4, 6] + ([] if quick else [12, 30]))
    locs = []
    counts = {}
    for _ in range(ncol):
        r = rng.random()
        if r < .35: t = -1
        elif r < .7: t = rng.choice([0, 1, 1, 2, 3])
        elif r < .9: t = rng.choice([4, 5, 6, 7, 12, 18, 20, 21, 22, 26, 27, 28] + sorted(UNIQ))
        else: t = rng.choice([23, 24])
        if t in UNIQ and counts.get(t, 0): t = -1
        if t in used: t = -1
        if t >= 0: counts[t] = counts.get(t, 0) + 1
        locs.append(t)
    # indices: a permutation of 0..k-1 inside each type
    idx = {}
    for t, k in counts.items():
        perm = list(range(k))
        if rng.random() < .4: rng.shuffle(perm)
        idx[t] = perm
    cols = []; names = set()
    for j, t in enumerate(locs):
        nm = gname(rng, j)
        if special == 'provisional' and rng.random() < .5: nm = 'New-%d' % rng.randint(1, ncol + 2)
        while nm in names: nm += 'b'
        names.add(nm)
        cols.append([S(nm), t, idx[t].pop(0) if t >= 0 else 0, [D(gdbl(rng, na=True)) for _ in range(nech)]])
    tags = set()
    if any(t in (23, 24) for t in locs): tags.add('facies-locator')
    return cols, tags
def gen_db(rng, quick):
    nech = rng.choice([1, 1, 2, 5, 20] + ([] if quick else [300]))
    special = rng.choice([None, None, None, None, 'provisional', 'blank', 'hash', 'NA-name'])
    cols, tags = g_cols(rng, nech, quick, special)
    if rng.random() < .05: nech = 0; cols = []; tags = {'no-sample'}
    if special == 'blank' and cols: cols[rng.randrange(len(cols))][0] = S('Zn ppm'); tags.add('name-with-blank')
    if special == 'hash' and cols: cols[rng.randrange(len(cols))][0] = S('#1'); tags.add('name-starting-with-hash')
    if special == 'NA-name' and cols: cols[rng.randrange(len(cols))][0] = S('NA')
    if special == 'provisional': tags.add('provisional')
    hist = rng.choice([1, 2]) if rng.random() < .3 else 0          # provisional columns in the history: UID != rank
    if hist: tags.add('history')
    return [nech, rng.random() < .5, cols, False, hist], '+'.join(sorted(tags)) or 'plain'
def gen_dbgrid(rng, quick):
    ndim = rng.choice([1, 2, 2, 3])
    nx = [rng.choice([1, 2, 3, 4]) for _ in range(ndim)]
    nech = 1
    for k in nx: nech *= k
    dx = [D(gdbl(rng, pos=True, mag=False)) for _ in range(ndim)]
    x0 = [D(gdbl(rng, mag=rng.random() < .2)) for _ in range(ndim)]
    if ndim == 1 or rng.random() < .5: angles = [D(Fraction(0))] * ndim; tag = 'unrotated'
    elif ndim == 2: angles = [D(Fraction(rng.choice([30, 45, 12.5, -60, 90]))), D(Fraction(0))]; tag = 'rotated'
    else: angles = [D(Fraction(rng.choice([30, 45, 10]))), D(Fraction(rng.choice([0, 20]))), D(Fraction(rng.choice([0, 5])))]; tag = 'rotated'
    addcoor = rng.random() < .7
    cols, tags = g_cols(rng, nech, True, None, used=(0,) if addcoor else ())
    hist = rng.choice([1, 2]) if rng.random() < .3 else 0
    if hist: tags.add('history')
    return [nx, dx, x0, angles, rng.random() < .5, addcoor, cols, False, hist], tag + ''.join('+' + t for t in sorted(tags))

# ---- Vario
def gen_vario(rng, quick):
    ndim = rng.choice([1, 2, 2, 3]); nvar = rng.choice([1, 1, 2, 3])
    calcul = rng.choice([0, 0, 0, 0, 1, 2, 3, 9, 10])
    if calcul in (11, 12, 13) and nvar < 2: calcul = 0
    scale = Fraction(0)
    dates = []
    ongrid = ndim == 2 and rng.random() < .25
    dirs = []
    tags = set()
    if ongrid:
        nx = [rng.choice([3, 4, 5]), rng.choice([3, 4])]
        nech = nx[0] * nx[1]
        coords = nx
        for g in rng.sample([[1, 0], [0, 1], [1, 1], [1, -1]], rng.choice([1, 2])):
            dirs.append([1, rng.choice([2, 3]), [], [], [], 0, 0, [], [], [], [], [], g])
        tags.add('grid')
    else:
        nech = rng.choice([5, 8, 15] + ([] if quick else [60]))
        coords = [[D(Fraction(rng.randint(0, 40), 4)) for _ in range(nech)] for _ in range(ndim)]
        for _ in range(rng.choice([1, 1, 2, 3])):
            npas = rng.choice([2, 3, 5])
            codir = []
            if rng.random() < .6:
                v = [rng.gauss(0, 1) for _ in range(ndim)]; n = math.sqrt(sum(x * x for x in v)) or 1.
                codir = [D(Fraction(x / n)) for x in v]
            bench = D(Fraction(rng.randint(1, 8), 2)) if rng.random() < .15 and ndim == 3 else []
            cyl = D(Fraction(rng.randint(1, 8), 2)) if rng.random() < .15 and ndim >= 2 else []
            breaks = []
            if rng.random() < .12:
                b = sorted(set(Fraction(rng.randint(0, 30), 4) for _ in range(npas + 1)))
                if len(b) >= 3: breaks = [D(x) for x in b]; npas = len(b) - 1; tags.add('breaks')
            if bench: tags.add('bench')
            if cyl: tags.add('cylrad')
            dirs.append([0, npas, D(Fraction(rng.randint(2, 12), 4)), D(Fraction(1, 2)), D(Fraction(rng.choice([90, 45, 22.5, 10]))), 0, 0, bench, cyl, D(Fraction(0)), breaks, codir, []])
    def gval(na): return None if na and rng.random() < .12 else Fraction(rng.randint(-800, 800), rng.choice([1, 4, 8]))      # moderate: results stay far below 1e30
    vals = [[D(gval(rng.random() < .3)) for _ in range(nech)] for _ in range(nvar)]
    nas = []
    if rng.random() < .15: nas = [[0, rng.randint(0, 2), rng.randint(0, 2)]]; tags.add('undefined-result')
    tags.add('calcul%d' % calcul)
    return [ndim, nvar, calcul, D(scale), dates, nech if not ongrid else 0, coords, vals, dirs, nas], '+'.join(sorted(tags))

# ---- Model
COV_RANGE = [1, 2, 3, 4, 5, 9, 18, 24, 25, 26]      # exponential, spherical, gaussian, cubic, sincard, cauchy(param), triangle, wendland
COV_PARAM = [7, 10, 9, 8]                               # matern, stable, cauchy, gamma
def gen_model(rng, quick):
    ndim = rng.choice([1, 2, 2, 3]); nvar = rng.choice([1, 1, 2, 3])
    ncov = rng.choice([0, 1, 1, 2, 3])
    covs = []; tags = set()
    for _ in range(ncov):
        r = rng.random()
        if r < .2: t = 0
        elif r < .75: t = rng.choice(COV_RANGE)
        else: t = rng.choice(COV_PARAM)
        if t == 18 and ndim > 1: t = 2
        param = Fraction(rng.choice([1, 2, 3, 6]), 4) if t in COV_PARAM else Fraction(1)
        if t == 10: param = Fraction(rng.choice([2, 4, 6, 8]), 4)
        rng_ = gdbl(rng, pos=True, mag=False) + Fraction(1, 8)
        ranges = []; angles = []
        if t != 0 and ndim > 1 and rng.random() < .5:
            ranges = [D(gdbl(rng, pos=True, mag=False) + Fraction(1 + k, 8)) for k in range(ndim)]; tags.add('aniso')
            if len(set(map(tuple, ranges))) < 2: ranges[0] = D(undy(ranges[0]) * 2)
            if rng.random() < .6:
                angles = [D(Fraction(rng.choice([30, 45, 10, 123, -20]))), D(Fraction(0))] if ndim == 2 else [D(Fraction(rng.choice([30, 10]))), D(Fraction(rng.choice([0, 20]))), D(Fraction(rng.choice([0, 7])))]
                tags.add('rotated')
        # sills: symmetric, diagonally dominant
        a = [[Fraction(rng.randint(-3, 3), 4) for _ in range(nvar)] for _ in range(nvar)]
        sl = [[(a[i][j] + a[j][i]) / 2 if i != j else Fraction(nvar) + abs(a[i][i]) for j in range(nvar)] for i in range(nvar)]
        covs.append([t, D(rng_), D(param), ranges, [D(x) for row in sl for x in row], angles])
    drifts = []
    if rng.random() < .4: drifts = [rng.choice([0, 1, 2]), rng.choice([0, 0, 1, 2])]; tags.add('drift')
    means = [D(gdbl(rng, mag=False)) for _ in range(nvar)] if rng.random() < .5 else []
    if means and drifts: tags.add('means+drift')
    covar0 = [D(gdbl(rng, mag=False)) for _ in range(nvar * nvar)] if rng.random() < .3 else []
    field = D(gdbl(rng, pos=True, mag=False)) if rng.random() < .4 else []
    return [ndim, nvar, field, covs, drifts, means, covar0], 'ncov%d' % ncov + ''.join('+' + t for t in sorted(tags))

LC = ('L', 'i')      # locator: () or (type index) -- compared as a list of ints
DB = T(('nech', 'i'), ('names', Lst('s')), ('locators', Lst(LC)), ('values', Lst(Lst('d'))))
XDB = T(('ndim', 'i'), ('nactive', 'i'), ('nz', 'i'), ('nx', 'i'))
DBGRID = T(('grid', Lst(T(('nx', 'i'), ('x0', 'd'), ('dx', 'd'), ('angle', 'd')))), ('db', DB))
VDIR = T(('npas', 'i'), ('optionCode', 'i'), ('tolCode', 'd'), ('dpas', 'd'), ('tolDist', 'd'), ('grincr', Lst('i')),
         ('tolAngle', 'd'), ('codir', Lst('d')), ('bench', 'd'), ('cylRad', 'd'), ('idate', 'i'), ('breaks', Lst('d')),
         ('results', Lst(T(('sw', 'd'), ('hh', 'd'), ('gg', 'd')))))
VARIO = T(('ndim', 'i'), ('nvar', 'i'), ('scale', 'd'), ('calcul', 'i'), ('dates', Lst('d')), ('variableNames', Lst('s')), ('vars', Lst(Lst('d'))), ('dirs', Lst(VDIR)))
XVARIO = T(('flagAsym', 'b'))
COVA = T(('type', 'i'), ('param', 'd'), ('ranges', Lst('d')), ('rotMat', Lst('d')), ('sill', Lst(Lst('d'))))
MODEL = T(('ndim', 'i'), ('nvar', 'i'), ('field', 'd'), ('covs', Lst(COVA)), ('drifts', Lst('s')), ('means', Lst('d')), ('covar0', Lst(Lst('d'))))
XMODEL = T(('~value', Lst('d')), ('~angles', Lst(Lst('d'))), ('hasAnam', 'b'))


# ---- classes without a model: dump / reload / dump on the implementation, printed text, record traces
def gq(rng, lo=-64, hi=64, den=64): return D(Fraction(rng.randint(lo, hi), den))
def gen_dbline(rng, quick):
    h = rng.random() < .3
    return [rng.choice([1, 2, 3]), rng.choice([1, 2, 4]), rng.choice([2, 3, 5]), rng.randint(1, 10 ** 5), h], 'history' if h else ''
def gen_dbgrapho(rng, quick):
    n = rng.choice([2, 4, 7])
    arcs = []; seen = set()
    for _ in range(rng.randint(1, 2 * n)):
        i, j = rng.randrange(n), rng.randrange(n)
        if i != j and (i, j) not in seen: seen.add((i, j)); arcs.append([i, j, gq(rng, 1, 64)])
    if not arcs: arcs = [[0, 1, gq(rng, 1, 64)]]
    h = rng.random() < .3
    return [n, [gq(rng) for _ in range(n)], [gq(rng) for _ in range(n)], [D(gdbl(rng, na=True, mag=False)) for _ in range(n)], arcs, h], 'n%d%s' % (n, '+history' if h else '')
def lognormal(rng, n): return [D(Fraction(round(rng.lognormvariate(0, 1) * 64) + 1, 64)) for _ in range(n)]
def gen_anamemp(rng, quick):
    return [rng.choice([10, 30, 100]), [] if rng.random() < .6 else D(Fraction(1, 8)), rng.random() < .4, rng.random() < .6, lognormal(rng, rng.choice([20, 60]))], ''
def gen_anamdd(rng, quick):
    n = rng.choice([1, 2, 3, 5]); zc = sorted(set(Fraction(rng.randint(1, 200), 16) for _ in range(n))); n = len(zc)
    return [D(Fraction(rng.choice([8, 12, 16]), 8)), D(Fraction(rng.choice([0, 2, 4, 7]), 8)), [D(z) for z in zc],
            [gq(rng, 0, 64) for _ in range((n + 1) * 6)], [gq(rng) for _ in range(n * n)], [gq(rng) for _ in range(n * n)]], 'ncut%d' % n
def gen_anamir(rng, quick):
    n = rng.choice([1, 2, 3, 5]); zc = sorted(set(Fraction(rng.randint(1, 200), 16) for _ in range(n)))
    return [D(Fraction(rng.choice([0, 4, 7, 8]), 8)), [D(z) for z in zc], lognormal(rng, rng.choice([30, 80]))], 'ncut%d' % len(zc)
def gen_meshturbo(rng, quick):
    ndim = rng.choice([1, 2, 2, 3]); nx = [rng.choice([2, 3, 4]) for _ in range(ndim)]
    ang = [D(Fraction(0))] * ndim if ndim == 1 or rng.random() < .5 else [D(Fraction(rng.choice([30, 45, 12.5])))] + [D(Fraction(0))] * (ndim - 1)
    nech = 1
    for v in nx: nech *= v
    sel = []; tag = ''
    if rng.random() < .3 and min(nx) >= 3:
        # a few masked nodes, never so many that no mesh stays active (a fully masked mesh is written like an unmasked one)
        off = set(rng.sample(range(nech), rng.choice([1, 1, 2])))
        # at least one cell of the grid keeps all its corners (a selection that leaves no active mesh gives a mesh that is
        # written like an unmasked one: degenerate object, left out)
        import itertools
        def node(idx): return sum(i * math.prod(nx[:d]) for d, i in enumerate(idx))
        alive = any(all(node([i + c for i, c in zip(cell, corner)]) not in off for corner in itertools.product((0, 1), repeat=ndim))
                    for cell in itertools.product(*[range(n - 1) for n in nx]))
        if not alive: off = set()
        sel = [D(Fraction(0 if k in off else 1)) for k in range(nech)] if off else []; tag = '+masked' if off else ''
    return [nx, [D(gdbl(rng, pos=True, mag=False)) for _ in range(ndim)], [D(gdbl(rng, mag=False)) for _ in range(ndim)], ang, rng.random() < .5, sel, rng.choice([0, 1])], 'ndim%d%s' % (ndim, tag)
def gen_meshstd(rng, quick):
    if rng.random() < .6:
        k = rng.choice([1, 2, 3]); ap = []; me = []
        for i in range(k + 1):
            ap += [D(Fraction(i)), D(Fraction(0)), D(Fraction(i)), D(Fraction(1) + Fraction(rng.randint(0, 8), 16))]
        for i in range(k):
            a, b, c, d = 2 * i, 2 * i + 1, 2 * i + 2, 2 * i + 3
            me += [a, b, c, b, c, d]
        return [2, ap, me], '2d'
    ap = [D(Fraction(x)) for p in [(0, 0, 0), (1, 0, 0), (0, 1, 0), (0, 0, 1), (1, 1, 1)] for x in p]
    return [3, ap, [0, 1, 2, 3, 1, 2, 3, 4]], '3d'
RULES = [['S', 'F1', 'T', 'F2', 'S', 'F3', 'F4'], ['S', 'F1', 'F2'], ['T', 'F1', 'F2'], ['S', 'S', 'F1', 'F2', 'F3'], ['S', 'T', 'F1', 'F2', 'T', 'F3', 'F4']]
def gen_rule(rng, quick): return [[S(x) for x in rng.choice(RULES)], D(Fraction(rng.choice([0, 0, 4, -3, 7]), 8))], ''
def gen_ruleshift(rng, quick): return [[S(x) for x in rng.choice([['S', 'S', 'S', 'F1', 'F2', 'F3', 'F4'], ['S', 'F1', 'F2']])], [gq(rng, 1, 64), gq(rng, 0, 64)] + ([gq(rng)] if rng.random() < .8 else [])], ''
def gen_ruleshadow(rng, quick): return [gq(rng, 1, 64), gq(rng, 1, 128), gq(rng, -128, -1), [gq(rng, 1, 64), gq(rng, 0, 64)] + ([gq(rng)] if rng.random() < .8 else [])], ''
def gen_faults(rng, quick):
    out = []
    for _ in range(rng.choice([0, 1, 2, 4])):
        n = rng.choice([2, 3, 6]); out.append([[D(gdbl(rng, mag=False)) for _ in range(n)], [D(gdbl(rng, mag=False)) for _ in range(n)]])
    return out, 'n%d' % len(out)
def gen_frac(rng, quick):
    nf = rng.choice([0, 1, 2, 3])
    fams = [[gq(rng, 0, 90 * 64), gq(rng, 0, 1280), gq(rng, 1, 64), gq(rng, 0, 128), gq(rng, 0, 64), gq(rng, 0, 64), gq(rng, 0, 64), gq(rng, 0, 256), gq(rng, 0, 256), gq(rng, 1, 640)] for _ in range(nf)]
    faults = [[gq(rng, 0, 6400), gq(rng, 0, 5760), [[gq(rng, 0, 128), gq(rng, 0, 128), gq(rng, 1, 1280), gq(rng, 1, 1280)] for _ in range(nf)]] for _ in range(rng.choice([0, 1, 2]))]
    return [gq(rng, 64, 6400), gq(rng, 64, 6400), gq(rng, 0, 64), gq(rng, 0, 64), gq(rng, 0, 1280), gq(rng, 0, 640), fams, faults], 'nfam%d' % nf
def gen_neighimage(rng, quick):
    ndim = rng.choice([1, 2, 2, 3]); return [ndim, [rng.choice([1, 2, 3, 10]) for _ in range(ndim)], rng.choice([0, 1, 3]), g_aneigh(rng, ndim)], 'ndim%d' % ndim
TEXT = T(('~text', 's'))
DBLINE = T(('lines', Lst(Lst('i'))), ('db', DB))
DBGRAPH = T(('arcs', Lst(T(('row', 'i'), ('col', 'i'), ('value', 'd')))), ('db', DB))
ADISC = [('zcut', Lst('d')), ('nelem', 'i'), ('stats', Lst('d'))]
ANAMIR = T(*(ADISC + [('rCoef', 'd')]))
ANAMDD = T(*(ADISC + [('sCoef', 'd'), ('mu', 'd'), ('pcaZ2F', Lst('d')), ('pcaF2Z', Lst('d'))]))
MESHSTD = T(('ndim', 'i'), ('napices', 'i'), ('napexpermesh', 'i'), ('nmeshes', 'i'), ('apices', Lst('d')), ('meshes', Lst('i')))
RULE = T(('mode', 'i'), ('rho', 'd'), ('nodes', Lst(T(('type', 'i'), ('facies', 'i')))))
RSHIFT = T(('rule', RULE), ('slope', 'd'), ('shDown', 'd'), ('shDsup', 'd'), ('shift', Lst('d')))
FAULTS = Lst(PTS)
FRAC = T(('xmax', 'd'), ('ymax', 'd'), ('deltax', 'd'), ('deltay', 'd'), ('mean', 'd'), ('stdev', 'd'),
         ('families', Lst(T(*[(n, 'd') for n in ('orient', 'dorient', 'theta0', 'alpha', 'ratcst', 'prop1', 'prop2', 'aterm', 'bterm', 'range')]))),
         ('faults', Lst(T(('coord', 'd'), ('orient', 'd'), ('thetal', Lst('d')), ('thetar', Lst('d')), ('rangel', Lst('d')), ('ranger', Lst('d'))))))
IMAGE = T(('base', ANEIGH), ('skip', 'i'), ('radius', Lst('i')))
XDBLINE = T(('~text', 's'), ('db', XDB), ('nlines', 'i'))
XDBGRAPH = T(('~text', 's'), ('db', XDB), ('arcMatrixRows', 'i'), ('arcMatrixCols', 'i'))
XANAMDD = T(('~text', 's'), ('~mean', 'd'), ('~variance', 'd'), ('~pcaZ2F(i,j)', Lst('d')), ('~stats(i,j)', Lst('d')))
XANAMIR = T(('~text', 's'), ('~mean', 'd'), ('~variance', 'd'), ('~stats(i,j)', Lst('d')))
XMESHSTD = T(('~text', 's'), ('~apexCoor', Lst('d')), ('~apex', Lst('i')))
EMPIRICAL = T(('azmin', 'd'), ('azmax', 'd'), ('aymin', 'd'), ('aymax', 'd'), ('pzmin', 'd'), ('pzmax', 'd'), ('pymin', 'd'), ('pymax', 'd'),
              ('mean', 'd'), ('variance', 'd'), ('sigma2e', 'd'), ('zDisc', Lst('d')), ('yDisc', Lst('d')), ('flagDilution', 'b'), ('flagGaussian', 'b'))
TURBO = T(('nx', Lst('i')), ('dx', Lst('d')), ('x0', Lst('d')), ('rotMat', Lst('d')), ('polarized', 'b'), ('mode', 'i'), ('meshMask', Lst('i')), ('gridMask', Lst('i')))

HERMITE = T(('azmin', 'd'), ('azmax', 'd'), ('aymin', 'd'), ('aymax', 'd'), ('pzmin', 'd'), ('pzmax', 'd'), ('pymin', 'd'), ('pymax', 'd'),
            ('mean', 'd'), ('variance', 'd'), ('rCoef', 'd'), ('psiHn', Lst('d')), ('flagBound', 'b'))
CLASSES = [
    Cls(1, 'NeighUnique', ANEIGH, T(), gen_unique),
    Cls(2, 'NeighBench', T(('base', ANEIGH), ('width', 'd'), ('checkerWidth', 'd')), T(), gen_bench),
    Cls(3, 'NeighCell', T(('base', ANEIGH), ('nmini', 'i')), T(), gen_cell),
    Cls(4, 'NeighMoving', T(('base', ANEIGH), ('nmini', 'i'), ('nmaxi', 'i'), ('nsect', 'i'), ('nsmax', 'i'), ('distCont', 'd'), ('radius', 'd'),
                            ('flagAniso', 'b'), ('flagRotation', 'b'), ('anisoCoeffs', Lst('d')), ('anisoRotMat', Lst('d'))),
        T(('checkerNDim', 'i'), ('~normalizedDistance', 'd'), ('~normalizedDistance', 'd'), ('flagSector', 'b')), gen_moving),
    Cls(5, 'Table', T(('ncols', 'i'), ('nrows', 'i'), ('values', Lst(Lst('d')))), T(('rowNames', Lst('s')), ('colNames', Lst('s')), ('title', 's')), gen_table),
    Cls(6, 'PolyLine2D', PTS, T(), gen_polyline),
    Cls(7, 'PolyElem', PE, T(), gen_polyelem),
    Cls(8, 'Polygons', Lst(PE), T(('~inside', Lst('b'))), gen_polygons),
    Cls(10, 'Db', DB, XDB, gen_db),
    Cls(11, 'DbGrid', DBGRID, T(('db', XDB), ('~lastNode', Lst('d'))), gen_dbgrid),
    Cls(12, 'Vario', VARIO, XVARIO, gen_vario),
    Cls(13, 'Model', MODEL, XMODEL, gen_model),
    Cls(9, 'AnamHermite', HERMITE, T(('~psiHns', Lst('d')), ('~rawValue', Lst('d'))), gen_hermite),
    Cls(20, 'DbLine', DBLINE, XDBLINE, gen_dbline, wave=2),
    Cls(21, 'DbGraphO', DBGRAPH, XDBGRAPH, gen_dbgrapho, wave=2),
    Cls(22, 'AnamEmpirical', EMPIRICAL, TEXT, gen_anamemp),
    Cls(23, 'AnamDiscreteDD', ANAMDD, XANAMDD, gen_anamdd, wave=2),
    Cls(24, 'AnamDiscreteIR', ANAMIR, XANAMIR, gen_anamir, wave=2),
    Cls(25, 'MeshETurbo', TURBO, TEXT, gen_meshturbo),
    Cls(26, 'MeshEStandard', MESHSTD, XMESHSTD, gen_meshstd, wave=2),
    Cls(27, 'Rule', RULE, TEXT, gen_rule, wave=2),
    Cls(28, 'RuleShift', RSHIFT, TEXT, gen_ruleshift, wave=2),
    Cls(29, 'RuleShadow', RSHIFT, TEXT, gen_ruleshadow, wave=2),
    Cls(30, 'Faults', FAULTS, TEXT, gen_faults, wave=2),
    Cls(31, 'FracEnviron', FRAC, TEXT, gen_frac, wave=2),
    Cls(32, 'NeighImage', IMAGE, TEXT, gen_neighimage, wave=2),
]
BYID = {c.cid: c for c in CLASSES}

def beh_key(cls, path, case):
    if cls.name == 'AnamEmpirical': return 'AnamEmpirical:field-never-written'
    if cls.name == 'MeshEStandard' and path.endswith('text'): return 'MeshEStandard:space-dimension-not-restored'          # regression
    if cls.name in ('AnamDiscreteIR', 'AnamDiscreteDD') and path.split('~')[-1] in ('mean', 'variance'): return 'AnamDiscrete:mean-variance-not-restored'
    if cls.name in ('RuleShift', 'RuleShadow') and len(case[2][1] if cls.name == 'RuleShift' else case[2][3]) < 3: return 'RuleShift:shift-padded-to-3-components'
    return '%s:behaviour-%s-differs' % (cls.name, path.split('~')[-1].rstrip('#'))

def fail_key(cls, case, what):
    """key of a dump / reload failure or crash: the option combination that explains it when there is one"""
    if cls.name in ('Db', 'DbGrid'):
        cols = case[2][2] if cls.name == 'Db' else case[2][6]
        if any(' ' in US(c[0]) or US(c[0]).startswith('#') for c in cols): return 'Db:column-name-needs-quoting'
    if cls.name == 'Vario' and len(case[2]) > 10 and any(' ' in US(n) or US(n).startswith('#') for n in case[2][10]): return 'Db:column-name-needs-quoting'
    if cls.name == 'Vario' and case[2][2] in (1, 2, 9): return 'Vario:calcul-type-not-saved'         # regression
    if cls.name == 'Rule' and len(case[2][0]) == 1: return 'Rule:single-facies-rule-not-reloaded'
    if cls.name == 'Table' and what == 'reload-fails' and (case[2][0] == 0 or case[2][1] == 0): return 'Table:table-without-rows-not-reloaded'
    if cls.name == 'NeighImage' and what == 'crash': return 'NeighImage:reload-writes-radius-out-of-bounds'  # regression
    if cls.name == 'DbLine' and case[2][2] < 2: return 'ASerializable:empty-vector-not-read-back'
    if cls.name == 'FracEnviron' and what == 'reload-fails' and not case[2][6] and case[2][7]: return 'ASerializable:empty-vector-not-read-back'
    if cls.name == 'FracEnviron' and what == 'reload-fails': return 'FracEnviron:class-tag-with-blank'   # regression
    return '%s:%s' % (what if what == 'crash' else cls.name, cls.name if what == 'crash' else what)

# refined keys: (class, path) -> canonical key of a known asymmetry; default is '<Class>:<path>-not-preserved'
# Keys.  Two families:
#  - defects still in the tree (known findings), consolidated by root cause:  <Class>:field-never-written, ...
#  - regression keys of defects that have been fixed: they fire again, under their old name, if the fix is reverted
def key_of(cls, path, a, b, case, allpaths=()):
    p = path.rstrip('#')
    last = p.split('.')[-1]
    if last in ('flagXvalid', 'flagKFold', 'useBallSearch', 'ballLeafSize'): return 'Neigh:field-never-written'
    if cls.name == 'NeighMoving':
        if p == 'distCont': return 'Neigh:field-never-written'
        if p == 'anisoCoeffs': return 'NeighMoving:aniso-coeffs-scaled-by-radius'            # regression
        if p == 'flagRotation': return 'NeighMoving:rotation-lost'                            # regression
    if cls.name == 'NeighBench' and p == 'width': return 'NeighBench:width-getter-stale-after-reload'   # regression
    if cls.name == 'Table' and p in ('rowNames', 'colNames', 'title'): return 'Table:field-never-written'
    if cls.name == 'AnamEmpirical' and p in ('flagDilution', 'flagGaussian'): return 'AnamEmpirical:field-never-written'
    if cls.name == 'AnamHermite':
        if p == 'flagBound': return 'AnamHermite:field-never-written'
        if p in ('variance', 'mean') and a is not None and b is not None and abs(a - b) <= 1e-12 * max(abs(a), abs(b)):
            return 'AnamHermite:variance-recomputed-on-reload'
        if p in ('psiHn', 'variance'): return 'AnamHermite:coefficients-scaled-twice-by-support-coefficient'   # regression
    if cls.name in ('Db', 'DbGrid'):
        rec = case[2]; cols = rec[2] if cls.name == 'Db' else rec[6]
        names = [US(c[0]) for c in cols]
        if any(' ' in n or n.startswith('#') for n in names): return 'Db:column-name-needs-quoting'
        if last == 'locators' and any(c[1] in (23, 24) for c in cols): return 'Db:locator-facies-gausfac-read-as-f-g'   # regression
        if last == 'names': return 'Db:name-collides-with-provisional-name'                  # regression
    if cls.name == 'Vario':
        if len(case[2]) > 10 and any(' ' in US(n) or US(n).startswith('#') for n in case[2][10]): return 'Db:column-name-needs-quoting'
        if 'calcul' in allpaths or 'flagAsym' in allpaths: return 'Vario:calcul-type-not-saved'          # regression
        if p.startswith('dirs.results.') and a is None: return 'Vario:undefined-result-written-as-zero'  # regression
        if p in ('dirs.bench', 'dirs.cylRad', 'dirs.idate', 'dirs.breaks', 'dirs.flagRegular', 'dates'): return 'Vario:field-never-written'
    if cls.name in ('RuleShift', 'RuleShadow') and p == 'shift' and path.endswith('#') and len(case[2][1] if cls.name == 'RuleShift' else case[2][3]) < 3:
        return 'RuleShift:shift-padded-to-3-components'
    if cls.name == 'Model':
        if p == 'hasAnam' or (len(case[2]) > 7 and case[2][7]): return 'Model:anamorphosis-not-written'
        if p == 'means' and case[2][4]: return 'Model:field-never-written'
        if p == 'covs.rotMat' and any(cv[5] and len(set(map(tuple, cv[3]))) <= 1 for cv in case[2][3]): return 'Model:rotation-of-isotropic-structure-not-saved'
    if cls.name == 'MeshEStandard' and p == 'ndim': return 'MeshEStandard:space-dimension-not-restored'          # regression
    return '%s:%s-not-preserved' % (cls.name, p or 'items')


# ----------------------------------------------------------------------------- size boundary family
# Objects of realistic size: a vector record is written on ONE line whatever its length (ASerializable::_recordWriteVec,
# _tableWrite); the untitled values of a Table row share a line; the names of a Db are one record.  For every class that
# holds such a record: one object whose longest line exceeds 10 000 characters and one beyond 100 000 (always run; the
# lengths reached are checked and reported in coverage.size_family).
def lv(k):
    """a double with 15 significant digits (17 characters or so in the file)"""
    return Fraction(float('%.15g' % (((k + 1) * 0.6180339887498949) % 1 * 1000 + 0.001)))
def size_cases():
    out = []
    def add(cid, rec, target): out.append(([1, cid, rec], target))
    for target, f in ((10000, 1), (100000, 10)):
        # Table: a row of many untitled values
        nc = 800 if f == 1 else 6200
        add(5, [2, nc, [D(lv(k)) for k in range(2 * nc)], [], [], []], target)
        # Db / DbGrid: many columns (one sample = one line; names and locators = one line each)
        ncol = 800 if f == 1 else 6200
        cols = [[S('v%d' % j), -1 if j % 3 else 1, (j // 3) if j % 3 == 0 else 0, [D(lv(j)), D(lv(j + 7))]] for j in range(ncol)]
        add(10, [2, False, cols, True], target)
        add(11, [[2], [D(Fraction(1))], [D(Fraction(0))], [D(Fraction(0))], False, False, cols, True], target)
        # Db: long column names (one of 12 000 characters; 2 000 of 60 characters: the record of the names is one line)
        if f == 1: add(10, [1, False, [[S('n' * 12000), -1, 0, [D(Fraction(1))]], [S('z'), 1, 0, [D(Fraction(2))]]]], target)
        else: add(10, [1, False, [[S('concentration_of_the_element_number_%05d_in_parts_per_million' % j), -1, 0, [D(Fraction(j))]] for j in range(2000)], True], target)
        # DbLine: one long line of samples
        add(20, [2, 1, 2600 * f if f == 1 else 19000, 4711], target)
        # AnamHermite: many coefficients
        n = 750 if f == 1 else 5700
        add(9, [0, True, D(Fraction(1)), [D(lv(k) / 1000) for k in range(n)], [], [], [], 0], target)
        # AnamEmpirical: many discretisation points
        nd = 700 if f == 1 else 5600
        add(22, [nd, [], False, True, [D(Fraction((k * 7919) % (nd * 13) + 1, 1024)) for k in range(nd + 50)]], target)
        # AnamDiscreteDD: the two PCA matrices (ncut x ncut values on one line)
        n = 30 if f == 1 else 76
        add(23, [D(Fraction(1)), D(Fraction(1, 4)), [D(Fraction(k + 1, 4)) for k in range(n)], [D(lv(k) / 1000) for k in range((n + 1) * 6)],
                 [D(lv(k) / 1000) for k in range(n * n)], [D(lv(k + 5) / 1000) for k in range(n * n)]], target)
        # AnamDiscreteIR: the statistics ((ncut + 1) x 4 values on one line)
        n = 220 if f == 1 else 950
        add(24, [D(Fraction(7, 8)), [D(Fraction(k + 1, 16)) for k in range(n)], [D(Fraction((k * 7919) % (n * 17) + 1, 256)) for k in range(4 * n)]], target)
        # MeshETurbo on a masked grid: the ranks of the active meshes / nodes
        nx = 52 if f == 1 else 100
        add(25, [[nx, nx], [D(Fraction(1)), D(Fraction(1))], [D(Fraction(0)), D(Fraction(0))], [D(Fraction(0)), D(Fraction(0))], False,
                 [D(Fraction(0 if k in (5, 77) else 1)) for k in range(nx * nx)], 1], target)
        # MeshEStandard: a strip of triangles
        k = 800 if f == 1 else 3600; ap = []; me = []
        for i in range(k + 1): ap += [D(Fraction(i)), D(Fraction(0)), D(Fraction(i)), D(Fraction(1) + Fraction(i % 8, 16))]
        for i in range(k): me += [2 * i, 2 * i + 1, 2 * i + 2, 2 * i + 1, 2 * i + 2, 2 * i + 3]
        add(26, [2, ap, me], target)
        # FracEnviron: a main fault with many families (four vectors of one value per family)
        # (beyond 100 000 characters the file of a FracEnviron has tens of thousands of records: left out)
        if f == 1:
            nf = 700
            fam = [D(Fraction(30)), D(Fraction(5)), D(Fraction(1, 2)), D(Fraction(1)), D(Fraction(0)), D(Fraction(1, 4)), D(Fraction(1, 8)), D(Fraction(2)), D(Fraction(3)), D(Fraction(10))]
            add(31, [D(Fraction(100)), D(Fraction(50)), D(Fraction(0)), D(Fraction(0)), D(Fraction(10)), D(Fraction(2)), [fam] * nf,
                     [[D(Fraction(20)), D(Fraction(45)), [[D(lv(k) / 1000), D(lv(k + 1) / 1000), D(lv(k + 2)), D(lv(k + 3))] for k in range(nf)]]]], target)
        # Vario: irregular lags (the breaks are one record)
        nb = 1900 if f == 1 else 9000
        add(12, [1, 1, 0, D(Fraction(0)), [], 6, [[D(Fraction(k * k, 4)) for k in range(6)]], [[D(Fraction(k + 1)) for k in range(6)]],
                 [[0, nb, D(Fraction(1)), D(Fraction(1, 2)), D(Fraction(90)), 0, 0, [], [], D(Fraction(0)), [D(Fraction(k, 512)) for k in range(nb + 1)], [D(Fraction(1))], []]], []], target)
    return out

# ----------------------------------------------------------------------------- running the two sides on large cases
# (same protocol as common.run_impl / run_model; the results of the size family hold files of hundreds of thousands of
#  characters as lists of character codes: they are parsed with a non-recursive reader, several times faster)
import re, subprocess
_TOK = re.compile(r'[()]|-?[0-9]+')
def fast_parse(line):
    stack = [[]]
    for t in _TOK.findall(line):
        if t == '(': stack.append([])
        elif t == ')':
            x = stack.pop(); stack[-1].append(x)
        else: stack[-1].append(int(t))
    return stack[0][0] if stack[0] else None

def run_impl_fast(ctx, exe, casefile, env=None, timeout=1800):
    outp = casefile + '.impl'
    e = dict(os.environ); e.update(env or {})
    open(outp, 'w').close()
    with open(casefile + '.impl.log', 'w') as fl:
        try: rc = subprocess.run([exe, casefile, outp], stdout=fl, stderr=fl, timeout=timeout, env=e).returncode
        except subprocess.TimeoutExpired: rc = 124
    return rc, [fast_parse(l) for l in open(outp) if l.strip()]

def run_model_fast(ctx, runner, casefile, timeout=1800):
    """the extracted model on the case file, split in parts evaluated in parallel (stack limit lifted: the lexer of the
    model is structurally recursive on the characters of the file)"""
    from concurrent.futures import ThreadPoolExecutor
    lines = [l for l in open(casefile) if l.strip() and not l.startswith('#')]
    jobs = min(NPROC, max(1, len(lines) // 8))
    def one(j):
        part = casefile + '.part%d' % j
        with open(part, 'w') as f: f.writelines(lines[j::jobs])
        with open(part + '.out', 'w') as fo:
            try: rc = subprocess.run(['bash', '-c', 'ulimit -s unlimited; exec "%s" "%s"' % (runner, part)], stdout=fo, stderr=subprocess.DEVNULL, timeout=timeout).returncode
            except subprocess.TimeoutExpired: rc = 124
        out = [fast_parse(l) for l in open(part + '.out') if l.strip()]
        os.remove(part); os.remove(part + '.out')
        return rc, out
    with ThreadPoolExecutor(max_workers=jobs) as ex: parts = list(ex.map(one, range(jobs)))
    res = [None] * len(lines); rc = 0
    for j, (r, out) in enumerate(parts):
        rc = rc or r
        for k, idx in enumerate(range(j, len(lines), jobs)):
            res[idx] = out[k] if k < len(out) else None
    if any(r is None for r in res): res = [r for r in res if r is not None]
    return rc, res
# ----------------------------------------------------------------------------- main
def replay(ctx, path):
    """bin/check C08 --replay <replay file>: runs the recipe of a replay file again and prints what differs"""
    build_lib(ctx)
    exe = build_harness(ctx, 'C08')
    if exe is None: print('ERROR: harness does not build'); sys.exit(3)
    d = json.load(open(path))
    rec = d.get('replay', {})
    case = rec.get('recipe') or rec.get('case')
    if not case: print('ERROR: no recipe in', path); sys.exit(3)
    case = sx_parse(case)
    nfdir = tempfile.mkdtemp(prefix='C08_nf_', dir=BUILD)
    try:
        res = run_impl_all(ctx, exe, 'replay', [case], {'VERIF_C08_DIR': nfdir})
    finally:
        shutil.rmtree(nfdir, ignore_errors=True)
    r = res[0]
    print('case:', sx_str(case)[:400])
    if case[0] != 1 or r is None or len(r) < 11:
        print('result:', r if not (r and r[0] == -990) else 'the process dies during: ' + US(r[1])); sys.exit(1 if not r or r[0] < 0 else 0)
    cls = BYID[case[1]]
    okd, fileA, okl, G0, X0, G1, X1, fileB = r[:8]
    print('class %s: dump %s, reload %s, second dump %s' % (cls.name, 'ok' if okd else 'FAILS', 'ok' if okl else 'FAILS', 'identical' if fileA == fileB else 'DIFFERS'))
    print(US(fileA))
    bad = 0
    if okl:
        for pth, a, b in diffs(cls.G, G0, G1, undy, undy, same15) + diffs(cls.X, X0, X1, undy, undy, same15):
            print('  %s: %r before saving, %r after reloading' % (pth, a, b)); bad += 1
    sys.exit(1 if (bad or not okd or not okl or fileA != fileB) else 0)

def run(ctx):
    if ctx.tier == '--replay' or os.environ.get('VERIF_REPLAY'):
        # python3 checks/C08.py C08 --replay <file>   or   VERIF_REPLAY=<file> bin/check C08
        return replay(ctx, os.environ.get('VERIF_REPLAY') or sys.argv[3])
    quick = ctx.quick()
    build_lib(ctx); ctx.log('library ready')
    proofs_ok = coq_properties(ctx); ctx.log('theorems re-checked')
    runner = build_runner(ctx); ctx.log('model runner ready')
    exe = build_harness(ctx, 'C08'); ctx.log('harness ready')
    if runner is None or exe is None:
        print('ERROR: model runner or harness does not build'); sys.exit(3)
    rng = ctx.rng
    nfdir = tempfile.mkdtemp(prefix='C08_nf_', dir=BUILD)
    env = {'VERIF_C08_DIR': nfdir}
    try:
        found_input = main_part(ctx, quick, rng, runner, exe, env)
    finally:
        shutil.rmtree(nfdir, ignore_errors=True)
    if not proofs_ok: proof_break_violation(ctx, found_input)
    ctx.cov['trusted_base'] += [
        'ExtrOcamlString (ascii -> char) in coq/C08/Extract.v',
        'binary64 <-> 15-digit decimal text ("%.15g" / strtod, DBL_DIG = 15) is outside the model: a number token prints and parses to itself; '
        'the check converts the model\'s exact rationals to %.15g literals before the library reads them',
        'the lexical model (lines of blank-separated words, cut at the first word starting with #) stands for operator>> / gslSafeGetline+trim; tied by correspondence (b)']
    ctx.assumptions = ['objects are built through the public API; strings are non-empty words without blanks (other strings are exercised separately and reported)',
                       'values compared to 15 significant digits (relative 6e-15), undefined values must stay undefined']

def run_impl_all(ctx, exe, name, cases, env, chunk=24, workers=6):
    """run the harness on all the cases, a few dozen per process (several processes at a time, each in its own scratch
    directory); when a process dies, its cases are run again one per process, so that a crash is charged to the case that
    crashes alone (result (-990 phase)) and to no other"""
    from concurrent.futures import ThreadPoolExecutor
    base = env['VERIF_C08_DIR']
    def run_some(tag, sub, e):
        cf = write_cases(ctx, '%s_%s' % (name, tag), sub)
        rc, res = run_impl_fast(ctx, exe, cf, env=e)
        return res
    def do_chunk(k):
        sub = cases[k * chunk:(k + 1) * chunk]
        d = os.path.join(base, '%s_c%d' % (name, k))
        os.makedirs(d, exist_ok=True)
        e = dict(env); e['VERIF_C08_DIR'] = d
        res = run_some('c%d' % k, sub, e)
        if len(res) == len(sub): return res
        out = []
        for j, c in enumerate(sub):          # isolate
            r = run_some('i%d_%d' % (k, j), [c], e)
            if len(r) == 1: out.append(r[0])
            else:
                try: phase = open(os.path.join(d, 'progress.txt')).read()
                except Exception: phase = '?'
                out.append([-990, S(phase)])
        return out
    nchunk = (len(cases) + chunk - 1) // chunk
    # the heaviest cases first is not needed: the chunks are of comparable weight except the size family, which is split
    with ThreadPoolExecutor(max_workers=max(1, workers)) as ex:
        parts = list(ex.map(do_chunk, range(nchunk)))
    return [r for part in parts for r in part]

def load_corpus(ctx):
    p = os.path.join(VERIF, 'corpus', ctx.pid + '.sx')
    if not os.path.exists(p): return []
    return [sx_parse(l) for l in open(p) if l.strip() and not l.startswith('#')]

def main_part(ctx, quick, rng, runner, exe, env):
    found_input = False
    ctx.notes_seen = set()
    per = 30 if quick else 400
    cases = []; tags = []
    for c in load_corpus(ctx):
        if c[0] == 1 and c[1] in BYID: cases.append(c); tags.append('corpus')
    for cls in CLASSES:
        for _ in range(per if (cls.modelled and cls.wave == 1) else max(6, per // 2)):
            rec, tag = cls.gen(rng, quick)
            cases.append([1, cls.cid, rec]); tags.append(tag)
            ctx.dist('%s:%s' % (cls.name, tag))
    # directed pairs for the sequences: a Db, and a Db with the same columns (other values) whose UIDs differ from the ranks
    seq_pairs = []
    for _ in range(4 if quick else 30):
        rec, tag = gen_db(rng, True)
        if not rec[2] or rec[0] == 0 or 'name' in tag: continue
        a = [rec[0], rec[1], rec[2], False, 0]
        b = [rec[0], rec[1], [[col[0], col[1], col[2], [D(gdbl(rng, na=True)) for _ in range(rec[0])]] for col in rec[2]], False, rng.choice([1, 2])]
        ca, cb = [1, 10, a], [1, 10, b]
        seq_pairs.append((ca, cb)); cases += [ca, cb]; tags += ['pair-plain', 'pair-history']
    # the size family, spread among the other cases (the cases are run by groups, several groups at a time)
    size_target = {}
    sc = size_cases(); step = max(1, len(cases) // (len(sc) + 1))
    merged = []; mtags = []; k = 0
    for j, (c, t) in enumerate(zip(cases, tags)):
        if j % step == step - 1 and k < len(sc):
            size_target[len(merged)] = sc[k][1]; merged.append(sc[k][0]); mtags.append('size>%dk' % (sc[k][1] // 1000)); k += 1
        merged.append(c); mtags.append(t)
    for c, target in sc[k:]:
        size_target[len(merged)] = target; merged.append(c); mtags.append('size>%dk' % (target // 1000))
    cases, tags = merged, mtags
    for i, target in size_target.items(): ctx.dist('%s:size>%dk' % (BYID[cases[i][1]].name, target // 1000))
    # ---- phase 1: implementation round trip
    ctx.log('phase 1: %d cases' % len(cases))
    impl = run_impl_all(ctx, exe, 'p1', cases, env)
    ctx.log('phase 1 done (%d cases on the implementation)' % len(cases))
    ctx.cov['size_family'] = []
    for i, target in sorted(size_target.items()):
        r = impl[i]; name = BYID[cases[i][1]].name
        if r is None or len(r) < 11: ctx.cov['size_family'].append([name, target, None, 'no result']); continue
        longest = max(len(l) for l in US(r[1]).split('\n')) if r[1] else 0
        ctx.cov['size_family'].append([name, target, longest, 'reloaded' if r[2] else 'NOT reloaded'])
        if r[0] and longest < target:
            ctx.notes.append('size family: the %s case meant for a line of more than %d characters only reaches %d' % (name, target, longest))
    hook = any(r[10] for r in impl if r and len(r) > 10)
    if not hook: ctx.notes.append('record-trace hook (hooks/C08.patch) not present in the library: part (c) skipped')
    # ---- phase 2: the model parses impl's file; the model writes the original object
    # oracle of the Model class: which covariance types have a range / a third parameter (asked to the library)
    tf = write_cases(ctx, 'p0', [[5]])
    _, tres = run_impl(ctx, exe, tf, env=env)
    aux = tres[0] if tres else []
    mcases = []; mref = []
    for i, (c, r) in enumerate(zip(cases, impl)):
        if r is None or len(r) < 11: continue
        cls = BYID[c[1]]
        if not cls.modelled: continue
        if r[0] and r[1]:
            mcases.append([1, cls.cid, r[1], aux]); mref.append((i, 'parse'))
        mcases.append([2, cls.cid, to_model(cls.G, r[3]), aux]); mref.append((i, 'write'))
    mf = write_cases(ctx, 'p2', mcases)
    ctx.log('phase 2: %d cases for the model' % len(mcases))
    rcm, mres = run_model_fast(ctx, runner, mf)
    ctx.log('phase 2 done')
    if len(mres) != len(mcases):
        print('ERROR: model runner returned %d results for %d cases' % (len(mres), len(mcases))); sys.exit(3)
    parsed = {}; written = {}
    for (i, what), res in zip(mref, mres):
        if res and res[0] == -999:
            print('ERROR: model rejected case', i, what, sx_str(mcases[mref.index((i, what))])[:300]); sys.exit(3)
        (parsed if what == 'parse' else written)[i] = res
    uq = lambda p: unq(p)
    def phase2_drift(cls, r, p, w):
        okd, fileA, okl, G0, X0, G1, X1, fileB = r[:8]
        fileA, fileB = US(fileA), US(fileB)
        out = []
        if not okd: return out
        if p is not None:
            if (p[0] == 1) != bool(okl): out.append('model %s the file, implementation %s it' % ('reads' if p[0] == 1 else 'rejects', 'reads' if okl else 'rejects'))
            elif okl:
                d = diffs(cls.G, p[1], G1, uq, undy, close_model)
                if d: out.append('model reading of the file differs from the reloaded object at %s' % d[:2])
                e = files_equiv(US(p[2]), fileB)
                if e: out.append('model rewrite differs from the implementation rewrite: ' + e)
        if w is not None:
            e = files_equiv(US(w[0]), fileA)
            if e: out.append('file printed by the model for the original object differs from the dump: ' + e)
        return out
    # ---- phase 3: implementation reads the files written by the model
    rcases = []; rref = []
    for i, res in written.items():
        text = render_numbers(US(res[0]))
        rcases.append([2, cases[i][1], S(text)]); rref.append(i)
    rres = run_impl_all(ctx, exe, 'p3', rcases, env)
    ctx.log('phase 3 done')
    reread = {i: r for i, r in zip(rref, rres)}
    # ---- verdicts
    ndis = 0
    for i, (c, r) in enumerate(zip(cases, impl)):
        cls = BYID[c[1]]
        if r is None or len(r) < 11:
            phase = US(r[1]) if r and r[0] == -990 else repr(r)
            if phase in ('build', 'getters') or (r and r[0] in (-995, -997)):
                # the object could not even be built (the construction crashes, throws or gives nothing): not a save / reload matter
                ctx.dist('excluded:%s:construction-fails' % cls.name); ctx.cov['tie_excluded'] += 1
                if ('build:' + cls.name) not in ctx.notes_seen:
                    ctx.notes_seen.add('build:' + cls.name)
                    ctx.notes.append('%s: the construction of a recipe fails before any save (%s): %s' % (cls.name, phase, sx_str(c)[:600]))
                continue
            k = fail_key(cls, c, 'crash')
            ctx.violation(k, 'saving and reloading a %s crashes the process during: %s' % (cls.name, phase),
                          {'class': cls.name, 'recipe': sx_str(c), 'how': 'build the object of the recipe (harness/C08.cpp, class %d), dumpToNF, createFromNF' % cls.cid})
            found_input = True; ctx.count(sx_str(c)); continue
        okd, fileA, okl, G0, X0, G1, X1, fileB, tw, tr, hk = r
        fileA, fileB = US(fileA), US(fileB)
        ctx.count(sx_str(c)); ctx.sample({'class': cls.name, 'recipe': sx_str(c[2])[:200], 'file': fileA[:300]}, maxn=6)
        vio = []          # (key, text)
        if not okd: vio.append((fail_key(cls, c, 'dump-fails'), 'dumpToNF fails'))
        elif not okl:
            longest = max(len(l) for l in fileA.split('\n'))
            if longest >= 10000 and not any(' ' in US(col[0]) or US(col[0]).startswith('#') for col in (c[2][2] if cls.name == 'Db' else c[2][6] if cls.name == 'DbGrid' else [])):
                vio.append(('ASerializable:long-record-line-not-read-back', '%s: createFromNF fails on the file just written, whose longest line has %d characters' % (cls.name, longest)))
            else: vio.append((fail_key(cls, c, 'reload-fails'), 'createFromNF fails on the file just written'))
        else:
            beh = []
            dl = diffs(cls.G, G0, G1, undy, undy, same15) + diffs(cls.X, X0, X1, undy, undy, same15)
            allpaths = set(pth.rstrip('#') for pth, _, _ in dl)
            for path, a, b in dl:
                text = '%s: %s is %r before saving and %r after reloading' % (cls.name, path.replace('~', ''), a, b)
                if '~' in path: beh.append((beh_key(cls, path, c), text)); continue
                k = key_of(cls, path, a, b, c, allpaths)
                if k: vio.append((k, text))
            if not vio: vio += beh[:1]      # a derived quantity differs although every getter agrees
            if fileB != fileA and not vio:
                vio.append(('AnamHermite:variance-recomputed-on-reload' if cls.name == 'AnamHermite' else '%s:rewrite-differs' % cls.name,
                            'the file written by the reloaded object differs from the first one'))
        # model predictions
        pred = None
        if i in written:
            w = written[i]
            if w[1][0] == 1:
                d = diffs(cls.G, to_model(cls.G, G0), w[1][1], uq, uq, lambda x, y: x == y)
                pred = [p for p, _, _ in d]
            else: pred = ['<model reload fails>']
        for k, text in vio:
            st = ctx.violation(k, text + (' [the model predicts the loss of: %s]' % ', '.join(sorted(set(pred))) if pred else ''),
                               {'class': cls.name, 'recipe': sx_str(c), 'file_written': fileA, 'file_rewritten': fileB if fileB != fileA else '(identical)',
                                'how': 'VERIF_REPLAY=<this file> bin/check C08   (builds the object of the recipe - harness/C08.cpp, class %d - dumpToNF, createFromNF, compares the getters)' % cls.cid})
            found_input = True
        # correspondence (b)
        drift = []
        if cls.modelled and okd:
            drift = phase2_drift(cls, r, parsed.get(i), written.get(i))
            if i in written:
                w = written[i]
                if not files_equiv(US(w[0]), fileA):
                    td = titles_differ(US(w[0]), fileA)
                    if td and ('titles:' + cls.name) not in ctx.notes_seen:
                        ctx.notes_seen.add('titles:' + cls.name)
                        ctx.notes.append('%s: the text of a title differs between model and library (data identical): %r' % (cls.name, td[0]))
                rr = reread.get(i)
                if rr is None: drift.append('implementation crashed reading the model file')
                elif (rr[0] == 1) != (w[1][0] == 1): drift.append('model file: implementation %s, model %s' % ('reads' if rr[0] else 'rejects', 'reads' if w[1][0] == 1 else 'rejects'))
                elif rr[0] == 1:
                    d = diffs(cls.G, w[1][1], rr[1], uq, undy, close_model)
                    if d: drift.append('implementation reading of the model file differs from the model reload at %s' % d[:2])
        if drift:
            ndis += 1
            if ndis <= 5: ctx.log('disagreement model/impl on a %s (%s): %s' % (cls.name, 'property violated too' if vio else 'property holds', drift[0][:300]))
            if not vio:
                ctx.violation('model-drift:%s' % cls.name, 'model and implementation disagree on a %s although the implementation round trip holds: %s' % (cls.name, drift[0]),
                              {'class': cls.name, 'recipe': sx_str(c), 'file': fileA, 'disagreements': drift, 'correspondence': 'coq/C08/Model*.v vs %s::_serialize/_deserialize' % cls.name},
                              found_input=False)
        # support (c)
        if hk and okd and okl:
            e = trace_mismatch(tw, tr)
            if e and not vio:
                ctx.violation('trace:%s' % cls.name, 'record trace of the reload differs from the trace of the dump: ' + e,
                              {'class': cls.name, 'recipe': sx_str(c), 'file': fileA}, found_input=True); found_input = True
    ctx.cov['disagreements'] = ndis
    # ---- sequences in ONE process: every object of the sequence is built, then all are written, then all are reloaded.
    # Writing an object after others must give the file it gives alone (the writer is a function of the object:
    # theorem C08_writer_history_independent) and reloading it must give the same object.
    where = {id(c): i for i, c in enumerate(cases)}
    ok_alone = lambda i: impl[i] is not None and len(impl[i]) >= 11 and impl[i][0] and impl[i][2]
    seqs = []
    for ca, cb in seq_pairs:
        ia, ib = where[id(ca)], where[id(cb)]
        if ok_alone(ia) and ok_alone(ib): seqs.append([ia, ib, ia])
    byclass = {}
    for i, c in enumerate(cases):
        if c[0] == 1 and ok_alone(i) and i not in size_target: byclass.setdefault(c[1], []).append(i)
    nseq = 3 if quick else 25
    for cid, idxs in byclass.items():
        rng.shuffle(idxs)
        for k in range(0, min(len(idxs) - 2, 3 * nseq), 3): seqs.append(idxs[k:k + 3])
    allidx = [i for l in byclass.values() for i in l]
    for _ in range(6 if quick else 60):          # mixed families
        if len(allidx) >= 4: seqs.append(rng.sample(allidx, 4))
    scases = [[6] + [[cases[i][1], cases[i][2]] for i in sq] for sq in seqs]
    sres = run_impl_all(ctx, exe, 'p6', scases, env, chunk=8)
    ctx.log('sequences done (%d)' % len(scases))
    for sq, sc_, r in zip(seqs, scases, sres):
        ctx.count(sx_str([6] + sq)); ctx.dist('sequence:%s' % '+'.join(sorted(set(BYID[cases[i][1]].name for i in sq))))
        if r is None or len(r) != len(sq) or (r and isinstance(r[0], int)):
            cls = BYID[cases[sq[-1]][1]]
            phase = US(r[1]) if r and r[0] == -990 else repr(r)[:80]
            ctx.violation('%s:second-write-in-process:crash' % cls.name, 'a sequence of objects that are each saved and reloaded alone without trouble fails in one process (%s)' % phase,
                          {'sequence': sx_str(sc_)[:3000], 'how': 'harness/C08.cpp operation 6'}); found_input = True; continue
        for pos, (i, e) in enumerate(zip(sq, r)):
            cls = BYID[cases[i][1]]; alone = impl[i]
            okd, ftxt, okl, G0, X0, G1, X1 = e
            what = None
            if not okd: what = 'dump-fails'
            elif ftxt != alone[1]: what = 'file-differs'
            elif not okl: what = 'reload-fails'
            elif G1 != alone[5] or diffs(cls.X, X1, alone[6], undy, undy, same15): what = 'reload-differs'
            if what:
                fa, fs = US(alone[1]).split('\n'), US(ftxt).split('\n')
                line = next((k for k, (x, y) in enumerate(zip(fa, fs)) if x != y), min(len(fa), len(fs)))
                ctx.violation('%s:second-write-in-process:%s' % (cls.name, what),
                              '%s written in position %d of a sequence of %d objects in one process: %s (first difference at line %d of the file: %r alone, %r in the sequence)'
                              % (cls.name, pos + 1, len(sq), what, line + 1, fa[line][:80] if line < len(fa) else None, fs[line][:80] if line < len(fs) else None),
                              {'class': cls.name, 'sequence': sx_str(sc_)[:6000], 'position': pos + 1,
                               'how': 'harness/C08.cpp operation 6: build every object, dumpToNF each in turn, createFromNF each; compare with the same object saved alone (operation 1)'})
                found_input = True
    # ---- container / prefix settings
    ccases = [[3, S(a), S(b), S(n)] for a, b, n in [('', '', 'plain.nf'), ('cont/', '', 'x.nf'), ('', 'pfx.', 'x.nf'), ('cont/', 'pfx.', 'x.nf'),
                                                     ('cont/', 'pfx.', 'abc'), ('', 'pfx.', 'ab'), ('cont/', '', 'a')]]
    cf3 = write_cases(ctx, 'p4', ccases)
    _, cres = run_impl(ctx, exe, cf3, env=env)
    for c, r in zip(ccases, cres):
        ctx.count(sx_str(c)); ctx.dist('container/prefix')
        if len(r) == 3 and r[0] and r[2] and not r[1]:
            name = US(c[3])
            ctx.violation('buildFileName:short-name-read-without-prefix' if len(name) <= 2 else 'buildFileName:container-prefix',
                          'with container %r and prefix %r, the file %r is written but cannot be reloaded under the same name' % (US(c[1]), US(c[2]), name),
                          {'container': US(c[1]), 'prefix': US(c[2]), 'name': name}); found_input = True
    found_input = grid_formats(ctx, quick, rng, exe, env) or found_input
    ctx.cov['rule'] = ('case = (class, construction recipe through the public API); evaluations = recipes run through dumpToNF/createFromNF/dumpToNF on the '
                       'implementation, each also parsed / printed / reloaded by the extracted model; distinct = distinct recipe text')
    ctx.cov['modelled_classes'] = [c.name for c in CLASSES if c.modelled]
    ctx.cov['unmodelled_classes'] = [c.name for c in CLASSES if not c.modelled]
    return found_input

def grid_formats(ctx, quick, rng, exe, env):
    """grid exchange formats that are both written and read (GridZycor, GridIfpEn): geometry and values on the implementation"""
    found = False
    cases = []
    n = 12 if quick else 150
    for k in range(2 * n):
        fmt = k % 2
        ndim = 2 if fmt == 0 else rng.choice([2, 2, 3])
        nx = [rng.choice([2, 3, 4, 5]) for _ in range(ndim)]
        if rng.random() < .1: nx[rng.randrange(ndim)] = 1
        nech = 1
        for v in nx: nech *= v
        dx = [Fraction(rng.randint(1, 40), 4) for _ in range(ndim)]
        x0 = [Fraction(rng.randint(-400, 400), 4) for _ in range(ndim)]
        if fmt == 1 and rng.random() < .5: dx[-1] = Fraction(1) if ndim == 3 else dx[-1]; x0[-1] = Fraction(0) if ndim == 3 else x0[-1]
        ang = [Fraction(0)] * ndim
        if fmt == 1 and rng.random() < .3: ang[0] = Fraction(rng.choice([30, 45, 10]))
        ncol = 1 if rng.random() < .7 else 2
        cols = [[None if rng.random() < .1 else Fraction(rng.choice([rng.randint(-50, 50), rng.randint(-5000, 5000)]), rng.choice([1, 4, 8])) for _ in range(nech)] for _ in range(ncol)]
        cases.append([4, fmt, nx, [D(v) for v in dx], [D(v) for v in x0], [D(v) for v in ang], [[D(v) for v in c] for c in cols]])
    # directed cases (always run): the value 3, a vertical mesh / origin, a direction with a single node
    F = Fraction
    cases = [[4, 1, [2, 2, 1], [D(F(1)), D(F(1)), D(F(1))], [D(F(0)), D(F(0)), D(F(0))], [D(F(0))] * 3, [[D(F(1)), D(F(3)), D(F(5)), D(F(7))]]],
             [4, 1, [2, 2, 2], [D(F(1)), D(F(1)), D(F(5))], [D(F(0)), D(F(0)), D(F(30))], [D(F(0))] * 3, [[D(F(k)) for k in (1, 2, 4, 5, 6, 7, 8, 9)]]],
             [4, 0, [1, 3], [D(F(1)), D(F(2))], [D(F(10)), D(F(20))], [D(F(0))] * 2, [[D(F(1)), D(F(2)), D(F(4))]]],
             [4, 1, [2, 2], [D(F(1)), D(F(1))], [D(F(0)), D(F(0))], [D(F(0))] * 2, [[D(F(1)), D(F(2)), D(F(4)), D(F(5))]]],
             [4, 1, [2, 2, 1], [D(F(1)), D(F(1)), D(F(1))], [D(F(0)), D(F(0)), D(F(0))], [D(F(0))] * 3, [[D(F(1)), D(F(2)), D(F(4)), D(F(5))], [D(F(6)), D(F(7)), D(F(8)), D(F(9))]]],
             [4, 0, [2, 2], [D(F(1)), D(F(2))], [D(F(10)), D(F(20))], [D(F(0))] * 2, [[D(F(1)), D(F(2)), D(F(4)), D(F(5))], [D(F(6)), D(F(7)), D(F(8)), D(F(9))]]]] + cases
    res = run_impl_all(ctx, exe, 'p5', cases, env)
    def close(a, b, tol):
        if a is None or b is None: return a is None and b is None
        return abs(a - b) <= tol * max(1, abs(a), abs(b))
    for c, r in zip(cases, res):
        fmt = c[1]; name = 'GridZycor' if fmt == 0 else 'GridIfpEn'
        ctx.count(sx_str(c)); ctx.dist('%s:ndim%d' % (name, len(c[2])))
        nx = c[2]; dx = [undy(v) for v in c[3]]; x0 = [undy(v) for v in c[4]]; ang = [undy(v) for v in c[5]]
        cols = [[undy(v) for v in col] for col in c[6]]
        why = []
        if r is None or (r and r[0] in (-990, -997, -995)): why.append(('crash', 'the process crashes or throws (%r)' % (r,)))
        elif not r[0] and fmt == 0 and len(cols) > 1: continue        # a format for one variable refuses several: nothing is written
        elif not r[0]: why.append(('write-refused', 'the grid cannot be written'))
        elif not r[1]: why.append(('read-fails', 'the file just written cannot be read'))
        else:
            gnx, gdx, gx0, gang, gcols = r[2], [undy(v) for v in r[3]], [undy(v) for v in r[4]], [undy(v) for v in r[5]], [[undy(v) for v in col] for col in r[6]]
            nd = len(nx)
            if len(gnx) != nd: why.append(('dimension', 'a %d-D grid comes back as a %d-D grid %r' % (nd, len(gnx), gnx)))
            if gnx[:nd] != nx: why.append(('nx', 'number of nodes %r comes back as %r' % (nx, gnx)))
            for k in range(min(nd, len(gdx))):
                if nx[k] > 1 and not close(gdx[k], dx[k], 1e-5): why.append(('mesh', 'mesh %r along direction %d comes back as %r' % (float(dx[k]), k + 1, gdx[k] and float(gdx[k]))))
                if not close(gx0[k], x0[k], 1e-5): why.append(('origin', 'origin %r along direction %d comes back as %r' % (float(x0[k]), k + 1, gx0[k] and float(gx0[k]))))
                if nx[k] == 1 and (gdx[k] is None): why.append(('single-node', 'a direction with a single node gives an undefined mesh'))
            if gang and not close(gang[0], ang[0], 1e-5): why.append(('angle', 'rotation angle %r comes back as %r' % (float(ang[0]), float(gang[0]))))
            if len(gcols) != len(cols): why.append(('variables', '%d variable(s) written, %d read' % (len(cols), len(gcols))))
            else:
                for j, (a, b) in enumerate(zip(cols, gcols)):
                    bad = [i for i in range(min(len(a), len(b))) if not close(a[i], b[i], 2e-5)]
                    if len(a) != len(b) or bad:
                        i = bad[0] if bad else 0
                        only3 = len(a) == len(b) and all(a[k] == 3 and b[k] is None for k in bad)
                        why.append(('values-3' if only3 else 'values', 'variable %d, node %d: %r written, %r read' % (j + 1, i, a[i] if a[i] is None else float(a[i]), b[i] if i < len(b) and b[i] is None else (float(b[i]) if i < len(b) else None))))
        if not why: continue
        kinds = [w[0] for w in why]
        if fmt == 1:
            if 'values' in kinds and len(cols) > 1: key = 'GridIfpEn:several-variables-mixed'
            elif 'values-3' in kinds: key = 'GridIfpEn:value-3-read-as-undefined'
            elif 'values' in kinds and any(v == 3 for col in cols for v in col): key = 'GridIfpEn:value-3-read-as-undefined'
            elif 'dimension' in kinds and len(nx) == 2 and kinds == ['dimension']: key = 'GridIfpEn:vertical-geometry-not-written'
            elif ('mesh' in kinds or 'origin' in kinds) and len(nx) == 3: key = 'GridIfpEn:vertical-geometry-not-written'
            else: key = 'GridIfpEn:' + kinds[-1]
        else:
            key = 'GridZycor:' + ('only-first-variable-written' if 'variables' in kinds else 'single-node-direction' if 1 in nx else kinds[-1])
        ctx.violation(key, '%s: %s' % (name, '; '.join(w[1] for w in why[:3])), {'format': name, 'case': sx_str(c), 'how': 'harness/C08.cpp operation 4: write the grid with the format class, read it back'})
        found = True
    return found

def trace_mismatch(tw, tr):
    """flattened sequences of value types written / read (a vector of n counts as n values)"""
    def flat(t):
        out = []
        for rw, ty, cnt, title in t:
            if chr(ty) == 't': continue          # class tag line (read by hand for the classes without createFromNF)
            out += [(chr(ty), US(title))] * (1 if cnt < 0 else cnt)
        return out
    a, b = flat(tw), flat(tr)
    for k in range(max(len(a), len(b))):
        if k >= len(a): return 'value %d read as %s (%r) was never written' % (k, b[k][0], b[k][1])
        if k >= len(b): return 'value %d written as %s (%r) is never read' % (k, a[k][0], a[k][1])
        if a[k][0] != b[k][0] and not (a[k][0] == 'd' and b[k][0] == 'i'):
            return 'value %d written as %s (%r) and read as %s (%r)' % (k, a[k][0], a[k][1], b[k][0], b[k][1])
    return None

if __name__ == '__main__':
    main(run)

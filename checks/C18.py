"""C18 — data transforms and their inverses compose to the identity.
Theorems of coq/C18 + correspondence / property-on-impl for
  kind 0  PCA::pca_compute | maf_compute_interval, dbZ2F then dbF2Z   (eigen-pairs harvested, certificates checked exactly)
  kind 1  hermitePolynomials
  kind 2  AnamHermite transformToRawValue / rawToTransformValue (psi, bounds harvested)
  kind 3  VH::normalScore
  kind 4  AnamEmpirical (normal-score fit) forward / backward
  kind 5  Rotation rotateDirect / rotateInverse
"""
import sys, os, math
sys.path.insert(0, os.path.dirname(__file__))
from common import *

def fl(x): return None if x is None else float(x)
def vd(v): return [undy(x) for x in v]
def md(m): return [[undy(x) for x in r] for r in m]
def vq(v): return [unq(x) for x in v]
def mq(m): return [[unq(x) for x in r] for r in m]
def rows_d(rs): return [None if (len(r) == 0 or any(x == [] for x in r)) else [undy(x) for x in r] for r in rs]
def rows_q(rs): return [None if r == [] else [unq(x) for x in r] for r in rs]

class Site:
    """collects the comparison outcome of one case"""
    def __init__(self): self.drift = []; self.spec = []; self.excluded = False
    def close(self, what, impl, model, tol, scale=1.0):
        if impl is None or model is None:
            if not (impl is None and model is None): self.drift.append('%s: impl %s model %s' % (what, fl(impl), fl(model)))
            return
        if abs(float(impl) - float(model)) > tol * (scale + abs(float(model))):
            self.drift.append('%s: impl %.15g model %.15g' % (what, float(impl), float(model)))
    def vec(self, what, impl, model, tol, scale=1.0):
        if impl is None or model is None or len(impl) != len(model):
            if not (impl is None and model is None): self.drift.append('%s: shape impl %s model %s' % (what, impl if impl is None else len(impl), model if model is None else len(model)))
            return
        for k, (a, b) in enumerate(zip(impl, model)): self.close('%s[%d]' % (what, k), a, b, tol, scale)
    def mat(self, what, impl, model, tol, scale=1.0):
        if len(impl) != len(model): self.drift.append('%s: shape' % what); return
        for k, (a, b) in enumerate(zip(impl, model)): self.vec('%s[%d]' % (what, k), a, b, tol, scale)

# ----------------------------------------------------------------------------- kind 0: PCA / MAF
def gen_pca(ctx, rng, quick):
    nvar = rng.choice([1, 2, 2, 3, 3, 4, 5, 6])
    n = rng.randint(nvar + 3, 14 if quick else 40)
    dist = rng.choice(['mixed', 'skewed', 'ties', 'wide'])
    k = nvar
    A = [[rng.randint(-3, 3) for _ in range(k)] for _ in range(nvar)]
    for i in range(nvar): A[i][i] += rng.choice([2, 3, 4])
    cols = [[None] * n for _ in range(nvar)]
    for s in range(n):
        if dist == 'mixed': u = [Fraction(rng.randint(-16, 16), 4) for _ in range(k)]
        elif dist == 'skewed': u = [Fraction(rng.randint(0, 12) ** 2, 8) for _ in range(k)]
        elif dist == 'ties': u = [Fraction(rng.randint(0, 2)) for _ in range(k)]
        else: u = [Fraction(rng.randint(-2 ** 20, 2 ** 20), 2 ** rng.randint(0, 12)) for _ in range(k)]
        for i in range(nvar): cols[i][s] = sum(A[i][j] * u[j] for j in range(k)) + rng.choice([0, 0, 100, -37])* (1 if i == 0 else 0)
    p_na = rng.choice([0, 0, .1, .25])
    for i in range(nvar):
        for s in range(n):
            if rng.random() < p_na: cols[i][s] = None
    sel = [rng.random() < .8 for _ in range(n)] if rng.random() < .4 else []
    xs = [Fraction(rng.randint(0, 40), 2) for _ in range(n)]; ys = [Fraction(rng.randint(0, 40), 2) for _ in range(n)]
    mode = rng.choice([0, 0, 1])
    hmin = Fraction(rng.choice([0, 0, 1, 2])); hmax = hmin + rng.choice([3, 5, 8, 100]) + Fraction(1, 4)
    ne = rng.choice([0, 3])
    extra = [[Fraction(rng.randint(-12, 12), 4) if rng.random() > .15 else None for _ in range(ne)] for _ in range(nvar)] if ne else []
    py = {'mode': mode, 'nvar': nvar, 'n': n, 'cols': cols, 'sel': sel, 'dist': dist, 'extra': extra}
    case = [0, mode, nvar, [[dy(x) for x in xs], [dy(y) for y in ys]], [[dy(x) for x in c] for c in cols], [int(b) for b in sel], dy(hmin), dy(hmax),
            [[dy(x) for x in c] for c in extra]]
    ctx.dist('pca' if mode == 0 else 'maf'); ctx.dist('pca_nvar%d' % nvar); ctx.dist('pca_' + dist)
    if p_na: ctx.dist('pca_heterotopic')
    if sel: ctx.dist('pca_selection')
    return py, case

def pca_model_case(py, im):
    rc, eigval, eigvec, mean, sigma, z2f, f2z = im[0:7]
    sq = im[9]
    c = py['case']
    def san(x):   # non-finite harvested values (singular covariance): placeholder 0, the case is excluded by check_pca
        if x == []: return [0, 0]
        if isinstance(x, list) and x and isinstance(x[0], list): return [san(y) for y in x]
        return x
    return [0, py['mode'], py['nvar'], c[4], c[5], san(eigval), san(eigvec), san(sq), san(sigma), san(z2f), san(f2z), c[8]]

def sample_cov(rows):
    n = len(rows); k = len(rows[0])
    m = [sum(r[i] for r in rows) / n for i in range(k)]
    return [[sum((r[i] - m[i]) * (r[j] - m[j]) for r in rows) / (n - 1) for j in range(k)] for i in range(k)]

def check_pca(ctx, py, im, mo, site):
    nvar, n, mode = py['nvar'], py['n'], py['mode']
    name = 'pca' if mode == 0 else 'maf'
    iso, niso, mean_m, var_m, c0_m, z2f_m, f2z_m, fac_m, back_m, resid, xback_m = mo
    mean_m = vq(mean_m); var_m = vq(var_m); resid = vq(resid)
    if niso < 2:
        site.excluded = True; return
    if im[0] != 0:
        site.spec.append(('%s:compute-fails' % name, '%s computation returns %d on %d isotopic samples' % (name, im[0], niso))); return
    rc, eigval, eigvec, mean, sigma, z2f, f2z, c0, gh, sq, r1, fac, r2, back, ncolnew, r3, xback = im
    eigval = vd(eigval); mean = vd(mean); sigma = vd(sigma); sq = vd(sq)
    lam_ok = all(l is not None and l > 0 for l in eigval)
    scale = max([abs(float(x)) for c in py['cols'] for x in c if x is not None] + [1.0])
    vmax = max([float(v) for v in var_m] + [1e-300])
    if not lam_ok or min(float(v) for v in var_m) <= 1e-12 * vmax:
        site.excluded = True; return            # singular covariance: the transform is not invertible (stated hypothesis lambda > 0)
    cond = math.sqrt(max(map(float, eigval)) / min(map(float, eigval)))
    if mode == 1:
        # MAF: conditioning of Z2F (exact inverse from the model)
        if f2z_m == []:
            site.excluded = True; return
        nz = max(sum(abs(float(x)) for x in r) for r in md(z2f)); nf = max(sum(abs(float(unq(x))) for x in r) for r in f2z_m)
        cond = max(cond, nz * nf)
    if cond > 1e5:
        site.excluded = True; return
    tol = 1e-10 * cond
    # --- correspondence
    site.vec('%s mean' % name, mean, mean_m, 1e-12, scale)
    site.vec('%s sigma^2' % name, [s * s for s in sigma], var_m, 1e-11, vmax)
    site.mat('%s c0' % name, md(c0), mq(c0_m), 1e-11, vmax)
    site.mat('%s Z2F' % name, md(z2f), mq(z2f_m), 1e-13 if mode == 0 else 0.0)
    site.mat('%s F2Z' % name, md(f2z), mq(f2z_m), 1e-13 if mode == 0 else tol, 0.0 if mode == 0 else max(abs(float(unq(x))) for r in f2z_m for x in r))
    fac_i = rows_d(fac); back_i = rows_d(back); fac_mq = rows_q(fac_m); back_mq = rows_q(back_m)
    fscale = scale * max(abs(float(unq(x))) for r in z2f_m for x in r) * nvar
    for s in range(n):
        if (fac_i[s] is None) != (not iso[s]) or (back_i[s] is None) != (not iso[s]):
            site.spec.append(('%s:isotopic-filter' % name, 'sample %d: model isotopic=%d, impl factors %s, back %s (non-isotopic or masked samples must stay undefined, isotopic ones must be transformed)'
                              % (s, iso[s], fac_i[s], back_i[s])))
            return
        if iso[s]:
            site.vec('%s factors[sample %d]' % (name, s), fac_i[s], fac_mq[s], tol, fscale)
            site.vec('%s back[sample %d]' % (name, s), back_i[s], back_mq[s], tol, scale)
    if ncolnew != 2 * nvar: site.drift.append('%s: %d new columns, expected %d' % (name, ncolnew, 2 * nvar))
    if py['extra']:
        xi = rows_d(xback); xm = rows_q(xback_m)
        for s in range(len(xm)):
            if (xi[s] is None) != (xm[s] is None): site.spec.append(('%s:isotopic-filter' % name, 'dbF2Z on given factors, sample %d: impl %s model %s' % (s, xi[s], xm[s]))); return
            if xm[s] is not None: site.vec('%s dbF2Z(given factors)[%d]' % (name, s), xi[s], xm[s], tol, scale)
    # --- certificates on the harvested matrices, exact arithmetic
    lmax = max(map(float, eigval))
    names = ['E.Et - I', 'Et.E - I', 'sq^2 - lambda', 'E.L.Et - C0', 'Z2Ft.C0.Z2F - I', 'Z2F.F2Z - I', 'F2Z.Z2F - I']
    scales = [1, 1, lmax, vmax, cond * cond, cond, cond]
    use = [mode == 0, mode == 0, mode == 0, mode == 0, True, True, True]
    for k in range(7):
        if use[k] and float(resid[k]) > 1e-9 * scales[k]:
            site.spec.append(('%s:certificate:%s' % (name, names[k].replace(' ', '')), 'exact residual max|%s| = %.3g on the harvested matrices' % (names[k], float(resid[k]))))
    # --- property on impl: round trip and orthonormal factors
    for s in range(n):
        if not iso[s]: continue
        for v in range(nvar):
            z = py['cols'][v][s]
            if abs(float(back_i[s][v]) - float(z)) > 1e-9 * cond * (scale + abs(float(z))):
                site.spec.append(('%s:dbZ2F-dbF2Z-roundtrip' % name, 'sample %d variable %d: z = %.12g, F2Z(Z2F(z)) = %.12g' % (s, v, float(z), float(back_i[s][v]))))
                return
    rows = [[float(x) for x in fac_i[s]] for s in range(n) if iso[s]]
    G = sample_cov(rows)
    for a in range(nvar):
        for b in range(nvar):
            if abs(G[a][b] - (1.0 if a == b else 0.0)) > 1e-8 * cond * cond:
                site.spec.append(('%s:factors-not-orthonormal' % name, 'sample covariance of factors (%d,%d) = %.12g' % (a, b, G[a][b])))
                return

# ----------------------------------------------------------------------------- driver
def run(ctx):
    quick = ctx.quick()
    build_lib(ctx)
    proofs_ok = coq_properties(ctx)
    runner = build_runner(ctx); exe = build_harness(ctx, 'C18')
    if runner is None or exe is None:
        print('ERROR: model runner or harness does not build'); sys.exit(3)
    rng = ctx.rng
    gens = [(gen_pca, 120 if quick else 1500)]
    pys = []
    for line in load_corpus(ctx):
        pys.append({'kind': line[0], 'case': line, 'corpus': True})
    for g, cnt in gens:
        for _ in range(cnt):
            py, case = g(ctx, rng, quick); py['kind'] = case[0]; py['case'] = case; pys.append(py)
    cf = write_cases(ctx, 'impl', [p['case'] for p in pys])
    rc, impl = run_impl(ctx, exe, cf)
    found_input = False
    mcases = []; mref = []
    for i, py in enumerate(pys):
        if i >= len(impl) or (impl[i] and impl[i][0] == -997):
            ctx.violation('crash:kind%d' % py['kind'], 'harness crashed / threw on case %d' % i, {'impl_case': sx_str(py['case'])}); found_input = True
            if i >= len(impl): break
            continue
        mc = MODEL_CASE[py['kind']](py, impl[i])
        if mc is None: continue
        mcases.append(mc); mref.append((py, impl[i]))
    mf = write_cases(ctx, 'model', mcases)
    rcm, model = run_model(ctx, runner, mf)
    if len(model) != len(mcases):
        print('ERROR: model runner returned %d results for %d cases' % (len(model), len(mcases))); sys.exit(3)
    ndis = 0
    for (py, im), mo, mc in zip(mref, model, mcases):
        if mo and mo[0] == -999:
            print('ERROR: model rejected a case: %s' % sx_str(mc)[:300]); sys.exit(3)
        site = Site()
        CHECK[py['kind']](ctx, py, im, mo, site)
        if site.excluded:
            ctx.cov['tie_excluded'] += 1; ctx.count(None, False); continue
        ctx.count(sx_str(mc)[:3000])
        ctx.sample({'kind': py['kind'], 'impl_case': sx_str(py['case'])[:300]}, 6)
        if site.spec:
            ndis += 1; found_input = True
            key, text = site.spec[0]
            ctx.violation(key, text, {'impl_case': sx_str(py['case']), 'model_case': sx_str(mc), 'all': [t for _, t in site.spec][:5], 'drift': site.drift[:5],
                                      'how': 'bin/check C18 quick with this impl_case as a line of corpus/C18.sx'})
        elif site.drift:
            ndis += 1
            ctx.violation('model-drift:' + KIND_NAME[py['kind']] + ':' + site.drift[0].split(':')[0].split('[')[0].replace(' ', '-'),
                          'impl satisfies the property on this input but differs from the model: ' + '; '.join(site.drift[:4]),
                          {'impl_case': sx_str(py['case']), 'model_case': sx_str(mc), 'correspondence': 'coq/C18/Model.v vs ' + KIND_NAME[py['kind']]}, found_input=False)
    ctx.cov['disagreements'] = ndis
    ctx.cov['rule'] = ('case = one fitted transform and its data (PCA/MAF on 1-6 variables with NA / selections / ties; Hermite polynomials at dyadic points; '
                       'AnamHermite fits of skewed / tied / NA data with 5-60 polynomials and raw / Gaussian queries; normal scores with ties / NA / weights; '
                       'empirical anamorphosis; rotations). distinct = distinct model case text; non-trivial = transform invertible (conditioning <= 1e5, '
                       'no decision closer than 1e-9 to a threshold); others counted under tie_excluded')
    if not proofs_ok: proof_break_violation(ctx, found_input)
    ctx.assumptions = ['eigen-decompositions, square roots, the Gaussian quantile/cdf approximations and the fitted Hermite coefficients are oracles harvested from the implementation; '
                       'their certificates (orthogonality, E.L.Et = C0, Z2F.F2Z = I) are re-checked in exact arithmetic on every case',
                       'the moment functional E[x^2k] = (2k-1)!!, E[x^2k+1] = 0 is integration against the standard Gaussian density (cited, not proved)',
                       'round-off tolerance 1e-10 x conditioning for PCA/MAF; 1e-12 relative for Hermite polynomials; 1e-9 for anamorphosis values']

def load_corpus(ctx):
    p = os.path.join(VERIF, 'corpus', ctx.pid + '.sx')
    if not os.path.exists(p): return []
    return [sx_parse(l) for l in open(p) if l.strip() and not l.startswith('#')]

KIND_NAME = {0: 'PCA', 1: 'hermitePolynomials', 2: 'AnamHermite', 3: 'normalScore', 4: 'AnamEmpirical', 5: 'Rotation'}
MODEL_CASE = {0: lambda py, im: pca_model_case_any(py, im)}
CHECK = {0: check_pca}

def pca_model_case_any(py, im):
    if 'mode' not in py:    # corpus line
        c = py['case']; py.update({'mode': c[1], 'nvar': c[2], 'n': len(c[3][0]), 'cols': [[undy(x) for x in col] for col in c[4]], 'sel': c[5], 'extra': c[8]})
    if im[0] != 0:
        z = [[0, 0]] * py['nvar']; zm = [z] * py['nvar']
        c = py['case']
        return [0, py['mode'], py['nvar'], c[4], c[5], z, zm, z, z, zm, zm, c[8]]
    return pca_model_case(py, im)

if __name__ == '__main__':
    main(run)

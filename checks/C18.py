"""C18 — data transforms and their inverses compose to the identity.
Theorems of coq/C18 + correspondence / property-on-impl for
  kind 0  PCA::pca_compute | maf_compute_interval, dbZ2F then dbF2Z   (eigen-pairs harvested, certificates checked exactly)
  kind 1  hermitePolynomials
  kind 2  AnamHermite fit | reset, transformToRawValue / rawToTransformValue, Db-level rawToGaussian / gaussianToRaw (by name, by locator)
  kind 3  VH::normalScore, AAnam::normalScore with a selection
  kind 4  AnamEmpirical (normal-score fit) forward / backward
  kind 5  Rotation rotateDirect / rotateInverse
  kind 6  hermiteCondExpElement with 1-8 coefficients, under AddressSanitizer
  kind 7  AnamEmpirical / AnamHermite fits of degenerate data (constant, single, undefined), under AddressSanitizer
  kind 8  AnamHermite::fitFromArray: classes, frequencies, coefficients against the exact model fed with the cdf / pdf / quantile oracles; re-fit
  kind 9  AnamDiscreteDD fit of a fresh object, AnamDiscreteIR fit and indicator-residual factors (exact references computed here)
Quick tier: the ASan cases run in a harness where only Hermite.cpp, AnamHermite.cpp, AnamEmpirical.cpp are instrumented (no ASan library
needed, ~15 s); thorough tier: ASan flavour of the whole library.

Two-stage correspondence: the harness runs first and returns its answers together with the oracles the model needs
(eigen-pairs, square roots, fitted coefficients and bounds, tables); the model case = inputs + oracles.

Violation keys (call site : what fails):
  pca|maf:dbZ2F-dbF2Z-roundtrip, :isotopic-filter, :factors-not-orthonormal, :certificate:<identity>, :compute-fails, :singular-covariance
  hermitePolynomials:recurrence | :size            hermiteCondExpElement:expansion      asan:<function>:<report>:<n>-coefficient-expansion
  AnamHermite:expansion, :raw-gaussian-raw-roundtrip, :rawToTransformValue-not-monotone, :bound, :undefined-in, :db-transform-fails|-undefined, :fit-fails
  AAnam:rawToGaussianByLocator | AAnam:gaussianToRawByLocator
  normalScore:rank, :undefined, :refusal, :size, :not-monotone, :db-selection, :db-fails
  AnamEmpirical:fit-table, :raw-gaussian-raw-roundtrip, :not-monotone, :undefined-in, :fit-fails, :fit-throws, :fit-accepts-degenerate-data
  AnamHermite:bounds-inverted, :fit-throws, :fit-accepts-degenerate-data     asan:<function>:<report>:degenerate-data
  Rotation:inverse-not-transpose, :certificate, :direct-inverse-roundtrip
  AnamHermite:fit-psi0-not-mean, :fit-variance-exceeded, :fit-frequencies, :refit-differs     maf:certificate:Gh.V-C0.V.L, maf:factors-autocorrelated
  Rotation:angles-matrix-roundtrip, :cos-sin-not-unit     AnamDiscreteIR:z2factor, :factors-not-centred, :factors-not-orthogonal, :fit-fails
  AnamDiscreteDD:fit-throws, :fit-return-code     crash:AnamDiscreteDD:fit
  model-drift:<kind>:<quantity>  (impl satisfies the property on every explored input but differs from the model)   crash:<kind>
"""
import sys, os, math
sys.path.insert(0, os.path.dirname(__file__))
from common import *
if hasattr(sys, "set_int_max_str_digits"): sys.set_int_max_str_digits(0)

def fl(x): return None if x is None else float(x)
def vd(v): return [undy(x) for x in v]
def md(m): return [[undy(x) for x in r] for r in m]
def vq(v): return [unq(x) for x in v]
def mq(m): return [[unq(x) for x in r] for r in m]
def rows_d(rs): return [None if (len(r) == 0 or any(x == [] for x in r)) else [undy(x) for x in r] for r in rs]
def rows_q(rs): return [None if r == [] else [unq(x) for x in r] for r in rs]

class Site:
    """collects the comparison outcome of one case"""
    def __init__(self): self.drift = []; self.spec = []; self.excluded = False
    def close(self, what, impl, model, tol, scale=1.0):
        if impl is None or model is None:
            if not (impl is None and model is None): self.drift.append('%s: impl %s model %s' % (what, fl(impl), fl(model)))
            return
        if abs(float(impl) - float(model)) > tol * (scale + abs(float(model))):
            self.drift.append('%s: impl %.15g model %.15g' % (what, float(impl), float(model)))
    def vec(self, what, impl, model, tol, scale=1.0):
        if impl is None or model is None or len(impl) != len(model):
            if not (impl is None and model is None): self.drift.append('%s: shape impl %s model %s' % (what, impl if impl is None else len(impl), model if model is None else len(model)))
            return
        for k, (a, b) in enumerate(zip(impl, model)): self.close('%s[%d]' % (what, k), a, b, tol, scale)
    def mat(self, what, impl, model, tol, scale=1.0):
        if len(impl) != len(model): self.drift.append('%s: shape' % what); return
        for k, (a, b) in enumerate(zip(impl, model)): self.vec('%s[%d]' % (what, k), a, b, tol, scale)

# ----------------------------------------------------------------------------- kind 0: PCA / MAF
def gen_pca(ctx, rng, quick):
    nvar = rng.choice([1, 2, 2, 3, 3, 4, 5, 6])
    n = rng.randint(2 * nvar + 3, 2 * nvar + (12 if quick else 40))
    dist = rng.choice(['mixed', 'skewed', 'ties', 'wide'])
    k = nvar
    A = [[rng.randint(-3, 3) for _ in range(k)] for _ in range(nvar)]
    for i in range(nvar): A[i][i] += rng.choice([2, 3, 4])
    cols = [[None] * n for _ in range(nvar)]
    for s in range(n):
        if dist == 'mixed': u = [Fraction(rng.randint(-16, 16), 4) for _ in range(k)]
        elif dist == 'skewed': u = [Fraction(rng.randint(0, 12) ** 2, 8) for _ in range(k)]
        elif dist == 'ties': u = [Fraction(rng.randint(0, 2)) for _ in range(k)]
        else: u = [Fraction(rng.randint(-2 ** 20, 2 ** 20), 2 ** rng.randint(0, 12)) for _ in range(k)]
        for i in range(nvar): cols[i][s] = sum(A[i][j] * u[j] for j in range(k)) + rng.choice([0, 0, 100, -37])* (1 if i == 0 else 0)
    degen = rng.random() < .08 and nvar >= 1
    if degen:
        how = rng.choice(['constant', 'dependent', 'few']) if nvar >= 2 else 'constant'
        if how == 'constant': cols[rng.randrange(nvar)] = [Fraction(7)] * n
        elif how == 'dependent': cols[nvar - 1] = [cols[0][s] * 2 - cols[nvar - 2][s] * 3 + 1 for s in range(n)] if nvar >= 3 else [cols[0][s] * 2 + 1 for s in range(n)]
        else:
            n = nvar; cols = [c[:n] for c in cols]
        dist = 'singular-' + how
    # units: every variable in its own unit (global scale 2^-60 .. 2^30, per-variable factor 2^-8 .. 2^8) and its own offset,
    # all powers of two so that the data stay dyadic
    if rng.random() < .7:
        g = rng.choice([-60, -50, -40, -30, -24, -20, -14, -7, 0, 0, 7, 14, 20, 30])   # units from ~1e-18 (x 2^-8); values are kept below 2^40 ~ 1e12 and
        # spreads above ~1e-21: gstlearn reads anything above 1e30 (variances, entries of Z2F = 1 / spread) as the undefined value
        for i in range(nvar):
            f = Fraction(2) ** (g + rng.randint(-8, 8)); off = f * rng.choice([0, 3, -5, 40, 1000])
            cols[i] = [x * f + off for x in cols[i]]
            while max(abs(x) for x in cols[i]) >= 2 ** 40: cols[i] = [x / 1024 for x in cols[i]]
        dist += ',scaled'; ctx.dist('pca_scale_2^%d' % g)
    p_na = 0 if degen else rng.choice([0, 0, .15, .3])       # heterotopic samples: some variables undefined
    for s in range(n):
        if rng.random() < p_na:
            for i in rng.sample(range(nvar), rng.randint(1, nvar)): cols[i][s] = None
    sel = [rng.random() < .8 for _ in range(n)] if (rng.random() < .4 and not degen) else []
    xs = [Fraction(rng.randint(0, 40), 2) for _ in range(n)]; ys = [Fraction(rng.randint(0, 40), 2) for _ in range(n)]
    mode = rng.choice([0, 0, 1])
    dist = dist.replace(',scaled', '')
    hmin = Fraction(rng.choice([0, 0, 1, 2])); hmax = hmin + rng.choice([3, 5, 8, 100]) + Fraction(1, 4)
    ne = rng.choice([0, 3])
    extra = [[Fraction(rng.randint(-12, 12), 4) if rng.random() > .15 else None for _ in range(ne)] for _ in range(nvar)] if ne else []
    py = {'mode': mode, 'nvar': nvar, 'n': n, 'cols': cols, 'sel': sel, 'dist': dist, 'extra': extra}
    case = [0, mode, nvar, [[dy(x) for x in xs], [dy(y) for y in ys]], [[dy(x) for x in c] for c in cols], [int(b) for b in sel], dy(hmin), dy(hmax),
            [[dy(x) for x in c] for c in extra]]
    ctx.dist('pca' if mode == 0 else 'maf'); ctx.dist('pca_nvar%d' % nvar); ctx.dist('pca_' + dist)
    if p_na: ctx.dist('pca_heterotopic')
    if sel: ctx.dist('pca_selection')
    return py, case

def pca_model_case(py, im):
    rc, eigval, eigvec, mean, sigma, z2f, f2z = im[0:7]
    sq = im[9]
    c = py['case']
    def san(x):   # non-finite harvested values (singular covariance): placeholder 0, the case is excluded by check_pca
        if x == []: return [0, 0]
        if isinstance(x, list) and x and isinstance(x[0], list): return [san(y) for y in x]
        return x
    return [0, py['mode'], py['nvar'], c[4], c[5], san(eigval), san(eigvec), san(sq), san(sigma), san(z2f), san(f2z), c[8], c[3], c[6], c[7]]

def sample_cov(rows):
    n = len(rows); k = len(rows[0])
    m = [sum(r[i] for r in rows) / n for i in range(k)]
    return [[sum((r[i] - m[i]) * (r[j] - m[j]) for r in rows) / (n - 1) for j in range(k)] for i in range(k)]

def check_pca(ctx, py, im, mo, site):
    nvar, n, mode = py['nvar'], py['n'], py['mode']
    name = 'pca' if mode == 0 else 'maf'
    iso, niso, mean_m, var_m, c0_m, z2f_m, f2z_m, fac_m, back_m, resid, xback_m, reg, ghm = mo
    mean_m = vq(mean_m); var_m = vq(var_m); resid = vq(resid)
    if niso < 2:
        site.excluded = True; return
    regular, kappa = reg[0] == 1, float(unq(reg[1]))
    if not regular:
        # exactly singular covariance (constant / dependent variables, too few samples): the transform to normalised factors is not
        # invertible. Either the computation is refused, or the round trip must still return the starting values.
        ctx.dist('pca_singular_covariance')
        if im[0] != 0: return
        back_i = rows_d(im[13])
        scale = max([abs(float(x)) for c in py['cols'] for x in c if x is not None] + [1.0])
        for s in range(n):
            if not iso[s]: continue
            for v in range(nvar):
                z = py['cols'][v][s]
                if back_i[s] is None or abs(float(back_i[s][v]) - float(z)) > 1e-6 * (max(abs(float(x)) for x in py['cols'][v] if x is not None) + 1e-300):
                    site.spec.append(('%s:singular-covariance' % name, '%s computation returns 0 on a singular covariance matrix (exact rank deficiency: constant or dependent variables, or too few '
                                      'isotopic samples); sample %d variable %d: z = %.9g, dbF2Z(dbZ2F(z)) = %s' % (name, s, v, float(z), 'undefined' if back_i[s] is None else '%.9g' % float(back_i[s][v]))))
                    return
        return
    if im[0] != 0:
        if kappa > 1e8: site.excluded = True; return
        site.spec.append(('%s:compute-fails' % name, '%s computation returns %d on %d isotopic samples (condition number of the covariance %.3g)' % (name, im[0], niso, kappa))); return
    rc, eigval, eigvec, mean, sigma, z2f, f2z, c0, gh, sq, r1, fac, r2, back, ncolnew, r3, xback = im
    eigval = vd(eigval); mean = vd(mean); sigma = vd(sigma); sq = vd(sq)
    lam_ok = all(l is not None and l > 0 for l in eigval)
    # every variable is judged in its own unit: spread sd_v, largest absolute value A_v (over the isotopic samples)
    isoidx = [s_ for s_ in range(n) if iso[s_]]
    A = [max([abs(float(py['cols'][v][s_])) for s_ in isoidx] + [1e-300]) for v in range(nvar)]
    sd = [math.sqrt(max(float(v), 0.0)) for v in var_m]
    D = [sd[v] + 1e-6 * A[v] for v in range(nvar)]
    vmax = max([float(v) for v in var_m] + [1e-300])
    if not lam_ok or min(float(v) for v in var_m) <= 1e-12 * vmax:
        site.excluded = True; return            # singular covariance: the transform is not invertible (stated hypothesis lambda > 0)
    cond = math.sqrt(max(map(float, eigval)) / min(map(float, eigval)))
    Zm = [[float(unq(x)) for x in r] for r in z2f_m]
    if mode == 1:
        if f2z_m == []:
            site.excluded = True; return
        Fm = [[float(unq(x)) for x in r] for r in f2z_m]
        # conditioning of Z2F in dimensionless form (rows divided by the unit of the variable)
        nz = max(sum(abs(Zm[i][k]) * D[i] for k in range(nvar)) for i in range(nvar)); nf = max(sum(abs(Fm[k][i]) / D[i] for i in range(nvar)) for k in range(nvar))
        cond = max(cond, nz * nf)
    else:
        Fm = [[float(unq(x)) for x in r] for r in f2z_m]
    if cond > 1e5:
        site.excluded = True; return
    # --- correspondence (tolerances relative to the unit of each variable)
    for v in range(nvar):
        site.close('%s mean[%d]' % (name, v), mean[v], mean_m[v], 1e-13, A[v])
        site.close('%s sigma^2[%d]' % (name, v), sigma[v] * sigma[v], var_m[v], 1e-11, A[v] * A[v] * 1e-3)
    c0i = md(c0); c0q = mq(c0_m)
    for i in range(nvar):
        for j in range(nvar):
            if abs(float(c0i[i][j]) - float(c0q[i][j])) > 1e-11 * (D[i] * D[j] + 1e-4 * A[i] * A[j]) + 1e-12 * abs(float(c0q[i][j])):
                site.drift.append('%s c0[%d][%d]: impl %.15g model %.15g' % (name, i, j, float(c0i[i][j]), float(c0q[i][j])))
    site.mat('%s Z2F' % name, md(z2f), mq(z2f_m), 1e-13 if mode == 0 else 0.0, 0.0)
    f2zi = md(f2z)
    for k in range(nvar):
        for i in range(nvar):
            tolf = 1e-13 * abs(Fm[k][i]) if mode == 0 else 1e-10 * cond * (abs(Fm[k][i]) + D[i] * max(abs(Fm[k][j]) / D[j] for j in range(nvar)))
            if abs(float(f2zi[k][i]) - Fm[k][i]) > tolf:
                site.drift.append('%s F2Z[%d][%d]: impl %.15g model %.15g' % (name, k, i, float(f2zi[k][i]), Fm[k][i]))
    if mode == 1 and ghm != []:
        # the lag-h matrix of _variogramh (pairwise definition) and what makes the factors 'min/max autocorrelation factors'
        gh_m, npairs, marg, r_gen, r_diag = ghm
        ctx.dist('maf_pairs_%s' % ('0' if npairs == 0 else '1-9' if npairs < 10 else '10+'))
        hm2 = max(float(undy(py['case'][7])) ** 2, 1.0)
        if float(unq(marg)) <= 1e-9 * hm2:
            site.tie = getattr(site, 'tie', 0) + 1
        else:
            ghi = md(gh); ghq = mq(gh_m)
            for i in range(nvar):
                for j in range(nvar):
                    if abs(float(ghi[i][j]) - float(ghq[i][j])) > 1e-11 * (D[i] * D[j] * 4 + 1e-4 * A[i] * A[j]) + 1e-12 * abs(float(ghq[i][j])):
                        site.drift.append('maf gh[%d][%d] (variogram matrix at lag h): impl %.15g model %.15g' % (i, j, float(ghi[i][j]), float(ghq[i][j])))
            if npairs > 0:
                # residuals in dimensionless form are not available from the model: scale by the largest entries
                ghs = max([abs(float(x)) for r in ghq for x in r] + [1e-300])
                if float(unq(r_gen)) > 1e-8 * cond * cond * nvar * max(D) * (max(map(float, eigval)) + 1):       # row i of Gh.V is in the unit of variable i
                    site.spec.append(('maf:certificate:Gh.V-C0.V.L', 'exact residual max|Gh.V - C0.V.L| = %.3g on the harvested generalised eigen-pairs' % float(unq(r_gen))))
                if float(unq(r_diag)) > 1e-8 * cond * cond * (max(map(float, eigval)) + 1):
                    site.spec.append(('maf:factors-autocorrelated', 'V^T.Gh.V is not diag(lambda): exact residual %.3g (the factors must be uncorrelated at lag h too)' % float(unq(r_diag))))
    fac_i = rows_d(fac); back_i = rows_d(back); fac_mq = rows_q(fac_m); back_mq = rows_q(back_m)
    mf = [float(x) for x in mean_m]
    amp = 1.0
    for s in range(n):
        if (fac_i[s] is None) != (not iso[s]) or (back_i[s] is None) != (not iso[s]):
            site.spec.append(('%s:isotopic-filter' % name, 'sample %d: model isotopic=%d, impl factors %s, back %s (non-isotopic or masked samples must stay undefined, isotopic ones must be transformed)'
                              % (s, iso[s], fac_i[s], back_i[s])))
            return
        if not iso[s]: continue
        zf = [float(py['cols'][v][s]) for v in range(nvar)]
        # round-off scale of each factor and of each back-transformed variable (sums of magnitudes)
        fsc = [sum(abs(Zm[i][k]) * (abs(zf[i]) + abs(mf[i])) for i in range(nvar)) for k in range(nvar)]
        bsc = [sum(abs(Fm[k][j]) * fsc[k] for k in range(nvar)) + abs(mf[j]) + abs(zf[j]) for j in range(nvar)]
        for k in range(nvar):
            fm_ = float(fac_mq[s][k]); amp = max(amp, fsc[k] / (abs(fm_) + 1.0))
            if abs(float(fac_i[s][k]) - fm_) > 1e-11 * nvar * fsc[k] + 1e-13 * abs(fm_):
                site.drift.append('%s factors[sample %d][%d]: impl %.15g model %.15g' % (name, s, k, float(fac_i[s][k]), fm_))
        for j in range(nvar):
            bm_ = float(back_mq[s][j])
            if abs(float(back_i[s][j]) - bm_) > 1e-10 * nvar * bsc[j]:
                site.drift.append('%s back[sample %d][%d]: impl %.15g model %.15g' % (name, s, j, float(back_i[s][j]), bm_))
            # --- the property on the implementation: variables -> factors -> variables, in the unit of the variable
            if abs(float(back_i[s][j]) - zf[j]) > 1e-10 * nvar * bsc[j] * max(1.0, cond * 1e-3):
                site.spec.append(('%s:dbZ2F-dbF2Z-roundtrip' % name, 'sample %d variable %d: z = %.12g, F2Z(Z2F(z)) = %.12g (spread of the variable %.3g, mean %.6g; round-off scale %.3g)'
                                  % (s, j, zf[j], float(back_i[s][j]), sd[j], mf[j], 1e-10 * nvar * bsc[j])))
                return
    if ncolnew != 2 * nvar: site.drift.append('%s: %d new columns, expected %d' % (name, ncolnew, 2 * nvar))
    if py['extra']:
        xi = rows_d(xback); xm = rows_q(xback_m)
        for s in range(len(xm)):
            if (xi[s] is None) != (xm[s] is None): site.spec.append(('%s:isotopic-filter' % name, 'dbF2Z on given factors, sample %d: impl %s model %s' % (s, xi[s], xm[s]))); return
            if xm[s] is not None:
                fx = [float(undy(py['case'][8][k][s])) for k in range(nvar)]
                for j in range(nvar):
                    if abs(float(xi[s][j]) - float(xm[s][j])) > 1e-11 * nvar * (sum(abs(Fm[k][j]) * abs(fx[k]) for k in range(nvar)) + abs(mf[j])):
                        site.drift.append('%s dbF2Z(given factors)[%d][%d]: impl %.15g model %.15g' % (name, s, j, float(xi[s][j]), float(xm[s][j])))
    # --- certificates on the harvested matrices, exact arithmetic
    lmax = max(map(float, eigval))
    names = ['E.Et - I', 'Et.E - I', 'sq^2 - lambda', 'E.L.Et - C0', 'Z2Ft.C0.Z2F - I', 'Z2F.F2Z - I', 'F2Z.Z2F - I']
    scales = [1, 1, lmax, vmax, cond * cond, cond, cond]
    use = [mode == 0, mode == 0, mode == 0, mode == 0, True, True, True]
    for k in range(7):
        if use[k] and float(resid[k]) > 1e-9 * scales[k]:
            site.spec.append(('%s:certificate:%s' % (name, names[k].replace(' ', '')), 'exact residual max|%s| = %.3g on the harvested matrices' % (names[k], float(resid[k]))))
    # --- factors: uncorrelated, unit variance
    rows = [[float(x) for x in fac_i[s]] for s in range(n) if iso[s]]
    G = sample_cov(rows)
    for a_ in range(nvar):
        for b_ in range(nvar):
            if abs(G[a_][b_] - (1.0 if a_ == b_ else 0.0)) > 1e-8 * cond * cond + 1e-10 * amp * amp:
                site.spec.append(('%s:factors-not-orthonormal' % name, 'sample covariance of factors (%d,%d) = %.12g' % (a_, b_, G[a_][b_])))
                return

# ----------------------------------------------------------------------------- kind 1: Hermite polynomials
from decimal import Decimal, getcontext
getcontext().prec = 80
_SQF = {}
def sqrt_fact(k):
    if k not in _SQF: _SQF[k] = Decimal(math.factorial(k)).sqrt()
    return _SQF[k]

def gen_hermite(ctx, rng, quick):
    y = Fraction(rng.randint(-8 * 64, 8 * 64), rng.choice([1, 2, 4, 64, 1024])) if rng.random() < .9 else Fraction(rng.choice([0, 1, -1, 10, -10]))
    if abs(y) > 10: y = y / 64
    r = rng.choice([1, 1, 1, Fraction(1, 2), Fraction(3, 4), Fraction(7, 8)])
    n = rng.choice([1, 2, 3, 5, 10, 20, 30, 40, 60])
    ctx.dist('hermite_n%d' % n)
    return {'y': y, 'r': r, 'n': n}, [1, dy(y), dy(r), n]

def hermite_model_case(py, im):
    c = py['case']
    return [1, c[1], c[2], c[3], [dy(math.sqrt(k)) for k in range(c[3])]]

def check_hermite(ctx, py, im, mo, site):
    c = py['case']; n = c[3]
    impl = vd(im[0]); code = vq(mo[0]); unn = vq(mo[1])
    if len(impl) != n: site.spec.append(('hermitePolynomials:size', 'returned %d values for nbpoly = %d' % (len(impl), n))); return
    run = 0.0
    for k in range(n):
        exact = Decimal(unn[k].numerator) / Decimal(unn[k].denominator) / sqrt_fact(k)    # h_k(y) r^k / sqrt(k!)
        run = max(run, abs(float(exact)))
        if abs(Decimal(float(impl[k])) - exact) > Decimal(1e-12) * Decimal(n) * Decimal(abs(float(exact)) + run):
            site.spec.append(('hermitePolynomials:recurrence', 'H_%d(%s) r^%d: impl %.15g, h_%d(y) r^k / sqrt(%d!) = %.15g (h from the exact three-term recurrence proved orthogonal)'
                              % (k, float(undy(c[1])), k, float(impl[k]), k, k, float(exact))))
            return
        site.close('hermite code recurrence[%d]' % k, impl[k], code[k], 1e-12 * n, run)

# ----------------------------------------------------------------------------- kind 2: AnamHermite
def Phi(x): return 0.5 * math.erfc(-x / math.sqrt(2.0))

def gen_anam(ctx, rng, quick):
    mode = 0 if rng.random() < .8 else 1
    nb = rng.choice([5, 8, 12, 20, 30, 40, 60]) if mode == 0 else rng.choice([3, 5, 8, 12])
    flagBound = 1 if (mode == 0 and rng.random() < .85) else 0
    n = rng.randint(12, 60 if quick else 200)
    dist = rng.choice(['lognormal', 'squares', 'ties', 'uniform', 'bimodal', 'negskew', 'negskew'])
    if dist == 'negskew' and mode == 0: nb = rng.choice([15, 20, 30, 40]); n = max(n, 40)
    data = []
    for _ in range(n):
        if dist == 'negskew': v = 10 - Fraction(int(math.exp(rng.gauss(0, 1)) * 64), 64)     # long lower tail: the expansion wiggles under the largest values
        elif dist == 'lognormal': v = Fraction(int(math.exp(rng.gauss(0, 1)) * 64), 64)
        elif dist == 'squares': v = Fraction(rng.randint(1, 40) ** 2, 16)
        elif dist == 'ties': v = Fraction(rng.choice([1, 2, 2, 3, 5, 8, 8, 8, 13]))
        elif dist == 'uniform': v = Fraction(rng.randint(-500, 500), 8)
        else: v = Fraction(int((rng.gauss(-3, 1) if rng.random() < .5 else rng.gauss(4, .5)) * 32), 32)
        data.append(v)
    for i in range(n):
        if rng.random() < .07: data[i] = None
    sel = [int(rng.random() < .85) for _ in range(n)] if rng.random() < .4 else []
    act = [data[i] for i in range(n) if data[i] is not None and (not sel or sel[i])]
    if len(set(act)) < 3: data[0], data[1], data[2] = Fraction(1), Fraction(2), Fraction(5); sel = []
    act = sorted(set(data[i] for i in range(n) if data[i] is not None and (not sel or sel[i])))
    lo, hi = act[0], act[-1]
    yq = [Fraction(k, 4) for k in range(-16, 17, 2)] + [Fraction(rng.randint(-700, 700), 128) for _ in range(6)] + [Fraction(-11), Fraction(11), Fraction(21, 2), None]
    zq = [act[rng.randrange(len(act))] for _ in range(6)] + [(act[i] + act[i + 1]) / 2 for i in rng.sample(range(len(act) - 1), min(5, len(act) - 1))]
    zq = sorted(zq) + [lo - 1, hi + 1, lo - (hi - lo), hi + (hi - lo) * 3, None]
    psi = []; bounds = []
    if mode == 1:
        kind = rng.choice(['lognormal', 'random'])
        if kind == 'lognormal':
            m, sg = rng.choice([1.0, 2.5, 10.0]), rng.choice([0.3, 0.6, 1.0])
            f = 1.0; psi = [m]
            for i in range(1, nb): f *= i; psi.append(m * (-sg) ** i / math.sqrt(f))
        else:
            psi = [rng.randint(-8, 8) / 4.0] + [-rng.randint(1, 8) / 2.0] + [rng.randint(-8, 8) / 8.0 for _ in range(nb - 2)]
        psi = [Fraction(x) for x in psi]
        bounds = [None] * 8
        zq = [Fraction(rng.randint(-400, 400), 16) for _ in range(10)]; zq = sorted(zq) + [None]
    ctx.dist('anam_fit' if mode == 0 else 'anam_given'); ctx.dist('anam_nb%d' % nb); ctx.dist('anam_' + dist)
    if sel: ctx.dist('anam_selection')
    if any(x is None for x in data): ctx.dist('anam_NA')
    py = {'mode': mode, 'nb': nb, 'flagBound': flagBound, 'data': data, 'sel': sel, 'yq': yq, 'zq': zq}
    case = [2, mode, nb, flagBound, [dy(x) for x in data], sel, [dy(x) for x in yq], [dy(x) for x in zq], [dy(x) for x in psi], [dy(x) for x in bounds]]
    return py, case

def anam_model_case(py, im):
    if im[0] != 0: return None
    c = py['case']
    rc, psi, az, ay, pz, py_, sq = im[0:7]
    if any(x == [] for x in psi): return None
    # model queries: the case's own queries, then a sample of the data values (for the Db-level columns)
    n = len(c[4]); act = [i for i in range(n) if c[4][i] != [] and (not c[5] or c[5][i])]
    act.sort(key=lambda i: undy(c[4][i]))
    step = max(1, len(act) // 14)
    py['dq'] = sorted(set(act[::step] + act[:2] + act[-2:]))
    pb = im[18] if len(im) > 18 and im[18] != [] and all(x != [] for x in im[18]) else []
    return [2, c[3], psi, sq, az, ay, pz, py_, c[6], c[7] + [c[4][i] for i in py['dq']], pb]

def check_anam(ctx, py, im, mo, site):
    c = py['case']; nb = py['nb']
    rc, psi, az, ay, pz, pyi, sq, t2r_i, r2t_i, r1, ycol, r2, zcol, r3, n3, r4, n4, loccol = im[:18]
    t2r_m, r2t_m, dzmax, bnd_m = mo
    dzmax = float(unq(dzmax))
    azv = [undy(az[0]), undy(az[1])]; ayv = [undy(ay[0]), undy(ay[1])]; pzv = [undy(pz[0]), undy(pz[1])]
    yq = py['yq']; zq = py['zq']; data = py['data']; sel = py['sel']; n = len(data)
    actv = [float(x) for k, x in enumerate(data) if x is not None and (not sel or sel[k])]
    zspan = (max(actv) - min(actv)) if actv else 1.0
    # --- forward values
    t2r_i = vd(t2r_i)
    for k, y in enumerate(yq):
        if y is None:
            if t2r_i[k] is not None: site.spec.append(('AnamHermite:undefined-in', 'transformToRawValue(undefined) = %s' % fl(t2r_i[k]))); return
            continue
        m, sabs = unq(t2r_m[k][0]), float(unq(t2r_m[k][1]))
        if t2r_i[k] is None or abs(float(t2r_i[k]) - float(m)) > 1e-12 * nb * (sabs + 2 * abs(float(m))):
            site.spec.append(('AnamHermite:expansion', 'transformToRawValue(%s) = %s but sum psi_n H_n(y) with the orthonormal Hermite polynomials (and the bounds reported by the object) is %.15g'
                              % (float(y), fl(t2r_i[k]), float(m))))
            return
    # --- inverse values
    r2t_i = vd(r2t_i)
    dq = py['dq']
    allz = zq + [data[i] for i in dq]
    for k, z in enumerate(allz):
        if k >= len(zq):
            # data value: the Db-level column must carry the same number
            i = dq[k - len(zq)]
            iv = undy(ycol[i]) if r1 == 0 else None
        else:
            iv = r2t_i[k]
        if z is None:
            if iv is not None: site.spec.append(('AnamHermite:undefined-in', 'rawToTransformValue(undefined) = %s' % fl(iv))); return
            continue
        ent = r2t_m[k]
        if ent == [-1]: site.drift.append('model bisection out of fuel'); continue
        ym, zback_m, br, core, marg, sabs = unq(ent[0]), unq(ent[1]), ent[2], ent[3], ent[4], float(unq(ent[5]))
        if iv is None: site.spec.append(('AnamHermite:rawToTransformValue-undefined', 'rawToTransformValue(%s) undefined' % float(z))); return
        noise = 1e-12 * nb * (sabs + abs(float(z)))
        if core:
            ctx.dist('anam_query_inverted')
            sent_m = abs(float(ym)) == 11.0; sent_i = abs(float(iv)) == 11.0
            if float(unq(marg)) <= 10 * noise or (sent_m != sent_i and min(abs(float(ym)), abs(float(iv))) >= 9.9 - 1e-6):
                # a decision closer to its threshold than the round-off of the double evaluation, or the scan found its bracket in the
                # last grid cell [9.9, 10] (100 * 0.1 accumulated in binary64 is below 10, exactly it is above 10, which decides the
                # out-of-range exit): excluded
                site.tie = getattr(site, 'tie', 0) + 1; ctx.dist('anam_query_tie'); continue
            if br != []:
                a, b, za, zb = [float(unq(x)) for x in br]
                toly = 1e-9 + (b - a) * 4 * noise / max(zb - za, 1e-300) if zb - za > 1e-10 else 1e-9 + (b - a)
                if abs(float(iv) - float(ym)) > toly * (1 + abs(float(ym))):
                    site.drift.append('rawToTransformValue(%s): impl %.15g model %.15g (tolerance %.3g)' % (float(z), float(iv), float(ym), toly))
            else:
                site.close('rawToTransformValue(%s)' % float(z), iv, ym, 1e-12)
        else:
            site.close('rawToTransformValue(%s) [outside practical interval]' % float(z), iv, ym, 1e-9, 1.0)
    # --- _defineBounds: the bounds reported by the fit against the model's scan of the raw expansion
    if py['mode'] == 0 and bnd_m != []:
        bm = [float(unq(x)) for x in bnd_m[0]]; lo_kind, hi_kind, marg = bnd_m[1], bnd_m[2], float(unq(bnd_m[3]))
        ctx.dist('bounds_lo_%s' % ['at-ymin', 'turning-point', 'met-on-grid'][lo_kind]); ctx.dist('bounds_hi_%s' % ['at-ymax', 'turning-point', 'met-on-grid'][hi_kind])
        if marg <= 1e-10:
            site.tie = getattr(site, 'tie', 0) + 1
        else:
            bi = [undy(az[0]), undy(az[1]), undy(ay[0]), undy(ay[1]), undy(pz[0]), undy(pz[1]), undy(pyi[0]), undy(pyi[1])]
            names = ['az.min', 'az.max', 'ay.min', 'ay.max', 'pz.min', 'pz.max', 'py.min', 'py.max']
            for k in range(8):
                tolb = 1e-9 * (abs(bm[k]) + zspan) if k in (0, 1, 4, 5) else 1e-6
                if bi[k] is None or abs(float(bi[k]) - bm[k]) > tolb:
                    site.drift.append('_defineBounds %s: impl %s model %.12g' % (names[k], fl(bi[k]), bm[k]))
    # --- properties on impl (fitted anamorphosis with bounds: the validity interval is [az.min, az.max])
    if py['mode'] == 0 and py['flagBound']:
        pyv = [undy(pyi[0]), undy(pyi[1])]
        # do the hypotheses of C18_t2r_monotone / C18_roundtrip_tails hold for this fitted object ?
        flags_open = all(iv[2] == 0 and iv[3] == 0 for iv in (az, ay, pz, pyi))
        if None not in azv + ayv + pzv + pyv:
            nested = ayv[0] <= pyv[0] < pyv[1] <= ayv[1] and azv[0] <= pzv[0] <= pzv[1] <= azv[1]
            coherent = (abs(pyv[0] - ayv[0]) <= 1e-10) == (abs(pzv[0] - azv[0]) <= 1e-10) and (abs(pyv[1] - ayv[1]) <= 1e-10) == (abs(pzv[1] - azv[1]) <= 1e-10)
            ingrid = -9.8 <= ayv[0] < 0 < ayv[1] <= 9.8
            ctx.dist('anam_theorem_hypotheses_%s' % ('hold' if flags_open and nested and coherent and ingrid else 'fail:' + ','.join(n_ for n_, ok in (('flags', flags_open), ('nested', nested), ('coherent-tails', coherent), ('|Ay|<=9.8', ingrid)) if not ok)))
            if pzv[0] - azv[0] > 1e-10: ctx.dist('anam_tail_lower')
            if azv[1] - pzv[1] > 1e-10: ctx.dist('anam_tail_upper')
        if None in azv or None in ayv or None in pzv or None in pyv or not (azv[0] < azv[1] and ayv[0] < ayv[1] and pzv[0] < pzv[1] and pyv[0] < pyv[1] and pzv[0] < azv[1] and azv[0] < pzv[1]):
            site.spec.append(('AnamHermite:bounds-inverted', 'the fitted anamorphosis reports absolute raw bounds [%s, %s] / Gaussian [%s, %s] and practical raw bounds [%s, %s] / Gaussian [%s, %s]: '
                              'an interval is empty / inverted (every raw value is then sent to a bound; data range [%.6g, %.6g])'
                              % (fl(azv[0]), fl(azv[1]), fl(ayv[0]), fl(ayv[1]), fl(pzv[0]), fl(pzv[1]), fl(pyv[0]), fl(pyv[1]), min(actv), max(actv))))
            return
        # Db level: raw -> Gaussian -> raw returns the starting values inside the validity interval, to the accuracy of the stopping rule
        if r1 != 0 or r2 != 0:
            site.spec.append(('AnamHermite:db-transform-fails', 'rawToGaussian returns %d, gaussianToRaw returns %d' % (r1, r2))); return
        yc = vd(ycol); zc = vd(zcol)
        for i in range(n):
            z = data[i]
            masked = bool(sel) and not sel[i]
            if z is None or masked:
                if z is None and not masked and (yc[i] is not None or zc[i] is not None):
                    site.spec.append(('AnamHermite:undefined-in', 'sample %d undefined but transformed to %s / %s' % (i, fl(yc[i]), fl(zc[i])))); return
                continue
            if yc[i] is None or zc[i] is None:
                site.spec.append(('AnamHermite:db-transform-undefined', 'active sample %d (z = %s) left undefined' % (i, float(z)))); return
            if not (azv[0] <= z <= azv[1]) or i not in dq: continue
            ent = r2t_m[len(zq) + dq.index(i)]
            if ent == [-1]: continue
            br = ent[2]; sabs = float(unq(ent[5]))
            acc = max(dzmax, 0.0)
            if br != []:
                a, b, za, zb = [float(unq(x)) for x in br]; acc = max(acc, zb - za)
            tol = 2 * acc + 1e-11 * nb * (sabs + abs(float(z))) + 1e-9 * (abs(float(z)) + zspan)
            if abs(float(zc[i]) - float(z)) > tol:
                site.spec.append(('AnamHermite:raw-gaussian-raw-roundtrip', 'sample %d: z = %.12g inside the validity interval [%.6g, %.6g], back-transformed %.12g (|diff| %.3g > accuracy of the stopping rule %.3g)'
                                  % (i, float(z), float(azv[0]), float(azv[1]), float(zc[i]), abs(float(zc[i]) - float(z)), tol)))
                return
        # monotone inverse on the sorted data
        pairs = sorted((float(data[i]), float(yc[i])) for i in range(n) if data[i] is not None and (not sel or sel[i]))
        for (z1, y1), (z2, y2) in zip(pairs, pairs[1:]):
            if y2 < y1 - 1e-9:
                site.spec.append(('AnamHermite:rawToTransformValue-not-monotone', 'z %.12g -> y %.12g but z %.12g -> y %.12g' % (z1, y1, z2, y2))); return
        # outside the absolute interval: the bound
        for k, z in enumerate(zq):
            if z is None: continue
            if z < azv[0] and r2t_i[k] != ayv[0]: site.spec.append(('AnamHermite:bound', 'z = %s below az.min but y = %s (ay.min = %s)' % (float(z), fl(r2t_i[k]), fl(ayv[0])))); return
            if z > azv[1] and r2t_i[k] != ayv[1]: site.spec.append(('AnamHermite:bound', 'z = %s above az.max but y = %s (ay.max = %s)' % (float(z), fl(r2t_i[k]), fl(ayv[1])))); return
        # the same round trip through the locator-based entry points
        if r3 != 0 or n3 != 1:
            site.spec.append(('AAnam:rawToGaussianByLocator', 'returns %d, %d new variable(s)' % (r3, n3))); return
        if r4 != 0 or n4 != 1:
            site.spec.append(('AAnam:gaussianToRawByLocator', 'AAnam::gaussianToRawByLocator returns %d and creates %d variable(s): the back-transform by locator never runs '
                              '(no transformation option set: setFlagVars(true) missing, and the direction flag is ZToY)' % (r4, n4)))
            return
        lc = vd(loccol)
        for i in range(n):
            z = data[i]
            if z is None or (sel and not sel[i]) or not (azv[0] <= z <= azv[1]): continue
            if lc[i] is None or abs(float(lc[i]) - float(zc[i])) > 1e-6 * (abs(float(z)) + zspan):
                site.spec.append(('AAnam:gaussianToRawByLocator', 'sample %d: back-transform by locator %s, by name %s' % (i, fl(lc[i]), fl(zc[i])))); return

# ----------------------------------------------------------------------------- kind 3: normal score
def gen_ns(ctx, rng, quick):
    n = rng.randint(1, 25 if quick else 120)
    dist = rng.choice(['distinct', 'ties', 'heavy-ties'])
    data = []
    for _ in range(n):
        v = Fraction(rng.randint(-1000, 1000), 8) if dist == 'distinct' else Fraction(rng.randint(0, 6 if dist == 'ties' else 2))
        data.append(v if rng.random() > .12 else None)
    w = rng.random()
    if w < .55: wt = []
    elif w < .8: wt = [Fraction(rng.randint(1, 16), 4) for _ in range(n)]
    elif w < .93: wt = [Fraction(rng.randint(0, 3)) for _ in range(n)]
    else: wt = [Fraction(rng.randint(-1, 4)) for _ in range(n)]
    sel = [int(rng.random() < .75) for _ in range(n)] if rng.random() < .35 else []
    ctx.dist('ns_' + dist); ctx.dist('ns_weights' if wt else 'ns_noweights')
    if sel: ctx.dist('ns_selection')
    return {'data': data, 'wt': wt, 'sel': sel}, [3, [dy(x) for x in data], [dy(x) for x in wt], sel]

def check_ns(ctx, py, im, mo, site):
    data, wt = py['data'], py['wt']
    scores = vd(im[0])
    if mo[0] == 0:
        if im[1] != 0: site.spec.append(('normalScore:refusal', 'model: negative weight of a defined sample or non-positive total, impl returns %d scores' % im[1]))
        return
    if len(scores) != len(data): site.spec.append(('normalScore:size', 'impl returns %d scores for %d samples' % (len(scores), len(data)))); return
    probs = [unq(x) for x in mo[1]]
    for i, (s, p) in enumerate(zip(scores, probs)):
        if (s is None) != (p is None):
            site.spec.append(('normalScore:undefined', 'sample %d: value %s, impl score %s, model probability %s' % (i, fl(data[i]), fl(s), fl(p)))); return
        if p is None: continue
        p = float(p)
        ok = (float(s) == -10.0) if p <= 0 else (float(s) == 10.0) if p >= 1 else abs(Phi(float(s)) - p) <= 2e-6
        if not ok:
            site.spec.append(('normalScore:rank', 'sample %d (value %s): impl score %.9g i.e. cdf %.9g, rank probability of the stable (value, position) order %.9g' % (i, fl(data[i]), float(s), Phi(float(s)), p)))
            return
    # Db level with a selection: the scores of the active samples are those of the active samples alone
    sel = py.get('sel') or []
    if sel and len(im) > 2:
        rc, col, ref = im[2], vd(im[3]), vd(im[4])
        if len(ref) == len(data):          # the vector-level call accepted the weights
            if rc != 0 or len(col) != len(data):
                site.spec.append(('normalScore:db-fails', 'AAnam::normalScore returns %d' % rc)); return
            for i in range(len(data)):
                if sel[i] and (col[i] is None) != (ref[i] is None) or (sel[i] and ref[i] is not None and abs(float(col[i]) - float(ref[i])) > 1e-9):
                    site.spec.append(('normalScore:db-selection', 'active sample %d: AAnam::normalScore gives %s, the normal score among the active samples is %s '
                                      '(masked samples take part in the ranking: _ZToYByNormalScore reads the column without the selection)' % (i, fl(col[i]), fl(ref[i]))))
                    return
    # order preservation on impl
    d = [(data[i], i, float(scores[i])) for i in range(len(data)) if data[i] is not None]
    d.sort()
    for (v1, i1, s1), (v2, i2, s2) in zip(d, d[1:]):
        if s2 < s1: site.spec.append(('normalScore:not-monotone', 'value %s (pos %d) score %.9g, value %s (pos %d) score %.9g' % (fl(v1), i1, s1, fl(v2), i2, s2))); return

# ----------------------------------------------------------------------------- kind 4: AnamEmpirical
def gen_emp(ctx, rng, quick):
    n = rng.randint(3, 30 if quick else 150)
    dist = rng.choice(['distinct', 'ties', 'skewed'])
    data = []
    for _ in range(n):
        v = Fraction(rng.randint(-2000, 2000), 16) if dist == 'distinct' else Fraction(rng.randint(0, 5)) if dist == 'ties' else Fraction(rng.randint(1, 30) ** 3, 32)
        data.append(v if rng.random() > .1 else None)
    if sum(1 for x in data if x is not None) < 2: data[0], data[1] = Fraction(1), Fraction(3)
    act = sorted(x for x in data if x is not None)
    yq = [Fraction(k, 4) for k in range(-12, 13, 3)] + [Fraction(rng.randint(-300, 300), 64) for _ in range(8)] + [None]
    zq = [act[rng.randrange(len(act))] for _ in range(4)] + [(act[i] * 3 + act[i + 1]) / 4 for i in range(0, len(act) - 1, max(1, len(act) // 4))] \
         + [(act[i] + act[i + 1] * 7) / 8 for i in range(0, len(act) - 1, max(1, len(act) // 3))] + [act[0] - 1, act[-1] + 1, None]
    ctx.dist('emp_' + dist)
    return {'data': data, 'yq': yq, 'zq': zq}, [4, [dy(x) for x in data], [dy(x) for x in yq], [dy(x) for x in zq]]

def emp_model_case(py, im):
    if im[0] != 0 or len(im) < 3: return None
    c = py['case']
    return [4, im[1], im[2], c[2], c[3] + [x for x in c[1]]]

def check_emp(ctx, py, im, mo, site):
    data, yq, zq = py['data'], py['yq'], py['zq']
    rc, ZD, YD, t2r_i, r2t_i, ycol, zcol, az, ay, zq_back = im
    ZD = vd(ZD); YD = vd(YD); act = sorted(x for x in data if x is not None); nd = len(act)
    if ZD != act: site.spec.append(('AnamEmpirical:fit-table', 'ZDisc is not the sorted list of defined data')); return
    for k in range(nd):
        p = (k + 1) / (nd + 1.0)
        if abs(Phi(float(YD[k])) - p) > 2e-6: site.spec.append(('AnamEmpirical:fit-table', 'YDisc[%d] = %.9g, cdf %.9g, expected rank probability %.9g' % (k, float(YD[k]), Phi(float(YD[k])), p))); return
    t2r_i = vd(t2r_i); r2t_i = vd(r2t_i); t2r_m, r2t_m = mo
    span = float(act[-1] - act[0]) + 1.0
    for k, y in enumerate(yq):
        if y is None:
            if t2r_i[k] is not None: site.spec.append(('AnamEmpirical:undefined-in', 'gaussianToRawVector(undefined) = %s' % fl(t2r_i[k])))
            continue
        site.close('AnamEmpirical transformToRawValue(%s)' % float(y), t2r_i[k], unq(t2r_m[k]), 1e-12, span)
    for k, z in enumerate(zq):
        if z is None:
            if r2t_i[k] is not None: site.spec.append(('AnamEmpirical:undefined-in', 'rawToGaussianVector(undefined) = %s' % fl(r2t_i[k])))
            continue
        site.close('AnamEmpirical rawToTransformValue(%s)' % float(z), r2t_i[k], unq(r2t_m[k][0]), 1e-12, 10.0)
    # property on impl: raw -> Gaussian -> raw on the data (ties included), monotone
    yc = vd(ycol); zc = vd(zcol)
    for i, z in enumerate(data):
        if z is None:
            if yc[i] is not None or zc[i] is not None: site.spec.append(('AnamEmpirical:undefined-in', 'undefined sample %d transformed' % i)); return
            continue
        if zc[i] is None or abs(float(zc[i]) - float(z)) > 1e-9 * span:
            site.spec.append(('AnamEmpirical:raw-gaussian-raw-roundtrip', 'sample %d: z = %.12g, y = %s, back %s' % (i, float(z), fl(yc[i]), fl(zc[i])))); return
        site.close('AnamEmpirical data roundtrip model[%d]' % i, zc[i], unq(r2t_m[len(zq) + i][1]), 1e-11, span)
    # ... and on values between the data (piecewise-linear table read both ways)
    zb = vd(zq_back)
    for k, z in enumerate(zq):
        if z is None or not (act[0] <= z <= act[-1]): continue
        if zb[k] is None or abs(float(zb[k]) - float(z)) > 1e-9 * span:
            site.spec.append(('AnamEmpirical:raw-gaussian-raw-roundtrip', 'z = %.12g between the data: y = %s, back %s' % (float(z), fl(r2t_i[k]), fl(zb[k])))); return
    pairs = sorted((float(data[i]), float(yc[i])) for i in range(len(data)) if data[i] is not None)
    for (z1, y1), (z2, y2) in zip(pairs, pairs[1:]):
        if y2 < y1: site.spec.append(('AnamEmpirical:not-monotone', 'z %.9g -> %.9g, z %.9g -> %.9g' % (z1, y1, z2, y2))); return

# ----------------------------------------------------------------------------- kind 5: Rotation
def gen_rot(ctx, rng, quick):
    ndim = rng.choice([2, 2, 3])
    mode = 0 if rng.random() < .75 else 1
    if mode == 0:
        ang = [Fraction(rng.choice([0, 30, 45, 90, -60, 135, 180, 270, 10, 359, 721, -17]) * 4 + rng.choice([0, 0, 1, 3]), 4) for _ in range(ndim if ndim == 3 else 1)]
        if rng.random() < .15: ang = [Fraction(0)] * len(ang)
        arg = [dy(a) for a in ang]
    else:
        import itertools
        if rng.random() < .5:
            perm = list(range(ndim)); rng.shuffle(perm)
            sg = [rng.choice([-1, 1]) for _ in range(ndim)]
            M = [[sg[i] if perm[i] == j else 0 for j in range(ndim)] for i in range(ndim)]
        else:     # a generic rotation given by its matrix (binary64 entries, orthogonal to 1e-16)
            a = [math.radians(rng.uniform(-180, 180)), math.radians(rng.uniform(-85, 85)), math.radians(rng.uniform(-180, 180))]
            c, s_ = [math.cos(x) for x in a], [math.sin(x) for x in a]
            M = [[c[0], -s_[0]], [s_[0], c[0]]] if ndim == 2 else \
                [[c[0] * c[1], -s_[0] * c[2] + c[0] * s_[1] * s_[2], s_[0] * s_[2] + c[0] * s_[1] * c[2]],
                 [s_[0] * c[1], c[0] * c[2] + s_[0] * s_[1] * s_[2], -c[0] * s_[2] + s_[0] * s_[1] * c[2]],
                 [-s_[1], c[1] * s_[2], c[1] * c[2]]]
        if rng.random() < .25: M[0][0] += 1      # not a rotation: must be refused
        arg = [dy(M[i][j]) for j in range(ndim) for i in range(ndim)]   # column-major
    vecs = [[Fraction(rng.randint(-4000, 4000), 16) for _ in range(ndim)] for _ in range(4)]
    ctx.dist('rot_%dd' % ndim); ctx.dist('rot_angles' if mode == 0 else 'rot_matrix')
    return {'ndim': ndim, 'mode': mode, 'vecs': vecs}, [5, ndim, mode, arg, [[dy(x) for x in v] for v in vecs]]

def rot_model_case(py, im):
    return [5, py['ndim'], im[1], im[2], im[3], py['case'][4], im[5]]

def check_rot(ctx, py, im, mo, site):
    rc, flag, M, Mi, res, cs, ang, rc2, M2 = im
    nd = py['ndim']; Md = md(M); Mid = md(Mi)
    # setAngles: the matrix is the one defined by the (cos, sin) pairs; unit pairs
    if py['mode'] == 0 and mo[1] != []:
        site.mat('Rotation matrix from angles', Md, mq(mo[1]), 1e-15)
        for k, p in enumerate(cs):
            c_, s_ = undy(p[0]), undy(p[1])
            if abs(float(c_ * c_ + s_ * s_) - 1.0) > 1e-15: site.spec.append(('Rotation:cos-sin-not-unit', 'angle %d: cos^2 + sin^2 = %.17g' % (k, float(c_ * c_ + s_ * s_)))); return
    # angles -> matrix -> angles -> matrix
    if rc == 0 and not (nd == 3 and abs(abs(float(Md[2][0])) - 1.0) < 1e-9):
        M2d = md(M2)
        for i in range(nd):
            for j in range(nd):
                if rc2 != 0 or abs(float(M2d[i][j]) - float(Md[i][j])) > 1e-12:
                    site.spec.append(('Rotation:angles-matrix-roundtrip', 'matrix %s, angles held %s, matrix rebuilt from them %s' % ([[fl(x) for x in r] for r in Md], [fl(x) for x in vd(ang)], [[fl(x) for x in r] for r in M2d]))); return
    for i in range(nd):
        for j in range(nd):
            if Mid[i][j] != Md[j][i]: site.spec.append(('Rotation:inverse-not-transpose', '_rotInv(%d,%d) = %s, _rotMat(%d,%d) = %s' % (i, j, fl(Mid[i][j]), j, i, fl(Md[j][i])))); return
    resid = vq(mo[2])
    for k, nm in enumerate(['Mt.M - I', 'M.Mt - I', 'Minv - Mt']):
        if float(resid[k]) > 1e-9: site.spec.append(('Rotation:certificate', 'exact residual max|%s| = %.3g' % (nm, float(resid[k])))); return
    for k, v in enumerate(py['vecs']):
        d_i, b_i = vd(res[k][0]), vd(res[k][1]); d_m, b_m = vq(mo[0][k][0]), vq(mo[0][k][1])
        sc = max(abs(float(x)) for x in v) + 1.0
        site.vec('rotateDirect[%d]' % k, d_i, d_m, 1e-13, sc); site.vec('rotateInverse(rotateDirect)[%d]' % k, b_i, b_m, 1e-13, sc)
        for a, b in zip(b_i, v):
            if abs(float(a) - float(b)) > 1e-12 * sc: site.spec.append(('Rotation:direct-inverse-roundtrip', 'v = %s, back = %s' % ([float(x) for x in v], [float(x) for x in b_i]))); return

# ----------------------------------------------------------------------------- kind 6: hermiteCondExpElement under AddressSanitizer
def gen_condexp(ctx, rng, quick):
    nb = rng.choice([1, 1, 2, 3, 4, 8])
    y = Fraction(rng.randint(-96, 96), 32)
    psi = [Fraction(rng.randint(-40, 40), 8) for _ in range(nb)]
    ctx.dist('condexp_nb%d' % nb)
    return {'nb': nb, 'y': y, 'psi': psi}, [6, dy(y), dy(0), [dy(x) for x in psi]]

def condexp_model_case(py, im):
    c = py['case']
    return [6, c[1], c[3], [dy(math.sqrt(k)) for k in range(len(c[3]))]]

def check_condexp(ctx, py, im, mo, site):
    v = undy(im[0]); m = unq(mo[0])
    if v is None or abs(float(v) - float(m)) > 1e-12 * (sum(abs(float(x)) for x in py['psi']) * 50 + 1 + abs(float(m))):
        site.spec.append(('hermiteCondExpElement:expansion', 'hermiteCondExpElement(%s, 0, %s) = %s, sum psi_n H_n(y) with the orthonormal Hermite polynomials = %.15g'
                          % (float(py['y']), [float(x) for x in py['psi']], fl(v), float(m))))

# ----------------------------------------------------------------------------- kind 8: AnamHermite::fitFromArray
def gen_fit(ctx, rng, quick):
    n = rng.randint(3, 40 if quick else 150)
    dist = rng.choice(['lognormal', 'ties', 'uniform', 'negskew'])
    data = []
    for _ in range(n):
        if dist == 'lognormal': v = Fraction(int(math.exp(rng.gauss(0, 1)) * 64), 64)
        elif dist == 'ties': v = Fraction(rng.choice([1, 2, 2, 3, 5, 8, 8, 8, 13]))
        elif dist == 'uniform': v = Fraction(rng.randint(-500, 500), 8)
        else: v = 10 - Fraction(int(math.exp(rng.gauss(0, 1)) * 64), 64)
        data.append(v if rng.random() > .08 else None)
    if len(set(x for x in data if x is not None)) < 2: data[0], data[1] = Fraction(1), Fraction(4)
    nb = rng.choice([2, 3, 5, 8, 12, 20, 40])
    ctx.dist('fit_' + dist); ctx.dist('fit_nb%d' % nb)
    return {'data': data, 'nb': nb}, [8, nb, [dy(x) for x in data]]

def fit_model_case(py, im):
    if im[0] != 0: return None
    c = py['case']
    return [8, c[1], c[2], im[3], im[4], im[5], im[6]]

def check_fit(ctx, py, im, mo, site):
    nb = py['nb']; data = [x for x in py['data'] if x is not None]
    rc, psi, zs, ys, Gc, g, sq, bnd, rc2, psi2, bnd2 = im
    zs_m, Fs, psi_m, scales, mean, var, m = mo
    psi = vd(psi); zs = vd(zs); ys = vd(ys); Gc = vd(Gc)
    mean = unq(mean); var = unq(var); Fs = vq(Fs)
    span = float(max(data) - min(data)) + 1.0
    site.vec('fit class values', zs, vq(zs_m), 1e-12, span)
    ncl = len(ys)
    if ncl != m + 2: site.drift.append('fit: %d classes for %d distinct values' % (ncl, m)); return
    # structure of the class limits and the oracle: G(G^-1(F_k)) = F_k, G(ANAM_YMAX + 1) = 1
    if abs(ys[0] - (ys[1] - Fraction(1, 2))) > 1e-14 or abs(ys[m] - (ys[m - 1] + Fraction(1, 2))) > 1e-14 or ys[m + 1] != 11:
        site.drift.append('fit: end classes ys = %s ... %s' % ([fl(y) for y in ys[:2]], [fl(y) for y in ys[-3:]]))
    for k in range(1, m):
        if abs(float(Gc[k]) - float(Fs[k - 1])) > 5e-7:
            site.spec.append(('AnamHermite:fit-frequencies', 'class %d: cdf of the class limit %.9g, cumulated frequency %.9g' % (k, float(Gc[k]), float(Fs[k - 1])))); return
    if Gc[m + 1] != 1: site.drift.append('fit: cdf(ANAM_YMAX + 1) = %s' % fl(Gc[m + 1]))
    # coefficients: correspondence
    for k in range(nb):
        sc = float(unq(scales[k]))
        if psi[k] is None or abs(float(psi[k]) - float(unq(psi_m[k]))) > 1e-13 * nb * ncl * (sc + 1e-300) + 1e-300:
            site.drift.append('fit psi[%d]: impl %s model %.15g' % (k, fl(psi[k]), float(unq(psi_m[k])))); break
    # property: psi_0 is the mean of the data up to the end classes (C18_fit_psi0: |psi0 - mean| <= EPSILON5 * range)
    eps = 1e-5 * float(max(data) - min(data))
    if abs(float(psi[0]) - float(mean)) > eps * (1 + 1e-6) + 1e-12 * span + 5e-7 * span:
        site.spec.append(('AnamHermite:fit-psi0-not-mean', 'psi_0 = %.12g, mean of the data %.12g (allowed difference %.3g)' % (float(psi[0]), float(mean), eps))); return
    # Bessel: the variance explained by the coefficients cannot exceed the variance of the data
    s2 = sum(float(x) ** 2 for x in psi[1:])
    if s2 > float(var) * (1 + 1e-3) + 2 * eps * span + 1e-9 * span * span:
        site.spec.append(('AnamHermite:fit-variance-exceeded', 'sum psi_n^2 (n >= 1) = %.12g > variance of the data %.12g' % (s2, float(var)))); return
    ctx.dist('fit_variance_ratio_%d0%%' % int(10 * min(s2 / float(var), 0.999)) if var > 0 else 'fit_variance_ratio_na')
    # a re-fit on an object already used must give the same anamorphosis
    if rc2 != 0 or vd(psi2) != psi or vd(bnd2) != vd(bnd):
        site.spec.append(('AnamHermite:refit-differs', 'fitFromArray on an object already fitted on other data: psi_0 = %s (fresh object: %.12g), az = [%s, %s] (fresh: [%s, %s]): '
                          'coefficients are accumulated on the previous ones and the previous bounds are kept'
                          % (fl(vd(psi2)[0]) if rc2 == 0 else 'rc %d' % rc2, float(psi[0]), fl(vd(bnd2)[0]), fl(vd(bnd2)[1]), fl(vd(bnd)[0]), fl(vd(bnd)[1]))))

# ----------------------------------------------------------------------------- kind 10: Hermite factors selected by ranks
def gen_ranks(ctx, rng, quick):
    nb = rng.choice([3, 5, 8, 12, 20])
    style = rng.choice(['increasing', 'permuted', 'permuted', 'decreasing', 'repeated', 'single-high', 'with-rank-0'])
    k = rng.randint(1, min(5, nb))
    base = rng.sample(range(1, nb + 1), k)
    if style == 'increasing': ifacs = sorted(base)
    elif style == 'decreasing': ifacs = sorted(base, reverse=True)
    elif style == 'repeated': ifacs = base + [rng.choice(base) for _ in range(2)]; rng.shuffle(ifacs)
    elif style == 'single-high': ifacs = [nb]
    elif style == 'with-rank-0': ifacs = base + [0]; rng.shuffle(ifacs)
    else: ifacs = base[:]; rng.shuffle(ifacs)
    y = Fraction(rng.randint(-256, 256), 64); r = rng.choice([1, 1, Fraction(1, 2), Fraction(3, 4)])
    data = [Fraction(rng.randint(-192, 192), 64) if rng.random() > .15 else None for _ in range(6)]
    sel = [int(rng.random() < .8) for _ in range(6)] if rng.random() < .4 else []
    ctx.dist('ranks_' + style)
    return {'nb': nb, 'ifacs': ifacs, 'y': y, 'r': r, 'data': data, 'sel': sel}, [10, nb, dy(y), dy(r), ifacs, [dy(x) for x in data], sel]

def ranks_model_case(py, im):
    pts = [[dy(py['y']), dy(py['r'])], [dy(py['y']), dy(1)]] + [[dy(x), dy(1)] for x in py['data'] if x is not None]
    return [10, pts, py['ifacs'], [dy(math.sqrt(k)) for k in range(max(py['ifacs']) + 2)]]

def check_ranks(ctx, py, im, mo, site):
    ifacs, nb, data, sel = py['ifacs'], py['nb'], py['data'], py['sel']
    direct, z2f, rc1, n1, cols1, rc2, n2, cols2 = im
    def cmp(what, impl, model):
        impl = vd(impl)
        if len(impl) != len(ifacs): site.spec.append(('hermite-by-ranks:size', '%s returns %d values for %d ranks' % (what, len(impl), len(ifacs)))); return False
        run = max([abs(float(unq(x))) for x in model] + [1.0])
        for k in range(len(ifacs)):
            m = float(unq(model[k]))
            if impl[k] is None or abs(float(impl[k]) - m) > 1e-12 * (max(ifacs) + 2) * (abs(m) + run):
                site.spec.append(('hermite-by-ranks:%s' % what.split('(')[0], '%s, ranks %s: factor %d (rank %d) = %s, r^n H_n(y) = %.15g whatever the order of the list'
                                  % (what, ifacs, k, ifacs[k], fl(impl[k]), m)))
                return False
        return True
    if not cmp('hermitePolynomials(y=%s, r=%s, ifacs)' % (float(py['y']), float(py['r'])), direct, mo[0]): return
    if not cmp('AnamHermite::z2factor(%s, ifacs)' % float(py['y']), z2f, mo[1]): return
    defined = [i for i, x in enumerate(data) if x is not None]
    valid = all(1 <= k <= nb for k in ifacs)
    # Db level: the ranks must lie in [1, number of polynomials]
    if not valid:
        if rc1 == 0: site.spec.append(('rawToFactorByRanks:invalid-rank-accepted', 'ranks %s accepted with %d polynomials' % (ifacs, nb)))
    else:
        if rc1 != 0 or n1 != len(ifacs): site.spec.append(('rawToFactorByRanks:fails', 'returns %d, %d new variables for ranks %s' % (rc1, n1, ifacs))); return
        for j, i in enumerate(defined):
            active = not sel or sel[i]
            got = [undy(cols1[k][i]) for k in range(len(ifacs))]
            if not active: continue
            if not cmp('rawToFactorByRanks(sample %d, z=%s)' % (i, float(data[i])), [cols1[k][i] for k in range(len(ifacs))], mo[2 + j]): return
    nf = len(ifacs)
    if nf <= nb:
        if rc2 != 0 or n2 != nf: site.spec.append(('rawToFactor:fails', 'rawToFactor(db, %d) returns %d, %d new variables' % (nf, rc2, n2))); return
        # ranks 1..nf: reference = by-ranks model values for the sorted list, recomputed here from the direct call on the same ranks is not
        # available: compare with rawToFactorByRanks when the list is 1..nf, else only the first factor H_1(z) = -z
        for i in defined:
            if sel and not sel[i]: continue
            v = undy(cols2[0][i])
            if v is None or abs(float(v) + float(data[i])) > 1e-14 * (1 + abs(float(data[i]))):
                site.spec.append(('rawToFactor:first-factor', 'sample %d: z = %s, factor 1 = %s (H_1(z) = -z)' % (i, float(data[i]), fl(v)))); return

# ----------------------------------------------------------------------------- kind 9: discrete anamorphoses (no model: exact references computed here)
def gen_discrete(ctx, rng, quick):
    which = rng.randint(0, 1)
    n = rng.randint(8, 40)
    data = [Fraction(rng.randint(1, 400), 64) for _ in range(n)]
    if rng.random() < .3: data[rng.randrange(n)] = None
    vals = sorted(x for x in data if x is not None)
    ncut = rng.randint(1, 4)
    zc = sorted(set(vals[(k + 1) * len(vals) // (ncut + 2)] for k in range(ncut)))
    ctx.dist('discrete_%s' % ('DD' if which == 0 else 'IR'))
    return {'which': which, 'data': data, 'zc': zc}, [9, which, [dy(x) for x in data], [dy(x) for x in zc]]

def check_discrete(ctx, py, im, site):
    data = [x for x in py['data'] if x is not None]; zc = py['zc']
    if py['which'] == 0:
        rc, threw = im
        if threw: site.spec.append(('AnamDiscreteDD:fit-throws', 'an exception escapes AnamDiscreteDD::fitFromArray'))
        elif rc == 0: site.spec.append(('AnamDiscreteDD:fit-return-code', 'AnamDiscreteDD::fitFromArray returns 0 (success) although no MAF transition matrix was provided (setPcaZ2F)'))
        return
    rc, threw, fac = im
    if threw or rc != 0:
        site.spec.append(('AnamDiscreteIR:fit-fails', 'AnamDiscreteIR::fitFromArray returns %d (exception: %d) on %d values, cutoffs %s' % (rc, threw, len(data), [float(z) for z in zc]))); return
    # indicator residuals H_k(z) = 1(z >= z_k) / T_k - 1(z >= z_{k-1}) / T_{k-1}, T = tonnage above the cutoff (T_{-1} = 1): exact reference;
    # they are centred and mutually orthogonal over the data
    n = len(data)
    T = [Fraction(1)] + [Fraction(sum(1 for x in data if x >= z), n) for z in zc]
    rows = [vd(r) for r in fac if r != []]
    for i, z in enumerate(data):
        for k in range(len(zc)):
            ref = (Fraction(int(z >= zc[k])) / T[k + 1] if T[k + 1] else None, Fraction(int(k == 0 or z >= zc[k - 1])) / T[k])
            if ref[0] is None: continue
            if rows[i][k] is None or abs(float(rows[i][k]) - float(ref[0] - ref[1])) > 1e-12 * (1 + abs(float(ref[0] - ref[1]))):
                site.spec.append(('AnamDiscreteIR:z2factor', 'z = %s, factor %d: impl %s, indicator residual %.12g' % (float(z), k + 1, fl(rows[i][k]), float(ref[0] - ref[1])))); return
    for k in range(len(zc)):
        if T[k + 1] == 0: continue
        m = sum(float(r[k]) for r in rows) / n
        if abs(m) > 1e-10: site.spec.append(('AnamDiscreteIR:factors-not-centred', 'mean of factor %d over the data = %.3g' % (k + 1, m))); return
        for l in range(k):
            cv = sum(float(r[k]) * float(r[l]) for r in rows) / n
            if abs(cv) > 1e-10: site.spec.append(('AnamDiscreteIR:factors-not-orthogonal', 'factors %d and %d: covariance over the data %.3g' % (l + 1, k + 1, cv))); return

# ----------------------------------------------------------------------------- kind 7: fits of degenerate data under AddressSanitizer
def gen_degenerate(ctx, rng, quick):
    which = rng.randint(0, 1)
    v = Fraction(rng.randint(-20, 20), 4)
    data = rng.choice([[v], [v] * rng.randint(2, 6), [None, None], [None, v, v], []])
    nb = rng.choice([3, 5, 12])
    ctx.dist('degenerate_fit_%s' % ('AnamEmpirical' if which == 0 else 'AnamHermite'))
    return {'which': which, 'nb': nb, 'data': data}, [7, which, nb, [dy(x) for x in data]]

def check_degenerate(ctx, py, im, site):
    name = 'AnamEmpirical' if py['which'] == 0 else 'AnamHermite'
    rc, threw = im
    desc = '%s fit of %s' % (name, [fl(x) for x in py['data']])
    if threw: site.spec.append(('%s:fit-throws' % name, '%s: an exception escapes fitFromArray (fewer than two distinct defined values must be refused with an error code)' % desc))
    elif rc == 0: site.spec.append(('%s:fit-accepts-degenerate-data' % name, '%s returns 0' % desc))

# ----------------------------------------------------------------------------- driver
def run(ctx):
    quick = ctx.quick()
    build_lib(ctx)
    proofs_ok = coq_properties(ctx)
    runner = build_runner(ctx); exe = build_harness(ctx, 'C18')
    if runner is None or exe is None:
        print('ERROR: model runner or harness does not build'); sys.exit(3)
    rng = ctx.rng
    gens = [(gen_pca, 120 if quick else 1500), (gen_hermite, 120 if quick else 1500), (gen_anam, 40 if quick else 400),
            (gen_ns, 80 if quick else 1000), (gen_emp, 50 if quick else 600), (gen_rot, 60 if quick else 600), (gen_fit, 40 if quick else 500), (gen_ranks, 60 if quick else 600)]
    pys = []; pys_asan = []
    for line in load_corpus(ctx):
        py = py_from_case(line); py['corpus'] = True
        (pys_asan if py['kind'] in (6, 7, 9) else pys).append(py); ctx.dist('corpus')
    for g, cnt in gens:
        for _ in range(cnt):
            py, case = g(ctx, rng, quick); py['kind'] = case[0]; py['case'] = case; pys.append(py)
    impl, logs = run_resilient(ctx, exe, 'impl', [p['case'] for p in pys])
    # a few cases with very short expansions run under AddressSanitizer (the model is total: any report is a disagreement)
    t_asan = time.time()
    if quick:
        # quick tier: no dependence on the ASan flavour of the library (minutes to build in a fresh build directory or on a loaded
        # machine): the harness and the anchored sources that own the two memory defects found so far are compiled with
        # -fsanitize=address and linked against the regular library (their instrumented definitions take precedence)
        exe_asan = build_asan_mix(ctx)
        ctx.cov['asan_mode'] = 'harness + Hermite.cpp, AnamHermite.cpp, AnamEmpirical.cpp instrumented, regular libgstlearn.so (quick tier)'
    else:
        build_lib(ctx, 'asan')          # shared ASan flavour (pre-built by bin/setup.sh; incremental here): full sweep
        exe_asan = build_harness(ctx, 'C18', flavor='asan')
        ctx.cov['asan_mode'] = 'ASan flavour of the whole library (thorough tier)'
    ctx.cov['asan_build_s'] = round(time.time() - t_asan, 1)
    if exe_asan is None:
        print('ERROR: ASan harness does not build'); sys.exit(3)
    for _ in range(24 if quick else 200):
        py, case = gen_condexp(ctx, rng, quick); py['kind'] = case[0]; py['case'] = case; py['asan'] = True; pys_asan.append(py)
    for _ in range(16 if quick else 80):
        py, case = gen_degenerate(ctx, rng, quick); py['kind'] = case[0]; py['case'] = case; py['asan'] = True; pys_asan.append(py)
    for _ in range(12 if quick else 80):
        py, case = gen_discrete(ctx, rng, quick); py['kind'] = case[0]; py['case'] = case; py['asan'] = True; pys_asan.append(py)
    impl_a, logs_a = run_resilient(ctx, exe_asan, 'asan', [p['case'] for p in pys_asan], env={'ASAN_OPTIONS': 'detect_leaks=0:abort_on_error=0'})
    ctx.cov['asan_part_s'] = round(time.time() - t_asan, 1)
    ctx.log('ASan part: %d cases, %.1fs (of which build %.1fs; %s)' % (len(pys_asan), ctx.cov['asan_part_s'], ctx.cov['asan_build_s'], ctx.cov['asan_mode']))
    pys = pys + pys_asan; impl = impl + impl_a; logs = logs + logs_a
    found_input = False
    mcases = []; mref = []
    for i, py in enumerate(pys):
        if impl[i] is None or (impl[i] and impl[i][0] == -997):
            log = logs[i] or ''
            m = re.search(r'AddressSanitizer: ([a-z-]+)[^\n]*\n(?:[^\n]*\n){0,3}?\s*#0 \S+ in ([\w:~]+)', log)
            if py.get('asan') and py['kind'] == 9:
                key = 'crash:AnamDiscrete%s:fit' % ('DD' if py['which'] == 0 else 'IR')
                m2 = re.search(r'SUMMARY: AddressSanitizer: (\S+) .*? in ([\w:~]+)', log)
                text = 'AnamDiscrete%s::fitFromArray crashes on a freshly constructed object with %d cutoffs (%s)' % ('DD' if py['which'] == 0 else 'IR', len(py['zc']), (m2.group(1) + ' in ' + m2.group(2)) if m2 else log[-200:])
            elif py.get('asan') and m and py['kind'] == 7:
                key = 'asan:%s:%s:degenerate-data' % (m.group(2), m.group(1))
                text = 'AddressSanitizer %s in %s: %s fit of %s' % (m.group(1), m.group(2), 'AnamEmpirical' if py['which'] == 0 else 'AnamHermite(%d)' % py['nb'], [fl(x) for x in py['data']])
            elif py.get('asan') and m:
                key = 'asan:%s:%s:%d-coefficient-expansion' % (m.group(2), m.group(1), py['nb'])
                text = 'AddressSanitizer %s in %s: hermiteCondExpElement(y, 0, psi) with %d coefficient(s)' % (m.group(1), m.group(2), py['nb'])
            else:
                key = 'crash:%s' % KIND_NAME[py['kind']]; text = 'harness crashed / threw on a %s case: %s' % (KIND_NAME[py['kind']], log[-300:])
            ctx.violation(key, text, {'impl_case': sx_str(py['case']), 'log': log[-1500:]}); found_input = True
            continue
        if py['kind'] in (7, 9):       # no model: the outcome itself is the verdict
            site = Site(); (check_degenerate if py['kind'] == 7 else check_discrete)(ctx, py, impl[i], site); ctx.count(sx_str(py['case']))
            if site.spec:
                ctx.violation(site.spec[0][0], site.spec[0][1], {'impl_case': sx_str(py['case'])}); found_input = True
            continue
        mc = MODEL_CASE[py['kind']](py, impl[i])
        if mc is None:
            # the fit was refused: legitimate only for degenerate data (fewer than two distinct active values)
            vals = set(x for k, x in enumerate(py.get('data', [])) if x is not None and (not py.get('sel') or py['sel'][k]))
            if py['kind'] in (2, 4, 8) and py.get('mode', 0) == 0 and len(vals) >= 2:
                ctx.violation('%s:fit-fails' % KIND_NAME[py['kind']], 'fit returns %s on %d distinct active values' % (impl[i][0], len(vals)), {'impl_case': sx_str(py['case'])}); found_input = True
            else:
                ctx.cov['tie_excluded'] += 1; ctx.count(None, False); ctx.dist('fit_refused_degenerate')
            continue
        mcases.append(mc); mref.append((py, impl[i]))
    mf = write_cases(ctx, 'model', mcases)
    rcm, model = run_model(ctx, runner, mf)
    if len(model) != len(mcases):
        print('ERROR: model runner returned %d results for %d cases' % (len(model), len(mcases))); sys.exit(3)
    ndis = 0
    for (py, im), mo, mc in zip(mref, model, mcases):
        if mo and mo[0] == -999:
            print('ERROR: model rejected a case: %s' % sx_str(mc)[:300]); sys.exit(3)
        site = Site()
        CHECK[py['kind']](ctx, py, im, mo, site)
        ctx.cov['tie_excluded'] += getattr(site, 'tie', 0)
        if site.excluded:
            ctx.cov['tie_excluded'] += 1; ctx.count(None, False); continue
        ctx.count(sx_str(mc)[:3000])
        ctx.sample({'kind': py['kind'], 'impl_case': sx_str(py['case'])[:300]}, 6)
        if site.spec:
            ndis += 1; found_input = True
            key, text = site.spec[0]
            ctx.violation(key, text, {'impl_case': sx_str(py['case']), 'model_case': sx_str(mc), 'all': [t for _, t in site.spec][:5], 'drift': site.drift[:5],
                                      'how': 'bin/check C18 quick with this impl_case as a line of corpus/C18.sx'})
        elif site.drift:
            ndis += 1
            ctx.violation('model-drift:' + KIND_NAME[py['kind']] + ':' + site.drift[0].split(':')[0].split('[')[0].split('(')[0].strip().replace(' ', '-'),
                          'impl satisfies the property on this input but differs from the model: ' + '; '.join(site.drift[:4]),
                          {'impl_case': sx_str(py['case']), 'model_case': sx_str(mc), 'correspondence': 'coq/C18/Model.v vs ' + KIND_NAME[py['kind']]}, found_input=False)
    ctx.cov['disagreements'] = ndis
    ctx.cov['rule'] = ('case = one fitted transform and its data (PCA/MAF on 1-6 variables with NA / selections / ties; Hermite polynomials at dyadic points; '
                       'AnamHermite fits of skewed / tied / NA data with 5-60 polynomials and raw / Gaussian queries; normal scores with ties / NA / weights; '
                       'empirical anamorphosis; rotations). distinct = distinct model case text; non-trivial = transform invertible (conditioning <= 1e5, '
                       'no decision closer than 1e-9 to a threshold); others counted under tie_excluded')
    if not proofs_ok: proof_break_violation(ctx, found_input)
    ctx.assumptions = ['eigen-decompositions, square roots, the Gaussian quantile/cdf approximations and the fitted Hermite coefficients are oracles harvested from the implementation; '
                       'their certificates (orthogonality, E.L.Et = C0, Z2F.F2Z = I) are re-checked in exact arithmetic on every case',
                       'the moment functional E[x^2k] = (2k-1)!!, E[x^2k+1] = 0 is integration against the standard Gaussian density (cited, not proved)',
                       'round-off tolerances: 1e-10 x conditioning (PCA/MAF, cases with conditioning > 1e5 or a singular covariance excluded); '
                       '1e-12 x n x (|value| + running maximum) for Hermite polynomials and expansions (n = number of polynomials, scale = sum |psi_n H_n|); '
                       'inverse anamorphosis: 1e-9 + bracket width x round-off / bracket height; decisions closer to their threshold than the round-off are excluded (tie_excluded)',
                       'the raw -> Gaussian -> raw accuracy demanded of the implementation is the one proved for the stopping rule (C18_bisection): twice max(|phi(1) - phi(-1)| / 1e5, '
                       'height of the final bracket), inside the absolute validity interval [az.min, az.max] reported by the object',
                       'comparisons against irrational references use CPython floats, decimal (80 digits, sqrt(k!)) and math.erfc (Gaussian cdf); quantile tolerance 2e-6 in probability '
                       '(law_invcdf_gaussian is a 1e-7 approximation)',
                       'AnamHermite::_defineBounds and the fit are not modelled: coefficients and bounds are harvested; PCA::_variogramh is not modelled (MAF: only V^T C0 V = I and the inverse are checked)']

ASAN_MIX_SOURCES = ['src/Polynomials/Hermite.cpp', 'src/Anamorphosis/AnamHermite.cpp', 'src/Anamorphosis/AnamEmpirical.cpp']
def build_asan_mix(ctx):
    fl, ld = lib_flags('lib')
    outd = os.path.join(BUILD, 'harness'); os.makedirs(outd, exist_ok=True)
    out = os.path.join(outd, 'C18_asanmix')
    srcs = [os.path.join(VERIF, 'harness', 'C18.cpp')] + [os.path.join(REPO, f) for f in ASAN_MIX_SOURCES]
    rc, o, e = sh(['nice', 'g++'] + fl + ['-fsanitize=address', '-fno-omit-frame-pointer', '-g1'] + srcs + ['-o', out + '.tmp%d' % os.getpid()] + ld, timeout=900)
    if rc != 0:
        ctx.log('ASan (mixed) harness build failed', e[-2000:]); return None
    os.replace(out + '.tmp%d' % os.getpid(), out)
    return out

def run_resilient(ctx, exe, name, cases, env=None):
    """run the harness; a crash loses only the crashing case (the run is resumed after it). Returns (results | None, log | None) per case"""
    res = [None] * len(cases); logs = [None] * len(cases)
    start = 0
    for attempt in range(len(cases) + 1):
        if start >= len(cases): break
        cf = write_cases(ctx, '%s%d' % (name, attempt), cases[start:])
        rc, out = run_impl(ctx, exe, cf, env=env)
        for k, r in enumerate(out): res[start + k] = r
        if len(out) >= len(cases) - start: break
        try:
            lg = open(cf + '.impl.log', errors='replace').read()
            k = lg.find('ERROR: AddressSanitizer')
            logs[start + len(out)] = lg[k:k + 6000] if k >= 0 else lg[-3000:]
        except OSError: logs[start + len(out)] = ''
        start += len(out) + 1
    return res, logs

def ud(x): return undy(x)
def py_from_case(c):
    """rebuild the generator-side description of a stored impl case (corpus / replay)"""
    k = c[0]; py = {'kind': k, 'case': c}
    if k == 0: py.update({'mode': c[1], 'nvar': c[2], 'n': len(c[3][0]), 'cols': [[ud(x) for x in col] for col in c[4]], 'sel': c[5], 'dist': 'corpus', 'extra': c[8]})
    elif k == 1: py.update({'y': ud(c[1]), 'r': ud(c[2]), 'n': c[3]})
    elif k == 2: py.update({'mode': c[1], 'nb': c[2], 'flagBound': c[3], 'data': [ud(x) for x in c[4]], 'sel': c[5], 'yq': [ud(x) for x in c[6]], 'zq': [ud(x) for x in c[7]]})
    elif k == 3: py.update({'data': [ud(x) for x in c[1]], 'wt': [ud(x) for x in c[2]], 'sel': c[3] if len(c) > 3 else []})
    elif k == 4: py.update({'data': [ud(x) for x in c[1]], 'yq': [ud(x) for x in c[2]], 'zq': [ud(x) for x in c[3]]})
    elif k == 5: py.update({'ndim': c[1], 'mode': c[2], 'vecs': [[ud(x) for x in v] for v in c[4]]})
    elif k == 6: py.update({'nb': len(c[3]), 'y': ud(c[1]), 'psi': [ud(x) for x in c[3]], 'asan': True})
    elif k == 10: py.update({'nb': c[1], 'y': ud(c[2]), 'r': ud(c[3]), 'ifacs': c[4], 'data': [ud(x) for x in c[5]], 'sel': c[6]})
    elif k == 9: py.update({'which': c[1], 'data': [ud(x) for x in c[2]], 'zc': [ud(x) for x in c[3]], 'asan': True})
    elif k == 8: py.update({'nb': c[1], 'data': [ud(x) for x in c[2]]})
    elif k == 7: py.update({'which': c[1], 'nb': c[2], 'data': [ud(x) for x in c[3]], 'asan': True})
    return py

def load_corpus(ctx):
    p = os.path.join(VERIF, 'corpus', ctx.pid + '.sx')
    if not os.path.exists(p): return []
    return [sx_parse(l) for l in open(p) if l.strip() and not l.startswith('#')]

KIND_NAME = {10: 'hermite-by-ranks', 9: 'AnamDiscrete', 8: 'fitFromArray', 7: 'degenerate-fit', 0: 'PCA', 1: 'hermitePolynomials', 2: 'AnamHermite', 3: 'normalScore', 4: 'AnamEmpirical', 5: 'Rotation', 6: 'hermiteCondExpElement'}
MODEL_CASE = {0: lambda py, im: pca_model_case_any(py, im), 1: hermite_model_case, 2: anam_model_case,
              3: lambda py, im: py['case'][:3], 4: emp_model_case, 5: rot_model_case, 6: condexp_model_case, 8: fit_model_case, 10: ranks_model_case}
CHECK = {0: check_pca, 1: check_hermite, 2: check_anam, 3: check_ns, 4: check_emp, 5: check_rot, 6: check_condexp, 8: check_fit, 10: check_ranks}

def pca_model_case_any(py, im):
    if im[0] != 0:
        z = [[0, 0]] * py['nvar']; zm = [z] * py['nvar']
        c = py['case']
        return [0, py['mode'], py['nvar'], c[4], c[5], z, zm, z, z, zm, zm, c[8], c[3], c[6], c[7]]
    return pca_model_case(py, im)

if __name__ == '__main__':
    main(run)

"""Generators and case builders shared by the kriging checks (C01, C02, C04, C05)."""
import math, itertools
from fractions import Fraction
from common import *

COV_NUGGET, COV_SPH, COV_EXP, COV_GAUS, COV_CUBIC = 0, 1, 2, 3, 4

def gen_locations(rng, ndim, n, spread=16):
    """n distinct lattice points scaled by a dyadic step"""
    step = rng.choice([1, 1, Fraction(1, 2), Fraction(1, 4), 2])
    pts = set()
    while len(pts) < n:
        pts.add(tuple(rng.randint(-spread, spread) for _ in range(ndim)))
    pts = list(pts); rng.shuffle(pts)
    off = [rng.choice([0, 0, 100, Fraction(-7, 2)]) for _ in range(ndim)]
    return [[Fraction(p[d]) * step + off[d] for d in range(ndim)] for p in pts]

def gen_sills(rng, nvar):
    """PSD sill matrix A*A^T with small dyadic entries (row-major list)"""
    while True:
        A = [[Fraction(rng.randint(-4, 4), rng.choice([1, 2, 4])) for _ in range(nvar)] for _ in range(nvar)]
        S = [[sum(A[i][k] * A[j][k] for k in range(nvar)) for j in range(nvar)] for i in range(nvar)]
        if all(S[i][i] > 0 for i in range(nvar)): return S

def gen_model(rng, ndim, nvar, allow_nugget=True, order=None, nfex=0):
    structs = []
    nstruct = rng.choice([1, 1, 2, 2, 3])
    for s in range(nstruct):
        if s == 0 and allow_nugget and rng.random() < .4: t = COV_NUGGET
        else: t = rng.choice([COV_SPH, COV_EXP, COV_GAUS, COV_CUBIC, COV_SPH, COV_EXP])
        rng_ = Fraction(rng.randint(4, 60), rng.choice([1, 2]))
        ranges, angles = [], []
        if t != COV_NUGGET and ndim > 1 and rng.random() < .5:
            ranges = [Fraction(rng.randint(4, 60), rng.choice([1, 2])) for _ in range(ndim)]
            if rng.random() < .6:
                angles = [Fraction(rng.randint(-180, 180)) for _ in range(ndim)] if ndim == 3 else [Fraction(rng.randint(-180, 180))] + [0] * (ndim - 1)
        S = gen_sills(rng, nvar)
        if t == COV_GAUS:   # keep Gaussian structures from making the system numerically singular
            rng_ = Fraction(rng.randint(2, 8)); ranges = []
        structs.append([t, dy(rng_), [dy(r) for r in ranges], [dy(a) for a in angles], [dy(S[i][j]) for i in range(nvar) for j in range(nvar)]])
    if all(s[0] == COV_GAUS for s in structs):   # add a nugget for conditioning
        S = gen_sills(rng, nvar)
        structs.append([COV_NUGGET, dy(1), [], [], [dy(S[i][j] / 8) for i in range(nvar) for j in range(nvar)]])
    if order is None: order = rng.choice([-1, -1, 0, 0, 1, 1, 2])
    means = [Fraction(rng.randint(-20, 20), 2) for _ in range(nvar)] if order < 0 else []
    return {'structs': structs, 'order': order, 'nfex': nfex if order >= 0 else 0, 'means': means}

def model_sx(m):
    return [m['structs'], m['order'], m['nfex'], [dy(x) for x in m['means']]]

def gen_db(rng, ndim, nvar, n, nfex, p_na=0.0, p_coord_na=0.0, with_verr=False, with_sel=False):
    X = gen_locations(rng, ndim, n)
    coords = [[X[i][d] for i in range(n)] for d in range(ndim)]
    for i in range(n):
        if rng.random() < p_coord_na: coords[rng.randrange(ndim)][i] = None
    z = [[(None if rng.random() < p_na else Fraction(rng.randint(-200, 200), 8)) for i in range(n)] for v in range(nvar)]
    verr = []
    if with_verr:
        verr = [[rng.choice([0, Fraction(1, 4), Fraction(1, 2), 1, 2, None]) for i in range(n)] for v in range(nvar)]
    fext = [[(None if rng.random() < p_na / 2 else Fraction(rng.randint(-40, 40), 4)) for i in range(n)] for f in range(nfex)]
    sel = [rng.random() < .8 for i in range(n)] if with_sel else []
    return {'coords': coords, 'z': z, 'verr': verr, 'fext': fext, 'sel': sel, 'n': n}

def db_sx(db):
    D = lambda col: [dy(x) for x in col]
    out = [[D(c) for c in db['coords']], [D(c) for c in db.get('z', [])], [D(c) for c in db.get('verr', [])],
           [D(c) for c in db.get('fext', [])], [1 if s else 0 for s in db.get('sel', [])]]
    if db.get('grid'):
        g = db['grid']; out.append([list(g['nx']), [dy(x) for x in g['dx']], [dy(x) for x in g['x0']]])
    return out

def gen_grid_db(rng, ndim):
    """small grid Db for block kriging: node order = first index fastest"""
    nx = [rng.choice([2, 3]) for _ in range(ndim)]
    dx = [rng.choice([1, 2, Fraction(1, 2), 4]) for _ in range(ndim)]
    x0 = [Fraction(rng.randint(-16, 16), 2) for _ in range(ndim)]
    import itertools
    nodes = []
    for idx in itertools.product(*[range(n) for n in reversed(nx)]):
        idx = idx[::-1]
        nodes.append([x0[d] + idx[d] * dx[d] for d in range(ndim)])
    coords = [[nd[d] for nd in nodes] for d in range(ndim)]
    return {'coords': coords, 'z': [], 'verr': [], 'fext': [], 'sel': [], 'n': len(nodes), 'grid': {'nx': nx, 'dx': dx, 'x0': x0}}

def monomials(ndim, order):
    """same order as DriftFactory::createDriftListFromIRF (only used for counting; the list itself is harvested)"""
    if order < 0: return 0
    if order == 0: return 1
    if order == 1: return 1 + ndim
    return {1: 3, 2: 6, 3: 10}[ndim]

def kriging_case(ndim, nvar, dbin, dbout, model, neigh, calcul, targets):
    return [ndim, nvar, db_sx(dbin), db_sx(dbout), model_sx(model), neigh, calcul, targets]

def model_case(case_py, drifts, tres):
    """build the Coq model's case for one target from the python-side case and the harness dump of that target"""
    ndim, nvar, dbin, dbout, model = case_py['ndim'], case_py['nvar'], case_py['dbin'], case_py['dbout'], case_py['model']
    it = tres['it']; nbgh = tres['nbgh']
    monos = []; nfex = 0
    seen_f = False
    for d in drifts:
        if d[0] == 0:
            if seen_f: raise RuntimeError('drift order: monomial after external drift')
            monos.append(list(d[1]))
        else:
            seen_f = True; nfex += 1
    samples = []
    neigh = case_py.get('neigh', [0])
    cont = neigh[0] == 1 and len(neigh) > 4 and neigh[4] != [] and dbin['verr']
    for i, r in enumerate(nbgh):
        verr = [dy(dbin['verr'][v][r]) for v in range(nvar)] if dbin['verr'] else []
        if cont:
            # continuous moving neighbourhood (KrigingSystem::_lhsCalcul): the measurement-error variance of the diagonal term is
            # REPLACED by C_vv(0) x ((d - dc) / (1 - d))^2, d = distance to the target normalised by the radius, dc = the threshold
            dc = float(undy(neigh[4])); rad = float(undy(neigh[3]))
            # the neighbourhood distance (BiTargetCheckDistance built without coefficients) is the HORIZONTAL distance: first two coordinates
            dd = [float(dbin['coords'][d][r]) - float(dbout['coords'][d][it]) for d in range(min(ndim, 2))]
            dist = math.sqrt(sum(x * x for x in dd)) / rad
            mult = 0.0
            if dist > dc:
                if abs(1. - dist) < 1e-4: dist = 1. - 1e-4
                mult = ((dist - dc) / (1. - dist)) ** 2
            verr = [dy(Fraction(float(undy(tres['clhs'][i][i][v][v])) * mult)) for v in range(nvar)]
        samples.append([[dy(dbin['coords'][d][r]) for d in range(ndim)],
                        [dy(dbin['z'][v][r]) for v in range(nvar)],
                        verr,
                        [dy(dbin['fext'][f][r]) for f in range(len(dbin['fext']))]])
    tc = [dy(dbout['coords'][d][it]) for d in range(ndim)]
    tf = [dy(dbout['fext'][f][it]) for f in range(len(dbout.get('fext', [])))]
    return [nvar, monos, nfex, samples, [dy(x) for x in model['means']] if model['means'] else [dy(0)] * nvar,
            tc, tf, 1 if dbin['verr'] else 0, tres['clhs'], tres['crhs'], tres['c00']]

def parse_harness(res):
    """res = (drifts ok (per-target...))"""
    drifts, ok, per = res
    out = []
    for t in per:
        it, err, nbgh, nred, flag, lhs, rhs, wgt, zam, var0, est, std, varz, clhs, crhs, c00 = t[:16]
        cvv = t[16] if len(t) > 16 else []
        alone = t[17] if len(t) > 17 else None
        discs = t[18] if len(t) > 18 else []
        out.append({'alone': alone, 'discs': discs, 'it': it, 'err': err, 'nbgh': nbgh, 'nred': nred, 'flag': flag, 'lhs': lhs, 'rhs': rhs, 'wgt': wgt,
                    'zam': zam, 'var0': var0, 'est': est, 'std': std, 'varz': varz, 'clhs': clhs, 'crhs': crhs, 'c00': c00, 'cvv': cvv})
    return drifts, ok, out


# ---- independent evaluation of the nested anisotropic covariance (validates the oracle Model::eval used by C01/C02) ----
SCADEF = {COV_SPH: 1.0, COV_EXP: 2.995732, COV_GAUS: 1.730818, COV_CUBIC: 1.0}   # documented practical-range factors

def rot_rows(ndim, ang):
    """rows = unit vectors of the rotated axes (doc: angles in degrees, first about Oz counter-clockwise, then Oy', then Ox'')"""
    if ndim == 2:
        a = math.radians(ang[0]); c, s_ = math.cos(a), math.sin(a)
        return [[c, s_], [-s_, c]]
    if ndim == 3:
        ca, sa = zip(*[(math.cos(math.radians(a)), math.sin(math.radians(a))) for a in ang])
        return [[ca[0] * ca[1], sa[0] * ca[1], -sa[1]],
                [-sa[0] * ca[2] + ca[0] * sa[1] * sa[2], ca[0] * ca[2] + sa[0] * sa[1] * sa[2], ca[1] * sa[2]],
                [sa[0] * sa[2] + ca[0] * sa[1] * ca[2], -ca[0] * sa[2] + sa[0] * sa[1] * ca[2], ca[1] * ca[2]]]
    return [[1.0]]

def basic_cor(t, h):
    if t == COV_SPH: return 1 - 0.5 * h * (3 - h * h) if h < 1 else 0.0
    if t == COV_EXP: return math.exp(-h)
    if t == COV_GAUS: return math.exp(-h * h)
    if t == COV_CUBIC:
        h2 = h * h
        return max(0.0, 1 - h2 * (7 + h * (-8.75 + h2 * (3.5 - 0.75 * h2)))) if h < 1 else 0.0
    raise ValueError(t)

def cov_reference(model, ndim, nvar, d):
    """nvar x nvar covariance matrix at the increment d (floats), from the definition: sum over structures of
    sill * rho(|diag(scadef/range) R d|), nugget counted at zero distance"""
    out = [[0.0] * nvar for _ in range(nvar)]
    for st in model['structs']:
        t = st[0]; rg = float(undy(st[1])); rgs = [float(undy(x)) for x in st[2]]; ang = [float(undy(x)) for x in st[3]]
        sill = [float(undy(x)) for x in st[4]]
        if t == COV_NUGGET:
            rho = 1.0 if math.sqrt(sum(x * x for x in d)) < 1e-10 else 0.0
        else:
            rr = rgs if rgs else [rg] * ndim
            rows = rot_rows(ndim, ang) if (ang and ndim > 1) else [[1.0 if i == j else 0.0 for j in range(ndim)] for i in range(ndim)]
            h = math.sqrt(sum((sum(rows[i][j] * d[j] for j in range(ndim)) * SCADEF[t] / rr[i]) ** 2 for i in range(ndim)))
            rho = basic_cor(t, h)
        for a in range(nvar):
            for b in range(nvar): out[a][b] += sill[a * nvar + b] * rho
    return out

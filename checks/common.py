"""Shared machinery for the per-property checks (see DESIGN.md section 2.2).

Pipeline of one check:  rebuild lib from /repo's working tree -> (translators) -> re-check the Coq
theorems of the property -> build extracted model runner + C++ harness -> correspondence on generated
cases -> on any break, search for a concrete failing input of the *property* -> known findings -> evidence.
"""
import os, sys, subprocess, json, time, random, re, hashlib, shutil
from fractions import Fraction

VERIF = os.environ.get('VERIF_ROOT', '/verif')
REPO = os.environ.get('VERIF_REPO', '/repo')
BUILD = os.environ.get('VERIF_BUILD', os.path.join(VERIF, 'build'))
NPROC = os.cpu_count() or 8
# evidence and replays belong to /repo itself: a run against another tree (mutation / seed testing) writes them beside its build
OUT = VERIF if os.path.realpath(REPO) == '/repo' else os.path.join(BUILD, 'out')

FORBIDDEN = re.compile(r'\b(Admitted|admit|Axiom|Axioms|Parameter|Parameters|Conjecture|Admit Obligations|'
                       r'Unset Guard Checking|Unset Positivity Checking|Unset Universe Checking|bypass_check|'
                       r'type-in-type|impredicative-set)\b')

# ----------------------------------------------------------------------------- s-expressions
def sx_parse(s):
    s = s.strip()
    pos = 0
    def item():
        nonlocal pos
        while pos < len(s) and s[pos] in ' \t\r': pos += 1
        if s[pos] == '(':
            pos += 1
            out = []
            while True:
                while pos < len(s) and s[pos] in ' \t\r': pos += 1
                if s[pos] == ')':
                    pos += 1
                    return out
                out.append(item())
        st = pos
        while pos < len(s) and s[pos] not in ' ()\t\r': pos += 1
        return int(s[st:pos])
    return item()

def sx_str(x):
    if isinstance(x, bool): return '1' if x else '0'
    if isinstance(x, int): return str(x)
    return '(' + ' '.join(sx_str(y) for y in x) + ')'

def dy(x):
    """exact dyadic (m e) of a number that is a dyadic rational (int, float, Fraction with 2^k denominator)"""
    if x is None: return []
    f = Fraction(x)
    d = f.denominator
    if d & (d - 1): raise ValueError('not dyadic: %r' % (x,))
    e = -(d.bit_length() - 1)
    m = f.numerator
    if m == 0: return [0, 0]
    while m % 2 == 0:
        m //= 2; e += 1
    return [m, e]

def undy(p):
    """(m e) from impl, or (num den) is handled by unq"""
    if p == []: return None
    m, e = p
    return Fraction(m) * (Fraction(2) ** e)

def unq(p):
    """(num den) from the model"""
    if p == []: return None
    return Fraction(p[0], p[1])

def close_enough(impl, model, tol=1e-9, scale=1.0):
    if impl is None or model is None: return impl is None and model is None
    return abs(impl - model) <= tol * (scale + abs(model))

# ----------------------------------------------------------------------------- context
class Ctx:
    def __init__(self, pid, tier, seed):
        self.pid, self.tier, self.seed = pid, tier, seed
        self.t0 = time.time()
        self.rng = random.Random(seed * 1000003 + int(hashlib.md5(pid.encode()).hexdigest()[:6], 16))
        self.violations = []     # (key, text, replay_path, found_input)
        self.known_hit = []
        self.cov = {'evaluations': 0, 'distinct_nontrivial': 0, 'samples': [], 'rule': '',
                    'obligations': 0, 'discharged': 0, 'checker_cmd': '', 'trusted_base': [],
                    'tie_excluded': 0, 'distribution': {}}
        self.assumptions = []
        self.level = 'proof'
        self.notes = []
        self.distinct = set()
        self.known = load_known(pid)

    def quick(self): return self.tier == 'quick'
    def log(self, *a):
        print('[%s %6.1fs]' % (self.pid, time.time() - self.t0), *a, flush=True)

    def count(self, case_key, nontrivial=True):
        self.cov['evaluations'] += 1
        if nontrivial: self.distinct.add(case_key)

    def dist(self, k, n=1):
        d = self.cov['distribution']; d[k] = d.get(k, 0) + n

    def sample(self, x, maxn=4):
        if len(self.cov['samples']) < maxn: self.cov['samples'].append(x)

    def violation(self, key, text, replay, found_input=True):
        """key: canonical key of the failing call-site/operation; replay: json-able object"""
        for k, t in self.known:
            if k == key:
                if key not in [h[0] for h in self.known_hit]:
                    self.known_hit.append((key, t))
                return 'known'
        if any(v[0] == key for v in self.violations): return 'dup'
        os.makedirs(os.path.join(OUT, 'replays'), exist_ok=True)
        path = os.path.join(OUT, 'replays', '%s_%s.json' % (self.pid, re.sub(r'[^A-Za-z0-9_.-]', '_', key)[:80]))
        with open(path, 'w') as f:
            json.dump({'property': self.pid, 'key': key, 'what': text, 'found_failing_input': found_input,
                       'seed': self.seed, 'tier': self.tier, 'replay': replay}, f, indent=1, default=str)
        self.violations.append((key, text, path, found_input))
        return 'new'

    def finish(self):
        self.cov['distinct_nontrivial'] = len(self.distinct)
        for k, t in self.known_hit:
            print('KNOWN-FINDING: property=%s %s %s' % (self.pid, k, t), flush=True)
        for key, text, path, found in self.violations:
            print('  violation detail [%s]: %s' % (key, text), flush=True)
            print('VIOLATION property=%s replay=%s%s' % (self.pid, path, '' if found else ' no-failing-input-found'), flush=True)
        LEVELS = ('exploration', 'fault_enumeration', 'model_checking', 'proof', 'translation_validation', 'other')
        if self.level not in LEVELS:      # free-text qualification given by a check: keep it, but the schema wants the category
            self.cov['level_text'] = str(self.level); self.level = 'proof'
        ev = {'property_id': self.pid, 'tier': self.tier, 'seed': self.seed, 'level': self.level,
              'coverage': self.cov, 'assumptions': self.assumptions, 'wall_s': round(time.time() - self.t0, 2),
              'violations': len(self.violations), 'known_findings_hit': [k for k, _ in self.known_hit],
              'notes': self.notes}
        os.makedirs(os.path.join(OUT, 'evidence'), exist_ok=True)
        with open(os.path.join(OUT, 'evidence', self.pid + '.json'), 'w') as f:
            json.dump(ev, f, indent=1, default=str)
        self.log('done: %d evaluations, %d distinct non-trivial, %d/%d obligations, %d violation(s), %d known finding(s)' % (
            self.cov['evaluations'], self.cov['distinct_nontrivial'], self.cov['discharged'], self.cov['obligations'],
            len(self.violations), len(self.known_hit)))
        return 1 if self.violations else 0

def load_known(pid):
    out = []
    p = os.path.join(VERIF, 'KNOWN_FINDINGS.txt')
    if os.path.exists(p):
        for line in open(p):
            m = re.match(r'finding:\s+property=(\S+)\s+key=(\S+)\s+(.*)', line.strip())
            if m and m.group(1) == pid: out.append((m.group(2), m.group(3)))
    return out

# ----------------------------------------------------------------------------- builds
def sh(cmd, timeout=None, cwd=None, env=None, stdin=None):
    e = dict(os.environ); e.update(env or {})
    try:
        r = subprocess.run(cmd, shell=isinstance(cmd, str), cwd=cwd, env=e, capture_output=True, text=True, timeout=timeout, input=stdin)
        return r.returncode, r.stdout, r.stderr
    except subprocess.TimeoutExpired as ex:
        return 124, (ex.stdout or b'').decode() if isinstance(ex.stdout, bytes) else (ex.stdout or ''), 'TIMEOUT'

def build_lib(ctx, flavor='lib'):
    rc, out, err = sh([os.path.join(VERIF, 'bin', 'buildlib.sh'), flavor], timeout=3000)
    if rc != 0:
        ctx.log('library build failed:', out[-2000:], err[-500:])
        print('ERROR: /repo does not build (flavor %s); the check cannot run' % flavor, flush=True)
        sys.exit(2)
    return os.path.join(BUILD, flavor)

def lib_flags(flavor='lib'):
    b = os.path.join(BUILD, flavor)
    fl = ['-std=gnu++20', '-O1', '-w', '-DGSTLEARN_VERIF', '-fopenmp', '-I' + os.path.join(REPO, 'include'), '-I' + b,
          '-I' + os.path.join(VERIF, 'harness'), '-isystem', '/usr/include/eigen3',
          '-I' + os.path.join(REPO, '3rd-party/csparse')]
    ld = ['-L' + os.path.join(b, 'Verif'), '-lgstlearn', '-Wl,-rpath,' + os.path.join(b, 'Verif')]
    if flavor == 'asan':
        fl += ['-fsanitize=address', '-fno-omit-frame-pointer', '-g1']; ld += ['-fsanitize=address']
    return fl, ld

def build_harness(ctx, name, flavor='lib', extra=()):
    """compile harness/<name>.cpp against the freshly built library; rebuilt when source or lib is newer"""
    src = os.path.join(VERIF, 'harness', name + '.cpp')
    outd = os.path.join(BUILD, 'harness'); os.makedirs(outd, exist_ok=True)
    out = os.path.join(outd, name + ('_asan' if flavor == 'asan' else ''))
    fl, ld = lib_flags(flavor)
    # always recompile: headers of /repo may have changed (2-6 s)
    rc, o, e = sh(['g++'] + fl + list(extra) + [src, '-o', out + '.tmp%d' % os.getpid()] + ld, timeout=900)
    if rc != 0:
        ctx.log('harness build failed', e[-3000:])
        return None
    os.replace(out + '.tmp%d' % os.getpid(), out)
    return out

def coq_build(targets, timeout=1500):
    rc, o, e = sh([os.path.join(VERIF, 'bin', 'coqbuild.sh')] + list(targets), timeout=timeout + 60, env={'COQ_TIMEOUT': str(timeout)})
    return rc, o + '\n' + e

def coq_properties(ctx, pid=None, extra_targets=()):
    """Re-check the property's theorems. Obligations = Theorem/Lemma/Example statements in Properties.v.
    Returns True when every one is re-proved by coqc (full .vo build) and no forbidden construct is present."""
    pid = pid or ctx.pid
    pfile = os.path.join(VERIF, 'coq', pid, 'Properties.v')
    text = open(pfile).read()
    names = re.findall(r'^\s*(?:Theorem|Lemma|Example|Corollary)\s+([A-Za-z0-9_\']+)', text, re.M)
    ctx.cov['obligations'] += len(names)
    # forbidden constructs anywhere in the development the property depends on (whole coq/ tree: cheap and strict)
    bad = []
    for root, _, files in os.walk(os.path.join(VERIF, 'coq')):
        if '/scratch' in root: continue
        for fn in files:
            if fn.endswith('.v'):
                src = open(os.path.join(root, fn)).read()
                src_nc = re.sub(r'\(\*.*?\*\)', '', src, flags=re.S)
                src_nc = re.sub(r'"[^"]*"', '""', src_nc)   # string literals cannot declare anything
                for m in FORBIDDEN.finditer(src_nc):
                    bad.append('%s: %s' % (os.path.relpath(os.path.join(root, fn), VERIF), m.group(0)))
                if re.search(r'^\s*(Variable|Hypothesis|Variables|Hypotheses)\b', src_nc, re.M) and not re.search(r'^\s*Section\b', src_nc, re.M):
                    bad.append('%s: Variable/Hypothesis outside a section' % fn)
    vo = pfile[:-2] + '.vo'
    if os.path.exists(vo): os.remove(vo)   # force the property file itself to be re-checked and its assumptions re-printed
    t = time.time()
    rc, log = coq_build(['%s/Properties.vo' % pid] + list(extra_targets))
    ctx.cov['checker_cmd'] = (ctx.cov['checker_cmd'] + '; ' if ctx.cov['checker_cmd'] else '') + \
        'coq_makefile + make %s/Properties.vo (coqc 8.16.1, full .vo build)' % pid
    ok = (rc == 0 and os.path.exists(vo) and not bad)
    axioms = []
    closed = log.count('Closed under the global context')
    for m in re.finditer(r'Axioms:\n((?:.+\n)+?)(?=\S|\Z)', log): axioms.append(m.group(1))
    ax_names = sorted(set(re.findall(r'^([A-Za-z_][A-Za-z0-9_.\']*)\s*:', '\n'.join(axioms), re.M)))
    ctx.cov.setdefault('theorems', []).extend(names)
    ctx.cov.setdefault('print_assumptions', {})[pid] = {'closed_under_global_context': closed, 'axioms': ax_names}
    ctx.cov['coq_wall_s'] = round(time.time() - t, 1)
    if ok and ctx.tier == 'thorough' and os.environ.get('VERIF_NO_COQCHK') != '1':
        # independent re-check of the compiled property file and everything it depends on (thorough tier only: 1-3 min)
        t1 = time.time()
        rc3, o3, e3 = sh(['coqchk', '-o', '-silent', '-Q', os.path.join(VERIF, 'coq'), 'Gst', 'Gst.%s.Properties' % pid],
                         cwd=os.path.join(VERIF, 'coq'), timeout=1500)
        txt = o3 + e3
        m = re.search(r'\* Axioms:(.*?)(?:\n\s*\n|\* |\Z)', txt, re.S)
        ctx.cov['coqchk'] = {'exit': rc3, 'wall_s': round(time.time() - t1, 1),
                             'axioms': (m.group(1).strip()[:1500] if m else txt.strip()[-600:])}
        if rc3 != 0:
            ok = False; ctx.proof_errors = ['coqchk rejected Gst.%s.Properties: %s' % (pid, txt[-300:])]
    if ok:
        ctx.cov['discharged'] += len(names)
        # complete axiom report: Print Assumptions for EVERY obligation (the property file prints it for its main theorems only)
        try:
            sd = os.path.join(VERIF, 'coq', 'scratch'); os.makedirs(sd, exist_ok=True)
            sf = os.path.join(sd, '%s_assumptions_%d.v' % (pid, os.getpid()))
            with open(sf, 'w') as f:
                f.write('From Gst Require Import %s.Properties.\n' % pid)
                for n in names: f.write('Print Assumptions %s.\n' % n)
            rc2, o2, e2 = sh(['coqc', '-Q', os.path.join(VERIF, 'coq'), 'Gst', sf], cwd=os.path.join(VERIF, 'coq'), timeout=600)
            for ext in ('', 'o', 'ok', 'os'):
                for q in (sf + ext, sf[:-2] + '.glob', os.path.join(sd, '.' + os.path.basename(sf)[:-2] + '.aux')):
                    if os.path.exists(q) and q != sf: os.remove(q)
            if os.path.exists(sf): os.remove(sf)
            if rc2 == 0:
                blocks = re.split(r'(?=Closed under the global context|Axioms:)', o2)
                nclosed = sum(1 for b in blocks if b.startswith('Closed under'))
                axs = sorted(set(re.findall(r'^([A-Za-z_][A-Za-z0-9_.\']*)\s*:', '\n'.join(b for b in blocks if b.startswith('Axioms:')), re.M)) - {'Axioms'})
                ctx.cov['print_assumptions'][pid].update({'all_obligations_closed': nclosed, 'all_obligations_with_axioms': len(names) - nclosed, 'all_axioms': axs})
        except Exception as ex:
            ctx.notes.append('axiom report failed: %r' % (ex,))
    else:
        err = re.findall(r'File "([^"]+)", line (\d+).*?\n(Error:.*?)(?:\n\n|\Z)', log, re.S)
        ctx.proof_errors = ['%s:%s %s' % (a, b, c.replace('\n', ' ')[:300]) for a, b, c in err] + bad
        ctx.log('PROOF BREAK:', ctx.proof_errors[:3])
    return ok

def build_runner(ctx, pid=None):
    """extract coq/<pid>/Extract.v (cwd = build/ocaml/<pid>) and link with the generic driver"""
    pid = pid or ctx.pid
    d = os.path.join(BUILD, 'ocaml', pid); os.makedirs(d, exist_ok=True)
    rc, log = coq_build(['%s/Run.vo' % pid])
    if rc != 0:
        ctx.log('model does not compile:', log[-2000:]); return None
    rc, o, e = sh(['coqc', '-Q', os.path.join(VERIF, 'coq'), 'Gst', os.path.join(VERIF, 'coq', pid, 'Extract.v')], cwd=d, timeout=600)
    if rc != 0:
        ctx.log('extraction failed:', (o + e)[-2000:]); return None
    for f in ('Extract.vo', 'Extract.glob', 'Extract.vok', 'Extract.vos'):
        p = os.path.join(VERIF, 'coq', pid, f)
        if os.path.exists(p): os.remove(p)
    shutil.copy(os.path.join(VERIF, 'ocaml', 'driver.ml'), os.path.join(d, 'driver.ml'))
    rc, o, e = sh('ocamlfind ocamlopt -O2 -w -a -package zarith -linkpkg model.mli model.ml driver.ml -o runner 2>&1 || '
                  'ocamlfind ocamlopt -w -a -package zarith -linkpkg model.mli model.ml driver.ml -o runner', cwd=d, timeout=600)
    if rc != 0:
        ctx.log('ocaml build failed:', (o + e)[-2000:]); return None
    return os.path.join(d, 'runner')

def write_cases(ctx, name, cases):
    d = os.path.join(BUILD, 'cases'); os.makedirs(d, exist_ok=True)
    p = os.path.join(d, '%s_%s_%d_%d.sx' % (ctx.pid, name, ctx.seed, os.getpid()))
    with open(p, 'w') as f:
        for c in cases: f.write(sx_str(c) + '\n')
    return p

def run_impl(ctx, exe, casefile, timeout=1800, env=None):
    """returns (rc, list of parsed results); a crash shows as a short list. Results are written to <casefile>.impl"""
    outp = casefile + '.impl'
    e = dict(os.environ); e.update(env or {})
    open(outp, 'w').close()
    with open(casefile + '.impl.log', 'w') as fl:
        try:
            r = subprocess.run([exe, casefile, outp], stdout=fl, stderr=fl, timeout=timeout, env=e)
            rc = r.returncode
        except subprocess.TimeoutExpired:
            rc = 124
    res = [sx_parse(l) for l in open(outp) if l.strip()]
    return rc, res

def run_model(ctx, runner, casefile, timeout=1800, jobs=None):
    """runs the extracted model on the case file; the file is split in chunks evaluated in parallel"""
    lines = [l for l in open(casefile) if l.strip() and not l.startswith('#')]
    jobs = jobs or min(NPROC, max(1, len(lines) // 8))
    if jobs <= 1:
        rc, o, e = sh(['bash', '-c', 'ulimit -s unlimited; exec "%s" "%s"' % (runner, casefile)], timeout=timeout)
        return rc, [sx_parse(l) for l in o.splitlines() if l.strip()]
    # round-robin split so that expensive cases spread over the workers
    procs = []
    for j in range(jobs):
        part = casefile + '.part%d' % j
        with open(part, 'w') as f: f.writelines(lines[j::jobs])
        fo = open(part + '.out', 'w')     # results go to files: a pipe would fill up and stall the worker
        procs.append((j, fo, subprocess.Popen(['bash', '-c', 'ulimit -s unlimited; exec "%s" "%s"' % (runner, part)],
                                              stdout=fo, stderr=subprocess.DEVNULL)))
    outs = {}; rc = 0
    deadline = time.time() + timeout
    for j, fo, p in procs:
        try:
            p.wait(timeout=max(1, deadline - time.time()))
        except subprocess.TimeoutExpired:
            p.kill(); rc = 124
        fo.close()
        rc = rc or p.returncode
        part = casefile + '.part%d' % j
        outs[j] = [sx_parse(l) for l in open(part + '.out') if l.strip()]
        os.remove(part); os.remove(part + '.out')
    res = [None] * len(lines)
    for j in range(jobs):
        idxs = list(range(j, len(lines), jobs))
        for k, idx in enumerate(idxs):
            res[idx] = outs[j][k] if k < len(outs[j]) else None
    if any(r is None for r in res): res = [r for r in res if r is not None]
    return rc, res

def proof_break_violation(ctx, found_any_input):
    """called when the theorems no longer check: unless the search reported a FRESH violation with a concrete failing input
    (a known finding does not count: it was there before the proofs broke), the broken proof itself is the violation"""
    fresh = any(v[3] for v in ctx.violations)
    if not fresh:
        ctx.violation('proof-broken', 'theorems of coq/%s/Properties.v no longer check: %s' % (ctx.pid, '; '.join(getattr(ctx, 'proof_errors', [])[:3])),
                      {'broken': getattr(ctx, 'proof_errors', []), 'theorem_file': 'coq/%s/Properties.v' % ctx.pid}, found_input=False)

STD_TRUSTED = [
    'Coq 8.16.1 kernel (coqc, full .vo build; vm_compute used for Examples / finite sweeps; no native_compute)',
    'extraction to OCaml: ExtrOcamlBasic, ExtrOcamlZBigInt (all directives of those stdlib files) + Extract Constant Z.gcd => Big_int_Z.gcd_big_int; zarith 1.12; ocaml/driver.ml',
    'hand-written Gallina model tied to /repo by differential correspondence (harness/*.cpp, checks/*.py, generators) on every run',
    'g++ 12 -O1 build of /repo working tree with -DGSTLEARN_VERIF, assertions on',
]

def main(run):
    pid = sys.argv[1]
    tier = sys.argv[2] if len(sys.argv) > 2 else os.environ.get('VERIF_TIER', 'quick')
    seed = int(os.environ.get('VERIF_SEED', '1'))
    ctx = Ctx(pid, tier, seed)
    ctx.cov['trusted_base'] = list(STD_TRUSTED)
    try:
        run(ctx)
    except SystemExit:
        raise
    except Exception as ex:
        import traceback; traceback.print_exc()
        print('ERROR: internal failure of the check machinery (not a verdict on the property): %r' % (ex,), flush=True)
        ctx.finish(); sys.exit(3)
    sys.exit(ctx.finish())

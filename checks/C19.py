"""C19 — a calculation either completes or leaves its data bases untouched.

Theorems of coq/C19 (calculator protocol over a small Db model) + correspondence: every calculator entry point is run
on generated prior contents with a failure injected after each stage (GSTLEARN_VERIF hook in ACalculator::run) and with
natural failures; both Dbs are dumped before and after; (a) the property is checked directly on the implementation,
(b) the final state is compared with the prediction of the extracted model.
"""
import sys, os
sys.path.insert(0, os.path.dirname(__file__))
from common import *

NLOC = 29
L_X, L_Z, L_F, L_SIMU = 0, 1, 3, 22
CALC = {0: 'CalcKriging', 1: 'CalcMigrate', 2: 'CalcStatistics', 3: 'CalcAnamTransform', 4: 'CalcSimuTurningBands',
        5: 'CalcSimuFFT', 6: 'CalcSimpleInterpolation', 7: 'CalcGridToGrid', 8: 'CalcImage', 9: 'CalcGlobal',
        10: 'CalcKrigingFactors', 11: 'CalcSimuPost', 12: 'CalcSimuPartition', 13: 'CalcSimuEden'}
SOURCE = {'CalcKriging': 'src/Estimation/CalcKriging.cpp', 'CalcMigrate': 'src/Calculators/CalcMigrate.cpp',
          'CalcStatistics': 'src/Calculators/CalcStatistics.cpp', 'CalcAnamTransform': 'src/Anamorphosis/CalcAnamTransform.cpp',
          'CalcSimuTurningBands': 'src/Simulation/CalcSimuTurningBands.cpp', 'CalcSimuFFT': 'src/Simulation/CalcSimuFFT.cpp',
          'CalcSimpleInterpolation': 'src/Estimation/CalcSimpleInterpolation.cpp', 'CalcGridToGrid': 'src/Calculators/CalcGridToGrid.cpp',
          'CalcImage': 'src/Estimation/CalcImage.cpp', 'CalcGlobal': 'src/Estimation/CalcGlobal.cpp',
          'CalcKrigingFactors': 'src/Estimation/CalcKrigingFactors.cpp', 'CalcSimuPost': 'src/Calculators/CalcSimuPost.cpp',
          'CalcSimuPartition': 'src/Simulation/CalcSimuPartition.cpp', 'CalcSimuSubstitution': 'src/Simulation/CalcSimuSubstitution.cpp',
          'CalcSimuEden': 'src/Simulation/CalcSimuEden.cpp'}

_SRC = {}
def method_body(path, signature):
    """body of the C++ function whose definition starts with 'signature' (tiny translator used for the code-version flags)"""
    key = (path, signature)
    if key not in _SRC:
        try: src = open(os.path.join(REPO, path)).read()
        except OSError: src = ''
        i = src.find(signature); body = ''
        if i >= 0:
            j = src.find('{', i); depth = 0; k = j
            while k < len(src):
                if src[k] == '{': depth += 1
                elif src[k] == '}':
                    depth -= 1
                    if depth == 0: break
                k += 1
            body = src[j:k + 1]
        _SRC[key] = body
    return _SRC[key]
def source_rb2(calc):
    """does <calc>::_rollback also clean the temporary variables?"""
    return 1 if '_cleanVariableDb(2)' in method_body(SOURCE[calc], 'void %s::_rollback()' % calc) else 0
def source_ver():
    v = 0
    if 'setLocatorsByUID(_iuidFactors' in method_body(SOURCE['CalcKrigingFactors'], 'void CalcKrigingFactors::_rollback()'): v |= 1
    if '_storeInVariableList' in method_body('src/Calculators/ACalcDbToDb.cpp', 'int ACalcDbToDb::_expandInformation('): v |= 2
    if method_body('src/Calculators/ACalcDbToDb.cpp', 'void ACalcDbToDb::_restoreLocators('): v |= 4
    if 'getUIDByColIdx' in method_body(SOURCE['CalcSimuPartition'], 'bool CalcSimuPartition::_poisson()'): v |= 8
    return v

def S(s): return [ord(ch) for ch in s]
def US(l): return ''.join(chr(x) for x in l)
def NC(prefix='', varname=1, qual=1, loc=1, t=L_Z, delim='.', clean=1): return [S(prefix), varname, qual, loc, t, S(delim), clean]

# ----------------------------------------------------------------------------- prior contents
def rvals(rng, n, kind='z'):
    if kind == 'x':      # distinct-ish coordinates inside the 0..(nx-1) grids used as output
        return [dy(Fraction(rng.randint(0, 14), 4)) for _ in range(n)]
    if kind == 'pos':
        return [dy(Fraction(rng.randint(1, 40), 4)) for _ in range(n)]
    if kind == 'na':
        return [dy(Fraction(rng.randint(-12, 12), 2)) if rng.random() < .8 else [] for _ in range(n)]
    return [dy(Fraction(rng.randint(-12, 12), 2)) for _ in range(n)]

def coords(rng, n, ndim):
    """n distinct points with dyadic coordinates in [0, 3.5]^ndim"""
    seen = set(); out = []
    while len(out) < n:
        p = tuple(Fraction(rng.randint(0, 14), 4) for _ in range(ndim))
        if p in seen: continue
        seen.add(p); out.append(p)
    return [[dy(p[k]) for p in out] for k in range(ndim)]

def point_db(rng, nech, ndim=2, nz=1, zkind='z', extra=None):
    cs = coords(rng, nech, ndim)
    cols = [[S('x%d' % (k + 1)), cs[k], L_X, k] for k in range(ndim)]
    for k in range(nz): cols.append([S('z%d' % (k + 1) if nz > 1 else 'z'), rvals(rng, nech, zkind), L_Z, k])
    return {'grid': 0, 'nx': [], 'nech': nech, 'cols': cols, 'edits': list(extra or [])}

def grid_db(nx, cols=None, extra=None):
    n = 1
    for k in nx: n *= k
    return {'grid': 1, 'nx': list(nx), 'nech': n, 'cols': list(cols or []), 'edits': list(extra or [])}

def db_sx(d): return [d['grid'], d['nx'], d['nech'], d['cols'], d['edits']]
def nuid0(d): return (1 + len(d['nx']) if d['grid'] else 1) + len(d['cols'])

def add_prior(rng, d, kinds, prefix_names):
    """adversarial prior contents: kinds is a subset of
       'hole'   : a deleted middle column (uid hole),
       'role'   : existing variables carrying the locator type the calculator sets (given in kinds as ('role', t)),
       'clash'  : existing names equal to the names the calculator is going to give (prefix_names),
       'blank'  : existing columns called "" and ".1" / "-1" (the provisional names of addColumnsByConstant),
       'tail'   : columns added and deleted at the end (unused uid tail)"""
    n = d['nech']; nu = nuid0(d) + sum(1 for e in d['edits'] if e[0] == 0)
    tags = []
    for k in kinds:
        if k == 'hole':
            d['edits'].append([0, S('tmp_h'), rvals(rng, n), -1, 0]); d['edits'].append([0, S('keep_h'), rvals(rng, n, 'na'), -1, 0])
            d['edits'].append([1, nu]); nu += 2; tags.append('hole')
        elif isinstance(k, tuple) and k[0] == 'role':
            t = k[1]; m = rng.randint(1, 2)
            for j in range(m): d['edits'].append([0, S('old%d_%d' % (t, j)), rvals(rng, n), t, j]); nu += 1
            tags.append('role%d' % t)
        elif k == 'clash':
            for nm in prefix_names[:2]: d['edits'].append([0, S(nm), rvals(rng, n), -1, 0]); nu += 1
            tags.append('clash')
        elif k == 'blank':
            for nm in ['', '.1', '-1']: d['edits'].append([0, S(nm), rvals(rng, n), -1, 0]); nu += 1
            tags.append('blank')
        elif k == 'tail':
            d['edits'].append([0, S('tmp_t'), rvals(rng, n), -1, 0]); d['edits'].append([1, nu]); nu += 1; tags.append('tail')
    return tags

# ----------------------------------------------------------------------------- scenarios
class Sc:
    """one call: calculator id/sub, harness parameters, Dbs, injected failure, and the model-side description"""
    def __init__(s, id, sub, p, nc, dbin, dbout, alias=0, aux=None, **cfg):
        s.id, s.sub, s.p, s.nc, s.dbin, s.dbout, s.alias, s.aux = id, sub, p, nc, dbin, dbout, alias, aux or []
        s.fail_after = -1; s.variant = cfg.pop('variant', 'std'); s.natural = cfg.pop('natural', None)
        s.nout = cfg.pop('nout', None)          # documented number of new variables (in, out) on success
        s.cfg = dict(est=0, std=0, varz=0, single=-1, dgm=0, xvalid=0, xv_est=0, xv_std=0, xv_varz=0, neigh_only=0, nbneigh=5,
                     matlc=0, mnvar=1, mndim=2, nndim=2, nfex=0, extra_ok=1, iuids=[], locate=0, loctype=-1, nbsimu=1, mode=0,
                     n=0, has_in=1, rb2=0, ver=0)
        s.cfg.update(cfg); s.tags = []
    def impl_case(s):
        return [s.id, s.sub, s.p, s.nc, db_sx(s.dbin), db_sx(s.dbout if not s.alias else s.dbin), s.alias, s.fail_after, s.aux]
    def name(s): return 'CalcSimuSubstitution' if (s.id == 12 and s.sub == 2) else CALC[s.id]
    def clone(s, fail_after):
        import copy
        c = copy.copy(s); c.fail_after = fail_after; return c

MODEL_ND = {0: 2, 1: 3, 2: 2, 3: 2, 4: 2, 5: 1, 6: 2, 7: 2}
MODEL_NV = {0: 1, 1: 1, 2: 2, 3: 1, 4: 1, 5: 1, 6: 1, 7: 1}
NEIGH_ND = {0: 2, 1: 2, 2: 2, 3: 3, 4: 2, -1: 0}

def kriging_scenarios(rng, quick):
    out = []
    def mk(sub, calcul=0, est=1, std=1, varz=0, iech0=0, model=0, neigh=0, ndisc=0, matlc=0, xv=(1, 1, 0), nz=1, ndim_in=2,
           gout=True, nx=(4, 4), prefix='K', ncargs=None, variant='std', natural=None, extra_ok=1, zkind='z'):
        nech = rng.randint(6, 10)
        dbin = point_db(rng, nech, ndim_in, nz, zkind)
        dbout = grid_db(nx) if gout else point_db(rng, rng.randint(3, 5), len(nx), 0)
        if model == 4:      # one external drift: known on the output grid only (to be expanded to the data by _preprocess)
            dbout['cols'].append([S('drift'), rvals(rng, dbout['nech'], 'pos'), L_F, 0])
        nc = NC(prefix, **(ncargs or {}))
        if sub == 1: nc_model = NC('')       # krigtest never sets the naming convention
        else: nc_model = nc
        mnvar = MODEL_NV[model]
        nv = matlc if matlc > 0 else mnvar
        if sub in (0, 4, 5): nout = (0, nv * (est + std + (varz if sub == 0 else 0)))
        elif sub == 1: nout = (0, 0)
        elif sub == 2: nout = (nv * ((xv[0] != 0) + (xv[1] != 0) + (xv[2] != 0)), 0)
        else: nout = (0, 5)
        sc = Sc(0, sub, [calcul, est, std, varz, iech0, model, neigh, ndisc, matlc, xv[0], xv[1], xv[2]], nc, dbin, dbout,
                alias=1 if sub == 2 else 0, variant=variant, natural=natural, nout=nout,
                est=(1 if sub == 1 else (xv[0] != 0) if sub == 2 else 0 if sub == 3 else est),
                std=(1 if sub == 1 else (xv[1] != 0) if sub == 2 else 0 if sub == 3 else std),
                varz=(0 if sub in (1, 4, 5) else (xv[2] != 0) if sub == 2 else 0 if sub == 3 else varz),
                single=(iech0 if sub == 1 else -1), dgm=(calcul == 3 and sub in (0, 1)), xvalid=(sub == 2),
                xv_est=xv[0], xv_std=xv[1], xv_varz=xv[2], neigh_only=(sub == 3), matlc=matlc, mnvar=mnvar, mndim=MODEL_ND[model],
                nndim=NEIGH_ND[neigh], nfex=(1 if model == 4 else 0), extra_ok=extra_ok)
        sc.nc_model = nc_model
        sc.names = [US(nc[0]) + '.z.estim', US(nc[0]) + '.z.stdev', 'z.estim', 'z.stdev']
        return sc
    # standard kriging on a grid / on points, unique and moving neighbourhoods, options
    for est, std, varz in [(1, 1, 0), (1, 0, 0), (0, 1, 1), (1, 1, 1)]:
        out.append(mk(0, est=est, std=std, varz=varz, neigh=rng.choice([0, 1])))
    out.append(mk(0, gout=False, nx=(1, 1)))
    out.append(mk(0, model=2, nz=2, variant='multivar'))
    out.append(mk(0, model=2, nz=2, matlc=1, variant='matLC'))
    out.append(mk(0, ncargs=dict(loc=0), variant='nc-nolocator'))
    out.append(mk(0, ncargs=dict(varname=0, t=L_F, clean=0), variant='nc-other'))
    out.append(mk(0, calcul=1, ndisc=2, variant='block'))
    out.append(mk(0, neigh=2, variant='unreachable-neigh'))
    out.append(mk(0, model=4, neigh=0, variant='external-drift'))
    # natural failures
    out.append(mk(0, model=1, variant='model-3d', natural='check'))
    out.append(mk(0, neigh=3, variant='neigh-3d', natural='check'))
    out.append(mk(0, model=0, nz=2, variant='nvar-mismatch', natural='check'))
    out.append(mk(0, nx=(3, 3, 2), variant='dbout-3d', natural='check'))
    out.append(mk(0, calcul=1, ndisc=2, gout=False, nx=(1, 1), variant='block-on-points', natural='run'))
    out.append(mk(0, nz=0, variant='no-z-variable', natural='check'))
    out.append(mk(3, nz=0, neigh=1, variant='test-neigh-no-z-variable', natural='any'))
    out.append(mk(0, neigh=4, variant='image-neigh', natural='any'))
    # krigtest (single target: outputs registered as temporary; _postprocess returns early): every calculation option
    out.append(mk(1, iech0=1, calcul=3, model=3, neigh=0, variant='single-target-dgm', zkind='pos'))
    out.append(mk(1, iech0=0, calcul=3, model=3, neigh=1, variant='single-target-dgm', zkind='pos'))
    out.append(mk(1, iech0=1, calcul=1, ndisc=2, variant='single-target-block'))
    out.append(mk(1, iech0=1, calcul=2, neigh=1, variant='single-target-drift'))
    out.append(mk(1, iech0=3, neigh=2, variant='single-target-unreachable-neigh'))
    out.append(mk(1, iech0=1, model=2, nz=2, variant='single-target-multivar'))
    out.append(mk(1, iech0=1, calcul=3, model=0, variant='single-target-dgm-no-anam', natural='check', extra_ok=0))
    # other entry points of CalcKriging
    out.append(mk(4, variant='kribayes', natural='any'))
    out.append(mk(5, variant='krigprof', natural='any'))
    out.append(mk(0, calcul=3, model=3, neigh=1, est=1, std=0, variant='dgm', zkind='pos'))
    out.append(mk(0, calcul=3, model=3, neigh=0, est=0, std=1, varz=1, variant='dgm', zkind='pos'))
    out.append(mk(0, calcul=2, variant='drift'))
    out.append(mk(2, xv=(-1, 1, 1), neigh=1, variant='xvalid'))
    out.append(mk(3, neigh=0, gout=False, nx=(1, 1), variant='test-neigh'))
    out.append(mk(1, iech0=0, variant='single-target'))
    out.append(mk(1, iech0=2, variant='single-target'))
    out.append(mk(1, iech0=1, calcul=1, ndisc=2, gout=False, nx=(1, 1), variant='single-target-block-on-points', natural='run'))
    # cross-validation (dbin and dbout are the same Db)
    for xv in [(1, 1, 0), (-1, -1, 0), (1, 0, 1), (0, 1, 0)]:
        out.append(mk(2, xv=xv, neigh=0, variant='xvalid'))
    out.append(mk(2, model=1, variant='xvalid-model-3d', natural='check'))
    # neighbourhood test
    out.append(mk(3, neigh=1, variant='test-neigh'))
    # DGM: centring of the data changes the coordinate roles of dbin
    out.append(mk(0, calcul=3, model=3, neigh=0, variant='dgm', zkind='pos'))
    out.append(mk(0, calcul=3, model=0, neigh=0, variant='dgm-no-anam', natural='check', extra_ok=0))
    out.append(mk(0, calcul=3, model=3, neigh=0, gout=False, nx=(1, 1), variant='dgm-on-points', natural='check', zkind='pos'))
    return out

def migrate_scenarios(rng, quick):
    out = []
    def mk(sub, gin=False, gout=True, names=('z',), loctype=L_Z, variant='std', natural=None, ncargs=None, nz=1, ndim_out=2, p0=1):
        if gin:
            n = 16
            dbin = grid_db((4, 4), [[S('z%d' % (k + 1) if nz > 1 else 'z'), rvals(rng, n, 'na'), L_Z, k] for k in range(nz)])
            base = 3
        else:
            dbin = point_db(rng, rng.randint(5, 9), 2, nz, 'na'); base = 3
        dbout = grid_db((3, 3) if ndim_out == 2 else (3, 2, 2)) if gout else point_db(rng, rng.randint(3, 6), ndim_out, 0)
        zu = [base + k for k in range(nz)]
        znames = ['z%d' % (k + 1) if nz > 1 else 'z' for k in range(nz)]
        if sub == 2: iu = zu if loctype == L_Z else []
        else: iu = [zu[znames.index(nm)] for nm in names if nm in znames] if all(nm in znames for nm in names) else []
        nc = NC('Mig', **(ncargs or {}))
        sc = Sc(1, sub, [p0, 0, 0, 0, loctype], nc, dbin, dbout, aux=[S(nm) for nm in names], variant=variant, natural=natural,
                nout=(0, len(iu)), iuids=iu, locate=(sub == 2), loctype=loctype, extra_ok=(1 if p0 in (1, 2) else 0))
        sc.nc_model = nc; sc.names = ['Mig.z', 'Mig.z1', 'z']
        return sc
    out.append(mk(0)); out.append(mk(0, gin=True, gout=False)); out.append(mk(0, gin=True)); out.append(mk(0, gout=False))
    out.append(mk(1, names=('z1', 'z2'), nz=2, variant='multi'))
    out.append(mk(2, nz=2, variant='by-locator'))
    out.append(mk(0, ncargs=dict(loc=0), variant='nc-nolocator'))
    out.append(mk(0, names=('nosuch',), variant='unknown-name', natural='any'))
    out.append(mk(2, loctype=L_F, variant='by-locator-empty', natural='check'))
    out.append(mk(0, p0=3, variant='bad-dist-type', natural='check'))
    out.append(mk(0, ndim_out=3, variant='dbout-3d', natural='any'))
    return out

def stats_scenarios(rng, quick):
    out = []
    def mk(sub, gout=True, nz=1, variant='std', natural=None, oper=0, alias=0, names=None, ncargs=None):
        dbin = point_db(rng, rng.randint(6, 10), 2, nz, 'z')
        if sub == 1: dbin['cols'].append([S('aux'), rvals(rng, dbin['nech']), -1, 0])
        dbout = grid_db((3, 3)) if gout else point_db(rng, 4, 2, 0)
        nc = NC('St', **(ncargs or {}))
        if sub == 0:
            sc = Sc(2, 0, [oper, 0], nc, dbin, dbout, variant=variant, natural=natural, nout=(0, nz), mode=0)
        else:
            sc = Sc(2, 1, [0, 1], nc, dbin, dbout, alias=alias, aux=[S(x) for x in (names or ['z', 'aux'])], variant=variant,
                    natural=natural, nout=(1, 0), mode=1)
        sc.nc_model = nc; sc.names = ['St.z', 'St.z1', 'z']
        return sc
    out.append(mk(0)); out.append(mk(0, nz=2, variant='multivar')); out.append(mk(0, oper=1, variant='num'))
    out.append(mk(0, nz=0, variant='no-z-variable', natural='check'))
    out.append(mk(0, gout=False, variant='dbout-points', natural='check'))
    out.append(mk(1, alias=1, variant='regression')); out.append(mk(1, alias=0, gout=False, variant='regression-2db'))
    out.append(mk(1, alias=1, names=['z', 'nosuch'], variant='regression-unknown-aux', natural='any'))
    return out

def anam_scenarios(rng, quick):
    out = []
    def mk(sub, nz=1, nfact=2, variant='std', natural=None, ncargs=None):
        dbin = point_db(rng, rng.randint(8, 12), 2, nz, 'pos')
        nc = NC('An', **(ncargs or {}))
        mode = 0 if sub in (0, 1) else 1
        extra = 1
        if sub == 2 and (nfact < 1 or nfact > 6): extra = 0
        sc = Sc(3, sub, [nfact], nc, dbin, dbin, alias=1, variant=variant, natural=natural,
                nout=((nz if mode == 0 else nfact), 0), mode=mode, n=nfact, extra_ok=extra)
        sc.nc_model = nc; sc.names = ['An.z', 'An.z.1', 'z']
        return sc
    out.append(mk(0, variant='raw-to-gaussian')); out.append(mk(0, nz=2, variant='raw-to-gaussian-multivar'))
    out.append(mk(2, nfact=3, variant='raw-to-factor'))
    out.append(mk(1, variant='gaussian-to-raw'))      # since fix C18_1 it selects _flagVars with _flagZToY = false
    out.append(mk(2, nfact=9, variant='raw-to-factor-too-many', natural='check'))
    out.append(mk(2, nz=2, variant='raw-to-factor-multivar', natural='check'))
    out.append(mk(0, nz=0, variant='no-z-variable', natural='check'))
    return out

def simtub_scenarios(rng, quick):
    out = []
    def mk(cond=True, nbsimu=2, model=0, neigh=0, dgm=0, gout=True, variant='std', natural=None, nbtuba=20, zkind='z'):
        dbin = point_db(rng, rng.randint(5, 8), 2, MODEL_NV[model], zkind)
        dbout = grid_db((4, 4)) if gout else point_db(rng, 4, 2, 0)
        nc = NC('Sim')
        sc = Sc(4, 0, [nbsimu, nbtuba, dgm, model, neigh if cond else -1, 1 if cond else 0], nc, dbin, dbout, variant=variant, natural=natural,
                nout=(0, MODEL_NV[model] * nbsimu), dgm=dgm, mnvar=MODEL_NV[model], mndim=MODEL_ND[model],
                nndim=(NEIGH_ND[neigh] if cond else 0), nbsimu=nbsimu, has_in=(1 if cond else 0),
                extra_ok=(1 if nbtuba > 0 else 0))
        sc.nc_model = nc; sc.names = ['Sim.z.1', 'Sim.1', 'Sim.z.2']
        return sc
    out.append(mk(cond=False, variant='non-conditional')); out.append(mk(cond=False, gout=False, variant='non-conditional-points'))
    out.append(mk(cond=False, model=7, variant='non-conditional-unsupported-structure', natural='run'))
    out.append(mk(cond=True, model=7, variant='conditional-unsupported-structure', natural='run'))
    out.append(mk(cond=True, variant='conditional')); out.append(mk(cond=True, neigh=1, nbsimu=1, variant='conditional'))
    out.append(mk(cond=True, model=1, variant='model-3d', natural='check'))
    out.append(mk(cond=False, nbsimu=0, variant='nbsimu-0', natural='check'))
    out.append(mk(cond=True, dgm=1, model=3, variant='dgm', zkind='pos'))
    return out

def simfft_scenarios(rng, quick):
    out = []
    def mk(nbsimu=1, model=0, variant='std', natural=None):
        dbout = grid_db((4, 4)); nc = NC('FFT')
        sc = Sc(5, 0, [nbsimu, model], nc, grid_db((2, 2)), dbout, variant=variant, natural=natural, nout=(0, nbsimu),
                mnvar=MODEL_NV[model], mndim=MODEL_ND[model], nndim=0, nbsimu=nbsimu, has_in=0)
        sc.nc_model = nc; sc.names = ['FFT.1', 'FFT', 'FFT.2']
        return sc
    out.append(mk()); out.append(mk(nbsimu=2, variant='two-simulations'))
    out.append(mk(model=2, variant='bivariate-model', natural='check'))
    return out

def simpleint_scenarios(rng, quick):
    out = []
    def mk(sub, est=1, std=0, model=-1, neigh=-1, nz=1, variant='std', natural=None, gout=True):
        dbin = point_db(rng, rng.randint(6, 9), 2, nz, 'z')
        dbout = grid_db((3, 3)) if gout else point_db(rng, 4, 2, 0)
        nc = NC('SI')
        sc = Sc(6, sub, [est, std, model, neigh], nc, dbin, dbout, variant=variant, natural=natural, nout=(0, est + std),
                est=est, std=std, mnvar=(MODEL_NV[model] if model >= 0 else 0), mndim=(MODEL_ND[model] if model >= 0 else 0),
                nndim=NEIGH_ND[neigh], extra_ok=(0 if (std and model < 0) or (sub == 2 and neigh < 0) else 1))
        sc.nc_model = nc; sc.names = ['SI.z.estim', 'SI.z.stdev', 'z.estim']
        return sc
    out.append(mk(0, variant='inverse-distance')); out.append(mk(1, variant='nearest')); out.append(mk(2, neigh=1, variant='moving-average'))
    out.append(mk(0, est=1, std=1, model=0, variant='inverse-distance-std'))
    out.append(mk(0, nz=2, variant='two-variables', natural='check'))
    out.append(mk(0, std=1, variant='std-without-model', natural='check'))
    out.append(mk(2, neigh=-1, variant='moving-average-no-neigh', natural='check'))
    return out

def g2g_scenarios(rng, quick):
    out = []
    def mk(sub, nx_in=(3, 3), nx_out=(3, 3), nz=1, gin=True, variant='std', natural=None, extra_ok=1):
        n = 1
        for k in nx_in: n *= k
        if gin: dbin = grid_db(nx_in, [[S('z%d' % (k + 1) if nz > 1 else 'z'), rvals(rng, n, 'z'), L_Z, k] for k in range(nz)])
        else: dbin = point_db(rng, 6, len(nx_in), nz)
        dbout = grid_db(nx_out)
        nc = NC('G2G')
        sc = Sc(7, sub, [], nc, dbin, dbout, variant=variant, natural=natural, nout=(0, 1), mode=(1 if sub == 1 else 0), extra_ok=extra_ok)
        sc.nc_model = nc; sc.names = ['G2G.z', 'G2G', 'z']
        return sc
    out.append(mk(0, variant='copy'))
    out.append(mk(1, nx_in=(3, 3, 2), variant='shrink'))
    out.append(mk(0, nz=2, variant='copy-two-variables', natural='check', extra_ok=0))
    out.append(mk(0, nx_in=(3, 3, 2), variant='copy-different-dimensions', natural='check', extra_ok=0))
    out.append(mk(1, variant='shrink-same-dimension', natural='check', extra_ok=0))
    return out

def image_scenarios(rng, quick):
    out = []
    def mk(sub, nz=1, gin=True, variant='std', natural=None, p=None, extra_ok=1):
        n = 16
        if gin: dbin = grid_db((4, 4), [[S('z%d' % (k + 1) if nz > 1 else 'z'), [dy(rng.randint(0, 2)) for _ in range(n)], L_Z, k] for k in range(nz)])
        else: dbin = point_db(rng, 6, 2, nz)
        nc = NC('Img')
        opkey = 'DILATION' if (p or [0])[0] == 1 else 'EROSION'
        sc = Sc(8, sub, p or [0], nc, dbin, dbin, alias=1, variant=variant, natural=natural, nout=(1, 0), mode=sub, n=1,
                mnvar=(1 if sub == 0 else 0), mndim=(2 if sub == 0 else 0), nndim=(2 if sub in (0, 2) else 0), extra_ok=extra_ok)
        sc.nc_model = nc; sc.names = ['Img.z', 'Img.z.' + opkey, 'z']; sc.model_aux = [S(opkey)]
        return sc
    out.append(mk(1, p=[0], variant='morpho-erosion')); out.append(mk(1, p=[1], variant='morpho-dilation'))
    out.append(mk(2, p=[1], variant='smooth'))
    out.append(mk(0, p=[0], variant='filter'))
    out.append(mk(1, nz=2, variant='morpho-two-variables', natural='check'))
    out.append(mk(2, p=[3], variant='smooth-bad-type', natural='check', extra_ok=0))
    return out

def global_scenarios(rng, quick):
    out = []
    def mk(sub, ivar0=0, nz=1, variant='std', natural=None, model=0):
        dbin = point_db(rng, rng.randint(6, 9), 2, nz, 'z'); dbout = grid_db((3, 3)); nc = NC('')
        sc = Sc(9, sub, [model, ivar0], nc, dbin, dbout, variant=variant, natural=natural, nout=(0, 0), mode=sub, n=ivar0,
                mnvar=MODEL_NV[model], mndim=MODEL_ND[model], nndim=0)
        sc.nc_model = nc; sc.names = ['z', 'estim', 'stdev']
        return sc
    out.append(mk(0, variant='arithmetic')); out.append(mk(1, variant='kriging'))
    out.append(mk(1, ivar0=3, variant='target-variable-out-of-range', natural='check'))
    out.append(mk(0, model=1, variant='model-3d', natural='check'))
    return out

def krigfac_scenarios(rng, quick):
    out = []
    def mk(nfac=2, model=6, neigh=0, est=1, std=1, gout=True, variant='std', natural=None, extra_ok=1, calcul=0, ndisc=0):
        dbin = point_db(rng, rng.randint(8, 11), 2, nfac, 'pos')
        dbout = grid_db((3, 3)) if gout else point_db(rng, 4, 2, 0)
        nc = NC('KD')
        sc = Sc(10, 0, [calcul, est, std, model, neigh, ndisc], nc, dbin, dbout, variant=variant, natural=natural, est=est, std=std,
                dgm=(model == 3), mnvar=1, mndim=MODEL_ND[model], nndim=NEIGH_ND[neigh], extra_ok=extra_ok)
        sc.nc_model = nc; sc.names = ['KD.z1.estim', 'KD.z1.stdev', 'z1.estim']
        return sc
    out.append(mk(variant='std')); out.append(mk(nfac=3, std=0, neigh=1, variant='three-factors'))
    out.append(mk(nfac=1, variant='one-factor'))
    out.append(mk(model=3, variant='change-support'))
    out.append(mk(model=3, gout=False, variant='change-support-on-points', natural='preprocess'))
    out.append(mk(model=0, variant='model-without-anamorphosis', natural='check', extra_ok=0))
    out.append(mk(model=1, variant='model-3d', natural='check'))
    out.append(mk(calcul=1, variant='block-without-discretization', natural='check', extra_ok=0))
    return out

def simupost_scenarios(rng, quick):
    out = []
    def mk(sub, names=('S*',), variant='std', natural=None, extra_ok=1, ndim_out=2):
        dbin = point_db(rng, rng.randint(5, 8), 2, 0)
        for k in (1, 2): dbin['cols'].append([S('S.%d' % k), rvals(rng, dbin['nech']), -1, 0])
        dbout = grid_db((3, 3) if ndim_out == 2 else (3,)); nc = NC('Post')
        sc = Sc(11, sub, [], nc, dbin, dbout if sub == 1 else dbin, alias=(0 if sub == 1 else 1), aux=[S(n) for n in names],
                variant=variant, natural=natural, nout=((0, 1) if sub == 1 else (1, 0)), mode=sub, n=1, extra_ok=extra_ok)
        sc.nc_model = nc; sc.names = ['Post.Var1.Mean', 'Var1.Mean', 'Post']; sc.model_aux = [S('Var1.Mean')]
        return sc
    out.append(mk(0, variant='in-place')); out.append(mk(1, variant='upscale'))
    out.append(mk(0, names=('nosuch',), variant='unknown-name', natural='check', extra_ok=0))
    out.append(mk(1, ndim_out=1, variant='upscale-dbout-1d', natural='check'))
    return out

def simu1_scenarios(rng, quick):
    out = []
    def mk(sub, p0=0, variant='std', natural=None, extra_ok=1, intensity=3):
        dbout = grid_db((4, 4)); nc = NC('Tess')
        sc = Sc(12, sub, [p0, intensity], nc, grid_db((2, 2)), dbout, variant=variant, natural=natural, nout=(0, 1), nbsimu=1, has_in=0,
                mode=(1 if sub == 1 else 0),
                mnvar=(1 if sub != 2 and p0 >= 0 else 0), mndim=(2 if sub != 2 and p0 >= 0 else 0), nndim=0, extra_ok=extra_ok)
        sc.nc_model = nc; sc.names = ['Tess', 'Tess.1', 'Tess.2']
        return sc
    out.append(mk(1, variant='poisson')); out.append(mk(0, variant='voronoi')); out.append(mk(2, p0=2, variant='substitution'))
    x = mk(1, intensity=0, variant='poisson-no-plane', natural='run'); x.run_fk = 3; out.append(x)
    out.append(mk(2, p0=2, intensity=0, variant='substitution-no-point', natural='run'))
    out.append(mk(0, p0=-1, variant='voronoi-without-model', natural='check', extra_ok=0))
    return out

def eden_scenarios(rng, quick):
    out = []
    def mk(niter=1, nfluids=1, variant='std', natural=None, names=('facies', 'fluid')):
        n = 16
        dbout = grid_db((4, 4), [[S('facies'), [dy(1)] * n, -1, 0], [S('fluid'), [dy(1 if i in (0, 5) else 0) for i in range(n)], -1, 0]])
        nc = NC('Eden')
        sc = Sc(13, 0, [1, nfluids, niter], nc, grid_db((2, 2)), dbout, aux=[S(x) for x in names], variant=variant, natural=natural,
                nout=(0, (nfluids + 1 if niter > 1 else 0) + 2), mode=(1 if niter > 1 else 0), n=nfluids, nbsimu=niter, has_in=0,
                mnvar=0, mndim=0, nndim=0, extra_ok=(1 if names == ('facies', 'fluid') else 0))
        sc.nc_model = nc; sc.names = ['Eden.Fluid', 'Eden.Date', 'Fluid']
        return sc
    out.append(mk(variant='one-iteration')); out.append(mk(niter=2, variant='two-iterations'))
    out.append(mk(names=('nosuch', 'fluid'), variant='unknown-facies', natural='check'))
    return out

GENERATORS = [kriging_scenarios, migrate_scenarios, stats_scenarios, anam_scenarios, simtub_scenarios, simfft_scenarios,
              simpleint_scenarios, g2g_scenarios, image_scenarios, global_scenarios, krigfac_scenarios, simupost_scenarios,
              simu1_scenarios, eden_scenarios]

def expand(rng, base, quick):
    """scenario x prior contents x injected failure"""
    import copy
    out = []
    priors = [[], ['hole'], ['clash'], ['blank', 'tail'], ['role'], ['hole', 'role', 'clash', 'blank']]
    seen_ids = set()
    for sc in base:
        if quick:
            # the first regular scenario of every calculator always meets the most adversarial prior contents
            if sc.natural is None and sc.name() not in seen_ids:
                seen_ids.add(sc.name()); chosen = [priors[0], priors[-1]]
            else:
                chosen = [priors[0]] + rng.sample(priors[1:], 1)
        else:
            chosen = priors
        for ipr, pr in enumerate(chosen):
            s2 = copy.deepcopy(sc)
            roles = [L_Z] if s2.id not in (4, 5, 12) else [L_Z, L_SIMU]
            prx = []
            for k in pr:
                if k == 'role': prx += [('role', t) for t in roles]
                else: prx.append(k)
            tin = add_prior(rng, s2.dbin, [k for k in prx if not (isinstance(k, tuple) and k[1] == L_Z and s2.id in (0, 2, 3, 4, 6, 7, 8, 9, 10, 11))], s2.names)
            tout = [] if s2.alias else add_prior(rng, s2.dbout, prx, s2.names)
            s2.tags = sorted(set(tin + tout))
            stages = [-1, 1, 2, 3, 4] if s2.natural is None else [-1]
            # quick tier: the second prior contents of a scenario meets the failures that follow some work only
            if quick and ipr > 0 and s2.natural is None and len(pr) < 4: stages = [-1, 2, 3]
            for fa in stages:
                s3 = copy.copy(s2); s3.fail_after = fa; out.append(s3)
    return out

# ----------------------------------------------------------------------------- dumps
class Dump:
    def __init__(s, x):
        s.grid, s.ndim, s.nech, s.nuid = x[0], x[1], x[2], x[3]
        s.cols = [(c[0], US(c[1]), tuple(tuple(v) for v in c[2])) for c in x[4]]
        s.locs = [list(l) for l in x[5]]
    def uids(s): return [c[0] for c in s.cols]
    def short(s): return {'cols': [(c[0], c[1]) for c in s.cols], 'locs': {t: l for t, l in enumerate(s.locs) if l}, 'nuid': s.nuid}

def source_lguard():
    """tiny translator: does Db::setLocatorByUID of the CURRENT source return at once for the uid of a deleted column?
       (hard-wired in coq/C19/Model.v, set_locator_ok; asserted here)"""
    try: src = open(os.path.join(REPO, 'src', 'Db', 'Db.cpp')).read()
    except OSError: return 0
    m = re.search(r'void Db::setLocatorByUID\(int iuid,.*?\n\}\n', src, re.S)
    body = m.group(0) if m else ''
    return 1 if re.search(r'if\s*\(\s*_uidcol\[iuid\]\s*<\s*0\s*\)\s*return', body) else 0
def model_db(d):
    """Db of the model from a dump: the content of column uid is 'Orig uid'"""
    return [d.grid, d.ndim if d.grid else 0, d.nuid, [[c[0], S(c[1]), [0, c[0]]] for c in d.cols], d.locs]

def content_class(vals):
    if all(v == () for v in vals): return 'na'
    if all(v == (0, 0) for v in vals): return 'zero'
    return 'other'

def diff_same(b, a):
    """differences between two dumps of the same Db that the property forbids after a failure (uid tail excepted)"""
    out = []
    bu, au = b.uids(), a.uids()
    extra = [u for u in au if u not in bu]; missing = [u for u in bu if u not in au]
    if extra: out.append(('columns-left', [(c[0], c[1]) for c in a.cols if c[0] in extra]))
    if missing: out.append(('columns-lost', missing))
    common = [u for u in bu if u in au]
    if [u for u in au if u in bu] != common: out.append(('order-changed', None))
    bd = {c[0]: c for c in b.cols}; ad = {c[0]: c for c in a.cols}
    for u in common:
        if bd[u][1] != ad[u][1]: out.append(('name-changed', (u, bd[u][1], ad[u][1])))
        if bd[u][2] != ad[u][2]: out.append(('values-changed', (u, bd[u][1])))
    for t in range(NLOC):
        if b.locs[t] != a.locs[t]: out.append(('roles-changed', (t, b.locs[t], a.locs[t])))
    if b.ndim != a.ndim: out.append(('ndim-changed', (b.ndim, a.ndim)))
    return out

def diff_success(b, a, nnew, nc_t, is_target):
    """what the property forbids after a success: pre-existing cells/names changed, wrong number of new variables,
       roles changed (except the locator type given by the naming convention in the Db receiving the results),
       locators pointing to no column"""
    out = []
    bu, au = b.uids(), a.uids()
    if au[:len(bu)] != bu: out.append(('preexisting-columns-changed', (bu, au)))
    bd = {c[0]: c for c in b.cols}; ad = {c[0]: c for c in a.cols}
    for u in bu:
        if u in ad:
            if bd[u][1] != ad[u][1]: out.append(('name-changed', (u, bd[u][1], ad[u][1])))
            if bd[u][2] != ad[u][2]: out.append(('values-changed', (u, bd[u][1])))
    new = [c for c in a.cols if c[0] not in bd]
    if nnew is not None and len(new) != nnew: out.append(('new-variable-count', (len(new), nnew, [c[1] for c in new])))
    for c in new:
        if c[0] < b.nuid: out.append(('new-variable-reuses-uid', c[0]))
        if c[1] in ('', '.1', '-1', '-2') or c[1] in [x[1] for x in b.cols]: out.append(('new-variable-unnamed', (c[0], c[1])))
    if not is_target:      # "the whole input data base remains unchanged": roles included
        for t in range(NLOC):
            if a.locs[t] != b.locs[t]: out.append(('roles-changed', (t, b.locs[t], a.locs[t])))
    if a.ndim != b.ndim: out.append(('ndim-changed', (b.ndim, a.ndim)))
    for t in range(NLOC):
        for u in a.locs[t]:
            if u not in ad and not (u in b.locs[t] and u not in bd): out.append(('stale-locator', (t, u)))
    return out

SYMPTOM_KEY = {'columns-left': 'variables-left', 'columns-lost': 'columns-lost', 'order-changed': 'order-changed', 'name-changed': 'name-changed',
               'values-changed': 'values-changed', 'roles-changed': 'roles-changed', 'preexisting-columns-changed': 'columns-lost',
               'new-variable-count': 'new-variable-count', 'new-variable-reuses-uid': 'uid-reused', 'new-variable-unnamed': 'unnamed-output',
               'stale-locator': 'stale-locator', 'ndim-changed': 'space-dimension-changed'}

def key_of(sc, which, diffs, success):
    """canonical key: calculator : option combination / mechanism - symptom (never the whole property)"""
    kinds = [d[0] for d in diffs]
    calc = sc.name(); v = sc.variant
    base = v
    for pref in ('single-target', 'dgm', 'xvalid', 'regression', 'conditional', 'non-conditional', 'raw-to', 'by-locator', 'shrink'):
        if v.startswith(pref): base = pref
    if base == 'external-drift' and which == 'in' and ('columns-left' in kinds or 'new-variable-count' in kinds):
        return calc + ':external-drift-expansion-left-in-dbin' 
    ts = [d[1][0] for d in diffs if d[0] == 'roles-changed']
    if calc == 'CalcSimuEden' and 'values-changed' in kinds: return calc + ':input-variables-overwritten'
    if calc == 'CalcSimuPartition' and base.startswith('poisson'):
        if 'columns-left' in kinds or 'new-variable-count' in kinds: return calc + ':poisson-nested-simulation-left'
        if 'columns-lost' in kinds or 'preexisting-columns-changed' in kinds or 'values-changed' in kinds: return calc + ':poisson-column-rank-used-as-uid'
    if calc == 'CalcKrigingFactors' and which == 'in' and not success:
        if 'columns-left' in kinds or L_X in ts: return calc + ':change-support-roles-not-restored'
        if L_Z in ts: return calc + ':factor-locators-not-restored'
    if not success:
        if 'columns-left' in kinds:
            if base == 'single-target': return calc + ':single-target-temp-left'
            if base == 'dgm' and which == 'in': return calc + ':dgm-roles-not-restored'
            if calc == 'CalcAnamTransform': return calc + ':unregistered-variables-left'
            if calc == 'CalcSimuTurningBands' and which == 'in': return calc + ':conditional-temp-left'
            if calc == 'CalcGridToGrid' and base == 'shrink': return calc + ':shrink-temp-left'
            return '%s:%s-variables-left-in-db%s' % (calc, base, which)
        if 'roles-changed' in kinds:
            if base == 'dgm' and which == 'in' and L_X in ts: return calc + ':dgm-roles-not-restored'
            if L_SIMU in ts: return calc + ':existing-simu-locator-lost'
            stage = 'stage%d' % sc.fail_after if sc.fail_after > 0 else 'natural'
            return '%s:%s-failure-%s-locator%d-changed-in-db%s' % (calc, base, stage, ts[0], which)
        return '%s:%s-failure-%s-in-db%s' % (calc, base, SYMPTOM_KEY[kinds[0]], which)
    if 'stale-locator' in kinds and base == 'single-target': return calc + ':single-target-stale-locator'
    if 'roles-changed' in kinds and L_SIMU in ts: return calc + ':existing-simu-locator-lost'
    if 'roles-changed' in kinds or 'ndim-changed' in kinds:
        # entry point (API function) whose success path changed the roles
        entry = {0: 'kriging', 1: 'krigtest', 2: 'xvalid', 3: 'test_neigh', 4: 'kribayes', 5: 'krigprof'}.get(sc.sub, base) if sc.id == 0 else base
        if sc.id == 0 and sc.cfg.get('dgm'): entry += '-dgm'
        return '%s:%s:success-roles-changed' % (calc, entry)
    return '%s:%s-success-%s-in-db%s' % (calc, base, SYMPTOM_KEY[kinds[0]], which)

# ----------------------------------------------------------------------------- model side
def cfg_sx(sc):
    c = sc.cfg
    return [sc.nc_model, int(c['est']), int(c['std']), int(c['varz']), c['single'], int(c['dgm']), int(c['xvalid']), c['xv_est'], c['xv_std'], c['xv_varz'],
            int(c['neigh_only']), c['nbneigh'], c['matlc'], c['mnvar'], c['mndim'], c['nndim'], c['nfex'], int(c['extra_ok']), c['iuids'],
            int(c['locate']), c['loctype'], c['nbsimu'], c['mode'], c['n'], int(c['has_in']), int(c['rb2']), c['ver']]

EMPTY_DB = [0, 0, 0, [], [[] for _ in range(NLOC)]]
def model_case(sc, bin_, bout, fs):
    sc.cfg['rb2'] = source_rb2(sc.name()); sc.cfg['ver'] = source_ver()
    din = model_db(bin_) if sc.cfg['has_in'] else EMPTY_DB
    return [sc.id, cfg_sx(sc), sc.alias, fs, getattr(sc, 'run_fk', 1000) if fs == 3 and sc.fail_after <= 0 and not (source_ver() & 8) else 1000, din, model_db(bout), getattr(sc, 'model_aux', [])]

def cmp_model_db(md, before, after):
    """model's final Db (decoded sx) against the implementation's dump; returns list of differences"""
    out = []
    mcols = md[3]; acols = after.cols
    if [c[0] for c in mcols] != [c[0] for c in acols]:
        return [('uids', [c[0] for c in mcols], [c[0] for c in acols])]
    bd = {c[0]: c for c in before.cols}
    for mc, ac in zip(mcols, acols):
        if US(mc[1]) != ac[1]: out.append(('name', mc[0], US(mc[1]), ac[1]))
        kind, val = mc[2]
        if kind == 0:
            if val not in bd or bd[val][2] != ac[2]: out.append(('content', mc[0], 'orig %d' % val))
        elif kind == 1:
            cc = content_class(ac[2])
            if (val == 0 and cc != 'zero') or (val == 1 and cc != 'na'): out.append(('content', mc[0], 'cst %d' % val, cc))
    if md[4] != after.locs: out.append(('locs', {t: l for t, l in enumerate(md[4]) if l}, {t: l for t, l in enumerate(after.locs) if l}))
    if md[2] > after.nuid: out.append(('nuid', md[2], after.nuid))
    return out

# ----------------------------------------------------------------------------- main
def run(ctx):
    quick = ctx.quick()
    build_lib(ctx)
    proofs_ok = coq_properties(ctx)
    runner = build_runner(ctx)
    exe = build_harness(ctx, 'C19')
    if exe is None:
        # the harness refers to verif_set_fail_after / verif_get_last_stage: without the hook of hooks/C19.patch it cannot link
        hooked = all(os.path.exists(f) and 'verif_set_fail_after' in open(f).read() for f in
                     (os.path.join(REPO, 'include', 'Calculators', 'ACalculator.hpp'), os.path.join(REPO, 'src', 'Calculators', 'ACalculator.cpp')))
        print('ERROR: %s' % ('harness/C19.cpp does not build' if hooked else
              'the fault-injection hook of ACalculator::run (hooks/C19.patch, guard GSTLEARN_VERIF) is not present in %s; the check cannot run' % REPO), flush=True)
        sys.exit(3)
    if runner is None:
        print('ERROR: model runner does not build'); sys.exit(3)
    if not source_lguard():
        ctx.violation('model-drift:Db::setLocatorByUID', 'Db::setLocatorByUID no longer returns at once for the uid of a deleted column '
                      '("if (_uidcol[iuid] < 0) return;" not found): coq/C19/Model.v (set_locator_ok) no longer mirrors the source',
                      {'correspondence': 'coq/C19/Model.v set_locator_ok vs src/Db/Db.cpp Db::setLocatorByUID'}, found_input=False)
    rng = ctx.rng
    base = []
    for rep in range(1 if quick else 3):
        for g in GENERATORS: base += g(rng, quick)
    scs = expand(rng, base, quick)
    corpus = load_corpus(ctx)
    allcases = [c[2] for c in corpus] + [s.impl_case() for s in scs]
    impl = run_impl_resilient(ctx, exe, allcases)
    impl_corpus, impl = impl[:len(corpus)], impl[len(corpus):]
    found_input = False
    # corpus: minimal harness cases kept from earlier findings (key, description, harness case): property checked directly
    for k, c in enumerate(corpus):
        r = impl_corpus[k] if k < len(impl_corpus) else None
        key, what, case = US(c[0]), US(c[1]), c[2]
        ctx.count('corpus:' + key + ':' + what); ctx.dist('corpus')
        if r is None or len(r) < 6:
            ctx.violation(key if key.startswith('crash:') else 'crash:corpus:' + key, 'corpus case (%s): the library crashed instead of reporting an error' % what,
                          {'harness_case': sx_str(case)}); found_input = True; continue
        d = []
        for which, b, a in (('in', Dump(r[2]), Dump(r[4])), ('out', Dump(r[3]), Dump(r[5]))):
            if which == 'out' and case[6]: continue
            d += [(which,) + x for x in (diff_same(b, a) if r[0] == 0 else [x for x in diff_success(b, a, None, -1, True) if x[0] != 'new-variable-unnamed'])]
        if d:
            ctx.violation(key, 'corpus case (%s): %s: %s' % (what, 'Dbs not restored after the reported failure' if r[0] == 0 else 'Dbs wrong after success', d[:3]),
                          {'harness_case': sx_str(case), 'ret': r[0], 'diff': [list(map(str, x)) for x in d[:6]]}); found_input = True
    # pass 1: property directly on the implementation; collect model cases
    mcases = []; midx = []; first_by_key = {}
    for i, sc in enumerate(scs):
        r = impl[i] if i < len(impl) else None
        ctx.dist(sc.name()); ctx.dist('fail_after_%s' % sc.fail_after); ctx.dist('natural_%s' % sc.natural)
        for t in sc.tags: ctx.dist('prior_' + t)
        ckey = '%s/%s/%s/%s/fa%d' % (sc.name(), sc.variant, sc.sub, '+'.join(sc.tags), sc.fail_after)
        if r is None or len(r) < 6:
            ctx.count(ckey)
            first_by_key.setdefault('crash:%s:%s' % (sc.name(), sc.variant), sc)
            ctx.violation('crash:%s:%s' % (sc.name(), sc.variant), 'the library crashed (signal/assertion/uncaught exception) instead of reporting an error on %s: %s' % (
                ckey, str(r[2])[-300:] if r and len(r) > 2 else r), {'harness_case': sx_str(sc.impl_case()), 'log_tail': r[2] if r and len(r) > 2 else None})
            found_input = True; continue
        ret, last = r[0], r[1]
        if ret < 0:
            print('ERROR: harness could not run scenario %s (ret %d)' % (ckey, ret)); sys.exit(3)
        bi, bo, ai, ao = Dump(r[2]), Dump(r[3]), Dump(r[4]), Dump(r[5])
        sc.res = (ret, last, bi, bo, ai, ao)
        if sc.id == 13:     # fluid_propagation works in its input variables
            names = {c[1]: c[0] for c in bo.cols}
            sc.cfg['iuids'] = [names[US(a)] for a in sc.aux if US(a) in names]
        if sc.id == 10:     # krigingFactors: the factors are the Z-locator variables of dbin at the time of the call
            sc.cfg['iuids'] = list(bi.locs[L_Z]); sc.nout = (0, len(sc.cfg['iuids']) * (sc.cfg['est'] + sc.cfg['std']))
        if sc.id == 1:      # CalcMigrate: the entry points turn names / a locator into uids before the calculator starts
            names = {c[1]: c[0] for c in bi.cols}
            if sc.sub == 2: sc.cfg['iuids'] = list(bi.locs[sc.cfg['loctype']]) if sc.cfg['loctype'] >= 0 else []
            else: sc.cfg['iuids'] = [names.get(US(a), -1) for a in sc.aux]
            sc.nout = (0, len(sc.cfg['iuids']))
        if os.environ.get('VERIF_C19_DEBUG'): print('DBG %-24s %-32s sub%d fa%2d nat=%-5s ret=%d last=%d tags=%s' % (sc.name(), sc.variant, sc.sub, sc.fail_after, sc.natural, ret, last, '+'.join(sc.tags)))
        ctx.count(ckey, True)
        if len(ctx.cov['samples']) < 4 and sc.fail_after in (2, 3): ctx.sample({'scenario': ckey, 'ret': ret, 'before_out': bo.short(), 'after_out': ao.short()})
        # (a) the property itself
        viol = []
        late = sc.fail_after == 4     # forced after the last stage has returned true: outside the property (nothing can fail
                                      # there); kept for the correspondence only (roll-back after a completed _postprocess)
        if late: ctx.dist('late_failure_correspondence_only')
        if sc.fail_after > 0 and ret == 1:
            viol.append(('injected-failure-not-reported', 'out', [('ret', 1)]))
        if ret == 0 and late:
            pass
        elif ret == 0:
            for which, b, a in (('in', bi, ai),) + ((('out', bo, ao),) if not sc.alias else ()):
                d = diff_same(b, a)
                if d: viol.append((key_of(sc, which, d, False), which, d))
        else:
            nc_t = sc.nc_model[4] if sc.nc_model[3] else -1
            nin, nout = sc.nout if sc.nout else (None, None)
            if sc.alias: nin = (nin or 0) + (nout or 0)
            target_in = sc.alias or (sc.id == 2 and sc.sub == 1) or sc.id == 3
            d = diff_success(bi, ai, nin if (sc.alias or sc.nout) else None, nc_t, target_in)
            if d: viol.append((key_of(sc, 'in', d, True), 'in', d))
            if not sc.alias:
                d = diff_success(bo, ao, nout, nc_t, True)
                if d: viol.append((key_of(sc, 'out', d, True), 'out', d))
        sc.viol = viol
        for key, which, d in viol:
            first_by_key.setdefault(key, sc)
            if len(sc.tags) < len(first_by_key[key].tags): first_by_key[key] = sc
            st = ctx.violation(key, '%s [%s, prior contents %s, %s]: Db%s %s: %s' % (
                sc.name(), sc.variant, '+'.join(sc.tags) or 'plain',
                ('failure injected after stage %d' % sc.fail_after) if sc.fail_after > 0 else ('natural outcome, ret=%d' % ret),
                which, 'not restored after the reported failure' if ret == 0 else 'wrong after success', d[:3]),
                {'harness_case': sx_str(sc.impl_case()), 'ret': ret, 'last_stage': last, 'db': which, 'diff': [list(map(str, x)) for x in d[:6]],
                 'before': (bi if which == 'in' else bo).short(), 'after': (ai if which == 'in' else ao).short(),
                 'how': 'build/harness/C19 <file with harness_case> out.txt (lib built with -DGSTLEARN_VERIF)'})
            found_input = True
        # model case: injected stage, or the observed stage of a natural failure inside the numerical body
        fs = sc.fail_after if sc.fail_after > 0 else 0
        if fs == 0 and ret == 0 and last == 2: fs = 3
        sc.fs = fs
        mcases.append(model_case(sc, bi, bo if not sc.alias else bi, fs)); midx.append(i)
    if os.environ.get('VERIF_C19_WRITE_CORPUS'):      # development aid: append one minimal case per NEW key (never removes a regression case)
        have = set(US(c[0]) for c in corpus)
        with open(os.path.join(VERIF, 'corpus', ctx.pid + '.sx'), 'a') as f:
            for key in sorted(first_by_key):
                if key in have: continue
                sc = first_by_key[key]
                what = '%s/%s/%s/fail_after=%d' % (sc.name(), sc.variant, '+'.join(sc.tags) or 'plain', sc.fail_after)
                f.write('# %s  --  %s\n' % (key, what))
                f.write(sx_str([S(key), S(what), sc.impl_case()]) + '\n')
    # pass 2: model prediction
    mf = write_cases(ctx, 'model', mcases)
    rc_m, model = run_model(ctx, runner, mf)
    if len(model) != len(mcases):
        print('ERROR: model runner returned %d results for %d cases' % (len(model), len(mcases))); sys.exit(3)
    ndis = 0; n_model_nonatomic = 0; n_wf = 0; n_wfs = 0
    for k, i in enumerate(midx):
        sc = scs[i]; m = model[k]
        if m and m[0] in (-999, -998):
            print('ERROR: model rejected case', i, m); sys.exit(3)
        ret, last, bi, bo, ai, ao = sc.res
        m_ok, m_stage, m_in, m_out, m_book, m_wf, m_at_in, m_at_out, inv_i, inv_o, inv_i2, inv_o2, m_wfs = m
        n_wfs += m_wfs
        if not (inv_i and inv_o):
            print('ERROR: generated prior contents do not satisfy Inv (scenario %s/%s)' % (sc.name(), sc.variant)); sys.exit(3)
        n_wf += m_wf
        if not m_ok and not (m_at_in and m_at_out): n_model_nonatomic += 1
        diffs = []
        if m_ok != ret: diffs.append(('ok', m_ok, ret))
        obs_stage = 0 if ret == 1 else (last if (sc.fail_after > 0 and last == sc.fail_after) else last + 1)
        if m_stage != obs_stage: diffs.append(('failing-stage', m_stage, obs_stage))
        if sc.cfg['has_in']: diffs += [('in',) + d for d in cmp_model_db(m_in, bi, ai)]
        if not sc.alias: diffs += [('out',) + d for d in cmp_model_db(m_out, bo, ao)]
        # consistency of the proved condition with the model's own verdict (theorem C19_atomic: wf -> atomic); never expected to fire
        if m_wf and not m_ok and sc.fs != 4 and not (m_at_in and m_at_out):
            ctx.violation('proof-vs-model:%s' % sc.name(), 'wf_atomic holds but the extracted model is not atomic on %s/%s' % (sc.name(), sc.variant),
                          {'model_case': sx_str(mcases[k])}, found_input=False)
        if not (inv_i2 and inv_o2):
            ctx.dist('final_state_not_Inv')
        if diffs:
            ndis += 1
            same = [s for s in scs if s.id == sc.id and s.variant == sc.variant and getattr(s, 'viol', None)]
            ctx.violation('model-drift:%s:%s' % (sc.name(), sc.variant),
                          'model and implementation disagree (%s)%s: the correspondence coq/C19/Calcs.v <-> %s no longer checks' % (
                              diffs[:3], '' if sc.viol else ' while the implementation satisfies the property on this input', sc.name()),
                          {'harness_case': sx_str(sc.impl_case()), 'model_case': sx_str(mcases[k]), 'diffs': [list(map(str, d)) for d in diffs[:8]],
                           'correspondence': 'coq/C19/Calcs.v (%s) vs src (%s)' % (sc.name(), sc.name())}, found_input=bool(same))
    ctx.cov['disagreements'] = ndis
    ctx.cov['model_predicts_non_atomic_failures'] = n_model_nonatomic
    ctx.cov['cases_under_proved_condition_wf_atomic'] = n_wf
    ctx.cov['cases_under_proved_condition_wf_success'] = n_wfs
    ctx.cov['rule'] = ('case = calculator entry point x option variant x prior contents of both Dbs (uid holes, unused uid tail, existing variables with the '
                       'locator the calculator sets, names clashing with the naming convention or with the provisional names "", ".1") x failure point '
                       '(none, injected after check/preprocess/run/postprocess, natural failures); distinct = distinct (calculator, variant, prior tags, '
                       'failure point); every case is non-trivial (the calculator is really run on the real library)')
    if not proofs_ok: proof_break_violation(ctx, found_input)
    ctx.assumptions = ['the numerical body of _run writes only into variables registered by the calculator (checked on every case by the value comparison)',
                       'names are taken literally (no name of a generated Db is a regular expression matching another name)',
                       'failure inside a stage is modelled at operation granularity; on the implementation it is injected after whole stages (hook) '
                       'or provoked naturally (inconsistent dimensions, missing roles, invalid model/neighbourhood, BLOCK on points)']
    ctx.cov['trusted_base'].append('hook hooks/C19.patch in ACalculator::run (guard GSTLEARN_VERIF): injected failure takes the same throw/catch/_rollback path as a natural one')

def run_impl_resilient(ctx, exe, cases):
    """a crash (assertion, signal) of the harness on one case must not hide the following cases: restart after it"""
    out = []; start = 0; part = 0
    while start < len(cases):
        cf = write_cases(ctx, 'impl%d' % part, cases[start:])
        rc, res = run_impl(ctx, exe, cf, timeout=1500)
        out += res; start += len(res); part += 1
        if start < len(cases):
            tail = ''
            try: tail = open(cf + '.impl.log', errors='replace').read()[-600:]
            except OSError: pass
            out.append([-995, rc, tail]); start += 1
            if part > 40:
                print('ERROR: the harness crashed on more than 40 cases'); sys.exit(3)
    return out

def corpus_key(c, which, d):
    return '%s:corpus-failure-%s-in-db%s' % (CALC.get(c[0], 'Calc%d' % c[0]), SYMPTOM_KEY[d[0][0]], which)

def load_corpus(ctx):
    p = os.path.join(VERIF, 'corpus', ctx.pid + '.sx')
    if not os.path.exists(p): return []
    return [sx_parse(l) for l in open(p) if l.strip() and not l.startswith('#')]

if __name__ == '__main__':
    main(run)

"""C06 — moving-neighbourhood selection and ball-tree KNN: theorems of coq/C06 + correspondence of
NeighMoving::select (standard and ball-tree paths) and Ball::queryOneAsVD / queryClosest."""
import sys, os, math
sys.path.insert(0, os.path.dirname(__file__))
from common import *

ITEST = -1234567
EPS9 = 1e-9

# ----------------------------------------------------------------------------- layouts
def gen_points(rng, kind, ndim, n):
    """integer / small-dyadic coordinates; many equal abscissae, exact ties in distance"""
    pts = []
    if kind == 'lattice':
        L = rng.choice([3, 4, 6, 9])
        for _ in range(n): pts.append(tuple(Fraction(rng.randint(-L, L)) for _ in range(ndim)))
    elif kind == 'grid':      # full regular grid (all symmetric ties present)
        L = max(1, int(round(n ** (1.0 / ndim))) // 2)
        import itertools
        allp = list(itertools.product(range(-L, L + 1), repeat=ndim))
        rng.shuffle(allp)
        pts = [tuple(Fraction(v) for v in q) for q in allp[:n]]
    elif kind == 'cluster':
        cs = [tuple(rng.randint(-8, 8) for _ in range(ndim)) for _ in range(rng.randint(1, 4))]
        for _ in range(n):
            c = rng.choice(cs)
            pts.append(tuple(Fraction(c[d]) + Fraction(rng.randint(-6, 6), 4) for d in range(ndim)))
    elif kind == 'collinear':
        dirv = rng.choice([(1, 0, 0, 0), (0, 1, 0, 1), (1, 1, 0, 0), (1, -1, 1, 2), (2, 1, 0, -1)])[:ndim]
        if not any(dirv): dirv = (1,) * ndim
        base = tuple(rng.randint(-2, 2) for _ in range(ndim))
        for _ in range(n):
            k = rng.randint(-10, 10)
            pts.append(tuple(Fraction(base[d] + k * dirv[d]) for d in range(ndim)))
    else:  # 'dyadic': random dyadics
        for _ in range(n): pts.append(tuple(Fraction(rng.randint(-64, 64), 8) for _ in range(ndim)))
    return pts

def rot2(angle_deg):
    a = math.radians(angle_deg); return math.cos(a), math.sin(a)

def replica(case):
    """float replica of the candidate loop (only used to aim the parameters at the case-split boundaries)"""
    ndim, nmini, nmaxi, nsect, nsmax = case[1]
    radius = undy(case[2]); coeffs = [float(undy(x)) for x in case[3]]; angles = [float(undy(x)) for x in case[4]]
    xv, kf, hc, ball, leaf = case[5]
    t = [float(undy(x)) for x in case[8][0]]; tcode = undy(case[8][1])
    nd = len(coeffs) if coeffs else 2
    out = []
    for i, s in enumerate(case[7]):
        if not s[0]: continue
        if any(v == [] for v in s[1]) or any(v == [] for v in s[4]): continue
        if s[2] and all(v == [] for v in s[2]): continue
        x = [float(undy(v)) for v in s[1]]
        if xv:
            if not kf:
                if sum((t[d] - x[d]) ** 2 for d in range(ndim)) < 1e-18: continue
            elif hc and undy(s[3]) == tcode: continue
        ok = True
        for k in case[6]:
            if k[0] == 1:
                if abs(t[k[1]] - x[k[1]]) > float(undy(k[2])): ok = False
            else:
                c1, c2 = tcode, undy(s[3])
                if k[1] == 1:
                    if c1 is None and c2 is None: pass
                    elif c1 is None or c2 is None or abs(c1 - c2) > undy(k[2]): ok = False
                elif k[1] == 2 and c1 == c2: ok = False
        if not ok: continue
        inc = [(t[d] - x[d]) if d < ndim else 0. for d in range(nd)]
        if coeffs:
            if any(a != 0 for a in angles) and nd >= 2:
                c, s_ = rot2(angles[0]); inc = [c * inc[0] + s_ * inc[1], -s_ * inc[0] + c * inc[1]] + inc[2:]
            inc = [inc[d] / coeffs[d] for d in range(nd)]
        d2 = sum(v * v for v in inc)
        if radius is not None and d2 > float(radius) ** 2: continue
        sect = 0
        if ndim > 1 and nsect > 1:
            th = math.atan2(inc[1], inc[0]) % (2 * math.pi)
            if inc[0] == 0 and inc[1] == 0: th = math.pi / 2
            sect = min(nsect - 1, int(nsect * th / (2 * math.pi)))
        out.append((i, d2, sect))
    return out

def is_pow2(fr):
    fr = Fraction(fr)
    return fr > 0 and (fr.numerator & (fr.numerator - 1)) == 0 and (fr.denominator & (fr.denominator - 1)) == 0

def gen_moving(rng, quick, ball=False, feature=None):
    ndim = rng.choice([1, 2, 2, 2, 3])
    if ball and feature == 'horizontal3d': ndim = 3
    nbig = 60 if quick else 400
    n = rng.choice([1, 2, 3, 5, 8, 12, 20, 30, 45, nbig] if not quick else [1, 2, 3, 5, 8, 12, 20, 30, 45, 60])
    kind = rng.choice(['lattice', 'lattice', 'grid', 'cluster', 'collinear', 'dyadic'])
    pts = gen_points(rng, kind, ndim, n)
    n = len(pts)
    # target: on a sample (cross-validation), on the lattice, or off by a dyadic fraction
    r = rng.random()
    if r < .35: tg = pts[rng.randrange(n)]
    elif r < .6: tg = tuple(Fraction(rng.randint(-4, 4)) for _ in range(ndim))
    else: tg = tuple(Fraction(rng.randint(-4, 4)) + rng.choice([Fraction(1, 4), Fraction(1, 2), Fraction(-3, 8)]) for _ in range(ndim))
    aniso = rng.random() < .45 or ndim == 1
    coeffs = []; angles = []
    if aniso:
        coeffs = [rng.choice([1, 1, 2, Fraction(1, 2), 3, Fraction(3, 2), Fraction(3, 4), 4]) for _ in range(ndim)]
        if ndim >= 2 and rng.random() < .5:
            angles = [rng.choice([30, 45, 90, Fraction(45, 2), -60, 0, 180, 10])] + ([rng.choice([0, 0, 20, 90])] * (ndim - 1) if ndim == 3 else [])
            if ndim == 2 and rng.random() < .5: angles = angles[:1]
    radius = rng.choice([None, 2, 3, 5, Fraction(15, 2), 10, Fraction(5, 2), 1])
    xv = rng.random() < .4; kf = xv and rng.random() < .4
    hc = kf or rng.random() < .3
    nvar = rng.choice([0, 1, 1, 2])
    pmask = rng.choice([0, 0, .1, .3]); pna = rng.choice([0, 0, .2, .5])
    checkers = []
    if rng.random() < .2: checkers.append([1, ndim - 1, dy(rng.choice([1, 2, Fraction(1, 2), 0]))])   # BiTargetCheckBench::isValid forces idim = ndim-1
    if hc and rng.random() < .4: checkers.append([2, rng.choice([1, 2]), dy(rng.choice([0, 1]))])
    if ball and feature is not None:
        # one feature at a time so that a divergence is attributed to its cause
        if feature != 'aniso': coeffs, angles = ([1] if ndim == 1 else []), []
        if feature != 'xvalid': xv = kf = False
        if feature != 'mask': pmask = 0
        if feature != 'undefined': pna = 0
        if feature != 'checkers': checkers = []
        if feature == 'aniso' and not coeffs: coeffs = [2] + [1] * (ndim - 1)
        if feature == 'xvalid': xv, kf = True, False; tg = pts[rng.randrange(n)]
        if feature == 'mask': pmask = .3
        if feature == 'undefined': pna, nvar = .4, max(nvar, 1)
        # without coefficients the radius is "horizontal" (2-D) in 3-D while the tree uses the 3-D metric: a feature of its own
        if feature == 'horizontal3d': coeffs, angles = [], []
        elif ndim == 3 and not coeffs: coeffs = [1, 1, 1]
    samples = []
    nfex = rng.choice([0, 0, 0, 1, 2])
    pnax = rng.choice([0, 0, 0, .1, .25]) if (not ball or feature in (None, 'undefined')) else 0   # undefined coordinate / external drift
    for q in pts:
        sel = rng.random() >= pmask
        vs = [([] if rng.random() < pna else dy(1)) for _ in range(nvar)]
        code = dy(rng.randint(0, 2)) if hc and rng.random() < .9 else []
        cs = [([] if rng.random() < pnax / 2 else dy(v)) for v in q]
        fx = [([] if rng.random() < pnax else dy(rng.randint(0, 3))) for _ in range(nfex)]
        samples.append([sel, cs, vs, code, fx])
    tcode = dy(rng.randint(0, 2)) if rng.random() < .9 else []
    nsect = 1
    if ndim >= 1:
        nsect = rng.choice([1, 1, 2, 4, 4, 8, 8, 3, 5, 6, 12]) if not (ball and feature not in (None, 'sectors')) else 1
        if ball and feature == 'sectors': nsect = rng.choice([2, 4, 8])
    case = [0, [ndim, 0, 0, nsect, ITEST], dy(radius), [dy(c) for c in coeffs], [dy(a) for a in angles],
            [xv, kf, hc, ball, rng.choice([1, 2, 3, 5, 10, 40]) if ball else 10], checkers, samples, [[dy(v) for v in tg], tcode], []]
    cands = replica(case)
    nsel = len(cands)
    cnt = [sum(1 for c in cands if c[2] == s) for s in range(nsect)]
    nsmax = rng.choice([ITEST, ITEST, 0, 1, 2, 3, max(cnt + [1]), max(1, max(cnt + [1]) - 1)]) if nsect > 1 else rng.choice([ITEST, 2])
    tot = sum(min(c, nsmax) for c in cnt) if (nsmax > 0 and nsect > 1 and ndim > 1) else nsel
    nmini = rng.choice([0, 1, 1, 2, nsel - 1, nsel, nsel + 1, n, n + 1, tot, tot + 1])
    nmaxi = rng.choice([1, 2, 3, tot - 1, tot, tot + 1, nsect, 2 * nsect, nsect + 1, max(cnt + [0]), 1000, 0, rng.randint(1, max(2, nsel))])
    if ball: nmaxi = max(1, nmaxi)
    if ball and feature is not None and feature != 'nmaxi>n': nmaxi = min(nmaxi, n)
    if ball and feature == 'nmaxi>n': nmaxi = n + rng.randint(1, 3)
    if ball and feature is not None: nmini = (nmaxi + rng.randint(1, 2)) if feature == 'nmini>nmaxi' else min(nmini, nmaxi)
    case[1] = [ndim, max(0, nmini), nmaxi, nsect, nsmax]
    inexact = (any(undy(a) != 0 for a in case[4]) and bool(coeffs)) or any(not is_pow2(c) for c in coeffs)
    meta = {'kind': kind, 'ndim': ndim, 'n': n, 'nsel': nsel, 'tot': tot, 'inexact': inexact, 'ball': ball, 'feature': feature,
            'aniso': bool(coeffs) and any(c != 1 for c in coeffs), 'rot': any(undy(a) != 0 for a in case[4]) and bool(coeffs)}
    return case, meta

# ----------------------------------------------------------------------------- verdicts for the moving part
def moving_ties(case, meta, mi):
    gap, radm, radeq, nbound, xvm = mi[3]
    n = len(case[7])
    if gap != [] and float(unq(gap)) <= 4 * (n + 2) * EPS9 + 1e-9: return 'near-tie in distance'
    if radm != [] and float(unq(radm)) <= 1e-9: return 'sample on the radius (rounding)'
    if meta['inexact'] and radeq: return 'sample exactly on the radius, inexact transform'
    if meta['inexact'] and nbound: return 'sample on a sector boundary, inexact transform'
    if xvm: return 'sample within eps of the target'
    return None

def sector_truth(case, rotmat):
    """high-precision sector of every sample for a general nsect, with a margin; None when too close to a boundary"""
    ndim, nmini, nmaxi, nsect, nsmax = case[1]
    coeffs = [undy(x) for x in case[3]]; nd = len(coeffs) if coeffs else 2
    rot = [undy(x) for x in rotmat] if rotmat else []
    rotflag = bool(coeffs) and any(undy(a) != 0 for a in case[4])
    t = [undy(x) for x in case[8][0]]
    out = []
    for s in case[7]:
        if any(v == [] for v in s[1]): out.append(None); continue
        x = [undy(v) for v in s[1]]
        inc = [(t[d] - x[d]) if d < ndim else Fraction(0) for d in range(nd)]
        if coeffs:
            if rotflag: inc = [sum(inc[i2] * rot[i3 * nd + i2] for i2 in range(nd)) for i3 in range(nd)]
            inc = [inc[d] / coeffs[d] for d in range(nd)]
        dx, dyy = float(inc[0]), float(inc[1])
        if dx == 0 and dyy == 0: th = math.pi / 2
        else: th = math.atan2(dyy, dx) % (2 * math.pi)
        v = nsect * th / (2 * math.pi)
        if abs(v - round(v)) < 1e-7: out.append(None)
        else: out.append(int(v))
    return out

def ball_key(case, meta, impl_ranks, spec):
    ndim, nmini, nmaxi, nsect, nsmax = case[1]
    n = len(case[7])
    if nmaxi > n: return 'ballsearch:nmaxi-exceeds-samples'
    if any(not case[7][i][0] for i in impl_ranks): return 'ballsearch:masked-sample'
    if nmini > nmaxi: return 'ballsearch:nmini-above-nmaxi'
    if meta['aniso'] or meta['rot']: return 'ballsearch:anisotropy'
    if case[5][0]: return 'ballsearch:xvalid'
    if any((not s[0]) for s in case[7]): return 'ballsearch:masked-sample'
    if any((s[2] and all(v == [] for v in s[2])) or any(v == [] for v in s[1]) or any(v == [] for v in s[4]) for s in case[7]) or case[6]: return 'ballsearch:filtered-candidates'
    if ndim == 3 and not case[3]: return 'ballsearch:horizontal-radius-3d'
    if nsect > 1 and ndim > 1: return 'ballsearch:sectors'
    return 'ballsearch:unexplained'

def run(ctx):
    quick = ctx.quick()
    build_lib(ctx)
    proofs_ok = coq_properties(ctx)
    runner = build_runner(ctx)
    exe = build_harness(ctx, 'C06')
    if runner is None or exe is None:
        print('ERROR: model runner or harness does not build'); sys.exit(3)
    rng = ctx.rng
    found_input = False
    ndis = 0

    # ------------------------------------------------------------------ part A / C : _moving
    cases = []; metas = []
    for c in load_corpus(ctx):
        if c[0] == 0:
            cases.append(c); ball = bool(c[5][3])
            coe = [undy(x) for x in c[3]]
            metas.append({'kind': 'corpus', 'ndim': c[1][0], 'n': len(c[7]), 'nsel': -1, 'tot': -1, 'ball': ball, 'feature': None,
                          'inexact': (any(undy(a) != 0 for a in c[4]) and bool(coe)) or any(not is_pow2(x) for x in coe),
                          'aniso': bool(coe) and any(x != 1 for x in coe), 'rot': any(undy(a) != 0 for a in c[4]) and bool(coe)})
    nmov = 400 if quick else 10000
    for i in range(nmov):
        c, m = gen_moving(rng, quick); cases.append(c); metas.append(m)
    nball = 160 if quick else 3000
    feats = ['plain', 'plain', 'aniso', 'xvalid', 'mask', 'undefined', 'sectors', 'nmaxi>n', 'checkers', 'nmini>nmaxi', 'horizontal3d', None]
    for i in range(nball):
        c, m = gen_moving(rng, quick, ball=True, feature=feats[i % len(feats)]); cases.append(c); metas.append(m)
    summary_obs = {}; summary_ex = {}
    cf = write_cases(ctx, 'mov', cases)
    rc_i, impl = run_impl(ctx, exe, cf)
    # second pass: the model receives the harvested rotation matrix / sectors / eligible list
    mcases = []
    for i, c in enumerate(cases):
        ii = impl[i] if i < len(impl) else None
        hv = [[], [], []]
        if ii and ii[0] != -997 and len(ii) == 6:
            nsect = c[1][3]
            hv = [ii[1] if c[3] else [], ii[2] if nsect not in (1, 2, 4, 8) else [], ii[3]]
        mcases.append(c[:9] + [hv])
    mf = write_cases(ctx, 'movm', mcases)
    rc_m, model = run_model(ctx, runner, mf)
    if len(model) != len(cases):
        print('ERROR: model runner returned %d results for %d cases' % (len(model), len(cases))); sys.exit(3)
    for i, c in enumerate(cases):
        mi = model[i]; ii = impl[i] if i < len(impl) else None; meta = metas[i]
        if mi and mi[0] == -999:
            print('ERROR: model rejected case', i, sx_str(c)[:200]); sys.exit(3)
        ndim, nmini, nmaxi, nsect, nsmax = c[1]
        site = 'ball' if meta['ball'] else 'moving'
        ctx.dist('%s_%s' % (site, meta['kind'])); ctx.dist('ndim_%d' % ndim); ctx.dist('nsect_%d' % nsect)
        if meta['nsel'] >= 0:
            if nmini == meta['nsel']: ctx.dist('boundary_nsel=nmini')
            if nmaxi == meta['tot']: ctx.dist('boundary_total=nmaxi')
        if ii is None or (ii and ii[0] == -997) or len(ii) != 6:
            ndis += 1; found_input = True
            ctx.violation('crash:' + site, 'impl produced no answer (crash / exception) on case %d' % i, {'case': sx_str(c)})
            continue
        tie = moving_ties(c, meta, mi)
        if tie:
            ctx.cov['tie_excluded'] += 1; ctx.count(None, False); continue
        m_code, m_ranks, spec, marg, info, sums = mi
        i_ranks = ii[0]
        ctx.count(sx_str(c), nontrivial=(len(spec) > 0 or info[0] > 0))
        ctx.sample({'case': sx_str(c)[:300], 'impl': i_ranks, 'model': m_ranks, 'spec': spec})
        # the general-nsect oracle must be the angular rule wherever the decision is not a rounding matter
        if nsect not in (1, 2, 4, 8) and ndim > 1 and ii[2]:
            truth = sector_truth(c, ii[1] if c[3] else [])
            for k, (a, b) in enumerate(zip(ii[2], truth)):
                if b is not None and a != b:
                    ndis += 1; found_input = True
                    ctx.violation('moving:sector-rule', '_movingSectorDefine gives sector %d, angular definition gives %d (nsect=%d) for sample %d' % (a, b, nsect, k),
                                  {'case': sx_str(c), 'sample': k}); break
        if not meta['ball']:
            if i_ranks != spec:
                ndis += 1; found_input = True
                what = moving_site(c, i_ranks, spec, info)
                small, s_impl, s_spec = shrink_moving(ctx, exe, runner, c, meta, i_ranks, spec)
                what = moving_site(small, s_impl, s_spec, info)
                ctx.violation('moving:' + what, 'NeighMoving::select returns %s, the definition gives %s' % (s_impl, s_spec),
                              {'case': sx_str(small), 'impl': s_impl, 'spec': s_spec, 'original_case': sx_str(c)})
            elif i_ranks != m_ranks:
                ndis += 1
                ctx.violation('model-drift:_moving', 'model and impl disagree but impl agrees with the spec on every explored input: correspondence C06/_moving no longer checks',
                              {'case': sx_str(c), 'impl': i_ranks, 'model': m_ranks, 'correspondence': 'coq/C06/Model.v vs NeighMoving::_moving'}, found_input=False)
        else:
            if i_ranks != m_ranks:
                ndis += 1
                ctx.violation('model-drift:_moving-ball', 'model of _moving with the ball-tree shortcut (premise + scan of the eligible list, else standard loop) and impl disagree',
                              {'case': sx_str(c), 'impl': i_ranks, 'model': m_ranks, 'eligibles': ii[3]}, found_input=False)
            d2s = [unq(x) for x in info[2]]
            if i_ranks != spec and all(0 <= j < len(d2s) for j in i_ranks) and sorted(d2s[j] for j in i_ranks) == sorted(d2s[j] for j in spec):
                # same distances, different samples: an exact tie resolved in the order of the tree traversal ("ties excluded")
                ctx.cov['tie_excluded'] += 1
            elif i_ranks != spec:
                ndis += 1; found_input = True
                key = ball_key(c, meta, i_ranks, spec)
                if any(v[0] == key for v in ctx.violations) or any(k == key for k, _ in ctx.known): small, s_impl, s_spec = c, i_ranks, spec
                else: small, s_impl, s_spec = shrink_moving(ctx, exe, runner, c, meta, i_ranks, spec, keyf=lambda cc, im_, sp_: ball_key(cc, meta, im_, sp_) == key)
                ctx.violation(key, 'ball-tree search: NeighMoving::select returns %s, the definition gives %s' % (s_impl, s_spec),
                              {'case': sx_str(small), 'impl': s_impl, 'spec': s_spec})
        # NeighMoving::summary: model of the code vs impl (decisions exact, distances within the tie-break perturbation)
        if i_ranks == m_ranks:
            sm, sp, taken = sums
            if meta['ball']: ctx.dist('ball_shortcut_taken' if taken else 'ball_fallback')
            n_s = len(c[7]); M = math.sqrt(float(unq(info[4])))
            tol = (n_s + 2) * EPS9 * M + 1e-9 * (1 + M)
            def rt(x): return None if x == [] else math.sqrt(float(unq(x)))
            def dv(x): return None if x == [] else float(undy(x))
            isum = ii[5]
            bad = None
            if len(isum) != 5: bad = 'shape'
            elif dv(isum[0]) != sm[0]: bad = 'Number'
            elif (dv(isum[1]) is None) != (rt(sm[1]) is None) or (rt(sm[1]) is not None and abs(dv(isum[1]) - rt(sm[1])) > tol): bad = 'MaxDist'
            elif (dv(isum[2]) is None) != (rt(sm[2]) is None) or (rt(sm[2]) is not None and abs(dv(isum[2]) - rt(sm[2])) > tol): bad = 'MinDist'
            elif dv(isum[3]) != sm[3]: bad = 'NbNESect'
            elif dv(isum[4]) != sm[4]: bad = 'NbCESect'
            # property-level verdict on the unambiguous part: with a single sector the columns Number / MaxDist / MinDist
            # describe the samples returned
            if not meta['ball'] and (nsect == 1 or ndim == 1) and len(isum) == 5:
                for col, k_ in (('Number', 0), ('MaxDist', 1), ('MinDist', 2)):
                    want = sp[0] if k_ == 0 else rt(sp[k_]); got = dv(isum[k_])
                    okc = (got == want) if (k_ == 0 or want is None or got is None) else abs(got - want) <= tol
                    if not okc:
                        ndis += 1; found_input = True
                        ctx.violation('summary:' + col, 'NeighMoving::summary (single sector): %s = %s, the samples returned give %s' % (col, got, want), {'case': sx_str(c), 'impl': [dv(x) for x in isum]})
                        break
            if bad:
                ndis += 1
                ctx.violation('model-drift:summary', 'NeighMoving::summary: column %s differs from the model of the code (impl %s, model %s)' % (bad, [dv(x) for x in isum], [sm[0], rt(sm[1]), rt(sm[2]), sm[3], sm[4]]),
                              {'case': sx_str(c), 'correspondence': 'coq/C06/Model.v moving_summary vs NeighMoving::summary'}, found_input=False)
            # what the columns are documented to mean (computed on the samples actually kept): counted, not a verdict
            if not meta['ball']:
                for nm, a, b in (('MaxDist', sm[1], sp[1]), ('MinDist', sm[2], sp[2]), ('NbNESect', sm[3], sp[3]), ('NbCESect', sm[4], sp[4])):
                    if a != b:
                        summary_obs[nm] = summary_obs.get(nm, 0) + 1
                        if nm not in summary_ex: summary_ex[nm] = {'case': sx_str(c)[:400], 'code_value': a, 'kept_samples_value': b}
    if summary_obs:
        ctx.notes.append('NeighMoving::summary vs the samples actually kept (observation, not part of the verdict): columns differing in %s cases; first examples %s' % (summary_obs, summary_ex))
    # ------------------------------------------------------------------ part B : ball-tree KNN
    kcorpus = [c for c in load_corpus(ctx) if c[0] == 1]
    kgen = []
    ntree = 72 if quick else 1000
    for i in range(ntree):
        nf = rng.choice([1, 2, 2, 3, 3, 4])
        n = rng.choice([1, 2, 3, 5, 8, 13, 21, 34, 60] if quick else [1, 2, 3, 5, 8, 13, 21, 34, 60, 100, 200, 400])
        kind = rng.choice(['lattice', 'grid', 'cluster', 'collinear', 'dyadic'])
        pts = gen_points(rng, kind, nf, n); n = len(pts)
        leaf = rng.choice([1, 1, 2, 3, 5, 10, 40, max(1, n), max(1, n // 2)])
        metric = 2 if rng.random() < .6 else 1
        ctor = rng.choice([0, 1, 2, 3])
        # default space: set to the data dimension / left at (or put back to) the library default 2 / never defined
        spacemode = 2 if i < ntree // 6 else rng.choice([0, 1, 1])
        qs = []
        for _ in range(5):
            r = rng.random()
            if r < .3: q = pts[rng.randrange(n)]
            elif r < .6: q = tuple(Fraction(rng.randint(-6, 6)) for _ in range(nf))
            else: q = tuple(Fraction(rng.randint(-48, 48), 8) for _ in range(nf))
            k = rng.choice([1, 1, 2, 3, 5, 7, 8, 12, n, max(1, n - 1), rng.randint(1, n), n + 1 if rng.random() < .15 else 1])
            qs.append([[dy(v) for v in q], k])
        kgen.append([1, metric, leaf, [[dy(v) for v in q] for q in pts], qs, [ctor, spacemode]])
        ctx.dist('knn_' + kind); ctx.dist('knn_metric_%d' % metric); ctx.dist('knn_leaf_%s' % ('1' if leaf == 1 else 'n' if leaf >= n else 'mid'))
        ctx.dist('knn_ndim_%d' % nf); ctx.dist('knn_ctor_%d' % ctor); ctx.dist('knn_space_%s' % ['=ndim', 'default2', 'never-defined'][spacemode])
    # the cases that must see a process in which defineDefaultSpace was never called come first
    kcases = [c for c in kgen if c[5][1] == 2] + [c for c in kcorpus if len(c) > 5 and c[5][1] == 2] + \
             [c for c in kcorpus if not (len(c) > 5 and c[5][1] == 2)] + [c for c in kgen if c[5][1] != 2]
    kf_ = write_cases(ctx, 'knn', kcases)
    rc_i, kimpl = run_impl(ctx, exe, kf_)
    rc_m, kmodel = run_model(ctx, runner, kf_)
    if len(kmodel) != len(kcases):
        print('ERROR: model runner returned %d results for %d KNN cases' % (len(kmodel), len(kcases))); sys.exit(3)
    for i, c in enumerate(kcases):
        mi = kmodel[i]; ii = kimpl[i] if i < len(kimpl) else None
        if mi and mi[0] == -999:
            print('ERROR: model rejected KNN case', i); sys.exit(3)
        metric, leaf = c[1], c[2]; n = len(c[3])
        pts = [[undy(v) for v in q] for q in c[3]]
        if ii is None or (ii and ii[0] == -997) or len(ii) != len(c[4]):
            ndis += 1; found_input = True
            ctx.violation('crash:knn', 'impl produced no answer (crash / exception) on KNN case %d' % i, {'case': sx_str(c)})
            continue
        for qi, (qq, k) in enumerate(c[4]):
            q = [undy(v) for v in qq]
            m_part, s_d, s_i, tie = mi[qi]
            i_d, i_idx, i_closest, i_var = ii[qi]
            one = [1, metric, leaf, c[3], [[qq, k]]] + ([c[5]] if len(c) > 5 else [])
            ctx.count(sx_str(one), nontrivial=(n > 1))
            ctx.sample({'case': sx_str(one)[:300], 'impl': [i_d, i_idx], 'spec': [s_d, s_i]}, maxn=6)
            if k > n:
                ctx.dist('knn_k>n')
                if i_idx != [] or (m_part and m_part != [-1]):
                    ndis += 1; found_input = True
                    ctx.violation('knn:k-exceeds-n', 'query with k=%d > n=%d returns indices %s (expected a refusal)' % (k, n, i_idx), {'case': sx_str(one)})
                continue
            dtrue = (lambda a: sum(abs(x - y) for x, y in zip(q, a))) if metric == 2 else (lambda a: sum((x - y) ** 2 for x, y in zip(q, a)))
            sd = [unq(x) for x in s_d]
            problem = None
            if len(i_idx) != k or len(i_d) != k: problem = ('knn:wrong-count', 'returns %d neighbours for k=%d' % (len(i_idx), k))
            elif any(j < 0 or j >= n for j in i_idx): problem = ('knn:index-out-of-range', 'returns index outside the data set: %s' % i_idx)
            elif len(set(i_idx)) != k: problem = ('knn:duplicate-index', 'returns a sample twice: %s' % i_idx)
            else:
                idd = [undy(x) for x in i_d]
                tr = [dtrue(pts[j]) for j in i_idx]
                if metric == 2: bad_d = any(a != b for a, b in zip(idd, tr))
                else: bad_d = any(a is None or not close_enough(float(a), math.sqrt(float(b)), 1e-12) for a, b in zip(idd, tr))
                if bad_d: problem = ('knn:distance-mismatch', 'reported distances %s are not the distances of the reported indices %s' % ([float(x) if x is not None else None for x in idd], i_idx))
                elif sorted(tr) != sd: problem = ('knn:wrong-neighbours', 'returned neighbours %s (distances %s) are not the %d nearest (distances %s)' % (i_idx, [str(x) for x in tr], k, [str(x) for x in sd]))
                elif tr != sorted(tr): problem = ('knn:result-not-sorted', 'neighbours are not in increasing distance order: %s' % [str(x) for x in tr])
                elif k == 1 and i_closest != i_idx[0] and dtrue(pts[i_closest]) != tr[0]: problem = ('knn:queryClosest', 'queryClosest returns %d, queryOneAsVD %d' % (i_closest, i_idx[0]))
            if problem is None and len(i_idx) == k:
                for vname, vv in zip(('queryOne', 'queryAsVVD', 'queryOneInPlace', 'getIndices(SpacePoint)'), i_var):
                    if vv == [-2]: continue      # SpacePoint of another dimension than the default space: not applicable
                    if vv != i_idx and not (tie or len(set(str(x) for x in s_d)) < len(s_d)):
                        problem = ('knn:variant:' + vname, '%s returns %s, queryOneAsVD %s' % (vname, vv, i_idx)); break
                    if sorted(vv) != sorted(i_idx) and not tie:
                        problem = ('knn:variant:' + vname, '%s returns %s, queryOneAsVD %s' % (vname, vv, i_idx)); break
            if problem:
                ndis += 1; found_input = True
                key, text = problem
                small = shrink_knn(ctx, exe, runner, one, key) if not (any(v[0] == key for v in ctx.violations) or any(kk == key for kk, _ in ctx.known)) else one
                ctx.violation(key, 'Ball::queryOneAsVD (metric %d, leaf_size %d, k=%d, n=%d, ndim=%d, constructor %s, default space %s): %s' % (metric, leaf, k, n, len(c[3][0]) if c[3] else 0, (c[5][0] if len(c) > 5 else 0), (['=ndim', '2', 'never defined'][c[5][1]] if len(c) > 5 else '=ndim'), text), {'case': sx_str(small)})
            if m_part != [] and m_part != [-1]:
                # exact replay of tree walk + heap + sort (Manhattan: distances exact; Euclidean: the model carries squared
                # distances and decides the square-root comparisons on squares)
                m_d, m_i = m_part if len(m_part) == 2 else ([], [])
                md = [unq(x) for x in m_d]; idv = [undy(x) for x in i_d]
                if metric == 2: same_d = md == idv
                else: same_d = len(md) == len(idv) and all(a is not None and b is not None and close_enough(float(b), math.sqrt(float(a)), 1e-12) for a, b in zip(md, idv))
                if not same_d or m_i != i_idx:
                    # equal distances may legitimately be permuted only by the pruning / child-order decisions taken on
                    # rounded centroids and roots; everything else is drift
                    if tie or len(set(str(x) for x in s_d)) < len(s_d):
                        if sorted(m_i) == sorted(i_idx) or tie:
                            ctx.cov['tie_excluded'] += 1; continue
                    ndis += 1
                    ctx.violation('model-drift:knn' + ('' if metric == 2 else '-euclid'), 'model of the ball-tree query and impl disagree (impl %s %s, model %s %s)' % ([str(x) for x in idv], i_idx, [str(x) for x in md], m_i),
                                  {'case': sx_str(one), 'correspondence': 'coq/C06/Knn.v, KnnE.v vs ball_algorithm.cpp / neighbors_heap.cpp'}, found_input=problem is not None)
    ctx.cov['disagreements'] = ndis
    ctx.cov['rule'] = ('cases = (data set, neighbourhood parameters, target) for NeighMoving::select (standard and ball-tree path); '
                       'integer / dyadic coordinates in 1-3 D (lattice, grid, cluster, collinear); parameters aimed at nsel=nmini, total=nmaxi, full sectors; '
                       'distinct = distinct case text; non-trivial = at least one candidate; near-ties (decided exactly by the model) are counted under tie_excluded')
    if not proofs_ok: proof_break_violation(ctx, found_input)
    ctx.assumptions = ['coordinates are small dyadic rationals; squared distances are compared exactly, sqrt is monotone',
                       'rotation matrices are harvested from the implementation and given to the model as exact dyadics',
                       'for nsect outside {1,2,4,8} the sector index is harvested from _movingSectorDefine (oracle); it is cross-checked against the angular definition away from sector boundaries',
                       'samples may carry undefined coordinates and undefined external drifts (ANeigh::_discardUndefined as of fix C05_4); the target is always defined',
                       'nsect >= 1; anisotropy coefficients non-zero; in 1-D a coefficient vector is always given (without it BiTargetCheckDistance assumes 2-D and reads a second coordinate)',
                       'extra pair checkers exercised: BiTargetCheckBench (always on the last dimension: isValid() overrides the constructor argument) and BiTargetCheckCode',
                       'ties: a case is excluded when two candidate distances differ by less than the perturbation distmax*n*1e-9 allows, when a sample sits on the radius or on a sector boundary after an inexact transform, or (ball path / KNN) when equidistant samples straddle the cut',
                       'KNN: Manhattan instance replayed exactly by the model (integer/dyadic coordinates make binary64 sums exact); Euclidean instance replayed by the model on squared distances (square-root comparisons decided exactly on squares, Proofs_sqrt.v), reported distances within 1e-12 of the square root; both also compared with exhaustive search',
                       'the ball tree is built through the (data**, n, nfeatures) constructor']
    ctx.cov['trusted_base'] += ['checks/C06.py: tie filters, high-precision angular sector check (math.atan2), exhaustive-search comparison of KNN results',
                                'harness/C06.cpp harvests rotation matrix / general-nsect sector / eligible list of the ball path from the implementation itself']
    ctx.notes += ['_moving: the test "nsel < nmini" after _movingSectorNsmax is dead code (nsel is passed by value and never recounted): C06_nmini proves that exit code unreachable; the neighbourhood is therefore NOT refused when the sector quota leaves fewer than nmini samples',
                  'C06_knn (k nearest, true distances, increasing order) is proved for the repaired simultaneous_sort (pivot_idx + 2 < size); the former witness of knn:result-not-sorted is kept in corpus/C06.sx and as Example C06_knn_sort_regression',
                  'ball-tree shortcut of _moving: modelled as committed in 4a434731b (premise + scan of the samples returned, else standard loop); C06_ball_shortcut proves that whenever it is taken the ranks are those of the standard search; the eight former ballsearch:* witnesses are regression cases of corpus/C06.sx and fire again under their old keys if the guard is removed']

def moving_site(c, impl, spec, info):
    ndim, nmini, nmaxi, nsect, nsmax = c[1]
    if (len(impl) == 0) != (len(spec) == 0): return 'nmini-exit'
    if len(impl) != len(spec):
        return 'count:' + ('sectors' if nsect > 1 and ndim > 1 else 'single-sector')
    if set(impl) - set(range(len(c[7]))): return 'rank-out-of-range'
    return 'selection:' + ('sectors' if nsect > 1 and ndim > 1 else 'single-sector') + (':xvalid' if c[5][0] else '') + (':aniso' if c[3] else '')

def load_corpus(ctx):
    p = os.path.join(VERIF, 'corpus', ctx.pid + '.sx')
    if not os.path.exists(p): return []
    return [sx_parse(l) for l in open(p) if l.strip() and not l.startswith('#')]

def eval_moving(ctx, exe, runner, cands):
    """impl ranks and spec ranks (None when tie-excluded / crash) for a list of moving cases"""
    cf = write_cases(ctx, 'shr', cands)
    _, im = run_impl(ctx, exe, cf)
    mc = []
    for k, c in enumerate(cands):
        ii = im[k] if k < len(im) else None
        hv = [[], [], []]
        if ii and ii[0] != -997 and len(ii) == 6:
            hv = [ii[1] if c[3] else [], ii[2] if c[1][3] not in (1, 2, 4, 8) else [], ii[3]]
        mc.append(c[:9] + [hv])
    mf = write_cases(ctx, 'shrm', mc)
    _, mo = run_model(ctx, runner, mf)
    return im, mo

def shrink_moving(ctx, exe, runner, c, meta, impl0, spec0, keyf=None):
    """drop samples while impl and spec still differ (and no tie appears)"""
    cur = (c, impl0, spec0)
    def pick(cands):
        im, mo = eval_moving(ctx, exe, runner, cands)
        for k in range(len(cands)):
            if k < len(im) and k < len(mo) and im[k] and len(im[k]) == 6 and len(mo[k]) == 6:
                if moving_ties(cands[k], meta, mo[k]) is None and im[k][0] != mo[k][2]:
                    dd = [unq(x) for x in mo[k][4][2]]
                    if meta['ball'] and all(0 <= j < len(dd) for j in im[k][0]) and sorted(dd[j] for j in im[k][0]) == sorted(dd[j] for j in mo[k][2]): continue
                    if keyf is None or keyf(cands[k], im[k][0], mo[k][2]): return (cands[k], im[k][0], mo[k][2])
        return None
    for _ in range(40):
        n = len(cur[0][7])
        if n <= 1: break
        nxt = None
        for step in sorted(set([max(1, n // 2), max(1, n // 4), max(1, n // 8), 1]), reverse=True):
            cc = cur[0]
            cands = [cc[:7] + [cc[7][:k] + cc[7][k + step:]] + cc[8:] for k in range(0, n, step) if len(cc[7]) - len(cc[7][k:k + step]) >= 1]
            nxt = pick(cands)
            if nxt: break
        if nxt is None: break
        cur = nxt
    return cur

def knn_problem_key(ctx, exe, runner, one):
    cf = write_cases(ctx, 'kshr', [one])
    _, im = run_impl(ctx, exe, cf); _, mo = run_model(ctx, runner, cf)
    if not im or not mo or im[0][0] == -997: return None
    metric = one[1]; pts = [[undy(v) for v in q] for q in one[3]]; n = len(pts)
    qq, k = one[4][0]; q = [undy(v) for v in qq]
    if k > n: return None
    i_d, i_idx = im[0][0][0], im[0][0][1]; _, s_d, s_i, tie = mo[0][0]
    dtrue = (lambda a: sum(abs(x - y) for x, y in zip(q, a))) if metric == 2 else (lambda a: sum((x - y) ** 2 for x, y in zip(q, a)))
    if len(i_idx) != k or any(j < 0 or j >= n for j in i_idx) or len(set(i_idx)) != k: return 'knn:structure'
    tr = [dtrue(pts[j]) for j in i_idx]
    if sorted(tr) != [unq(x) for x in s_d]: return 'knn:wrong-neighbours'
    if tr != sorted(tr): return 'knn:result-not-sorted'
    return None

def shrink_knn(ctx, exe, runner, one, key):
    cur = one
    for _ in range(40):
        n = len(cur[3]); k = cur[4][0][1]
        nxt = None
        for step in sorted(set([max(1, n // 2), max(1, n // 4), 1]), reverse=True):
            for a in range(0, n, step):
                pts = cur[3][:a] + cur[3][a + step:]
                if len(pts) < 1: continue
                for kk in ([k] if k <= len(pts) else []) + ([len(pts)] if k > len(pts) else []):
                    cand = [1, cur[1], cur[2], pts, [[cur[4][0][0], kk]]] + cur[5:]
                    if knn_problem_key(ctx, exe, runner, cand) == key: nxt = cand; break
                if nxt: break
            if nxt: break
        if nxt is None and k > 1:
            cand = [1, cur[1], cur[2], cur[3], [[cur[4][0][0], k - 1]]] + cur[5:]
            if knn_problem_key(ctx, exe, runner, cand) == key: nxt = cand
        if nxt is None: break
        cur = nxt
    return cur

if __name__ == '__main__':
    main(run)

"""C04 — accelerated code paths give the same answers as the plain ones.
Seven (fast, reference) pairs.  For each pair BOTH implementation paths are run on the same generated case by
harness/C04.cpp and compared (the comparison is the property itself on impl: a difference beyond round-off is a
VIOLATION whose replay is the case; key = pair + option combination).  In addition
  pair 1 is tied to the Coq model of coq/C04/Model.v (layout of the matrices = active-rank lists, pre-projected points,
         squared distances of both paths) through the extracted runner,
  pair 7 (and the kriging pairs) are tied to the exact kriging model of C01 through its runner.
Theorems: coq/C04/Properties.v."""
import sys, os, copy, math
sys.path.insert(0, os.path.dirname(__file__))
from common import *
from kriggen import *
import C01 as c01

TOL = 1e-9
F = Fraction

def fl(x): return None if x is None else float(x)
def mat_d(M): return [[undy(x) for x in r] for r in M]
def full_d(F3):
    """(nr nc rows) -> (nr, nc, rows of Fractions)"""
    return F3[0], F3[1], mat_d(F3[2])

# ============================================================================================== pair 1: covariance matrices
def ranks_active_py(db, nbgh, item, use_sel=True, use_verr=False):
    """python mirror of Db::getRanksActive, only used to describe a case in messages (the reference layout is the Coq model's)"""
    n = db['n']; init = list(range(n)) if not nbgh else list(nbgh)
    if not db['z']: item = -1
    usev = use_verr and item >= 0 and bool(db['verr'])
    out = []
    for i in init:
        if use_sel and db['sel'] and not db['sel'][i]: continue
        if item >= 0 and db['z'][item][i] is None: continue
        if usev and (db['verr'][item][i] is None or db['verr'][item][i] < 0): continue
        out.append(i)
    return out

def gen_covmat(ctx, k):
    rng = ctx.rng
    ndim = rng.choice([1, 2, 2, 3]); nvar = rng.choice([1, 2, 2, 3])
    n1 = rng.randint(2, 9 if ctx.quick() else 14)
    hetero = rng.random() < .5
    db1 = gen_db(rng, ndim, nvar, n1, 0, p_na=.25 if hetero else 0., with_verr=rng.random() < .3, with_sel=rng.random() < .4)
    if db1['verr']:   # measurement-error variances: keep some undefined / negative ones (filtered by the symmetric variants)
        db1['verr'] = [[rng.choice([0, F(1, 4), F(1, 2), 1, 2, None, F(-1, 2)]) for _ in range(n1)] for _ in range(nvar)]
    same = rng.random() < .35
    if same: db2 = None
    else:
        n2 = rng.randint(1, 7)
        kind = rng.choice(['z', 'z', 'noz'])
        db2 = gen_db(rng, ndim, nvar if kind == 'z' else 0, n2, 0, p_na=.25 if rng.random() < .5 else 0., with_sel=rng.random() < .4)
        if kind == 'noz': db2['z'] = []
        db2['verr'] = []
        if rng.random() < .3:   # some targets on data points
            for j in range(n2):
                if rng.random() < .5:
                    i = rng.randrange(n1)
                    for d in range(ndim): db2['coords'][d][j] = db1['coords'][d][i]
    model = gen_model(rng, ndim, nvar, order=-1)
    model['means'] = []
    ivar0 = rng.choice([-1, -1] + list(range(nvar))); jvar0 = rng.choice([-1, -1] + list(range(nvar)))
    def sub(n):
        r = rng.random()
        if r < .55: return []
        l = [i for i in range(n) if rng.random() < .7] or [rng.randrange(n)]
        if r < .8: rng.shuffle(l)
        return l
    nbgh1 = sub(n1); nbgh2 = sub(n1 if same else db2['n'])
    py = {'mode': 1, 'ndim': ndim, 'nvar': nvar, 'db1': db1, 'db2': db2, 'model': model, 'ivar0': ivar0, 'jvar0': jvar0, 'nbgh1': nbgh1, 'nbgh2': nbgh2}
    sxc = [1, ndim, nvar, db_sx(db1), db_sx(db2) if db2 is not None else [], model_sx(model), ivar0, jvar0, nbgh1, nbgh2]
    for key in ('ndim%d' % ndim, 'nvar%d' % nvar, 'p1:' + ('db2=db1' if same else 'db2!=db1'), 'p1:' + ('hetero' if hetero else 'isotopic'),
                'p1:' + ('sel' if db1['sel'] else 'nosel'), 'p1:' + ('nbgh' if nbgh1 or nbgh2 else 'nonbgh'), 'p1:ivar%+d' % (0 if ivar0 >= 0 else -1)):
        ctx.dist(key)
    return py, sxc

def covmat_key(py):
    """option combination that selects the code path (coarse on purpose: one key per defect, not per random case)"""
    k = ['db2' if py['db2'] is not None else 'db1']
    if any(s[2] or s[3] for s in py['model']['structs']): k.append('aniso')
    if py['nbgh1'] or py['nbgh2']: k.append('nbgh')
    return '+'.join(k)

def layout_py(py, sym):
    """reference layout (row list, column list of (ivar, iech)) -- python mirror; the check uses the Coq model's when available"""
    nvar = py['nvar']; db1 = py['db1']; db2 = py['db2'] if py['db2'] is not None else py['db1']
    ivars = [py['ivar0']] if py['ivar0'] >= 0 else list(range(nvar))
    jvars = [py['jvar0']] if py['jvar0'] >= 0 else list(range(nvar))
    if sym:
        rows = [(v, i) for v in ivars for i in ranks_active_py(db1, py['nbgh1'], v, True, True)]
        return rows, rows
    rows = [(v, i) for v in ivars for i in ranks_active_py(db1, py['nbgh1'], v)]
    cols = [(v, i) for v in jvars for i in ranks_active_py(db2, py['nbgh2'], v)]
    return rows, cols

def compare_covmat(ctx, py, sxc, res, mo):
    """res: impl result; mo: model result (None while the runner is not available)"""
    plain = full_d(res[0]); optim = full_d(res[1]); splain = full_d(res[2]); soptim = full_d(res[3])
    o12 = res[6]; o11 = res[7]
    site = covmat_key(py)
    nvar = py['nvar']
    smax = max([abs(float(undy(x))) for s in py['model']['structs'] for x in s[4]] + [1e-30]) * len(py['model']['structs'])
    found = False
    def cell(orc, i, j, u, v): return undy(orc[i][j][u][v])
    for name, A, B, sym in (('evalCovMatrix', plain, optim, False), ('evalCovMatrixSymmetric', splain, soptim, True)):
        if mo is not None: rows, cols = ([tuple(x) for x in mo[1 if sym else 0][0]], [tuple(x) for x in mo[1 if sym else 0][1]])
        else: rows, cols = layout_py(py, sym)
        ctx.count('p1:%s:%s' % (name, sx_str(sxc)[:1500]), len(rows) > 0 and len(cols) > 0)
        # the pair itself
        if (A[0], A[1]) != (B[0], B[1]):
            ctx.violation('covmat:%s:shape:%s' % (name, site), '%s returns a %dx%d matrix, %sOptim a %dx%d one' % (name, A[0], A[1], name, B[0], B[1]), {'case': sx_str(sxc)}); found = True; continue
        bad = None
        for i in range(A[0]):
            for j in range(A[1]):
                a, b = A[2][i][j], B[2][i][j]
                if (a is None) != (b is None) or (a is not None and abs(float(a) - float(b)) > 1e-10 * (smax + abs(float(a)))):
                    bad = (i, j, fl(a), fl(b)); break
            if bad: break
        if bad:
            r = rows[bad[0]] if bad[0] < len(rows) else None; cc = cols[bad[1]] if bad[1] < len(cols) else None
            ctx.violation('covmat:%s:value:%s' % (name, site), '%s[%d][%d] = %r but %sOptim gives %r (row = (var,sample) %s, column %s)' % (name, bad[0], bad[1], bad[2], name, bad[3], r, cc),
                          {'case': sx_str(sxc), 'row': bad[0], 'col': bad[1]}); found = True; continue
        # both against the definition: layout from the model, values from the point-wise covariance function
        nr, nc = len(rows), len(cols)
        if nr == 0 or nc == 0: nr = nc = 0
        if (A[0], A[1]) != (nr, nc):
            ctx.violation('model-drift:covmat-layout:%s' % name, 'both paths return %dx%d, the model of the active-rank lists gives %dx%d' % (A[0], A[1], nr, nc), {'case': sx_str(sxc)}, found_input=False); continue
        orc = o11 if sym else o12
        db1 = py['db1']
        for i in range(nr):
            for j in range(nc):
                (u, ie), (v, je) = rows[i], cols[j]
                e = float(cell(orc, ie, je, u, v))
                if sym and i == j and db1['verr']: e += float(db1['verr'][u][ie])
                a = A[2][i][j]
                if a is None or abs(float(a) - e) > 1e-10 * (smax + abs(e)):
                    ctx.violation('model-drift:covmat-cell:%s' % name, 'both paths agree on [%d][%d] = %r but the definition C_%d%d(x_%d, x_%d) gives %r' % (i, j, fl(a), u, v, ie, je, e),
                                  {'case': sx_str(sxc)}, found_input=False); break
            else: continue
            break
    found |= compare_sparse(ctx, py, sxc, res, mo, plain, splain, smax)
    return found

def compare_sparse(ctx, py, sxc, res, mo, plain, splain, smax):
    """evalCovMatrixSparse against the plain matrices: rectangular one when db2 differs from db1, symmetric one when db2 is db1 with
    the same variables and sub-list (in the other same-Db regimes the sparse routine adds the measurement-error variances on a
    non-square layout: no plain counterpart).  eps = 0: every cell; default eps: cells below eps * C_ij(0) dropped."""
    if mo is None: return False
    same = py['db2'] is None
    if (same and (py['ivar0'] != py['jvar0'] or py['nbgh1'] != py['nbgh2'])) or py['ivar0'] > 0 or py['jvar0'] > 0:
        ctx.dist('p1:sparse-regime-of-pair-14'); return False
    ref = splain if same else plain
    rows, cols = ([tuple(x) for x in mo[4][0]], [tuple(x) for x in mo[4][1]]) if same else ([tuple(x) for x in mo[0][0]], [tuple(x) for x in mo[0][1]])
    site = covmat_key(py) + ('+onevar' if py['ivar0'] >= 0 or py['jvar0'] >= 0 else '')
    nvar = py['nvar']
    c0 = [[sum(float(undy(s[4][u * nvar + v])) for s in py['model']['structs']) for v in range(nvar)] for u in range(nvar)]
    found = False
    for name, S, eps in (('eps=0', res[4], 0.0), ('default-eps', res[5], 1e-3)):
        ctx.count('p1:sparse:%s:%s' % (name, sx_str(sxc)[:1500]), ref[0] > 0)
        if (ref[0], ref[1]) != (len(rows), len(cols)) and ref[0] > 0 and ref[1] > 0:
            continue       # layout disagreement: reported by the layout comparison above
        if ref[0] == 0 or ref[1] == 0:
            continue       # no valid sample: the plain routines return an empty matrix; the sparse one returns whatever an empty triplet list gives
        if not S:
            ctx.violation('covmat-sparse:null:' + site, 'evalCovMatrixSparse(%s) returns no matrix where the plain routine returns %dx%d' % (name, ref[0], ref[1]), {'case': sx_str(sxc)}); found = True; continue
        nr, nc, M = full_d(S)
        bad = None
        for i in range(ref[0]):
            for j in range(ref[1]):
                e = float(ref[2][i][j]); (u, _), (v, _) = rows[i], cols[j]
                diag_verr = same and i == j and py['db1']['verr']
                thr = eps * c0[u][v]
                base = e - (float(py['db1']['verr'][u][rows[i][1]]) if diag_verr else 0.)
                near = eps > 0 and abs(abs(base) - thr) <= 1e-9 * (1 + abs(thr))      # on the threshold: either answer
                keep = abs(base) >= thr
                a = float(M[i][j]) if i < nr and j < nc and M[i][j] is not None else 0.
                if near: continue
                # a dropped diagonal cell still receives the measurement-error variance through updValue on an absent entry: accept both
                exp = e if keep else 0.
                if abs(a - exp) > 1e-10 * (smax + abs(exp)):
                    if not keep and diag_verr and abs(a - (e - base)) <= 1e-10 * (smax + abs(e)): continue
                    bad = (i, j, a, exp, keep); break
            if bad: break
        if bad:
            ctx.violation('covmat-sparse:%s:%s' % (name, site), 'evalCovMatrixSparse(%s)[%d][%d] = %r, plain matrix gives %r (cell %s the threshold; row (var,sample) %s, column %s)' % (
                name, bad[0], bad[1], bad[2], bad[3], 'passes' if bad[4] else 'is below', rows[bad[0]], cols[bad[1]]), {'case': sx_str(sxc), 'row': bad[0], 'col': bad[1]}); found = True
    return found

def db_of_sx(d):
    col = lambda c: [undy(x) for x in c]
    return {'coords': [col(c) for c in d[0]], 'z': [col(c) for c in d[1]], 'verr': [col(c) for c in d[2]], 'fext': [col(c) for c in d[3]],
            'sel': [bool(x) for x in d[4]], 'n': len(d[0][0])}

def covmat_py_of_sx(c):
    m = c[5]
    return {'mode': 1, 'ndim': c[1], 'nvar': c[2], 'db1': db_of_sx(c[3]), 'db2': db_of_sx(c[4]) if c[4] else None,
            'model': {'structs': m[0], 'order': m[1], 'nfex': m[2], 'means': [undy(x) for x in m[3]]},
            'ivar0': c[6], 'jvar0': c[7], 'nbgh1': c[8], 'nbgh2': c[9]}

def model_of_sx(m): return {'structs': m[0], 'order': m[1], 'nfex': m[2], 'means': [undy(x) for x in m[3]]}

def py_of_sx(c):
    """python-side description of a corpus case (inverse of the generators' encoders)"""
    m = c[0]
    if m == 1: return covmat_py_of_sx(c)
    if m == 4:
        if c[1] == 0: return {'mode': 4, 'sub': 0, 'ndim': c[2], 'db1': db_of_sx(c[3]), 'db2': db_of_sx(c[4]), 'dist_type': c[5], 'dmax': [undy(x) for x in c[6]]}
        q = c[5]
        return {'mode': 4, 'sub': 1, 'ndim': c[2], 'dbin': db_of_sx(c[3]), 'dbout': db_of_sx(c[4]), 'nmini': q[0], 'nmaxi': q[1], 'radius': undy(q[2]), 'leaf': q[3],
                'nsect': q[4] if len(q) > 4 else 1, 'nsmax': q[5] if len(q) > 5 else -1234567, 'xvalid': bool(q[6]) if len(q) > 6 else False,
                'coeffs': [undy(x) for x in c[6]] if len(c) > 6 else [], 'angles': [undy(x) for x in c[7]] if len(c) > 7 else []}
    if m == 9:
        py = {'mode': 9, 'sub': c[1], 'ndim': c[2], 'nvar': c[3], 'dbin': db_of_sx(c[4]), 'calcul': [0], 'neigh': [0]}
        if c[1] == 0: py['model'] = model_of_sx(c[5])
        else:
            py['dbout'] = db_of_sx(c[5]); py['model'] = model_of_sx(c[6])
            if c[1] == 1: py.update({'colvars': c[7], 'sec': [[undy(x) for x in col] for col in c[8]]})
            else: py.update({'pm': [undy(x) for x in c[7]], 'pd': [undy(x) for x in c[8]]})
        return py
    if m == 14: return {'mode': 14, 'ndim': c[1], 'nvar': c[2], 'db1': db_of_sx(c[3]), 'db2': None, 'model': model_of_sx(c[4]), 'ivar0': c[5], 'jvar0': c[6], 'nbgh1': c[7], 'nbgh2': c[8]}
    if m == 10: return {'mode': 10, 'ndim': c[1], 'nvar': c[2], 'db1': db_of_sx(c[3]), 'model': model_of_sx(c[4]), 'ivar0': c[5], 'nbgh1': c[6]}
    if m == 13: return {'mode': 13, 'ndim': c[1], 'nvar': c[2], 'db1': db_of_sx(c[3]), 'ivar0': c[4], 'nbgh1': c[5]}
    py = {'mode': m, 'ndim': c[1], 'nvar': c[2], 'dbin': db_of_sx(c[3]), 'calcul': [0], 'neigh': [0]}
    if m == 8: py.update({'dbout': db_of_sx(c[4]), 'model': model_of_sx(c[5]), 'modelB': model_of_sx(c[6]), 'ops': c[7]})
    if m == 11: py.update({'grid': (c[4][0], [undy(x) for x in c[4][1]], [undy(x) for x in c[4][2]]), 'model': model_of_sx(c[5]), 'neigh': c[6], 'ndiscs': c[7], 'blex': [[undy(x) for x in b] for b in c[8]]})
    if m == 12: py.update({'dbout': db_of_sx(c[4]), 'model': model_of_sx(c[5]), 'neigh': c[6]})
    if m == 2: py.update({'dbout': db_of_sx(c[4]), 'model': model_of_sx(c[5]), 'mv': (c[6][0], c[6][1], undy(c[6][2]))})
    elif m == 3: py.update({'model': model_of_sx(c[4]), 'dbout': None}); py['nafext'] = any(x is None for col in py['dbin']['fext'] for x in col)
    elif m == 5: py.update({'grid': (c[4][0], [undy(x) for x in c[4][1]], [undy(x) for x in c[4][2]]), 'model': model_of_sx(c[5]), 'neigh': c[6]})
    elif m == 6: py.update({'dbout': db_of_sx(c[4]), 'model': model_of_sx(c[5]), 'neigh': c[6], 'colvars': c[7], 'sec': [[undy(x) for x in col] for col in c[8]]})
    elif m == 7: py.update({'dbout': db_of_sx(c[4]), 'model': model_of_sx(c[5])})
    return py

def corpus_cases(mode, sub=None):
    out = []
    cp = os.path.join(VERIF, 'corpus', 'C04.sx')
    if os.path.exists(cp):
        for line in open(cp):
            if line.strip() and not line.startswith('#'):
                c = sx_parse(line)
                if c[0] == mode and (sub is None or c[1] == sub): out.append((py_of_sx(c), c))
    return out

def compare_projection(ctx, py, sxc, res, mo):
    """the pre-projected points stored by the optimisation (_p1As of every structure) against the model's exact T^-1 . x"""
    if mo[2] != 1:
        ctx.violation('model-drift:projected-distance', 'the model finds a cell where the squared distance of the projected points differs from the anisotropic one', {'case': sx_str(sxc)}, found_input=False)
    db1 = py['db1']
    for s, (PI, PM) in enumerate(zip(res[9], mo[3])):
        if len(PI) != len(PM):
            ctx.violation('model-drift:pre-projection', 'structure %d: %d stored points, model %d' % (s, len(PI), len(PM)), {'case': sx_str(sxc)}, found_input=False); return
        for i, (a, b) in enumerate(zip(PI, PM)):
            if db1['sel'] and not db1['sel'][i]: continue      # masked: stored as the undefined point
            for d in range(py['ndim']):
                x = undy(a[d]); y = unq(b[d])
                if x is None or abs(float(x) - float(y)) > 1e-11 * (1 + abs(float(y))):
                    ctx.violation('model-drift:pre-projection', 'structure %d sample %d coordinate %d: stored %r, model T^-1.x = %r' % (s, i, d, fl(x), float(y)),
                                  {'case': sx_str(sxc)}, found_input=False); return

# ============================================================================================== kriging helpers
def parse_k(r, c01dump=False, xvalid=False):
    ok, per = r
    out = []
    for t in per:
        d = {'it': t[0], 'err': t[1], 'nbgh': t[2], 'nred': t[3], 'est': [undy(x) for x in t[4]], 'std': [undy(x) for x in t[5]],
             'varz': [undy(x) for x in t[6]], 'wgt': t[7], 'var0': t[8]}
        k = 9
        if xvalid: d['lhsx'] = t[k]; k += 1
        if c01dump:
            d['flag'], d['lhs'], d['rhs'], d['zam'], d['clhs'], d['crhs'], d['c00'] = t[k:k + 7]
        out.append(d)
    return ok, out

def as_c01(t):
    """record in the shape checks/C01.py expects (est/std/varz as dyadic lists)"""
    d = dict(t)
    d['est'] = [dy(x) if x is not None else [] for x in t['est']]; d['std'] = [dy(x) if x is not None else [] for x in t['std']]
    d['varz'] = [dy(x) if x is not None else [] for x in t['varz']]
    return d

def zscale_of(py):
    zs = [abs(x) for col in py['dbin']['z'] for x in col if x is not None] + [abs(x) for x in py['model']['means']] + [1]
    return float(max(zs))

def cond_of(t, key='lhs'):
    if not t.get(key): return 1.0
    return c01.cond_number(mat_d(t[key]))

def krig_site(py):
    k = ['UK%d' % py['model']['order'] if py['model']['order'] >= 0 else 'SK']
    if py['model']['nfex']: k.append('fex')
    if py['nvar'] > 1: k.append('multivar')
    if any(x is None for col in py['dbin']['z'] for x in col): k.append('hetero')
    if py['dbin'].get('sel'): k.append('sel')
    return '+'.join(k)

def diff_outputs(a, b, nvar, tol, zscale, vscale, what=('est', 'std', 'varz'), std_sq=True):
    """first difference between two per-target records, or None"""
    for key in what:
        for v in range(nvar):
            x, y = a[key][v], b[key][v]
            if (x is None) != (y is None): return '%s[var %d]: %r vs %r' % (key, v, fl(x), fl(y))
            if x is None: continue
            x, y = float(x), float(y)
            if key == 'est': bad = abs(x - y) > tol * (zscale + abs(y))
            elif key == 'std': bad = abs(x * x - y * y) > 10 * tol * vscale
            else: bad = abs(x - y) > 10 * tol * vscale
            if bad: return '%s[var %d]: %.12g vs %.12g' % (key, v, x, y)
    return None

def det(M):
    M = [list(r) for r in M]; n = len(M); d = Fraction(1)
    for c in range(n):
        p = next((r for r in range(c, n) if M[r][c] != 0), None)
        if p is None: return Fraction(0)
        if p != c: M[c], M[p] = M[p], M[c]; d = -d
        d *= M[c][c]
        for r in range(c + 1, n):
            f = M[r][c] / M[c][c]
            M[r] = [x - f * y for x, y in zip(M[r], M[c])]
    return d

def gen_regular_model(rng, ndim, nvar, order, nfex):
    """kriggen.gen_model, redrawn until every sill matrix is regular (a rank-deficient sill matrix makes the cokriging system exactly
    singular: what KrigingSystem does then is C01's subject, not a difference between two paths)"""
    while True:
        model = gen_model(rng, ndim, nvar, order=order, nfex=nfex)
        ok = True
        for s in model['structs']:
            S = [[undy(s[4][i * nvar + j]) for j in range(nvar)] for i in range(nvar)]
            if det(S) == 0: ok = False
        if ok: return model

def gen_krig_base(ctx, nvars=(1, 1, 2), orders=(-1, 0, 0, 1, 1), nfexs=(0, 0, 1), nmax=10, hetero_p=.4, sel_p=.25, m=4, dims=(1, 2, 2, 3)):
    rng = ctx.rng
    ndim = rng.choice(dims); nvar = rng.choice(nvars)
    order = rng.choice(orders)
    nfex = rng.choice(nfexs) if order >= 0 else 0
    nmin = nvar * (monomials(ndim, order) + nfex) + 2
    lo = max(4, (nmin + nvar - 1) // nvar + 2)
    n = rng.randint(lo, max(lo + 2, nmax))
    hetero = nvar > 1 and rng.random() < hetero_p
    dbin = gen_db(rng, ndim, nvar, n, nfex, p_na=(0.2 if hetero else 0.0), with_sel=rng.random() < sel_p)
    for f in range(nfex): dbin['fext'][f] = [F(rng.randint(-40, 40), 4) for _ in range(n)]
    dbout = gen_db(rng, ndim, 0, m, nfex); dbout['z'] = []; dbout['verr'] = []
    for f in range(nfex): dbout['fext'][f] = [F(rng.randint(-40, 40), 4) for _ in range(m)]
    # keep targets off the data (exactness is C02's subject; coincidences matter for the collocated option)
    pts = {tuple(dbin['coords'][d][i] for d in range(ndim)) for i in range(n)}
    for j in range(m):
        while tuple(dbout['coords'][d][j] for d in range(ndim)) in pts:
            dbout['coords'][0][j] += F(1, 8)
    model = gen_regular_model(rng, ndim, nvar, order, nfex)
    return {'ndim': ndim, 'nvar': nvar, 'dbin': dbin, 'dbout': dbout, 'model': model, 'calcul': [0], 'neigh': [0]}

def model_cases_for(py, drifts, per):
    """(model case, reference) for the C01 runner from the targets carrying a C01 dump"""
    out = []
    for t in per:
        if t.get('clhs') is None or not t['nbgh']: continue
        out.append((model_case(py, drifts, t), (py, as_c01(t))))
    return out

# ============================================================================================== pair 2: unique vs wide moving
def gen_unique_moving(ctx, k):
    rng = ctx.rng
    py = gen_krig_base(ctx)
    n = py['dbin']['n']
    if rng.random() < .5:      # samples whose variables are all undefined: both neighbourhoods must leave them out
        for i in rng.sample(range(n), rng.choice([1, 2])):
            if sum(1 for j in range(n) if py['dbin']['z'][0][j] is not None) > n - 2: 
                for col in py['dbin']['z']: col[i] = None
    nmaxi = rng.choice([n, n + 3, 1000]); nmini = rng.choice([1, 1, 2])
    radius = rng.choice([None, F(10 ** 6)])
    py['mv'] = (nmini, nmaxi, radius); py['mode'] = 2
    sxc = [2, py['ndim'], py['nvar'], db_sx(py['dbin']), db_sx(py['dbout']), model_sx(py['model']), [nmini, nmaxi, dy(radius)]]
    ctx.dist('p2:' + krig_site(py))
    return py, sxc

def compare_unique_moving(ctx, py, sxc, res, mcases):
    drifts = res[0]
    okU, U = parse_k(res[1], c01dump=True); okM, M = parse_k(res[2])
    site = krig_site(py)
    if not okU or not okM:
        if okU != okM: ctx.violation('unique-vs-moving:setup:' + site, 'isReady: unique %s, moving %s' % (okU, okM), {'case': sx_str(sxc)}); return True
        return False
    found = False
    zs = zscale_of(py)
    db = py['dbin']
    usable = sum(1 for i in range(db['n']) if (not db['sel'] or db['sel'][i]) and any(col[i] is not None for col in db['z']))
    if py['mv'][0] > usable:      # premise nmini <= number of usable samples does not hold: _moving refuses, by specification
        ctx.dist('p2:nmini-above-usable'); ctx.cov['tie_excluded'] += len(U); return False
    for u, m in zip(U, M):
        ctx.count('p2:%s:%d' % (sx_str(sxc)[:1200], u['it']), bool(u['nbgh']))
        if u['nbgh'] != m['nbgh']:
            ctx.violation('unique-vs-moving:neighbourhood:' + site, 'target %d: unique neighbourhood %s, moving(nmini %d, nmaxi %d, radius %s) %s' % (u['it'], u['nbgh'], py['mv'][0], py['mv'][1], py['mv'][2], m['nbgh']),
                          {'case': sx_str(sxc), 'target': u['it']}); found = True; continue
        cond = cond_of(u)
        if cond > 1e7: ctx.cov['tie_excluded'] += 1; continue
        vs = max([abs(float(undy(u['var0'][v][v]))) for v in range(py['nvar'])] + [1e-30])
        d = diff_outputs(u, m, py['nvar'], TOL * max(1., cond), zs, vs)
        if d:
            ctx.violation('unique-vs-moving:' + site, 'target %d, same neighbourhood %s: %s (unique vs moving)' % (u['it'], u['nbgh'], d), {'case': sx_str(sxc), 'target': u['it']}); found = True
    mcases += model_cases_for(py, drifts, U)
    return found

# ============================================================================================== pair 3: xvalid shortcut vs leave-one-out
def gen_xvalid(ctx, k):
    rng = ctx.rng
    multivar = rng.random() < .12
    py = gen_krig_base(ctx, nvars=(2,) if multivar else (1,), nmax=9, hetero_p=.5, m=1)
    db = py['dbin']; n = db['n']
    if py['nvar'] == 1 and rng.random() < .3:
        for i in range(n):
            if rng.random() < .2: db['z'][0][i] = None
        if sum(x is not None for x in db['z'][0]) < 5: db['z'][0] = [F(rng.randint(-200, 200), 8) for _ in range(n)]
    nafext = False
    if py['model']['nfex'] and rng.random() < .25:
        i = rng.randrange(n); db['fext'][0][i] = None; nafext = True
    py['mode'] = 3; py['nafext'] = nafext
    sxc = [3, py['ndim'], py['nvar'], db_sx(db), model_sx(py['model'])]
    ctx.dist('p3:' + krig_site(py) + ('+na-fext' if nafext else ''))
    return py, sxc

def compare_xvalid(ctx, py, sxc, res, mcases):
    drifts = res[0]
    okA, A = parse_k(res[1], xvalid=True); okC, C = parse_k(res[2], xvalid=True)
    B = [parse_k(r, c01dump=True) for r in res[3]]
    db = py['dbin']; n = db['n']; nvar = py['nvar']
    site = krig_site(py) + ('+na-fext' if py['nafext'] else '')
    if not okA: return False
    found = False
    zs = zscale_of(py)
    for i in range(n):
        active = (not db['sel']) or db['sel'][i]
        okB, tb = B[i]
        if not active or not okB or not tb: continue
        tb = tb[0]
        if not tb['nbgh'] or tb['est'][0] is None and tb['std'][0] is None and not tb.get('lhs'): continue
        if db['z'][0][i] is None: continue
        # the leave-one-out sample must itself be usable (defined external drift) for the comparison to make sense
        if any(col[i] is None for col in db['fext']): continue
        a = A[i]
        condB = cond_of(tb); condA = cond_of(a, 'lhsx')
        cond = max(condA, condB)
        ctx.count('p3:%s:%d' % (sx_str(sxc)[:1200], i), True)
        if cond > 1e6: ctx.cov['tie_excluded'] += 1; continue
        vs = max(abs(float(undy(tb['c00'][0][0]))), 1e-30)
        tol = 10 * TOL * max(1., cond)
        # only variable 0 is written by the shortcut
        d = diff_outputs(a, tb, 1, tol, zs, vs, what=('est', 'std'))
        if d:
            kind = 'multivariate' if nvar > 1 else ('undefined-external-drift' if py['nafext'] else 'value:' + site)
            ctx.violation('xvalid-unique:%s' % kind, 'sample %d: shortcut vs kriging without the sample: %s' % (i, d), {'case': sx_str(sxc), 'sample': i}); found = True
        if okC and C[i]['nbgh']:
            d = diff_outputs(C[i], tb, nvar, tol, zs, vs, what=('est', 'std'))
            if d:
                ctx.violation('xvalid-moving:' + site, 'sample %d: cross-validation in a wide moving neighbourhood vs kriging without the sample: %s' % (i, d), {'case': sx_str(sxc), 'sample': i}); found = True
    return found

# ============================================================================================== pair 4: ball tree vs exhaustive
def gen_migrate(ctx, k):
    rng = ctx.rng
    ndim = rng.choice([1, 2, 2, 3])
    n1 = rng.choice([rng.randint(2, 12), rng.randint(31, 70) if ndim > 1 else rng.randint(13, 28)])
    db1 = gen_db(rng, ndim, 1, n1, 0, with_sel=rng.random() < .25)
    db1['z'][0] = [F(i) for i in range(n1)]          # the value identifies the sample that was picked
    n2 = rng.randint(3, 8)
    db2 = gen_db(rng, ndim, 0, n2, 0, with_sel=rng.random() < .2); db2['z'] = []
    for d in range(ndim):     # same lattice as db1 so that the points are close to each other
        db2['coords'][d] = [db1['coords'][d][rng.randrange(n1)] + F(rng.randint(-6, 6), 2) for _ in range(n2)]
    dist_type = rng.choice([1, 2])
    r = rng.random()
    if r < .4: dmax = []
    elif r < .7: dmax = [F(rng.randint(2, 12), 2)] * ndim
    else: dmax = [F(rng.randint(1, 12), 2) for _ in range(ndim)]
    py = {'mode': 4, 'sub': 0, 'ndim': ndim, 'db1': db1, 'db2': db2, 'dist_type': dist_type, 'dmax': dmax}
    sxc = [4, 0, ndim, db_sx(db1), db_sx(db2), dist_type, [dy(x) for x in dmax]]
    ctx.dist('p4:migrate:' + ('nodmax' if not dmax else ('iso' if len(set(dmax)) == 1 else 'aniso') + '-L%d' % dist_type) + ('+sel' if db1['sel'] else ''))
    return py, sxc

def within_dmax(dv, dist_type, dmax):
    if not dmax: return True
    if dist_type == 1: return all(abs(x) <= m for x, m in zip(dv, dmax))
    return sum((x / m) ** 2 for x, m in zip(dv, dmax)) <= 1

def compare_migrate(ctx, py, sxc, res):
    (eA, colA), (eB, colB) = res[0], res[1]
    db1, db2, ndim = py['db1'], py['db2'], py['ndim']
    if eA or eB:
        if eA != eB: ctx.violation('migrate:ball:error', 'migrate returns %d without ball tree and %d with it' % (eA, eB), {'case': sx_str(sxc)}); return True
        return False
    found = False
    A = [undy(x) for x in colA]; B = [undy(x) for x in colB]
    n1 = db1['n']
    for j in range(db2['n']):
        if db2['sel'] and not db2['sel'][j]:
            if A[j] != B[j]: ctx.violation('migrate:ball:masked-target', 'masked target %d: %r vs %r' % (j, fl(A[j]), fl(B[j])), {'case': sx_str(sxc), 'target': j}); found = True
            continue
        dvs = [[db1['coords'][d][i] - db2['coords'][d][j] for d in range(ndim)] for i in range(n1)]
        d2 = [sum(x * x for x in dv) for dv in dvs]
        act = [i for i in range(n1) if not db1['sel'] or db1['sel'][i]]
        # exclude ties of the decisions taken on distances: the nearest among all / among active / among admissible
        def tie(idx):
            s = sorted(d2[i] for i in idx)
            return len(s) > 1 and s[0] == s[1]
        adm = [i for i in act if within_dmax(dvs[i], py['dist_type'], py['dmax'])]
        if tie(range(n1)) or tie(act) or tie(adm): ctx.cov['tie_excluded'] += 1; continue
        ctx.count('p4m:%s:%d' % (sx_str(sxc)[:1000], j), True)
        if A[j] == B[j]: continue
        near_all = min(range(n1), key=lambda i: d2[i])
        if db1['sel'] and not db1['sel'][near_all]: key = 'masked-source'
        elif py['dmax'] and adm and not within_dmax(dvs[min(act, key=lambda i: d2[i])], py['dist_type'], py['dmax']):
            key = 'dmax-tested-after-nearest'
        else: key = 'nearest'
        ctx.violation('migrate:ball:' + key, 'target %d: exhaustive search gives sample %r, ball tree gives %r (dmax %s, dist_type %d)' % (
            j, fl(A[j]), fl(B[j]), [str(x) for x in py['dmax']], py['dist_type']), {'case': sx_str(sxc), 'target': j}); found = True
    return found

def gen_ballneigh(ctx, k):
    """any configuration: the committed shortcut is guarded (C06_ball_shortcut / C06_ball_fallback), so setBallSearch(true) must
    select what setBallSearch(false) selects whatever the masks, undefined values, cross-validation, sectors, anisotropy"""
    rng = ctx.rng
    ndim = rng.choice([1, 2, 2, 2, 3])
    n = rng.choice([rng.randint(3, 12), rng.randint(25, 60) if ndim > 1 else rng.randint(13, 28)])
    plain = rng.random() < .5          # the premise of the shortcut holds: nothing masked / undefined / cross-validated
    dbin = gen_db(rng, ndim, 1, n, 0, p_na=0. if plain else rng.choice([0., .15]), with_sel=(not plain) and rng.random() < .5)
    m = rng.randint(3, 6)
    dbout = gen_db(rng, ndim, 0, m, 0); dbout['z'] = []
    for d in range(ndim): dbout['coords'][d] = [dbin['coords'][d][rng.randrange(n)] + F(rng.randint(-6, 6), 2) + F(1, 16) for _ in range(m)]
    xvalid = (not plain) and rng.random() < .3
    if xvalid:       # some targets on data points
        for j in range(m):
            if rng.random() < .6:
                i = rng.randrange(n)
                for d in range(ndim): dbout['coords'][d][j] = dbin['coords'][d][i]
    nmaxi = rng.randint(1, n) if plain or rng.random() < .7 else rng.choice([n + 2, 0])
    nmini = rng.randint(1, min(max(nmaxi, 1), 3)) if plain or rng.random() < .8 else nmaxi + 1
    radius = None if rng.random() < .5 else F(rng.randint(4, 40), 2)
    leaf = rng.choice([1, 2, 5, 10, 30])
    nsect = 1 if plain or ndim == 1 or rng.random() < .7 else rng.choice([2, 4, 8]); nsmax = rng.choice([-1234567, 1, 2])
    # outside 2-D the coefficients are always given (BiTargetCheckDistance without coefficients measures exactly two coordinates)
    coeffs, angles = [], []
    if ndim != 2 or rng.random() < .4:
        if plain or rng.random() < .5: coeffs = [rng.choice([F(1), F(2), F(1, 2)])] * ndim
        else: coeffs = [rng.choice([F(1), F(2), F(1, 2), F(3)]) for _ in range(ndim)]
        if not plain and ndim > 1 and rng.random() < .3: angles = [F(rng.choice([30, 45, 90]))] + [F(0)] * (ndim - 1)
    py = {'mode': 4, 'sub': 1, 'ndim': ndim, 'dbin': dbin, 'dbout': dbout, 'nmini': nmini, 'nmaxi': nmaxi, 'radius': radius, 'leaf': leaf,
          'nsect': nsect, 'nsmax': nsmax, 'xvalid': xvalid, 'coeffs': coeffs, 'angles': angles, 'plain': plain}
    sxc = [4, 1, ndim, db_sx(dbin), db_sx(dbout), [nmini, nmaxi, dy(radius), leaf, nsect, nsmax, 1 if xvalid else 0], [dy(x) for x in coeffs], [dy(x) for x in angles]]
    ctx.dist('p4:neigh:' + ('premise' if plain else 'general'))
    return py, sxc

def ballneigh_key(py):
    k = []
    if py.get('xvalid'): k.append('xvalid')
    if py['dbin']['sel']: k.append('mask')
    if any(x is None for x in py['dbin']['z'][0]): k.append('undefined')
    if py.get('nsect', 1) > 1: k.append('sectors')
    if py.get('angles'): k.append('rotation')
    if py.get('coeffs') and len(set(py['coeffs'])) > 1: k.append('anisotropy')
    return '+'.join(k) or 'premise-holds'

def compare_ballneigh(ctx, py, sxc, res):
    A, B = res[0], res[1]
    if A == -1 or B == -1 or not isinstance(A, list): return False
    dbin, dbout, ndim = py['dbin'], py['dbout'], py['ndim']
    found = False
    for j in range(dbout['n']):
        d2 = sorted(sum((dbin['coords'][d][i] - dbout['coords'][d][j]) ** 2 for d in range(ndim)) for i in range(dbin['n']))
        km = py['nmaxi']
        # ties at the nmaxi cut: the tree and the sort may legitimately keep different samples (excluded by the theorems)
        if 0 < km < len(d2) and d2[km - 1] == d2[km]: ctx.cov['tie_excluded'] += 1; continue
        ctx.count('p4n:%s:%d' % (sx_str(sxc)[:1000], j), True)
        if A[j] != B[j]:
            ctx.violation('ballsearch:' + ballneigh_key(py),
                          'target %d: exhaustive _moving selects %s, ball search %s (nmini %d nmaxi %d radius %s leaf %d nsect %d xvalid %s coeffs %s angles %s)' % (
                              j, A[j], B[j], py['nmini'], py['nmaxi'], py['radius'], py['leaf'], py.get('nsect', 1), py.get('xvalid'),
                              [str(x) for x in py.get('coeffs', [])], [str(x) for x in py.get('angles', [])]), {'case': sx_str(sxc), 'target': j}); found = True
    return found

# ============================================================================================== pair 5: block with one point vs point
def gen_block1(ctx, k):
    rng = ctx.rng
    py = gen_krig_base(ctx, nfexs=(0,), orders=(-1, 0, 0, 1), dims=(1, 2, 2, 3))
    ndim = py['ndim']
    nx = [rng.randint(1, 3) for _ in range(ndim)]
    dx = [rng.choice([F(1), F(2), F(1, 2), F(5, 4)]) for _ in range(ndim)]
    x0 = [F(rng.randint(-12, 12), 2) + F(1, 16) for _ in range(ndim)]
    n = py['dbin']['n']
    neigh = [0] if rng.random() < .6 else [1, 1, rng.choice([4, 6, n]), dy(None)]
    py.update({'mode': 5, 'grid': (nx, dx, x0), 'neigh': neigh})
    sxc = [5, ndim, py['nvar'], db_sx(py['dbin']), [nx, [dy(x) for x in dx], [dy(x) for x in x0]], model_sx(py['model']), neigh]
    ctx.dist('p5:' + krig_site(py) + ('+moving' if neigh[0] else '+unique'))
    return py, sxc

def compare_block1(ctx, py, sxc, res, mcases):
    drifts, coords = res[0], res[1]
    okP, P = parse_k(res[2], c01dump=True); okB, Bk = parse_k(res[3])
    site = krig_site(py) + ('+moving' if py['neigh'][0] else '+unique')
    if not okP or not okB:
        if okP != okB: ctx.violation('block1-vs-point:setup:' + site, 'isReady: point %s, block %s' % (okP, okB), {'case': sx_str(sxc)}); return True
        return False
    found = False; zs = zscale_of(py); nvar = py['nvar']
    for p, b in zip(P, Bk):
        ctx.count('p5:%s:%d' % (sx_str(sxc)[:1200], p['it']), bool(p['nbgh']))
        if p['nbgh'] != b['nbgh']:
            ctx.violation('block1-vs-point:neighbourhood:' + site, 'target %d: neighbourhoods differ %s vs %s' % (p['it'], p['nbgh'], b['nbgh']), {'case': sx_str(sxc), 'target': p['it']}); found = True; continue
        cond = cond_of(p)
        if cond > 1e7: ctx.cov['tie_excluded'] += 1; continue
        tol = TOL * max(1., cond)
        vs = max([abs(float(undy(p['var0'][v][v]))) for v in range(nvar)] + [1e-30])
        d = diff_outputs(p, b, nvar, tol, zs, vs, what=('est', 'varz'))
        if not d and p['wgt'] and b['wgt']:
            WP, WB = mat_d(p['wgt']), mat_d(b['wgt'])
            for i in range(len(WP)):
                for v in range(nvar):
                    if abs(float(WP[i][v]) - float(WB[i][v])) > tol * (1 + abs(float(WP[i][v]))): d = 'weight[%d][var %d]: %.12g vs %.12g' % (i, v, float(WP[i][v]), float(WB[i][v]))
        if not d:
            # variance: the block value uses Cvv between the regular point and a RANDOMISED second point; what the property can mean is
            # stdev_block^2 - Cvv == stdev_point^2 - C00 (same weights, same right-hand side)
            for v in range(nvar):
                sp, sb = p['std'][v], b['std'][v]
                if sp is None or sb is None:
                    if (sp is None) != (sb is None): d = 'stdev[var %d]: %r vs %r' % (v, fl(sp), fl(sb))
                    continue
                if float(sp) == 0. or float(sb) == 0.: continue
                lp = float(sp) ** 2 - float(undy(p['var0'][v][v])); lb = float(sb) ** 2 - float(undy(b['var0'][v][v]))
                if abs(lp - lb) > 10 * tol * vs: d = 'stdev^2 - C(target,target)[var %d]: %.12g (point) vs %.12g (block)' % (v, lp, lb)
        if d:
            ctx.violation('block1-vs-point:' + site, 'target %d (point vs block with ndisc = 1): %s' % (p['it'], d), {'case': sx_str(sxc), 'target': p['it']}); found = True
    py2 = dict(py); py2['dbout'] = {'coords': [[undy(c[d]) for c in coords] for d in range(py['ndim'])], 'fext': []}
    mcases += model_cases_for(py2, drifts, P)
    return found

# ============================================================================================== pair 6: collocated cokriging
def gen_colcok(ctx, k):
    rng = ctx.rng
    py = gen_krig_base(ctx, nvars=(2, 2, 3), nfexs=(0,), orders=(-1, 0, 0, 1), hetero_p=.6, sel_p=.15, m=3)
    nvar = py['nvar']; n = py['dbin']['n']; m = py['dbout']['n']
    colvars = [1] if nvar == 2 or rng.random() < .5 else [1, 2]
    sec = [[F(rng.randint(-200, 200), 8) for _ in range(m)] for _ in colvars]
    if rng.random() < .3: sec[0][rng.randrange(m)] = None
    neigh = [0] if rng.random() < .6 else [1, 1, 1000, dy(None)]
    py.update({'mode': 6, 'colvars': colvars, 'sec': sec, 'neigh': neigh})
    sxc = [6, py['ndim'], nvar, db_sx(py['dbin']), db_sx(py['dbout']), model_sx(py['model']), neigh, colvars, [[dy(x) for x in col] for col in sec]]
    ctx.dist('p6:' + krig_site(py) + ('+moving' if neigh[0] else '+unique'))
    return py, sxc

def compare_colcok(ctx, py, sxc, res, mcases):
    drifts = res[0]
    okA, A = parse_k(res[1]); Bs = [parse_k(r, c01dump=True) for r in res[2]]
    site = krig_site(py) + ('+moving' if py['neigh'][0] else '+unique')
    if not okA:
        if any(okb for okb, _ in Bs): ctx.violation('colcok:setup:' + site, 'collocated option refused (isReady false) while the augmented data set is accepted', {'case': sx_str(sxc)}); return True
        return False
    found = False; zs = zscale_of(py); nvar = py['nvar']
    zs = max(zs, max([abs(float(x)) for col in py['sec'] for x in col if x is not None] + [1.]))
    for it, (a, (okb, tb)) in enumerate(zip(A, Bs)):
        if not okb or not tb: continue
        b = tb[0]
        ctx.count('p6:%s:%d' % (sx_str(sxc)[:1200], it), True)
        cond = cond_of(b)
        if cond > 1e7: ctx.cov['tie_excluded'] += 1; continue
        vs = max([abs(float(undy(b['var0'][v][v]))) for v in range(nvar)] + [1e-30])
        d = diff_outputs(a, b, nvar, TOL * max(1., cond), zs, vs)
        if d:
            ctx.violation('colcok:' + site, 'target %d: collocated option vs collocated datum appended to the data: %s (neighbourhoods %s / %s)' % (it, d, a['nbgh'], b['nbgh']),
                          {'case': sx_str(sxc), 'target': it}); found = True
    return found

# ============================================================================================== pair 7: KrigingCalcul
def gen_calcul(ctx, k):
    rng = ctx.rng
    py = gen_krig_base(ctx, nvars=(1, 1, 2), orders=(-1, -1, 0, 0, 1, 2), nfexs=(0, 0, 1), hetero_p=.5, sel_p=.25, m=3)
    if py['model']['order'] < 0 and rng.random() < .25: py['model']['means'] = [F(0)] * py['nvar']
    py['mode'] = 7
    sxc = [7, py['ndim'], py['nvar'], db_sx(py['dbin']), db_sx(py['dbout']), model_sx(py['model'])]
    ctx.dist('p7:' + krig_site(py))
    return py, sxc

def vec_d(v): return [undy(x) for x in v]

def compare_calcul(ctx, py, sxc, res, mcases):
    drifts = res[0]
    okS, S = parse_k(res[1], c01dump=True)
    site = krig_site(py)
    if not okS: return False
    found = False; zs = zscale_of(py); nvar = py['nvar']
    sk = py['model']['order'] < 0
    means = [float(x) for x in py['model']['means']] if sk else [0.] * nvar
    for s, kc in zip(S, res[2]):
        Sigma, X, Sigma0, X0, Sigma00, Z, prim, dual = kc
        it = s['it']
        if s['est'][0] is None or not s.get('lhs'): continue
        neq = Sigma[0]
        ndata = sum(1 for f in s['flag'][:nvar * len(s['nbgh'])] if f)
        if neq != ndata:
            ctx.dist('p7:equation-sets-differ'); continue
        cond = cond_of(s)
        ctx.count('p7:%s:%d' % (sx_str(sxc)[:1200], it), True)
        if cond > 1e6: ctx.cov['tie_excluded'] += 1; continue
        tol = 10 * TOL * max(1., cond)
        vs = max([abs(float(undy(s['var0'][v][v]))) for v in range(nvar)] + [1e-30])
        err, est, std, varz, hasL, L, Lmember, Mu = prim
        derr, dest, dhasL, dL = dual
        kA = {'est': vec_d(est), 'std': vec_d(std), 'varz': vec_d(varz)}
        # --- the accessor defect: getLambda in primal mode
        if not hasL:
            ctx.violation('KrigingCalcul:getLambda-null-in-primal', 'KrigingCalcul(flagDual=false).getLambda() returns nullptr although the weights are available (inverted _validForDual() test; with flagDual=true it returns %s)' % ('a matrix' if dhasL else 'nullptr'),
                          {'case': sx_str(sxc), 'target': it}); found = True
        if dhasL:
            ctx.violation('KrigingCalcul:getLambda-nonnull-in-dual', 'KrigingCalcul(flagDual=true).getLambda() returns a matrix although the weights are documented as unavailable in dual mode',
                          {'case': sx_str(sxc), 'target': it}); found = True
        if hasL and Lmember and L and L != Lmember:
            ctx.violation('KrigingCalcul:getLambda-wrong-member', 'getLambda() does not return the weights the estimate was computed with', {'case': sx_str(sxc), 'target': it}); found = True
        if err or len(kA['est']) != nvar:
            ctx.violation('KrigingCalcul:refused:' + site, 'KrigingCalcul refuses (err %d, %d estimates) a system that KrigingSystem solves' % (err, len(kA['est'])), {'case': sx_str(sxc), 'target': it}); found = True; continue
        # --- estimate (primal)
        d = diff_outputs(kA, s, nvar, tol, zs, vs, what=('est',))
        if d:
            shifted = {'est': [kA['est'][v] + F(means[v]) for v in range(nvar)]}
            if sk and any(means) and not diff_outputs(shifted, s, nvar, tol, zs, vs, what=('est',)):
                ctx.violation('KrigingCalcul:primal-SK-mean-not-added', 'simple kriging, primal form: getEstimation() = %s, KrigingSystem = %s: the known means %s are missing (_needZstar adds them only when _Means->empty())' % (
                    [fl(x) for x in kA['est']], [fl(x) for x in s['est']], means), {'case': sx_str(sxc), 'target': it})
            else:
                ctx.violation('KrigingCalcul:estimate:' + site, 'primal: ' + d + ' (KrigingCalcul vs KrigingSystem)', {'case': sx_str(sxc), 'target': it})
            found = True
        d = diff_outputs(kA, s, nvar, tol, zs, vs, what=('std', 'varz'))
        if d: ctx.violation('KrigingCalcul:%s:%s' % (d.split('[')[0], site), d + ' (KrigingCalcul vs KrigingSystem)', {'case': sx_str(sxc), 'target': it}); found = True
        # --- estimate (dual)
        kD = {'est': vec_d(dest)}
        if derr or len(kD['est']) != nvar:
            ctx.violation('KrigingCalcul:dual-refused:' + site, 'dual form refused (err %d, %d estimates)' % (derr, len(kD['est'])), {'case': sx_str(sxc), 'target': it}); found = True
        else:
            d = diff_outputs(kD, s, nvar, tol, zs, vs, what=('est',))
            if d: ctx.violation('KrigingCalcul:dual-estimate:' + site, 'dual: ' + d + ' (KrigingCalcul vs KrigingSystem)', {'case': sx_str(sxc), 'target': it}); found = True
        # --- weights and Lagrange multipliers (members read directly)
        if Lmember and s['wgt']:
            LM = mat_d(Lmember[2]); W = mat_d(s['wgt'])
            bad = None
            for i in range(neq):
                for v in range(nvar):
                    if abs(float(LM[i][v]) - float(W[i][v])) > tol * (1 + abs(float(W[i][v]))): bad = 'lambda[%d][var %d]: %.12g vs %.12g' % (i, v, float(LM[i][v]), float(W[i][v]))
            if not bad and Mu:
                MM = mat_d(Mu[2])
                for l in range(Mu[0]):
                    for v in range(nvar):
                        w = -float(W[neq + l][v])    # KrigingSystem solves [S X; Xt 0][l; m] = [s0; x0], KrigingCalcul's mu is -m
                        if abs(float(MM[l][v]) - w) > tol * (vs + abs(w)): bad = 'mu[%d][var %d]: %.12g vs %.12g' % (l, v, float(MM[l][v]), w)
            if bad: ctx.violation('KrigingCalcul:weights:' + site, bad + ' (KrigingCalcul vs KrigingSystem)', {'case': sx_str(sxc), 'target': it}); found = True
    mcases += model_cases_for(py, drifts, S)
    return found

# ============================================================================================== pair 8: KrigingCalcul, sequences on one object
SETTERS = {0: 'setData', 1: 'setLHS', 2: 'setRHS', 3: 'setVar', 4: 'setColCokUnique', 5: 'setBayes', 6: 'setXvalidUnique', -1: 'construction'}
GETTERS = {0: 'getEstimation', 1: 'getStdv', 2: 'getVarianceZstar', 3: 'getPostMean', 4: 'getLambda', 5: 'getLambda0', 6: 'getMu', 7: 'getPostCov'}

def gen_kcseq(ctx, k):
    rng = ctx.rng
    py = gen_krig_base(ctx, nvars=(2, 2, 3), orders=(-1, 0, 0, 1), nfexs=(0,), hetero_p=.4, sel_p=.2, m=3, nmax=8)
    if py['model']['order'] < 0 and rng.random() < .3: py['model']['means'] = [F(0)] * py['nvar']
    modelB = gen_regular_model(rng, py['ndim'], py['nvar'], py['model']['order'], 0)
    modelB['means'] = py['model']['means']
    uk = py['model']['order'] >= 0
    def setter():
        r = rng.random()
        if r < .18: return [0, rng.randrange(2), 0]
        if r < .36: return [1, rng.randrange(2), 0]
        if r < .60: return [2, rng.randrange(3), rng.randrange(2)]
        if r < .72: return [3, rng.randrange(2), 0]
        if r < .90: return [4, 1 if rng.random() < .7 else 0, rng.randrange(2)]
        if uk and r < .96: return [5, 1 if rng.random() < .7 else 0, rng.randrange(2)]
        return [6, rng.randrange(3), 0]
    ops = [[0, rng.randrange(2), 0], [1, rng.randrange(2), 0], [2, rng.randrange(3), rng.randrange(2)], [3, rng.randrange(2), 0]]
    rng.shuffle(ops)
    def getters():
        return [[10 + rng.choice([0, 0, 1, 1, 2, 2, 3, 4, 5, 6, 7]), 0, 0] for _ in range(rng.choice([1, 2, 3]))]
    ops += getters()
    for _ in range(rng.randint(6, 14)):
        ops.append(setter()); ops += getters()
    py.update({'mode': 8, 'modelB': modelB, 'ops': ops})
    sxc = [8, py['ndim'], py['nvar'], db_sx(py['dbin']), db_sx(py['dbout']), model_sx(py['model']), model_sx(modelB), ops]
    ctx.dist('p8:' + krig_site(py))
    return py, sxc

def compare_kcseq(ctx, py, sxc, res):
    nbfl, nxv, recs = res
    found = False
    for k, last, g, errP, errF, vp, vf in recs:
        ctx.count('p8:%s:%d' % (sx_str(sxc)[:1500], k), True)
        a = [undy(x) for x in vp]; b = [undy(x) for x in vf]
        bad = None
        if len(a) != len(b): bad = '%d values against %d' % (len(a), len(b))
        else:
            for x, y in zip(a, b):
                if (x is None) != (y is None) or (x is not None and abs(float(x) - float(y)) > 1e-9 * (1 + abs(float(y)))):
                    bad = '%r against %r' % (fl(x), fl(y)); break
        if bad:
            hist = ' '.join('%s(%d,%d)' % (SETTERS[o[0]], o[1], o[2]) if o[0] < 10 else GETTERS[o[0] - 10] for o in py['ops'][:k + 1])
            ctx.violation('KrigingCalcul:%s-after-%s' % (GETTERS[g], SETTERS[last]),
                          'operation %d: %s on the object that went through the sequence gives %s the same setters replayed on a fresh object (history: %s)' % (k, GETTERS[g], bad, hist),
                          {'case': sx_str(sxc), 'operation': k}); found = True
    return found

def qsolve(A, B):
    """exact solution of A.W = B (lists of rows of Fractions); None when singular"""
    n = len(A); M = [list(A[i]) + list(B[i]) for i in range(n)]
    for c in range(n):
        p = next((r for r in range(c, n) if M[r][c] != 0), None)
        if p is None: return None
        M[c], M[p] = M[p], M[c]
        pv = M[c][c]; M[c] = [x / pv for x in M[c]]
        for r in range(n):
            if r != c and M[r][c] != 0:
                f = M[r][c]; M[r] = [x - f * y for x, y in zip(M[r], M[c])]
    return [row[n:] for row in M]
def qmul(A, B): return [[sum(A[i][k] * B[k][j] for k in range(len(B))) for j in range(len(B[0]))] for i in range(len(A))]
def qT(A): return [list(r) for r in zip(*A)]

def bayes_reference(Sigma, X, Sigma0, X0, Sigma00, Z, pm, pd):
    """Bayesian kriging from its definition, exactly: posterior of the drift coefficients, estimate and error variance per variable"""
    n = len(Sigma); p = len(X[0]); nv = len(Sigma0[0])
    SiX = qsolve(Sigma, X); SiZ = qsolve(Sigma, [[z] for z in Z]); SiS0 = qsolve(Sigma, Sigma0)
    if SiX is None: return None
    Sinv = [[(1 / pd[i] if i == j else Fraction(0)) for j in range(p)] for i in range(p)]
    Mx = qmul(qT(X), SiX)
    Ac = [[Mx[i][j] + Sinv[i][j] for j in range(p)] for i in range(p)]
    rhs = [[sum(X[k][i] * SiZ[k][0] for k in range(n)) + Sinv[i][i] * pm[i]] for i in range(p)]
    beta = qsolve(Ac, rhs)
    if beta is None: return None
    beta = [b[0] for b in beta]
    est, var = [], []
    for r in range(nv):
        lam = [SiS0[k][r] for k in range(n)]
        y0 = [X0[r][l] - sum(lam[k] * X[k][l] for k in range(n)) for l in range(p)]
        est.append(sum(lam[k] * Z[k] for k in range(n)) + sum(y0[l] * beta[l] for l in range(p)))
        Acy = qsolve(Ac, [[y] for y in y0])
        var.append(Sigma00[r][r] - sum(lam[k] * Sigma0[k][r] for k in range(n)) + sum(y0[l] * Acy[l][0] for l in range(p)))
    return est, var

# ============================================================================================== pair 9: KrigingCalcul options vs KrigingSystem
def gen_kcopt(ctx, k):
    rng = ctx.rng
    sub = rng.choice([0, 0, 1, 2])
    if sub == 0:
        py = gen_krig_base(ctx, nvars=(1, 1, 2), orders=(-1, 0, 0, 1), nfexs=(0,), hetero_p=.3, sel_p=.2, m=1, nmax=8)
        sxc = [9, 0, py['ndim'], py['nvar'], db_sx(py['dbin']), model_sx(py['model'])]
    elif sub == 1:
        py = gen_krig_base(ctx, nvars=(2, 2, 3), orders=(-1, 0, 0, 1), nfexs=(0,), hetero_p=.5, sel_p=.15, m=3)
        nvar = py['nvar']; m = py['dbout']['n']
        colvars = [1] if nvar == 2 or rng.random() < .5 else [1, 2]
        sec = [[F(rng.randint(-200, 200), 8) for _ in range(m)] for _ in colvars]
        py.update({'colvars': colvars, 'sec': sec})
        sxc = [9, 1, py['ndim'], nvar, db_sx(py['dbin']), db_sx(py['dbout']), model_sx(py['model']), colvars, [[dy(x) for x in col] for col in sec]]
    else:
        py = gen_krig_base(ctx, nvars=(1, 1, 2), orders=(0, 0, 1), nfexs=(0,), hetero_p=.3, sel_p=.15, m=3, nmax=7)
        nfeq = py['nvar'] * monomials(py['ndim'], py['model']['order'])
        pm = [F(rng.randint(-8, 8), 2) for _ in range(nfeq)]; pd = [F(rng.randint(1, 16), 4) for _ in range(nfeq)]
        py.update({'pm': pm, 'pd': pd})
        sxc = [9, 2, py['ndim'], py['nvar'], db_sx(py['dbin']), db_sx(py['dbout']), model_sx(py['model']), [dy(x) for x in pm], [dy(x) for x in pd]]
    py.update({'mode': 9, 'sub': sub})
    ctx.dist('p9:%s:%s' % (['xvalid', 'colcok', 'bayes'][sub], krig_site(py)))
    return py, sxc

def compare_kcopt(ctx, py, sxc, res):
    sub = py['sub']; nvar = py['nvar']; found = False; zs = zscale_of(py)
    site = krig_site(py)
    if sub == 0:
        for rec in res:
            if not rec: continue
            s, err, est, std, plain = rec
            okB, tb = parse_k(plain, c01dump=True)
            if not okB or not tb or not tb[0]['nbgh'] or tb[0]['est'][0] is None: continue
            tb = tb[0]
            cond = cond_of(tb)
            ctx.count('p9x:%s:%d' % (sx_str(sxc)[:1200], s), True)
            if cond > 1e6: ctx.cov['tie_excluded'] += 1; continue
            vs = max([abs(float(undy(tb['c00'][v][v]))) for v in range(nvar)] + [1e-30])
            kA = {'est': vec_d(est), 'std': vec_d(std)}
            if err or len(kA['est']) != nvar or len(kA['std']) != nvar:
                ctx.violation('KrigingCalcul:xvalid-refused:' + site, 'setXvalidUnique refused (err %d) a sample that plain leave-one-out kriging handles' % err, {'case': sx_str(sxc), 'sample': s}); found = True; continue
            d = diff_outputs(kA, tb, nvar, 10 * TOL * max(1., cond), zs, vs, what=('est', 'std'))
            if d: ctx.violation('KrigingCalcul:xvalid-vs-leave-one-out:' + site, 'sample %d: setXvalidUnique vs kriging without the sample: %s' % (s, d), {'case': sx_str(sxc), 'sample': s}); found = True
        return found
    (okS, S), K = res
    if not okS: return False
    name = 'colcok' if sub == 1 else 'bayes'
    if sub == 1: zs = max(zs, max([abs(float(x)) for col in py['sec'] for x in col if x is not None] + [1.]))
    if sub == 2: zs = max(zs, max([abs(float(x)) for x in py['pm']] + [1.]) * 50)
    for it, (srec, krec) in enumerate(zip(S, K)):
        if not krec: continue
        est, std, varz, lhs = srec
        s = {'est': vec_d(est), 'std': vec_d(std), 'varz': vec_d(varz)}
        if s['est'][0] is None: continue
        cond = c01.cond_number(mat_d(lhs)) if lhs else 1.0
        ctx.count('p9:%s:%s:%d' % (name, sx_str(sxc)[:1200], it), True)
        if cond > 1e6: ctx.cov['tie_excluded'] += 1; continue
        err, kest, kstd, kvarz = krec[:4]
        kA = {'est': vec_d(kest), 'std': vec_d(kstd), 'varz': vec_d(kvarz)}
        if err or len(kA['est']) != nvar:
            ctx.violation('KrigingCalcul:%s-refused:%s' % (name, site), 'KrigingCalcul refuses (err %d) what KrigingSystem solves' % err, {'case': sx_str(sxc), 'target': it}); found = True; continue
        vs = max([abs(float(x)) for x in s['std'] if x is not None] + [1e-3]) ** 2 + 1
        what = ('est', 'std') if sub == 2 else ('est', 'std', 'varz')
        if len(kA['std']) != nvar: kA['std'] = [None] * nvar
        if len(kA['varz']) != nvar: kA['varz'] = [None] * nvar
        tol = 10 * TOL * max(1., cond)
        d = diff_outputs(kA, s, nvar, tol, zs, vs, what=what)
        if not d: continue
        found = True
        if sub == 1:
            # the collocated option of KrigingSystem equals cokriging of the augmented data set (pair 6): it is the reference
            sk = py['model']['order'] < 0
            if d.startswith('est'): key = 'KrigingCalcul:colcok-estimate:' + site
            else: key = 'KrigingCalcul:colcok-variance:' + ('SK' if sk else 'UK')
            ctx.violation(key, 'target %d: %s (KrigingCalcul.setColCokUnique vs collocated cokriging of KrigingSystem = cokriging of the augmented data)' % (it, d), {'case': sx_str(sxc), 'target': it})
            continue
        # Bayes: decide with the definition, evaluated exactly on the matrices given to KrigingCalcul
        ref = bayes_reference(*[mat_d(x[2]) for x in krec[4:9]], vec_d(krec[9]), py['pm'], py['pd'])
        if ref is None: continue
        R = {'est': ref[0], 'std': [Fraction(max(float(v), 0.)).limit_denominator(10**12) ** 1 for v in ref[1]]}
        R['std'] = [Fraction(math.sqrt(max(float(v), 0.))) for v in ref[1]]
        dk = diff_outputs(kA, R, nvar, tol, zs, vs, what=('est', 'std')); ds = diff_outputs(s, R, nvar, tol, zs, vs, what=('est', 'std'))
        # classes of the known kribayes defects (fixes/C04_8.patch, not applied): at least two drift equations (order >= 1 or several
        # variables); one drift equation with a selection.  Anything else ('basic') is a fresh violation.
        nfeq = len(py['pm'])
        cause = 'several-drift-equations' if nfeq > 1 else ('selection' if py['dbin'].get('sel') and not all(py['dbin']['sel']) else 'basic')
        if ds and not dk:
            ctx.violation('kribayes:' + cause, 'target %d: kribayes (KrigingSystem) deviates from Bayesian kriging evaluated exactly (%s) while KrigingCalcul.setBayes agrees with it' % (it, ds),
                          {'case': sx_str(sxc), 'target': it})
        elif dk and not ds:
            ctx.violation('KrigingCalcul:bayes:' + site, 'target %d: KrigingCalcul.setBayes deviates from Bayesian kriging evaluated exactly (%s) while kribayes agrees with it' % (it, dk), {'case': sx_str(sxc), 'target': it})
        else:
            ctx.violation('bayes:both-paths:' + site, 'target %d: both deviate from the definition: KrigingCalcul %s; kribayes %s' % (it, dk, ds), {'case': sx_str(sxc), 'target': it})
    return found

# ============================================================================================== pair 10: drift matrix vs drift values
def gen_driftmat(ctx, k):
    rng = ctx.rng
    ndim = rng.choice([1, 2, 2, 3]); nvar = rng.choice([1, 2, 2, 3]); order = rng.choice([0, 1, 1, 2]); nfex = rng.choice([0, 0, 1, 2])
    n = rng.randint(2, 9)
    db = gen_db(rng, ndim, nvar, n, nfex, p_na=rng.choice([0., .25]), with_verr=rng.random() < .3, with_sel=rng.random() < .4)
    if db['verr']: db['verr'] = [[rng.choice([0, F(1, 4), 1, None, F(-1, 2)]) for _ in range(n)] for _ in range(nvar)]
    model = gen_model(rng, ndim, nvar, order=order, nfex=nfex)
    ivar0 = rng.choice([-1, -1] + list(range(nvar)))
    nbgh = [] if rng.random() < .5 else ([i for i in range(n) if rng.random() < .7] or [0])
    if nbgh and rng.random() < .4: rng.shuffle(nbgh)
    py = {'mode': 10, 'ndim': ndim, 'nvar': nvar, 'db1': db, 'model': model, 'ivar0': ivar0, 'nbgh1': nbgh}
    sxc = [10, ndim, nvar, db_sx(db), model_sx(model), ivar0, nbgh]
    ctx.dist('p10:order%d+fex%d' % (order, nfex))
    return py, sxc

def compare_driftmat(ctx, py, sxc, res, mo):
    MLHS, MRHS, nfeq, pw = res
    found = False
    for name, M, lay in (('LHS', MLHS, mo[1][0]), ('RHS', MRHS, mo[0][0])):
        nr, nc, rows = full_d(M)
        ctx.count('p10:%s:%s' % (name, sx_str(sxc)[:1200]), nr > 0)
        lay = [tuple(x) for x in lay]
        if nr != len(lay) and not (nr == 0 and len(lay) == 0):
            ctx.violation('model-drift:driftmat-layout:' + name, 'evalDriftMatrix(%s) has %d rows, the model of the active-rank lists %d' % (name, nr, len(lay)), {'case': sx_str(sxc)}, found_input=False); continue
        for i in range(nr):
            v, ie = lay[i]
            for ib in range(nc):
                a = rows[i][ib]; b = undy(pw[ie][v][ib])
                if a != b:
                    ctx.violation('driftmat:value:' + name, 'evalDriftMatrix(%s)[%d][%d] = %r but evalDriftValue(sample %d, variable %d, equation %d) = %r' % (name, i, ib, fl(a), ie, v, ib, fl(b)),
                                  {'case': sx_str(sxc)}); found = True; break
            else: continue
            break
    return found

# ============================================================================================== pair 14: sparse matrix, same Db, non-symmetric layout
def gen_sparse_ns(ctx, k):
    rng = ctx.rng
    ndim = rng.choice([1, 2, 3]); nvar = rng.choice([2, 2, 3]); n = rng.randint(3, 8)
    db = gen_db(rng, ndim, nvar, n, 0, p_na=rng.choice([0., .2]), with_sel=rng.random() < .3)
    if rng.random() < .5: db['verr'] = [[rng.choice([0, F(1, 4), F(1, 2), 1, 2]) for _ in range(n)] for _ in range(nvar)]
    model = gen_model(rng, ndim, nvar, order=-1); model['means'] = []
    r = rng.random()
    if r < .3:       # one variable of rank >= 1 for rows and columns: the symmetric layout, no measurement error
        ivar0 = jvar0 = rng.randrange(1, nvar); nbgh1 = nbgh2 = []; db['verr'] = []
    elif r < .65:
        ivar0, jvar0 = rng.sample(range(nvar), 2); nbgh1 = nbgh2 = []
    else:
        ivar0 = jvar0 = rng.choice([-1, 0]); nbgh1 = []; nbgh2 = sorted(rng.sample(range(n), rng.randint(1, n - 1)))
    py = {'mode': 14, 'ndim': ndim, 'nvar': nvar, 'db1': db, 'db2': None, 'model': model, 'ivar0': ivar0, 'jvar0': jvar0, 'nbgh1': nbgh1, 'nbgh2': nbgh2}
    sxc = [14, ndim, nvar, db_sx(db), model_sx(model), ivar0, jvar0, nbgh1, nbgh2]
    ctx.dist('p14:' + ('verr' if db['verr'] else 'noverr'))
    return py, sxc

def compare_sparse_ns(ctx, py, sxc, res):
    A = full_d(res[0])
    ctx.count('p14:' + sx_str(sxc)[:1500], A[0] > 0)
    if A[0] == 0 or A[1] == 0: return False
    if not res[1]:
        ctx.violation('covmat-sparse:null:nonsquare', 'evalCovMatrixSparse returns no matrix', {'case': sx_str(sxc)}); return True
    nr, nc, M = full_d(res[1])
    smax = max([abs(float(undy(x))) for st in py['model']['structs'] for x in st[4]] + [1e-30]) * len(py['model']['structs'])
    for i in range(A[0]):
        for j in range(A[1]):
            a = float(M[i][j]) if i < nr and j < nc and M[i][j] is not None else 0.
            e = float(A[2][i][j])
            if abs(a - e) > 1e-10 * (smax + abs(e)):
                ctx.violation('covmat-sparse:verr-on-nonsquare-layout', 'evalCovMatrixSparse(db, db) with different variables / sub-lists for rows and columns: [%d][%d] = %r, the rectangular matrix has %r '
                              '(the measurement-error variances are added on (i,i) of a matrix that is not the symmetric one)' % (i, j, a, e), {'case': sx_str(sxc), 'row': i, 'col': j}); return True
    return False

# ============================================================================================== pair 11: per-cell block discretisation
def gen_percell(ctx, k):
    rng = ctx.rng
    py = gen_krig_base(ctx, nfexs=(0,), orders=(-1, 0, 0, 1), dims=(1, 2, 2, 3))
    ndim = py['ndim']
    nx = [rng.randint(1, 3) for _ in range(ndim)]
    dx = [rng.choice([F(1), F(2), F(1, 2), F(5, 4)]) for _ in range(ndim)]
    x0 = [F(rng.randint(-12, 12), 2) + F(1, 16) for _ in range(ndim)]
    ndiscs = [rng.choice([1, 2, 3]) for _ in range(ndim)]
    neigh = [0] if rng.random() < .6 else [1, 1, rng.choice([4, 6, py['dbin']['n']]), dy(None)]
    ncell = 1
    for v in nx: ncell *= v
    blex = [[rng.choice([F(1), F(2), F(1, 2), F(5, 4), F(3)]) for _ in range(ndim)] for _ in range(ncell)]     # extension of every cell
    py.update({'mode': 11, 'grid': (nx, dx, x0), 'neigh': neigh, 'ndiscs': ndiscs, 'blex': blex})
    sxc = [11, ndim, py['nvar'], db_sx(py['dbin']), [nx, [dy(x) for x in dx], [dy(x) for x in x0]], model_sx(py['model']), neigh, ndiscs, [[dy(x) for x in b] for b in blex]]
    ctx.dist('p11:' + krig_site(py))
    return py, sxc

def compare_percell(ctx, py, sxc, res):
    ones, (okC, Cx) = res
    site = krig_site(py)
    okF = all(o[0] for o in ones); Fx = [o[1][0] for o in ones if o[0]]
    if not okF or not okC:
        if okF != okC: ctx.violation('percell-vs-fixed:setup:' + site, 'isReady: fixed discretisation %s, per-cell %s' % (okF, okC), {'case': sx_str(sxc)}); return True
        return False
    found = False; zs = zscale_of(py); nvar = py['nvar']
    for it, (f, c) in enumerate(zip(Fx, Cx)):
        ctx.count('p11:%s:%d' % (sx_str(sxc)[:1200], it), bool(f[0]))
        if f[0] != c[0]:
            ctx.violation('percell-vs-fixed:neighbourhood:' + site, 'cell %d: neighbourhoods %s vs %s' % (it, f[0], c[0]), {'case': sx_str(sxc), 'target': it}); found = True; continue
        cond = c01.cond_number(mat_d(f[3])) if f[3] else 1.0
        if cond > 1e7: ctx.cov['tie_excluded'] += 1; continue
        a = {'est': vec_d(f[1]), 'std': vec_d(f[2])}; b = {'est': vec_d(c[1]), 'std': vec_d(c[2])}
        vs = max([abs(float(x)) for x in a['std'] if x is not None] + [1e-3]) ** 2 + 1
        d = diff_outputs(a, b, nvar, TOL * max(1., cond), zs, vs, what=('est', 'std'))
        if d: ctx.violation('percell-vs-fixed:' + site, 'cell %d: fixed discretisation on a one-cell grid of the same extension vs per-cell extension: %s' % (it, d), {'case': sx_str(sxc), 'target': it}); found = True
    return found

# ============================================================================================== pair 12: kriging with / without the pre-projection
def gen_optimoff(ctx, k):
    rng = ctx.rng
    py = gen_krig_base(ctx)
    n = py['dbin']['n']
    neigh = [0] if rng.random() < .6 else [1, 1, rng.choice([4, 6, n]), dy(None)]
    py.update({'mode': 12, 'neigh': neigh})
    sxc = [12, py['ndim'], py['nvar'], db_sx(py['dbin']), db_sx(py['dbout']), model_sx(py['model']), neigh]
    ctx.dist('p12:' + krig_site(py) + ('+moving' if neigh[0] else '+unique'))
    return py, sxc

def compare_optimoff(ctx, py, sxc, res, mcases):
    drifts = res[0]
    okA, A = parse_k(res[1]); okB, B = parse_k(res[2], c01dump=True)
    site = krig_site(py) + ('+moving' if py['neigh'][0] else '+unique')
    if not okA or not okB:
        if okA != okB: ctx.violation('optim-vs-plain-kriging:setup:' + site, 'isReady: optimised %s, plain %s' % (okA, okB), {'case': sx_str(sxc)}); return True
        return False
    found = False; zs = zscale_of(py); nvar = py['nvar']
    for a, b in zip(A, B):
        ctx.count('p12:%s:%d' % (sx_str(sxc)[:1200], a['it']), bool(a['nbgh']))
        if a['nbgh'] != b['nbgh']:
            ctx.violation('optim-vs-plain-kriging:neighbourhood:' + site, 'target %d: %s vs %s' % (a['it'], a['nbgh'], b['nbgh']), {'case': sx_str(sxc), 'target': a['it']}); found = True; continue
        cond = cond_of(b)
        if cond > 1e7: ctx.cov['tie_excluded'] += 1; continue
        tol = TOL * max(1., cond)
        vs = max([abs(float(undy(b['var0'][v][v]))) for v in range(nvar)] + [1e-30])
        d = diff_outputs(a, b, nvar, tol, zs, vs)
        if not d and a['wgt'] and b['wgt']:
            WA, WB = mat_d(a['wgt']), mat_d(b['wgt'])
            for i in range(len(WA)):
                for v in range(nvar):
                    if abs(float(WA[i][v]) - float(WB[i][v])) > tol * (1 + abs(float(WB[i][v]))): d = 'weight[%d][var %d]: %.12g vs %.12g' % (i, v, float(WA[i][v]), float(WB[i][v]))
        if d: ctx.violation('optim-vs-plain-kriging:' + site, 'target %d: kriging with pre-projected points vs setOptimEnabled(false): %s' % (a['it'], d), {'case': sx_str(sxc), 'target': a['it']}); found = True
    mcases += model_cases_for(py, drifts, B)
    return found

# ============================================================================================== pair 13: active-rank lists
def gen_ranks(ctx, k):
    rng = ctx.rng
    ndim = rng.choice([1, 2, 3]); nvar = rng.choice([1, 2, 3]); n = rng.randint(1, 8)
    r = rng.random()
    db = gen_db(rng, ndim, nvar if r > .15 else 0, n, 0, p_na=rng.choice([0., .3]), p_coord_na=rng.choice([0., .3]), with_verr=rng.random() < .5, with_sel=rng.random() < .6)
    if r <= .15: db['z'] = []; db['verr'] = []
    if db['verr']: db['verr'] = [[rng.choice([0, F(1, 4), 1, None, F(-1, 2)]) for _ in range(n)] for _ in range(nvar)]
    if db['sel'] and rng.random() < .25: db['sel'] = [False] * n          # everything masked: the lists must be EMPTY, not "all samples"
    ivar0 = rng.choice([-1, -1] + list(range(nvar)))
    nbgh = [] if rng.random() < .5 else ([i for i in range(n) if rng.random() < .7] or [0])
    if nbgh and rng.random() < .4: rng.shuffle(nbgh)
    py = {'mode': 13, 'ndim': ndim, 'nvar': nvar, 'db1': db, 'ivar0': ivar0, 'nbgh1': nbgh}
    sxc = [13, ndim, nvar, db_sx(db), ivar0, nbgh]
    ctx.dist('p13:' + ('all-masked' if db['sel'] and not any(db['sel']) else 'general'))
    return py, sxc

def compare_ranks(ctx, py, sxc, res, mo):
    found = False
    for combo, ((multi, single), model) in enumerate(zip(res, mo)):
        flags = 'useSel=%d,useVerr=%d,useCoord=%d' % (combo & 1, (combo >> 1) & 1, (combo >> 2) & 1)
        ctx.count('p13:%d:%s' % (combo, sx_str(sxc)[:1000]), True)
        if multi != single:
            ctx.violation('ranks:multiple-vs-single', 'getMultipleRanksActive(%s) = %s but variable by variable getRanksActive = %s' % (flags, multi, single), {'case': sx_str(sxc), 'combo': combo}); found = True
        elif multi != model:
            ctx.violation('ranks:vs-definition', 'getMultipleRanksActive(%s) = %s, the definition (filter of the candidate ranks) gives %s' % (flags, multi, model), {'case': sx_str(sxc), 'combo': combo}); found = True
    return found

# ============================================================================================== driver
def pair_site(py):
    m = py['mode']
    if m == 1: return 'covmat:' + covmat_key(py)
    if m == 4: return 'ball:' + ('migrate' if py['sub'] == 0 else 'neigh')
    if m == 10: return 'driftmat'
    if m == 13: return 'ranks'
    if m == 14: return 'covmat-sparse'
    return {2: 'unique-vs-moving', 3: 'xvalid-unique', 5: 'block1-vs-point', 6: 'colcok', 7: 'KrigingCalcul', 8: 'KrigingCalcul-sequence', 9: 'KrigingCalcul-options',
            11: 'percell-vs-fixed', 12: 'optim-vs-plain-kriging'}[m] + ':' + krig_site(py)

def run_pair(ctx, exe, name, cases, compare, crash_found):
    """cases: list of (py, sx); compare(py, sx, result) -> found; a crash loses the rest of the file: rerun the remainder once"""
    found = False
    if cases: ctx.sample({'pair': name, 'site': pair_site(cases[-1][0]), 'case': sx_str(cases[-1][1])[:500]}, 9)
    start = 0
    for attempt in range(40 if name in ('p14', 'p9') else 3):
        cf = write_cases(ctx, '%s_%d' % (name, attempt), [c[1] for c in cases[start:]])
        rc, res = run_impl(ctx, exe, cf, timeout=1500)
        for k, r in enumerate(res):
            py, sxc = cases[start + k]
            if r and r[0] == -997:
                ctx.violation('exception:' + pair_site(py), 'the harness caught an exception on this case', {'case': sx_str(sxc)}); found = True; continue
            found |= bool(compare(py, sxc, r))
        if len(res) >= len(cases) - start: break
        py, sxc = cases[start + len(res)]
        if py['mode'] == 9 and py.get('sub') == 2 and any(x is None for col in py['dbin']['z'] for x in col):
            # known class: heterotopic data only (an abort of kribayes on isotopic data is a fresh 'crash:' violation below)
            ctx.violation('kribayes:heterotopic-abort', 'kribayes (KrigingSystem, Bayesian drift) aborts (rc %s) with heterotopic data: the right-hand side is compressed after '
                          'switching back to the model that holds the drift equations' % rc, {'case': sx_str(sxc)})
        elif py['mode'] == 14 and py['ivar0'] == py['jvar0'] and py['nbgh1'] == py['nbgh2']:
            ctx.violation('covmat-sparse:variable-rank-beyond-zero', 'evalCovMatrixSparse(ivar0 = jvar0 = %d) aborts (rc %s): the C(0) table used by the threshold is dimensioned by the NUMBER of '
                          'variables requested but addressed by their RANK (mat0.setValue(ivar1, jvar2, ...))' % (py['ivar0'], rc), {'case': sx_str(sxc)})
        elif py['mode'] == 14:
            ctx.violation('covmat-sparse:verr-on-nonsquare-layout', 'evalCovMatrixSparse(db, db) with different variables / sub-lists for rows and columns aborts (rc %s): '
                          '_updateCovMatrixSymmetricVerr writes (irow, irow) beyond the number of columns' % rc, {'case': sx_str(sxc)})
        elif py['mode'] == 6:
            # regression key of the repaired defect: KrigingSystem::_lhsCalcul / _rhsCalculPoint addressed the pre-projected points by
            # the neighbourhood rank, which is -1 for the collocated target (ACov::load read _p1As[-1])
            ctx.violation('colcok:segfault-rank-minus-one', 'collocated cokriging through KrigingSystem crashes (rc %s); the collocated target enters the neighbourhood as rank -1, '
                          'which must be addressed as the target point, never as an index of the pre-projected data points' % rc, {'case': sx_str(sxc)})
        else:
            ctx.violation('crash:' + pair_site(py), 'impl crashed (rc %s) on this case' % rc, {'case': sx_str(sxc)})
        found = True
        start += len(res) + 1
        if start >= len(cases): break
    return found

def run(ctx):
    only = [int(x) for x in os.environ.get('VERIF_C04_ONLY', '').split(',') if x]
    build_lib(ctx)
    nocoq = os.environ.get('VERIF_C04_NOCOQ') == '1'
    proofs_ok = True if nocoq else coq_properties(ctx)
    exe = build_harness(ctx, 'C04')
    if exe is None:
        print('ERROR: harness does not build'); sys.exit(3)
    runner01 = None if nocoq else build_runner(ctx, 'C01')
    if not nocoq and runner01 is None:
        print('ERROR: C01 model runner does not build'); sys.exit(3)
    found_input = False
    q = ctx.quick()
    mult = float(os.environ['VERIF_C04_MULT']) if 'VERIF_C04_MULT' in os.environ else (1 if q else 10)   # dev knob: 0 = corpus only
    mcases = []    # (C01 model case, (py, harness record)) collected by the kriging pairs
    def on(m): return not only or m in only
    if on(1):
        cases = [gen_covmat(ctx, k) for k in range(int(400 * mult))]
        cases = corpus_cases(1) + cases     # corpus first (minimised cases kept from earlier failures)
        impl_res = {}
        found_input |= run_pair(ctx, exe, 'p1', cases, lambda py, sxc, r: impl_res.__setitem__(id(sxc), r), None)
        runner = None if nocoq else build_runner(ctx)
        if not nocoq and runner is None:
            print('ERROR: C04 model runner does not build'); sys.exit(3)
        done = [(py, sxc, impl_res[id(sxc)]) for py, sxc in cases if id(sxc) in impl_res]
        models = [None] * len(done)
        if runner is not None:
            mf = write_cases(ctx, 'model', [[sxc[1], sxc[2], sxc[3], sxc[4], r[8], sxc[6], sxc[7], sxc[8], sxc[9]] for py, sxc, r in done])
            rcm, models = run_model(ctx, runner, mf)
            if len(models) != len(done):
                print('ERROR: C04 model runner returned %d results for %d cases' % (len(models), len(done))); sys.exit(3)
        for (py, sxc, r), mo in zip(done, models):
            if mo is not None and mo and mo[0] == -999:
                print('ERROR: C04 model rejected a case: %s' % sx_str(sxc)[:300]); sys.exit(3)
            found_input |= compare_covmat(ctx, py, sxc, r, mo)
            if mo is not None: compare_projection(ctx, py, sxc, r, mo)
        ctx.log('pair 1 (covariance matrices): %d cases' % len(cases))
    if on(2):
        cases = [gen_unique_moving(ctx, k) for k in range(int(120 * mult))]
        cases = corpus_cases(2) + cases
        found_input |= run_pair(ctx, exe, 'p2', cases, lambda py, sxc, r: compare_unique_moving(ctx, py, sxc, r, mcases), None)
        ctx.log('pair 2 (unique vs wide moving): %d cases' % len(cases))
    if on(3):
        cases = [gen_xvalid(ctx, k) for k in range(int(100 * mult))]
        cases = corpus_cases(3) + cases
        found_input |= run_pair(ctx, exe, 'p3', cases, lambda py, sxc, r: compare_xvalid(ctx, py, sxc, r, mcases), None)
        ctx.log('pair 3 (xvalid shortcut vs leave-one-out): %d cases' % len(cases))
    if on(4):
        cases = [gen_migrate(ctx, k) for k in range(int(200 * mult))]
        cases = corpus_cases(4, 0) + cases
        found_input |= run_pair(ctx, exe, 'p4m', cases, lambda py, sxc, r: compare_migrate(ctx, py, sxc, r), None)
        cases2 = [gen_ballneigh(ctx, k) for k in range(int(150 * mult))]
        cases2 = corpus_cases(4, 1) + cases2
        found_input |= run_pair(ctx, exe, 'p4n', cases2, lambda py, sxc, r: compare_ballneigh(ctx, py, sxc, r), None)
        ctx.log('pair 4 (ball tree vs exhaustive): %d + %d cases' % (len(cases), len(cases2)))
    if on(5):
        cases = [gen_block1(ctx, k) for k in range(int(100 * mult))]
        cases = corpus_cases(5) + cases
        found_input |= run_pair(ctx, exe, 'p5', cases, lambda py, sxc, r: compare_block1(ctx, py, sxc, r, mcases), None)
        ctx.log('pair 5 (block with one point vs point): %d cases' % len(cases))
    if on(6):
        cases = [gen_colcok(ctx, k) for k in range(int(40 * mult))]
        cases = corpus_cases(6) + cases
        found_input |= run_pair(ctx, exe, 'p6', cases, lambda py, sxc, r: compare_colcok(ctx, py, sxc, r, mcases), None)
        ctx.log('pair 6 (collocated cokriging): %d cases' % len(cases))
    if on(7):
        cases = [gen_calcul(ctx, k) for k in range(int(120 * mult))]
        cases = corpus_cases(7) + cases
        found_input |= run_pair(ctx, exe, 'p7', cases, lambda py, sxc, r: compare_calcul(ctx, py, sxc, r, mcases), None)
        ctx.log('pair 7 (KrigingCalcul vs KrigingSystem): %d cases' % len(cases))
    if on(8):
        cases = [gen_kcseq(ctx, k) for k in range(int(120 * mult))]
        cases = corpus_cases(8) + cases
        found_input |= run_pair(ctx, exe, 'p8', cases, lambda py, sxc, r: compare_kcseq(ctx, py, sxc, r), None)
        ctx.log('pair 8 (KrigingCalcul sequences on one object vs fresh objects): %d cases' % len(cases))
    if on(9):
        cases = [gen_kcopt(ctx, k) for k in range(int(90 * mult))]
        cases = corpus_cases(9) + cases
        found_input |= run_pair(ctx, exe, 'p9', cases, lambda py, sxc, r: compare_kcopt(ctx, py, sxc, r), None)
        ctx.log('pair 9 (KrigingCalcul xvalid / collocated / Bayes vs KrigingSystem): %d cases' % len(cases))
    if on(14):
        cases = [gen_sparse_ns(ctx, k) for k in range(int(60 * mult))]
        cases = corpus_cases(14) + cases
        found_input |= run_pair(ctx, exe, 'p14', cases, lambda py, sxc, r: compare_sparse_ns(ctx, py, sxc, r), None)
        ctx.log('pair 14 (sparse covariance matrix on a non-symmetric same-Db layout): %d cases' % len(cases))
    if on(11):
        cases = [gen_percell(ctx, k) for k in range(int(60 * mult))]
        cases = corpus_cases(11) + cases
        found_input |= run_pair(ctx, exe, 'p11', cases, lambda py, sxc, r: compare_percell(ctx, py, sxc, r), None)
        ctx.log('pair 11 (per-cell block discretisation vs fixed): %d cases' % len(cases))
    if on(12):
        cases = [gen_optimoff(ctx, k) for k in range(int(80 * mult))]
        cases = corpus_cases(12) + cases
        found_input |= run_pair(ctx, exe, 'p12', cases, lambda py, sxc, r: compare_optimoff(ctx, py, sxc, r, mcases), None)
        ctx.log('pair 12 (kriging with vs without pre-projected points): %d cases' % len(cases))
    for mode, gen, cmp_, nb, label in ((10, gen_driftmat, compare_driftmat, 120, 'pair 10 (drift matrix vs drift values)'),
                                       (13, gen_ranks, compare_ranks, 250, 'pair 13 (active-rank lists vs definition)')):
        if not on(mode): continue
        cases = corpus_cases(mode) + [gen(ctx, k) for k in range(int(nb * mult))]
        impl_res = {}
        found_input |= run_pair(ctx, exe, 'p%d' % mode, cases, lambda py, sxc, r: impl_res.__setitem__(id(sxc), r), None)
        runner = None if nocoq else build_runner(ctx)
        if runner is None: continue
        done = [(py, sxc, impl_res[id(sxc)]) for py, sxc in cases if id(sxc) in impl_res]
        if mode == 10: mcs = [[sxc[1], sxc[2], sxc[3], [], [], sxc[5], -1, sxc[6], []] for py, sxc, r in done]
        else: mcs = [[13, sxc[2], sxc[3], sxc[4], sxc[5]] for py, sxc, r in done]
        mf = write_cases(ctx, 'model%d' % mode, mcs)
        rcm, models = run_model(ctx, runner, mf)
        if len(models) != len(done):
            print('ERROR: C04 model runner returned %d results for %d cases (mode %d)' % (len(models), len(done), mode)); sys.exit(3)
        for (py, sxc, r), mo in zip(done, models):
            if mo and mo[0] == -999:
                print('ERROR: C04 model rejected a case: %s' % sx_str(sxc)[:300]); sys.exit(3)
            found_input |= cmp_(ctx, py, sxc, r, mo)
        ctx.log('%s: %d cases' % (label, len(cases)))
    # ---------------- the exact kriging model of C01 on the reference runs of the kriging pairs
    if runner01 is not None and mcases:
        mf = write_cases(ctx, 'model01', [m[0] for m in mcases])
        rcm, model = run_model(ctx, runner01, mf)
        if len(model) != len(mcases):
            print('ERROR: C01 model runner returned %d results for %d cases' % (len(model), len(mcases))); sys.exit(3)
        for (mc, (py, t)), mo in zip(mcases, model):
            if mo and mo[0] == -999:
                print('ERROR: C01 model rejected a case'); sys.exit(3)
            if mo[0] == 0:
                # the exact model finds no solvable system (too few data, undefined target drift, singular matrix): what impl
                # returns then is C01's subject; both paths of the pair have been compared above
                ctx.dist('m01:not-solvable-for-the-model'); ctx.cov['tie_excluded'] += 1; continue
            kind, text = c01.compare_target(ctx, py, t, mo)
            if kind == 'excluded': ctx.cov['tie_excluded'] += 1; continue
            ctx.count('m01:' + sx_str(mc)[:1500])
            if kind and kind.startswith('output'):
                ctx.violation('impl-vs-system:' + c01.site_key(py), text, {'model_case': sx_str(mc), 'target': t['it']}); found_input = True
            elif kind == 'internal':
                ctx.violation('model-drift:' + c01.site_key(py), text, {'model_case': sx_str(mc), 'target': t['it']}, found_input=False)
        ctx.log('C01 exact model on %d reference systems' % len(mcases))
    ctx.cov['trusted_base'] += ['the runner of C01 (coq/C01/Run.v) for the exact kriging system of the reference runs',
                                'point-wise covariance values Model::eval harvested from the implementation (the covariance function itself is C03\'s subject)']
    ctx.cov['rule'] = ('one evaluation = one comparison of the two implementation paths of a pair on one generated case (pair 1: one matrix pair, rectangular or '
                       'symmetric; kriging pairs: one target or one cross-validated sample; pair 4: one target), plus one per reference kriging system replayed on the '
                       'exact model of C01; distinct = distinct (case text, target); non-trivial = the compared object exists (non-empty matrix / neighbourhood) and, for '
                       'kriging, condition number <= 1e7 (others, and ties of nearest-point decisions, are counted as tie_excluded)')
    ctx.assumptions = [
        'pair 1: the correlation of a structure is an arbitrary function of the squared anisotropic distance (Section variable, hypothesis: compatible with ==); '
        'values are checked against the point-wise Model::eval harvested on exactly the pairs used; nbgh indices are valid sample ranks; coordinates are defined',
        'pair 2: one sector, no extra checker, no cross-validation, radius >= every distance (or no radius), nmaxi >= number of samples, nmini <= number of usable samples',
        'pair 3: monovariate (the shortcut only handles variable 0); B_ii <> 0; the cross-validated sample has defined coordinates and external drifts',
        'pair 4: ties of distances excluded; neighbourhood comparison only in 2-D (BiTargetCheckDistance without coefficients measures exactly two coordinates: 1-D / 3-D are C06 findings), '
        'no mask, no undefined value, one sector, nmini <= nmaxi <= number of samples (premises of C04_ball_moving)',
        'pair 5: estimate, weights and Var(Z*) compared; the estimation variance only through stdev^2 - C(target,target), because _covCvvCalcul uses a randomised second discretisation',
        'pair 6: targets do not coincide with a datum (the option is then ignored by design); compared in unique and in wide moving neighbourhoods',
        'pair 7: covariance / drift matrices built with the Model API on data without undefined coordinates or external drifts (same equation set as KrigingSystem); fresh objects only '
        '(cache invalidation belongs to C10)',
        'pair 8: the reference of a sequence is a fresh KrigingCalcul on which the same setters are replayed without intermediate getter (values must be identical up to 1e-9)',
        'pair 9: setXvalidUnique cross-validates ALL the variables of an isotopic sample, compared with KrigingSystem on the data without the sample; setColCokUnique against the '
        'collocated option of KrigingSystem (= augmented data, pair 6); setBayes and kribayes both against Bayesian kriging evaluated exactly (Fractions) on the matrices given to KrigingCalcul',
        'pairs 1/14: evalCovMatrixSparse compared with threshold 0 and with the default threshold (cells within 1e-9 of the threshold skipped); same Db with different row/column '
        'equations, or a single variable of rank >= 1, are separate regimes (pair 14)',
        'pair 11: per-cell extensions (BLEX) against one fixed-discretisation run per cell on a one-cell grid of the same extension (same seed of the randomised second discretisation)',
        'pair 12: CovAniso::setOptimEnabled(false) on every structure is the plain path of KrigingSystem (KrigingSystem::_optimEnabled is declared but never read: there is no other switch)',
        'pair 13: the reference lists are the Coq model multiple_ranks_c (filter of the candidate ranks); includes all-masked data bases and undefined coordinates',
        'round-off tolerance 1e-9 x condition number of the kriging matrix (inf-norm), as in C01']
    ctx.notes = ['not covered: krigingFactors (no alternative path found), PrecisionOp*::evalDerivOptim / gradYQXOptim and TurboOptimizer (SPDE: C15), GeometryHelper::isInSphericalTriangleOptimized; neighbourhood memo reuse (_checkUnchanged); '
                 'image neighbourhood; non-stationary models (the optimised path is disabled for them); undefined coordinates (C05)',
                 'fixed defects kept as regression cases in corpus/C04.sx: colcok:segfault-rank-minus-one, xvalid-unique:undefined-external-drift, migrate:ball:dmax-tested-after-nearest, '
                 'migrate:ball:masked-source, KrigingCalcul:getLambda-null-in-primal, KrigingCalcul:primal-SK-mean-not-added, covmat-sparse:variable-rank-beyond-zero, '
                 'covmat-sparse:verr-on-nonsquare-layout, KrigingCalcul:colcok-variance:SK',
                 'known findings (fixes/C04_8.patch not applied because it changes the reference output of test_Schur_cmp): kribayes:several-drift-equations, kribayes:selection, '
                 'kribayes:heterotopic-abort; only inputs of exactly those classes map to these keys']
    if not proofs_ok: proof_break_violation(ctx, found_input)

if __name__ == '__main__':
    main(run)

"""C01 — kriging output = solution of the documented (co)kriging system. Theorems of coq/C01 + correspondence of
KrigingSystem (system, weights, estimate, stdev, varZ) against the exact model fed with the implementation's own
covariance-function values."""
import sys, os
sys.path.insert(0, os.path.dirname(__file__))
from common import *
from kriggen import *

TOL = 1e-9

def gen_cases(ctx, ncase):
    rng = ctx.rng
    cases = []
    for ic in range(ncase):
        ndim = rng.choice([1, 2, 2, 3]); nvar = rng.choice([1, 1, 2, 2, 3])
        order = rng.choice([-1, -1, 0, 0, 1, 1, 2])
        nfex = rng.choice([0, 0, 1, 2]) if order >= 0 else 0
        nmin = nvar * (monomials(ndim, order) + nfex) + 2
        lo = max(3, (nmin + nvar - 1) // nvar + 1)
        n = rng.randint(lo, max(lo + 2, 14 if ctx.quick() else 25))
        hetero = rng.random() < .5
        force_cont = (ic % 5 == 4)     # a fifth of the cases: continuous moving neighbourhood with error variances and clustered targets
        dbin = gen_db(rng, ndim, nvar, n, nfex, p_na=(0.25 if hetero else 0.0), p_coord_na=(0.08 if rng.random() < .3 else 0.0),
                      with_verr=force_cont or rng.random() < .3, with_sel=rng.random() < .25)
        calcul = [0] if (force_cont or rng.random() < .75) else [1] + [rng.choice([1, 2, 3, 4]) for _ in range(ndim)]
        if calcul[0] == 1 and nfex > 0: calcul = [0]     # block kriging needs a grid target (no external drift column there)
        m = 5
        if calcul[0] == 1:
            dbout = gen_grid_db(rng, ndim); m = dbout['n']
        else:
            dbout = gen_db(rng, ndim, 0, m, nfex, p_na=0.3 if rng.random() < .3 else 0.0)
        dbout['z'] = []; dbout['verr'] = []
        # one target coincides with a datum
        k = rng.randrange(n)
        if calcul[0] == 0 and all(dbin['coords'][d][k] is not None for d in range(ndim)):
            for d in range(ndim): dbout['coords'][d][0] = dbin['coords'][d][k]
        model = gen_model(rng, ndim, nvar, order=order, nfex=nfex)
        if force_cont:
            # targets close to one another: consecutive targets share their neighbours while their distances to them differ
            for d in range(ndim):
                base = dbout['coords'][d][1]
                for j in range(2, m): dbout['coords'][d][j] = base + Fraction(rng.randint(-8, 8), 8)
        if rng.random() < .65 and not force_cont: neigh = [0]
        else:
            neigh = [1, rng.choice([1, 2, 3]), rng.choice([4, 6, 8, n]), dy(rng.choice([20, 40, 1000]))]
            if dbin['verr'] and (force_cont or rng.random() < .6):   # continuous moving neighbourhood (only acts when error variances are declared)
                neigh.append(dy(rng.choice([Fraction(1, 4), Fraction(1, 2), Fraction(3, 4)])))
                if neigh[3] == dy(1000): neigh[3] = dy(rng.choice([30, 60]))
        py = {'ndim': ndim, 'nvar': nvar, 'dbin': dbin, 'dbout': dbout, 'model': model, 'neigh': neigh, 'calcul': calcul}
        cases.append((py, kriging_case(ndim, nvar, dbin, dbout, model, neigh, calcul, list(range(m)))))
        ctx.dist('ndim%d' % ndim); ctx.dist('nvar%d' % nvar); ctx.dist('order%d' % order); ctx.dist('nfex%d' % nfex)
        ctx.dist('hetero' if hetero else 'isotopic'); ctx.dist('neigh_' + ('unique' if neigh[0] == 0 else 'moving'))
        ctx.dist('block' if calcul[0] else 'point'); ctx.dist('verr' if dbin['verr'] else 'noverr')
        if neigh[0] and len(neigh) > 4: ctx.dist('continuous')
    return cases

def mat_q(M): return [[unq(x) for x in r] for r in M]
def mat_d(M): return [[undy(x) for x in r] for r in M]

def compare_target(ctx, py, t, mo, what_prefix=''):
    """returns (kind, text): kind None = agree; 'output' = impl output differs from the solution of the documented system;
    'internal' = only internals differ; 'excluded' = ill-conditioned"""
    nvar = py['nvar']
    est = [undy(x) for x in t['est']]; std = [undy(x) for x in t['std']]; varz = [undy(x) for x in t['varz']]
    if mo[0] == 0:
        # model: not authorized / singular / undefined target drift => every output undefined
        if any(x is not None for x in est + std + varz):
            reason = {1: 'not-authorized', 2: 'target-drift-undefined', 3: 'singular-system'}.get(mo[3], '?')
            return 'output:' + reason, 'model says the system is not solvable or the target drift is undefined (all outputs must be undefined) but impl returns est=%s std=%s' % (est, std)
        return None, ''
    _, nred, active, lhs, rhs, wgt, zam, mest, mvar, mvarz = mo
    cond = cond_number(mat_q(lhs))
    if cond > 1e7: return 'excluded', ''
    tol = TOL * max(1.0, cond)
    zs = [abs(x) for col in py['dbin']['z'] for x in col if x is not None] + [abs(x) for x in py['model']['means']] + [1]
    zscale = float(max(zs))
    c00 = mat_d(t['c00']); vscale = max([abs(float(c00[v][v])) for v in range(nvar)] + [1e-30])
    block = py['calcul'][0] == 1
    msgs = []
    for v in range(nvar):
        me = float(unq(mest[v]))
        if est[v] is None or abs(float(est[v]) - me) > tol * (zscale + abs(me)):
            msgs.append('estimate[var %d]: impl %s, system solution %.12g' % (v, est[v] if est[v] is None else float(est[v]), me))
        if True:
            mvq = unq(mvar[v])
            if block and t.get('cvv'):
                # block variance: the model gives C00_point - r.w ; replace the point term by the exact mean of the covariances
                # between the two sets of discretisation points the code uses (regular x randomised), harvested pair by pair
                cvv = sum(undy(M[v][v]) for M in t['cvv']) / len(t['cvv'])
                mvq = mvq - undy(t['c00'][v][v]) + cvv
            mv = max(float(mvq), 0.0)
            if std[v] is None or abs(float(std[v]) ** 2 - mv) > 10 * tol * vscale:
                msgs.append('stdev^2[var %d]: impl %s, documented C00 - lambda.Sigma0 + mu.X0 = %.12g' % (v, None if std[v] is None else float(std[v]) ** 2, mv))
        mz = float(unq(mvarz[v]))
        if varz[v] is None or abs(float(varz[v]) - mz) > 10 * tol * vscale:
            msgs.append('varZ[var %d]: impl %s, model %.12g' % (v, varz[v] if varz[v] is None else float(varz[v]), mz))
    if msgs: return 'output', '; '.join(msgs)
    # internals
    if t['nred'] != nred: return 'internal', 'nred impl %d model %d' % (t['nred'], nred)
    if t['wgt']:
        W = mat_d(t['wgt']); MW = mat_q(wgt)
        for i in range(nred):
            for v in range(nvar):
                if abs(float(W[i][v]) - float(MW[i][v])) > tol * (1 + abs(float(MW[i][v]))):
                    return 'output', 'weight[%d][var %d]: impl %.12g, system solution %.12g' % (i, v, float(W[i][v]), float(MW[i][v]))
    if t['lhs']:
        A = mat_d(t['lhs']); MA = mat_q(lhs)
        for i in range(nred):
            for j in range(nred):
                if abs(float(A[i][j]) - float(MA[i][j])) > 1e-11 * (vscale + abs(float(MA[i][j]))):
                    return 'internal', 'lhs[%d][%d]: impl %.12g model %.12g' % (i, j, float(A[i][j]), float(MA[i][j]))
        R = mat_d(t['rhs']); MR = mat_q(rhs)
        for i in range(nred):
            for v in range(nvar):
                if abs(float(R[i][v]) - float(MR[i][v])) > 1e-11 * (vscale + abs(float(MR[i][v]))):
                    return 'internal', 'rhs[%d][%d]: impl %.12g model %.12g' % (i, v, float(R[i][v]), float(MR[i][v]))
    return None, ''

def check_oracle(py, t):
    """the covariance values harvested from Model::eval against the definition (nested structures, anisotropy, rotation), in floats"""
    ndim, nvar, model = py['ndim'], py['nvar'], py['model']
    scale = sum(abs(float(undy(x))) for st in model['structs'] for x in st[4]) + 1e-30
    X = lambda r: [py['dbin']['coords'][d][r] for d in range(ndim)]
    x0 = [py['dbout']['coords'][d][t['it']] for d in range(ndim)]
    def cmp(M, d, what):
        ref = cov_reference(model, ndim, nvar, [float(x) for x in d])
        for a in range(nvar):
            for b in range(nvar):
                v = float(undy(M[a][b]))
                if abs(v - ref[a][b]) > 1e-9 * scale:
                    return '%s, increment %s, variables (%d,%d): Model::eval gives %.12g, the definition %.12g' % (what, [float(x) for x in d], a, b, v, ref[a][b])
        return None
    nb = t['nbgh']
    for i in range(len(nb)):
        xi = X(nb[i])
        if any(x is None for x in xi): continue
        for j in range(i + 1):
            xj = X(nb[j])
            if any(x is None for x in xj): continue
            r = cmp(t['clhs'][i][j], [a - b for a, b in zip(xi, xj)], 'data-data')
            if r: return r
        if py['calcul'][0] == 0 and not any(x is None for x in x0):
            r = cmp(t['crhs'][i][0], [a - b for a, b in zip(xi, x0)], 'data-target')
            if r: return r
    return cmp(t['c00'], [0] * ndim, 'target-target')

def check_discretisation(py, t):
    """block kriging: the first set of discretisation points must be the regular nd_1 x ... x nd_k discretisation of the cell
    (centres of the sub-cells, each exactly once), the second one a point of each sub-cell; computed here from the definition,
    independently of DbGrid::getDiscretizedBlock"""
    if py['calcul'][0] != 1 or not t.get('discs'): return None
    ndim = py['ndim']; nds = py['calcul'][1:]; dx = [Fraction(x) for x in py['dbout']['grid']['dx']]
    import itertools
    expect = sorted(tuple(dx[d] * (Fraction(2 * j[d] + 1, 2 * nds[d]) - Fraction(1, 2)) for d in range(ndim))
                    for j in itertools.product(*[range(n) for n in nds]))
    d1 = [tuple(undy(x) for x in v) for v in t['discs'][0]]; d2 = [tuple(undy(x) for x in v) for v in t['discs'][1]]
    if len(d1) != len(expect): return 'the first set holds %d points, the regular discretisation %s has %d' % (len(d1), nds, len(expect))
    got = sorted(d1)
    for a, b in zip(got, expect):
        if any(abs(float(x) - float(y)) > 1e-12 * (1 + abs(float(y))) for x, y in zip(a, b)):
            return 'the first set of discretisation points is not the regular %s discretisation of the cell %s: got %s, expected %s' % (
                nds, [float(x) for x in dx], [[float(x) for x in p_] for p_ in got], [[float(x) for x in p_] for p_ in expect])
    # second (randomised) set: one point in each sub-cell
    cells = sorted(tuple(int((float(p_[d]) / float(dx[d]) + 0.5) * nds[d] // 1) for d in range(ndim)) for p_ in d2)
    full = sorted(itertools.product(*[range(n) for n in nds]))
    if cells != full:
        return 'the second (randomised) set does not hold one point per sub-cell of the %s discretisation: sub-cells hit %s' % (nds, cells)
    return None

def cond_number(A):
    """inf-norm condition number of the model's exact LHS, inverse by floating Gauss-Jordan with partial pivoting (tolerance scaling only)"""
    n = len(A)
    M = [[float(x) for x in r] + [1.0 if i == j else 0.0 for j in range(n)] for i, r in enumerate(A)]
    na = max(sum(abs(x) for x in r[:n]) for r in M) if n else 0.0
    for c in range(n):
        p = max(range(c, n), key=lambda r: abs(M[r][c]))
        if abs(M[p][c]) < 1e-300: return float('inf')
        M[c], M[p] = M[p], M[c]
        pv = M[c][c]; M[c] = [x / pv for x in M[c]]
        for r in range(n):
            if r != c and M[r][c] != 0.0:
                f = M[r][c]; M[r] = [x - f * y for x, y in zip(M[r], M[c])]
    ni = max(sum(abs(x) for x in r[n:]) for r in M) if n else 0.0
    return na * ni

def site_key(py):
    k = []
    k.append('UK%d' % py['model']['order'] if py['model']['order'] >= 0 else 'SK')
    if py['model']['nfex']: k.append('fex')
    if py['nvar'] > 1: k.append('multivar')
    if any(x is None for col in py['dbin']['z'] for x in col): k.append('hetero')
    if py['dbin']['verr']: k.append('verr')
    if py['calcul'][0]: k.append('block')
    k.append('moving' if py['neigh'][0] else 'unique')
    if py['neigh'][0] and len(py['neigh']) > 4: k.append('continuous')
    return '+'.join(k)

def run(ctx):
    build_lib(ctx)
    proofs_ok = coq_properties(ctx)
    runner = build_runner(ctx); exe = build_harness(ctx, 'C01')
    if runner is None or exe is None:
        print('ERROR: model runner or harness does not build'); sys.exit(3)
    ncase = 60 if ctx.quick() else 1200
    cases = gen_cases(ctx, ncase)
    cf = write_cases(ctx, 'impl', [c[1] for c in cases])
    rc, impl = run_impl(ctx, exe, cf)
    found_input = False
    mcases = []; mref = []
    for ci, (py, sxc) in enumerate(cases):
        if ci >= len(impl):
            ctx.violation('crash:KrigingSystem:' + site_key(py), 'impl crashed on case %d' % ci, {'case': sx_str(sxc)}); found_input = True; break
        drifts, ok, per = parse_harness(impl[ci])
        if not ok:
            ctx.dist('impl_rejected'); continue
        for t in per:
            if py['dbout'].get('sel') and not py['dbout']['sel'][t['it']]: continue
            if len(t['nbgh']) == 0:
                ctx.dist('empty_neigh'); continue
            mcases.append(model_case(py, drifts, t)); mref.append((ci, py, t))
    mf = write_cases(ctx, 'model', mcases)
    rcm, model = run_model(ctx, runner, mf)
    if len(model) != len(mcases):
        print('ERROR: model runner returned %d results for %d cases' % (len(model), len(mcases))); sys.exit(3)
    nout = nint = 0
    for (ci, py, t), mo, mc in zip(mref, model, mcases):
        if mo and mo[0] == -999:
            print('ERROR: model rejected a case'); sys.exit(3)
        if t.get('alone') is not None:
            # no state may survive from one target to the next: the same target on a fresh system gives the same outputs
            seq = [x for v in range(py['nvar']) for x in (undy(t['est'][v]), undy(t['std'][v]), undy(t['varz'][v]))]
            al = [undy(x) for x in t['alone']]
            def differ(a, b): return (a is None) != (b is None) or (a is not None and abs(float(a) - float(b)) > 1e-9 * (1 + abs(float(b))))
            if len(al) == len(seq) and any(differ(a, b) for a, b in zip(seq, al)):
                nout += 1; found_input = True
                ctx.violation('target-order:' + site_key(py), 'target %d processed after the other targets gives (estimate, stdev, varZ per variable) %s; alone on a fresh system %s' % (t['it'], [None if x is None else float(x) for x in seq], [None if x is None else float(x) for x in al]),
                              {'impl_case': sx_str(cases[ci][1]), 'target': t['it']})
                continue
        dsc = check_discretisation(py, t)
        if dsc:
            nout += 1; found_input = True
            ctx.violation('block-discretisation:' + ('equal' if len(set(py['calcul'][1:])) == 1 else 'unequal') + '-ndiscs:%dD' % py['ndim'],
                          'block kriging does not average over the regular discretisation of the block: ' + dsc, {'impl_case': sx_str(cases[ci][1]), 'target': t['it']})
            continue
        orc = check_oracle(py, t)
        if orc:
            nout += 1; found_input = True
            ctx.violation('covariance:' + '+'.join(sorted(set(['NUGGET', 'SPHERICAL', 'EXPONENTIAL', 'GAUSSIAN', 'CUBIC'][st[0]] for st in py['model']['structs'])))
                          + (':aniso' if any(st[2] for st in py['model']['structs']) else '') + (':rotated' if any(st[3] for st in py['model']['structs']) else '') + ':%dD' % py['ndim'],
                          'the covariance the system is assembled from is not the model\'s: ' + orc, {'impl_case': sx_str(cases[ci][1]), 'target': t['it']})
            continue
        kind, text = compare_target(ctx, py, t, mo)
        if kind == 'excluded':
            ctx.cov['tie_excluded'] += 1; ctx.count(None, False); continue
        ctx.count(sx_str(mc)[:2000]); ctx.dist('solved' if mo[0] == 1 else 'unsolvable')
        ctx.sample({'site': site_key(py), 'target': t['it'], 'nbgh': t['nbgh'], 'impl_est': [None if x is None else float(x) for x in map(undy, t['est'])],
                    'model_est': [float(unq(x)) for x in mo[7]] if mo[0] == 1 else None}, 3)
        if kind and kind.startswith('output:'):
            nout += 1; found_input = True
            ctx.violation('KrigingSystem:' + kind[7:], text, {'impl_case': sx_str(cases[ci][1]), 'target': t['it'], 'model_case': sx_str(mc), 'site': site_key(py)})
        elif kind == 'output':
            nout += 1; found_input = True
            ctx.violation('impl-vs-system:' + site_key(py), text, {'impl_case': sx_str(cases[ci][1]), 'target': t['it'], 'model_case': sx_str(mc)})
        elif kind == 'internal':
            nint += 1
            ctx.violation('model-drift:' + site_key(py), 'outputs agree with the documented system but internals differ: ' + text,
                          {'impl_case': sx_str(cases[ci][1]), 'target': t['it'], 'correspondence': 'coq/C01/Model.v vs KrigingSystem internals'}, found_input=False)
    ctx.cov['disagreements'] = nout + nint
    ctx.cov['rule'] = ('case = (Db, model, neighbourhood, target); 1-3 D, 1-3 variables, heterotopic patterns, undefined coordinates, measurement errors, '
                       'SK/OK/UK order 0-2, external drifts, nested anisotropic rotated structures, unique/moving, point/block; distinct = distinct model case text; '
                       'non-trivial = condition number <= 1e7 (others counted as tie_excluded)')
    if not proofs_ok: proof_break_violation(ctx, found_input)
    ctx.assumptions = ['covariance values enter the Coq model as oracles harvested from Model::eval on exactly the pairs used; each harvested value is also compared, in floats, with the definition sum_s sill_s rho_s(|diag(scadef/range) R d|) evaluated independently in checks/kriggen.py (spherical, exponential, gaussian, cubic, nugget; documented rotation convention); the exact treatment of the covariance functions is C03\'s subject',
                       'round-off tolerance 1e-9 x exact condition number (inf-norm) computed by the model',
                       'block kriging: the block variance term Cvv is the exact mean (computed in checks/C01.py) of the covariance oracle over the pairs of discretisation points the code uses, harvested from KrigingSystem']

if __name__ == '__main__':
    main(run)

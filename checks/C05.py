"""C05 — masked or undefined samples never influence a result.

Theorems of coq/C05 (reduction theorems on the models of C01 / C06 / C12 and on the self-contained models of the
statistics, rank lists, covariance / drift matrices and target loop) + the property itself replayed on the implementation:
every algorithm is run on (Db + selection / undefined values) and on the physically reduced Db, results compared after
re-indexing.  Violation key = algorithm + ':' + kind of masking."""
import sys, os, copy
sys.path.insert(0, os.path.dirname(__file__))
from common import *
from kriggen import gen_locations, gen_model, model_sx, monomials, kriging_case, model_case, parse_harness, COV_NUGGET, COV_SPH, COV_EXP, COV_GAUS, COV_CUBIC

TOL = 1e-9
X, Z, V, F, SEL, W, CODE, DATE, NONE = 1, 2, 3, 4, 5, 6, 7, 8, 0

# ----------------------------------------------------------------------------- python-side Db
class PDb:
    def __init__(self, n): self.n = n; self.cols = []
    def add(self, loc, idx, vals): assert len(vals) == self.n; self.cols.append([loc, idx, list(vals)]); return self
    def col(self, loc, idx=0):
        for c in self.cols:
            if c[0] == loc and c[1] == idx: return c[2]
        return None
    def ncol(self, loc): return sum(1 for c in self.cols if c[0] == loc)
    def copy(self): return copy.deepcopy(self)
    def sub(self, K):
        d = PDb(len(K))
        for c in self.cols: d.cols.append([c[0], c[1], [c[2][i] for i in K]])
        return d
    def drop(self, loc):
        d = self.copy(); d.cols = [c for c in d.cols if c[0] != loc]; return d
    def only_z(self, iv):
        """keep variable iv only (as z1)"""
        d = self.copy(); d.cols = [c for c in d.cols if c[0] != Z or c[1] == iv]
        for c in d.cols:
            if c[0] == Z: c[1] = 0
        return d
    def sx(self, reduce=0):
        return [self.n, [[c[0], c[1], [dy(v) for v in c[2]]] for c in self.cols], reduce]
    def active(self):
        s = self.col(SEL)
        if s is None: return [True] * self.n
        return [(v is not None and v != 0) for v in s]

def parse_dump(d):
    n, cols = d
    return n, [(c[0], c[1], [undy(v) for v in c[2]]) for c in cols]

def close(a, b, scale=1.0, tol=TOL):
    if a is None or b is None: return a is None and b is None
    return abs(a - b) <= tol * (scale + abs(b))

def fl(x): return None if x is None else float(x)

# ----------------------------------------------------------------------------- generators
def gen_points(rng, ndim, nvar, n, nfex=0, hetero=False, keepcol=False):
    P = gen_locations(rng, ndim, n, spread=12)
    db = PDb(n)
    for d in range(ndim): db.add(X, d, [P[i][d] for i in range(n)])
    for v in range(nvar):
        db.add(Z, v, [(None if hetero and rng.random() < .2 else Fraction(rng.randint(-160, 160), 8)) for _ in range(n)])
    for f in range(nfex): db.add(F, f, [Fraction(rng.randint(-40, 40), 4) for _ in range(n)])
    if keepcol: db.add(NONE, 0, [Fraction(rng.randint(-99, 99)) for _ in range(n)])
    return db

def pick_rows(rng, n, lo=1, frac=.35):
    k = max(lo, min(n - 1, int(round(n * frac * rng.random())) + lo))
    return sorted(rng.sample(range(n), k))

MASK_KINDS_DATA = ['selection', 'NA-value', 'undefined-coordinate', 'selection-NA', 'full-selection', 'empty-selection']

def apply_mask(rng, db, kind, rows=None, aux=None):
    """returns (new db, description).  The mask touches only the rows listed (except full/empty selection);
    the description (kind, rows, aux) is enough to apply the same mask again (shrinking)."""
    d = db.copy(); n = d.n
    if rows is None: rows = pick_rows(rng, n)
    def choice(k, m):
        nonlocal aux
        if aux is None or len(aux) <= k: aux = (aux or []) + [rng.randrange(m)]
        return aux[k] % m
    if kind in ('selection', 'selection-NA', 'full-selection', 'empty-selection'):
        sel = d.col(SEL)
        if sel is None: d.add(SEL, 0, [Fraction(1)] * n); sel = d.col(SEL)
        if kind == 'selection':
            for i in rows: sel[i] = Fraction(0)
        elif kind == 'selection-NA':
            for i in rows: sel[i] = None
        elif kind == 'empty-selection':
            for i in range(n): sel[i] = Fraction(0)
    elif kind == 'NA-value':
        for c in d.cols:
            if c[0] == Z:
                for i in rows: c[2][i] = None
    elif kind == 'NA-one-variable':
        iv = choice(0, d.ncol(Z))
        for i in rows: d.col(Z, iv)[i] = None
    elif kind == 'undefined-coordinate':
        nd = d.ncol(X)
        for k, i in enumerate(rows): d.col(X, choice(k, nd))[i] = None
    elif kind == 'undefined-first-coordinate':
        for i in rows: d.col(X, 0)[i] = None
    elif kind == 'undefined-other-coordinate':
        nd = d.ncol(X)
        for k, i in enumerate(rows): d.col(X, 1 + choice(k, nd - 1))[i] = None
    elif kind == 'undefined-fext':
        nf = d.ncol(F)
        for k, i in enumerate(rows): d.col(F, choice(k, nf))[i] = None
    elif kind == 'zero-weight':
        w = d.col(W)
        if w is None: d.add(W, 0, [Fraction(1)] * n); w = d.col(W)
        for i in rows: w[i] = Fraction(0)
    else: raise ValueError(kind)
    return d, {'kind': kind, 'rows': rows, 'aux': aux}

def apply_masks(db, masks):
    for m in masks: db, _ = apply_mask(None, db, m['kind'], m['rows'], m.get('aux'))
    return db

def usable_rows(db, need_coords=True, need_z='any', need_fext=True, need_weight=False):
    act = db.active(); K = []
    nz = db.ncol(Z)
    for i in range(db.n):
        if not act[i]: continue
        if need_coords and any(c[2][i] is None for c in db.cols if c[0] == X): continue
        if need_fext and any(c[2][i] is None for c in db.cols if c[0] == F): continue
        if nz and need_z == 'any' and all(c[2][i] is None for c in db.cols if c[0] == Z): continue
        if need_weight and db.col(W) is not None and db.col(W)[i] == 0: continue
        K.append(i)
    return K

def simple_model(rng, ndim, nvar, order, nfex=0, simu=False):
    m = gen_model(rng, ndim, nvar, allow_nugget=not simu, order=order, nfex=nfex)
    if simu:   # turning bands: no nugget (one draw per point), no gaussian-only oddities
        m['structs'] = [s for s in m['structs'] if s[0] in (COV_SPH, COV_EXP)] or [[COV_SPH, dy(10), [], [], [dy(Fraction(1) if i == j else Fraction(0)) for i in range(nvar) for j in range(nvar)]]]
    return m

# ----------------------------------------------------------------------------- running the harness
class Batch:
    """collects harness cases, runs them in one process, hands the results back by ticket"""
    def __init__(self, ctx, exe, name): self.ctx, self.exe, self.name = ctx, exe, name; self.cases = []; self.res = None
    def add(self, sxc): self.cases.append(sxc); return len(self.cases) - 1
    def run(self):
        """one process for all cases; after a crash the remaining cases are run again in a fresh process"""
        self.res = [None] * len(self.cases); start = 0; part = 0
        while start < len(self.cases):
            cf = write_cases(self.ctx, '%s_%d' % (self.name, part), self.cases[start:])
            rc, res = run_impl(self.ctx, self.exe, cf, timeout=1500)
            for k, r in enumerate(res): self.res[start + k] = r
            if len(res) >= len(self.cases) - start: break
            self.res[start + len(res)] = 'crash'     # the case being processed when the harness died
            start += len(res) + 1; part += 1
    def get(self, k):
        r = self.res[k]
        if r is None or r == 'crash' or (r and r[0] == -997): return 'crash'
        return r

# ----------------------------------------------------------------------------- comparisons of dumps
def new_columns(dump, nold):
    n, cols = parse_dump(dump)
    return n, cols[:nold], cols[nold:]

def compare_rows(full_dump, red_dump, nold_full, nold_red, K, full_in, scale, masked_must_be_na=True, untouched=True, skip_rows=(), sq_cols=()):
    """full_dump: Db with masks (n rows); red_dump: reduced Db (len(K) rows).  Returns list of (subkey, message)."""
    msgs = []
    n, old, new = new_columns(full_dump, nold_full)
    nr, oldr, newr = new_columns(red_dump, nold_red)
    if n != full_in.n or nr != len(K): return [('shape', 'row counts: full %d (expected %d), reduced %d (expected %d)' % (n, full_in.n, nr, len(K)))]
    if len(new) != len(newr): return [('shape', 'number of new variables differs: %d with mask, %d reduced' % (len(new), len(newr)))]
    if untouched:
        for c, cin in zip(old, full_in.cols):
            for i in range(n):
                if c[2][i] != cin[2][i] and not (c[2][i] is None and cin[2][i] is None):
                    msgs.append(('pre-existing-variable-modified', 'pre-existing column (loc %d,%d) row %d changed from %s to %s' % (cin[0], cin[1], i, fl(cin[2][i]), fl(c[2][i]))))
                    break
    Kset = set(K)
    for j, (c, cr) in enumerate(zip(new, newr)):
        for a, i in enumerate(K):
            if i in skip_rows: continue
            x, y = c[2][i], cr[2][a]
            if j in sq_cols and x is not None and y is not None:
                vmax = max([v * v for v in c[2] if v is not None] + [1])
                ok = abs(x * x - y * y) <= TOL * (vmax + y * y)
            else: ok = close(x, y, scale)
            if not ok:
                msgs.append(('value', 'new variable %d at sample %d: %s with the masked/undefined samples present, %s on the reduced Db (row %d)' % (j, i, fl(c[2][i]), fl(cr[2][a]), a)))
                break
    return msgs

# ----------------------------------------------------------------------------- the algorithms
def zscale(db):
    return float(max([abs(v) for c in db.cols if c[0] == Z for v in c[2] if v is not None] + [1]))

def run_kriging(ctx, exe, runner, ncase, found):
    rng = ctx.rng
    B = Batch(ctx, exe, 'krig'); plan = []
    kinds = ['selection', 'NA-value', 'undefined-coordinate', 'undefined-fext', 'selection-NA', 'full-selection', 'empty-selection', 'all-undefined', 'masked-target', 'mixed']
    for ic in range(ncase):
        ndim = rng.choice([1, 2, 2, 3]); nvar = rng.choice([1, 1, 2]); order = rng.choice([-1, 0, 0, 1])
        kind = kinds[ic % len(kinds)]
        nfex = 1 if (kind == 'undefined-fext' or (order >= 0 and rng.random() < .2)) else 0
        if nfex and order < 0: order = 0
        moving = rng.random() < .45
        lo = nvar * (monomials(ndim, order) + nfex) + 6; n = rng.randint(lo, max(lo + 2, 18)); m = 5
        base = gen_points(rng, ndim, nvar, n, nfex, hetero=(nvar == 2 and rng.random() < .5))
        out = gen_points(rng, ndim, 0, m, nfex, keepcol=True)
        # a target on a datum
        for d in range(ndim): out.col(X, d)[0] = base.col(X, d)[0]
        model = simple_model(rng, ndim, nvar, order, nfex)
        neigh = [1, rng.choice([1, 2]), rng.choice([4, 6, 8]), dy(rng.choice([12, 30, 1000]))] if moving else [0]
        masks = []
        full = base
        if kind == 'mixed':
            for k in rng.sample(['selection', 'NA-value', 'undefined-coordinate'] + (['undefined-fext'] if nfex else []), 2):
                full, ds = apply_mask(rng, full, k, pick_rows(rng, n, 1, .2)); masks.append(ds)
        elif kind == 'masked-target': pass
        else:
            full, ds = mask_any(rng, full, kind); masks.append(ds)
        fout = out
        if kind == 'masked-target' or rng.random() < .3:
            fout, ds = apply_mask(rng, out, rng.choice(['selection', 'selection', 'selection-NA', 'empty-selection'])); ds['on'] = 'dbout'; masks.append(ds)
        K = usable_rows(full); KT = [i for i, a in enumerate(fout.active()) if a]
        red = full.sub(K); rout = fout.sub(KT)
        hdr = [1, ndim, nvar]
        tail = [model_sx(model), neigh]
        t_full = B.add(hdr + [full.sx(), fout.sx()] + tail)
        t_red = B.add(hdr + [red.sx(), rout.sx()] + tail) if K and KT else None      # a Db without any sample cannot be built
        # Db::createReduce removes the masked samples only: equivalent whenever the selection is the only mask
        t_cr = B.add(hdr + [full.sx(1), fout.sx(1)] + tail) if K and KT and all(m_['kind'] in ('selection', 'full-selection', 'selection-NA') for m_ in masks) else None
        plan.append({'kind': kind, 'masks': masks, 'full': full, 'fout': fout, 'K': K, 'KT': KT, 't': (t_full, t_red, t_cr), 'neigh': 'moving' if moving else 'unique',
                     'hdr': hdr, 'tail': tail, 'nvar': nvar, 'scale': zscale(base), 'base': base, 'out': out})
    B.run()
    deferred = []; titems = []
    def emit(p, msgs, rep):
        algo = 'kriging-' + p['neigh']
        for sk, m_ in msgs:
            if sk == 'createReduce': key = 'createReduce:' + ('selection-NA' if any(x['kind'] == 'selection-NA' for x in p['masks']) else classify(p, 'value'))
            else: key = algo + ':' + classify(p, sk)
            ctx.violation(key, m_, rep); found[0] = True
    for p in plan:
        algo = 'kriging-' + p['neigh']
        ctx.dist(algo + ':' + p['kind'])
        rf, rr, rc = (B.get(t) if t is not None else None for t in p['t'])
        sxfull = sx_str(B.cases[p['t'][0]]); sxred = sx_str(B.cases[p['t'][1]]) if p['t'][1] is not None else None
        rep = {'with_masks': sxfull, 'reduced': sxred, 'masks': p['masks'], 'kept_data': p['K'], 'kept_targets': p['KT']}
        if rf == 'crash' or rr == 'crash' or rc == 'crash':
            ctx.violation(algo + ':' + classify(p, 'value'), 'the calculation crashes (the harness process died on one of the two runs)', rep); found[0] = True; continue
        ctx.count(sxfull[:3000], bool(p['K']) and len(p['K']) < p['full'].n or len(p['KT']) < p['fout'].n)
        nold = len(p['fout'].cols)
        msgs = []
        if rr is None:
            # nothing usable is left (no datum or no target): no number may come out
            n, old, new = new_columns(rf[1], nold)
            for j, c in enumerate(new):
                for i in range(n):
                    if c[2][i] is not None: msgs.append(('value', 'no usable %s, yet target %d received %s in new variable %d' % ('datum' if not p['K'] else 'target', i, fl(c[2][i]), j))); break
            for c, cin in zip(old, p['fout'].cols):
                if [x for x in c[2]] != [x for x in cin[2]]: msgs.append(('pre-existing-variable-modified', 'pre-existing column (loc %d,%d) changed' % (cin[0], cin[1])))
        elif rf[0] != rr[0]:
            msgs.append(('status', 'kriging() returns %d with the masked samples present and %d on the reduced Db' % (rf[0], rr[0])))
        else:
            msgs += compare_rows(rf[1], rr[1], nold, nold, p['KT'], p['fout'], p['scale'], sq_cols=range(p['nvar'], 2 * p['nvar']))
        if rr is None or rf[0] == rr[0]:
            # masked targets: new variables undefined
            n, old, new = new_columns(rf[1], nold)
            act = p['fout'].active()
            for j, c in enumerate(new):
                for i in range(n):
                    if not act[i] and c[2][i] is not None:
                        msgs.append(('masked-target-written', 'masked target %d received %s in new variable %d' % (i, fl(c[2][i]), j))); break
            if rf[0] == 0 and len(new) != 3 * p['nvar']: msgs.append(('shape', '%d new variables, expected %d' % (len(new), 3 * p['nvar'])))
        if rc is not None and not msgs:
            if rc[0] != rr[0]: msgs.append(('createReduce', 'status %d on Db::createReduce copies, %d on the directly reduced Dbs' % (rc[0], rr[0])))
            else:
                for (sk, m_) in compare_rows(rc[1], rr[1], nold, nold, list(range(len(p['KT']))), p['fout'].sub(p['KT']), p['scale'], untouched=False): msgs.append(('createReduce', m_))
        if not msgs and rr is not None and rf[0] == 0 and rr[0] == 0:
            titems.append((targets_model_case(4, p['fout'], p['KT'], new_columns(rr[1], nold)[2], nold), rf[1], p['scale'], sxfull))
        if msgs and len([m_ for m_ in p['masks'] if m_.get('on') != 'dbout']) > 1: deferred.append((p, msgs, rep)); continue
        emit(p, msgs, rep)
        if not msgs: ctx.sample({'algo': algo, 'kind': p['kind'], 'n': p['full'].n, 'kept': len(p['K']), 'targets_kept': len(p['KT'])}, 6)
    if deferred:
        # a case with several masks on the data failed: which single mask reproduces the failure?
        B2 = Batch(ctx, exe, 'krig_shrink')
        for p, msgs, rep in deferred:
            p['sub'] = []
            for m_ in [m_ for m_ in p['masks'] if m_.get('on') != 'dbout']:
                f = apply_masks(p['base'], [m_]); K = usable_rows(f)
                if not K or not p['KT']: continue
                p['sub'].append((m_, B2.add(p['hdr'] + [f.sx(), p['fout'].sx()] + p['tail']), B2.add(p['hdr'] + [f.sub(K).sx(), p['fout'].sub(p['KT']).sx()] + p['tail']), f))
        B2.run()
        for p, msgs, rep in deferred:
            nold = len(p['fout'].cols)
            for m_, t1, t2, f in p['sub']:
                a, b = B2.get(t1), B2.get(t2)
                if a == 'crash' or b == 'crash' or a[0] != b[0] or compare_rows(a[1], b[1], nold, nold, p['KT'], p['fout'], p['scale'], sq_cols=range(p['nvar'], 2 * p['nvar'])):
                    p['culprit'] = [m_['kind']]; rep = dict(rep); rep['shrunk_to'] = {'mask': m_, 'with_masks': sx_str(B2.cases[t1]), 'reduced': sx_str(B2.cases[t2])}; break
            emit(p, msgs, rep)
    check_targets_model(ctx, runner, 'targets_kriging', titems)
    return B, plan

KIND_ALIAS = {'undefined-first-coordinate': 'undefined-coordinate', 'undefined-other-coordinate': 'undefined-coordinate'}
def classify(p, subkey):
    """key suffix: the kind(s) of masking responsible.  Values at active targets can only depend on the masks put on the data,
    what is written at masked targets only on the masks put on the targets."""
    data = sorted(set(KIND_ALIAS.get(m['kind'], m['kind']) for m in p['masks'] if m.get('on') != 'dbout'))
    targ = sorted(set(m['kind'] + '@target' for m in p['masks'] if m.get('on') == 'dbout'))
    if subkey in ('masked-target-written', 'pre-existing-variable-modified'): return '+'.join(targ or data or [p['kind']]) + ':' + subkey
    k = '+'.join(p.get('culprit') or data or targ or [p['kind']])
    if subkey in ('status', 'shape'): return k + ':' + subkey
    return k

def run_xvalid(ctx, exe, ncase, found):
    rng = ctx.rng
    B = Batch(ctx, exe, 'xval'); plan = []
    kinds = ['selection', 'NA-value', 'undefined-coordinate', 'selection-NA', 'full-selection']
    for ic in range(ncase):
        ndim = rng.choice([1, 2, 2]); order = rng.choice([-1, 0, 1]); kind = kinds[ic % len(kinds)]
        moving = rng.random() < .5
        lo = monomials(ndim, order) + 7; n = rng.randint(lo, max(lo + 2, 16))
        base = gen_points(rng, ndim, 1, n, 0, keepcol=True)
        model = simple_model(rng, ndim, 1, order)
        neigh = [1, 1, rng.choice([4, 6, 8]), dy(rng.choice([30, 1000]))] if moving else [0]
        full, ds = apply_mask(rng, base, kind)
        K = usable_rows(full); red = full.sub(K)
        t1 = B.add([2, ndim, 1, full.sx(), model_sx(model), neigh, 0]); t2 = B.add([2, ndim, 1, red.sx(), model_sx(model), neigh, 0])
        plan.append({'kind': kind, 'masks': [ds], 'full': full, 'K': K, 't': (t1, t2), 'neigh': 'moving' if moving else 'unique', 'scale': zscale(base)})
    B.run()
    for p in plan:
        algo = 'xvalid-' + p['neigh']; ctx.dist(algo + ':' + p['kind'])
        rf, rr = B.get(p['t'][0]), B.get(p['t'][1])
        rep = {'with_masks': sx_str(B.cases[p['t'][0]]), 'reduced': sx_str(B.cases[p['t'][1]]), 'masks': p['masks'], 'kept': p['K']}
        if rf == 'crash' or rr == 'crash': ctx.violation(algo + ':' + classify(p, 'value'), 'the calculation crashes (the harness process died on one of the two runs)', rep); found[0] = True; continue
        ctx.count(rep['with_masks'][:3000], len(p['K']) < p['full'].n)
        nold = len(p['full'].cols); msgs = []
        if rf[0] != rr[0]: msgs.append(('status', 'xvalid() returns %d with the masked samples present and %d on the reduced Db' % (rf[0], rr[0])))
        else:
            msgs += compare_rows(rf[1], rr[1], nold, nold, p['K'], p['full'], p['scale'])
            n, old, new = new_columns(rf[1], nold); act = p['full'].active()
            for j, c in enumerate(new):
                for i in range(n):
                    if not act[i] and c[2][i] is not None: msgs.append(('masked-target-written', 'masked sample %d received %s in new variable %d' % (i, fl(c[2][i]), j))); break
        for sk, m_ in msgs: ctx.violation(algo + ':' + classify(p, sk), m_, rep); found[0] = True

def vario_blocks(r): return r[3]

def run_vario(ctx, exe, ncase, found):
    rng = ctx.rng
    B = Batch(ctx, exe, 'vario'); plan = []
    kinds = ['selection', 'NA-value', 'NA-one-variable', 'undefined-first-coordinate', 'undefined-other-coordinate', 'zero-weight', 'NA-weight', 'selection-NA', 'full-selection', 'empty-selection', 'all-undefined', 'all-zero-weight']
    for ic in range(ncase):
        ndim = rng.choice([1, 2, 2]); nvar = rng.choice([1, 1, 2]); kind = kinds[ic % len(kinds)]
        if kind == 'NA-one-variable': nvar = 2
        if kind == 'undefined-other-coordinate' and ndim == 1: ndim = 2
        calc = rng.choice([0, 0, 0, 1, 9, 5]) if kind not in ('zero-weight',) else rng.choice([0, 0, 1, 9])   # 5 = Poisson (not with zero weights: -mean/2 per pair)
        n = rng.randint(8, 22)
        base = gen_points(rng, ndim, nvar, n, 0)
        dirs = [[rng.randint(3, 6), dy(rng.choice([2, 3, 4])), dy(Fraction(1, 2)), dy(90), [dy(1)] + [dy(0)] * (ndim - 1)]]
        if ndim == 2 and rng.random() < .5: dirs.append([rng.randint(3, 5), dy(3), dy(Fraction(1, 2)), dy(rng.choice([20, 45])), [dy(rng.choice([0, 1])), dy(1)]])
        if kind == 'all-zero-weight': calc = rng.choice([0, 1, 9])
        if kind in ('zero-weight', 'NA-weight'):
            base.add(W, 0, [Fraction(rng.choice([1, 2, 3, 4]), 2) for _ in range(n)])
        rel = 'reduce'
        if kind == 'NA-weight':
            # Db::getWeight documents an undefined weight as weight 1: the partner is the Db with that weight written out
            rows = pick_rows(rng, n); full = base.copy(); red = base.copy()
            for i in rows: full.col(W)[i] = None; red.col(W)[i] = Fraction(1)
            K = list(range(n)); ds = {'kind': kind, 'rows': rows}; rel = 'weight-one'
        else:
            if kind == 'all-zero-weight':
                full = base.copy(); full.add(W, 0, [Fraction(0)] * n); ds = {'kind': 'zero-weight', 'rows': list(range(n)), 'aux': None}
            else: full, ds = mask_any(rng, base, kind)
            K = usable_rows(full, need_z=('any' if kind != 'NA-one-variable' else 'none'), need_weight=(kind in ('zero-weight', 'all-zero-weight')))
            red = full.sub(K)
        hdr = [3, ndim, nvar]; tail = [dirs, calc, 0]
        t1 = B.add(hdr + [full.sx()] + tail); t2 = B.add(hdr + [red.sx()] + tail) if K else None
        t3 = B.add(hdr + [full.sx(1)] + tail) if kind in ('selection', 'full-selection') else None
        # per-variable reduction: the simple variogram of variable iv equals the monovariate run on the samples where it is defined
        pv = []
        if kind in ('NA-one-variable', 'NA-value', 'selection') and calc == 0:
            for iv in range(nvar):
                one = full.only_z(iv); Kv = usable_rows(one)
                if Kv: pv.append((iv, B.add([3, ndim, 1, one.sub(Kv).sx()] + tail), Kv))
        plan.append({'kind': kind, 'masks': [ds], 'full': full, 'K': K, 't': (t1, t2, t3), 'pv': pv, 'nvar': nvar, 'scale': zscale(base) ** 2, 'rel': rel, 'calc': calc})
    B.run()
    for p in plan:
        algo = 'vario'; ctx.dist(algo + ':' + p['kind'])
        rf = B.get(p['t'][0]); rr = B.get(p['t'][1]) if p['t'][1] is not None else None; rc = B.get(p['t'][2]) if p['t'][2] is not None else None
        rep = {'with_masks': sx_str(B.cases[p['t'][0]]), 'reduced': sx_str(B.cases[p['t'][1]]) if p['t'][1] is not None else None, 'masks': p['masks'], 'kept': p['K'], 'relation': p['rel']}
        if 'crash' in (rf, rr, rc): ctx.violation(algo + ':' + classify(p, 'value'), 'the calculation crashes (the harness process died on one of the two runs)', rep); found[0] = True; continue
        if rr is None:
            # no usable sample: the calculation must fail or count no pair at all
            ctx.count(rep['with_masks'][:3000], True)
            if rf[0]:
                for d_ in rf[3]:
                    for blk in d_:
                        if any((undy(x) or 0) != 0 for x in blk[0]):
                            ctx.violation(algo + ':' + p['kind'], 'no usable sample, yet pairs are counted: sw = %s' % [fl(undy(x)) for x in blk[0]], rep); found[0] = True
            continue
        ctx.count(rep['with_masks'][:3000], len(p['K']) < p['full'].n or p['rel'] != 'reduce')
        asym = p['calc'] in (1, 9)
        def cmp_blocks(a, b, what):
            """list of (where, message); where = 'pairs' (a lag cell), 'C00' (central cell of a covariance / global variance), 'status'"""
            if a[0] != b[0]: return [('status', 'computeFromDb %s with the masked samples present and %s on %s' % ('succeeds' if a[0] else 'fails', 'succeeds' if b[0] else 'fails', what))]
            if not a[0]: return []
            out = []
            for k, (x, y) in enumerate(zip(a[1], b[1])):     # global means Vario::getMeans() (consumed by the Poisson estimator only)
                if not close(undy(x), undy(y), p['scale'] ** .5):
                    out.append(('mean', 'global mean [%d]: %s with the masked samples present, %s on %s' % (k, fl(undy(x)), fl(undy(y)), what))); break
            if out and p['calc'] == 5: return out            # the Poisson cells then differ as a consequence
            for idir, (da, dbb) in enumerate(zip(a[3], b[3])):
                for ib, (ba, bb) in enumerate(zip(da, dbb)):
                    for name, va, vb in zip(('sw', 'hh', 'gg'), ba, bb):
                        for k, (x, y) in enumerate(zip(va, vb)):
                            sc = p['scale'] if name == 'gg' else 1.0
                            if not close(undy(x), undy(y), sc):
                                where = 'C00' if asym and k == (len(va) - 1) // 2 else 'pairs'
                                if not any(w == where for w, _ in out):
                                    out.append((where, 'direction %d, variable pair %d, %s[%d]: %s with the masked samples present, %s on %s' % (idir, ib, name, k, fl(undy(x)), fl(undy(y)), what)))
            for k, (x, y) in enumerate(zip(a[2], b[2])):     # global variances Vario::getVars()
                if not close(undy(x), undy(y), p['scale']) and not any(w == 'C00' for w, _ in out):
                    out.append(('C00', 'global variance [%d]: %s with the masked samples present, %s on %s' % (k, fl(undy(x)), fl(undy(y)), what)))
            return out
        msgs = [('value:' + w, m_) for w, m_ in cmp_blocks(rf, rr, 'the reduced Db')]
        if rc is not None and not msgs: msgs += [('createReduce', m_) for w, m_ in cmp_blocks(rc, rr, 'the directly reduced Db (first run: Db::createReduce copy)')]
        if not msgs:
            for iv, t, Kv in p['pv']:
                r1 = B.get(t)
                if r1 == 'crash': continue
                if not rf[0] or not r1[0]: continue
                blk = iv * (iv + 1) // 2 + iv
                for idir in range(len(rf[3])):
                    for name, va, vb in zip(('sw', 'hh', 'gg'), rf[3][idir][blk], r1[3][idir][0]):
                        for k, (x, y) in enumerate(zip(va, vb)):
                            if not close(undy(x), undy(y), p['scale'] if name == 'gg' else 1.0):
                                msgs.append(('per-variable', 'direction %d, simple variogram of variable %d, %s[%d]: %s in the multivariate run, %s on the Db reduced to the samples where that variable is defined' % (idir, iv, name, k, fl(undy(x)), fl(undy(y)))))
                                rep = dict(rep); rep['per_variable_reduced'] = sx_str(B.cases[t]); break
                        if msgs: break
                    if msgs: break
                if msgs: break
        for sk, m_ in msgs:
            if sk == 'createReduce': key = 'createReduce:' + classify(p, 'value')
            elif sk == 'per-variable': key = algo + ':NA-value:per-variable'
            else: key = algo + ':' + classify(p, 'value') + ':' + sk.split(':')[1]      # vario:<kind>:pairs|C00|status
            ctx.violation(key, m_, rep); found[0] = True

def rows_of(db, cols_idx, hasW=True):
    sel = db.col(SEL); w = db.col(W); out = []; nd = db.ncol(X)
    for i in range(db.n):
        out.append([dy(sel[i]) if sel is not None else [], dy(w[i]) if w is not None else [], [dy(db.col(X, d)[i]) for d in range(nd)],
                    [dy(db.cols[k][2][i]) for k in cols_idx], []])
    return out

def targets_model_case(op, fout, KT, red_new, nold):
    """case for the Coq target loop (run_targets = op 4, run_simu_targets = op 7): the pre-existing cells of every target, its active
    flag, and as results the values obtained on the reduced output Db"""
    act = fout.active(); pos = {i: a for a, i in enumerate(KT)}
    ests = [[dy(c[2][pos[i]]) for c in red_new] if i in pos else [] for i in range(fout.n)]
    rows = [[act[i], [dy(c[2][i]) for c in fout.cols]] for i in range(fout.n)]
    return [op, nold, len(red_new), ests, rows]

def check_targets_model(ctx, runner, name, items):
    """items: (model case, full dump, scale, replay).  The table computed by the model (pre-existing cells, NA at masked targets, the
    reduced-Db results at active ones) must be the table the implementation returns on the Db with masks."""
    if not items: return
    mf = write_cases(ctx, name, [it[0] for it in items])
    rcm, model = run_model(ctx, runner, mf)
    if len(model) != len(items): print('ERROR: model runner returned %d results for %d cases' % (len(model), len(items))); sys.exit(3)
    for (mc, dump, scale, rep), mo in zip(items, model):
        if mo and mo[0] == -999: print('ERROR: model rejected a target-loop case'); sys.exit(3)
        n, cols = parse_dump(dump)
        for i, (a, cells) in enumerate(mo):
            impl = [c[2][i] for c in cols]; mod = [unq(x) for x in cells]
            if len(impl) != len(mod) or any(not close(x, y, scale) for x, y in zip(impl, mod)):
                ctx.violation('model-drift:targets', '%s: target %d: impl row %s, model row %s' % (name, i, [fl(x) for x in impl], [fl(x) for x in mod]),
                              {'model_case': sx_str(mc), 'replay': rep}, found_input=False); break
        ctx.count(sx_str(mc)[:2000])

def run_stats(ctx, exe, runner, ncase, found):
    rng = ctx.rng
    B = Batch(ctx, exe, 'stats'); plan = []; mcases = []
    kinds = ['selection', 'NA-value', 'NA-one-variable', 'selection-NA', 'full-selection', 'empty-selection', 'all-undefined', 'zero-weight', 'mixed']
    for ic in range(ncase):
        nvar = rng.choice([1, 2, 3]); kind = kinds[ic % len(kinds)]; n = rng.randint(4, 20)
        base = gen_points(rng, 2, nvar, n, 0, hetero=rng.random() < .3)
        # a few zero and repeated values for the sign counts and min/max
        for v in range(nvar):
            for i in range(n):
                if base.col(Z, v)[i] is not None and rng.random() < .15: base.col(Z, v)[i] = Fraction(0)
        if rng.random() < .4 or kind == 'zero-weight': base.add(W, 0, [rng.choice([Fraction(1), Fraction(1, 2), Fraction(2), Fraction(3, 4), None, Fraction(-1)]) for _ in range(n)])
        iso = rng.random() < .4
        masks = []; full = base
        for k in (rng.sample(['selection', 'NA-value', 'NA-one-variable'], 2) if kind == 'mixed' else [kind]):
            full, ds = mask_any(rng, full, k); masks.append(ds)
        zc = [k for k, c in enumerate(full.cols) if c[0] == Z]
        K = [i for i, a in enumerate(full.active()) if a]
        red = full.sub(K)
        t1 = B.add([4, full.sx(), zc, iso]); t2 = B.add([4, red.sx(), zc, iso]) if K else None
        t3 = B.add([4, full.sx(1), zc, iso]) if K and full.col(SEL) is not None and all(v is not None for v in full.col(SEL)) else None
        pv = []
        for iv in range(nvar):   # per variable: its own usable rows (with flagIso: rows where every variable is defined)
            Kv = [i for i in K if full.col(Z, iv)[i] is not None and (not iso or all(full.col(Z, j)[i] is not None for j in range(nvar)))]
            one = full.sub(Kv)
            if Kv: pv.append((iv, B.add([4, one.sx(), zc, iso]), Kv))
        hasSel = full.col(SEL) is not None; hasW = full.col(W) is not None
        m1 = len(mcases); mcases.append([1, hasSel, iso, nvar, rows_of(full, zc)])
        m2 = len(mcases); mcases.append([2, hasSel, hasW, nvar, rows_of(full, zc)])
        plan.append({'kind': kind, 'masks': masks, 'full': full, 'K': K, 't': (t1, t2, t3), 'pv': pv, 'nvar': nvar, 'iso': iso, 'm': (m1, m2), 'scale': zscale(base) ** 2, 'zc': zc})
    B.run()
    mf = write_cases(ctx, 'stats_model', mcases)
    rcm, model = run_model(ctx, runner, mf)
    if len(model) != len(mcases): print('ERROR: model runner returned %d results for %d cases' % (len(model), len(mcases))); sys.exit(3)
    for p in plan:
        ctx.dist('stats:' + p['kind'])
        rf = B.get(p['t'][0]); rr = B.get(p['t'][1]) if p['t'][1] is not None else None; rc = B.get(p['t'][2]) if p['t'][2] is not None else None
        rep = {'with_masks': sx_str(B.cases[p['t'][0]]), 'reduced': sx_str(B.cases[p['t'][1]]) if p['t'][1] is not None else None, 'masks': p['masks'], 'kept': p['K']}
        if 'crash' in (rf, rr, rc): ctx.violation('stats:' + classify(p, 'value'), 'the calculation crashes (the harness process died on one of the runs)', rep); found[0] = True; continue
        ctx.count(rep['with_masks'][:3000], len(p['K']) < p['full'].n)
        sc = p['scale']
        def cmp_tables(a, b, what):
            names = ['dbStatisticsMono', 'dbStatisticsMulti(flagMono)', 'dbStatisticsMulti', 'dbStatisticsCorrel', 'dbVarianceMatrix']
            for name, ta, tb in zip(names, a[:5], b[:5]):
                la = ta if name.startswith('dbStatisticsMulti') else [ta]; lb = tb if name.startswith('dbStatisticsMulti') else [tb]
                for io, (ma, mb) in enumerate(zip(la, lb)):
                    if len(ma) != len(mb): return (name, '%s: table shapes differ' % name)
                    for i, (ra, rb) in enumerate(zip(ma, mb)):
                        for j, (x, y) in enumerate(zip(ra, rb)):
                            if not close(undy(x), undy(y), sc, 1e-8 if name in ('dbStatisticsCorrel',) else TOL):
                                return (name, '%s%s[%d][%d]: %s with the masked samples present, %s on %s' % (name, '(oper %d)' % io if len(la) > 1 else '', i, j, fl(undy(x)), fl(undy(y)), what))
            return None
        msgs = []
        r = cmp_tables(rf, rr, 'the reduced Db') if rr is not None else None
        if r: msgs.append((r[0], r[1]))
        if rc is not None and not msgs:
            r = cmp_tables(rc, rr, 'the directly reduced Db (first run: Db::createReduce copy)')
            if r: msgs.append((r[0] + ':createReduce', r[1]))
        # per-sample statistics: masked rows keep the undefined value in the new columns
        if not msgs:
            nold = len(p['full'].cols)
            for sk, m_ in (compare_rows(rf[5], rr[5], nold, nold, p['K'], p['full'], sc) if rr is not None else []): msgs.append(('dbStatisticsVariables:' + sk if sk != 'value' else 'dbStatisticsVariables', m_))
            n, old, new = new_columns(rf[5], nold); act = p['full'].active()
            for j, c in enumerate(new):
                for i in range(n):
                    if not act[i] and c[2][i] is not None: msgs.append(('dbStatisticsVariables:masked-target-written', 'masked sample %d received %s in new variable %d' % (i, fl(c[2][i]), j))); break
        # per variable
        if not msgs:
            for iv, t, Kv in p['pv']:
                r1 = B.get(t)
                if r1 == 'crash': continue
                for j in range(7):
                    x, y = undy(rf[0][iv][j]), undy(r1[0][iv][j])
                    if not close(x, y, sc):
                        msgs.append(('dbStatisticsMono:per-variable', 'variable %d, statistic %d: %s on the full Db, %s on the Db reduced to the samples usable for that variable' % (iv, j, fl(x), fl(y))))
                        rep = dict(rep); rep['per_variable_reduced'] = sx_str(B.cases[t]); break
                if msgs: break
        for sk, m_ in msgs:
            # the per-variable reduction only removes the samples where that variable is undefined: the kind is NA-value whatever the other masks
            key = 'stats:NA-value:dbStatisticsMono' if sk.endswith(':per-variable') else 'stats:' + classify(p, 'value') + ':' + sk
            ctx.violation(key, m_, rep); found[0] = True
        # correspondence with the Coq model (stat_mono / stat_multi on the same rows)
        mo = model[p['m'][0]]; mu = model[p['m'][1]]
        if mo and mo[0] == -999 or mu and mu[0] == -999: print('ERROR: model rejected a statistics case'); sys.exit(3)
        bad = None
        for iv in range(p['nvar']):
            num, mean, var, mn, mx, sm = mo[0][iv]
            impl = [undy(x) for x in rf[0][iv]]
            mod = [Fraction(num), unq(mean), unq(var), unq(mn), unq(mx), unq(sm)]
            for j in range(6):
                if not close(impl[j], mod[j], sc): bad = 'dbStatisticsMono variable %d statistic %d: impl %s, model %s' % (iv, j, fl(impl[j]), fl(mod[j])); break
            if bad: break
            # the model's own reductions (theorem C05_stats) - evaluated, must coincide
            if mo[1][iv] != mo[0][iv] or mo[2][iv] != mo[0][iv]: bad = 'model: stat_mono differs from stat_mono on its reduction (theorem C05_stats contradicted?)'
        if not bad:
            nv = p['nvar']
            for i1 in range(nv):
                for i2 in range(nv):
                    num, mean, var, mn, mx, pl, mi, ze = mu[0][i1][i2]
                    mod = [unq(num), unq(mean), unq(var), unq(mn), unq(mx), None if pl == [] else Fraction(pl), None if mi == [] else Fraction(mi), None if ze == [] else Fraction(ze)]
                    impl = [undy(rf[2][k][i1][i2]) for k in range(8)]
                    if mod[0] <= 0: mod[0] = impl[0] if impl[0] is not None and impl[0] <= 0 else mod[0]   # num is printed as is (0)
                    for j in range(8):
                        if not close(impl[j], mod[j], sc): bad = 'dbStatisticsMulti cell (%d,%d) oper %d: impl %s, model %s' % (i1, i2, j, fl(impl[j]), fl(mod[j])); break
                    if bad: break
                if bad: break
        if bad:
            ctx.violation('model-drift:stats', bad, {'impl_case': rep['with_masks'], 'model_case': sx_str(mcases[p['m'][0]])}, found_input=False)

def run_matrices(ctx, exe, ncase, found):
    rng = ctx.rng
    B = Batch(ctx, exe, 'mat'); plan = []
    kinds = ['selection', 'NA-value', 'NA-one-variable', 'undefined-coordinate', 'selection-NA', 'full-selection', 'empty-selection', 'all-undefined', 'selection@db2']
    for ic in range(ncase):
        ndim = rng.choice([1, 2, 2, 3]); nvar = rng.choice([1, 2]); kind = kinds[ic % len(kinds)]
        if kind == 'NA-one-variable': nvar = 2
        n = rng.randint(4, 12); order = rng.choice([0, 1, 1])
        base = gen_points(rng, ndim, nvar, n, 0, hetero=(nvar == 2 and rng.random() < .4))
        model = simple_model(rng, ndim, nvar, order)
        ivar0 = rng.choice([-1, -1] + list(range(nvar))); jvar0 = rng.choice([-1] + list(range(nvar)))
        db2 = None; full2 = None; K2 = None
        if kind == 'selection@db2' or rng.random() < .3:
            db2 = gen_points(rng, ndim, nvar if rng.random() < .5 else 0, rng.randint(3, 8), 0)
            full2, ds2 = apply_mask(rng, db2, 'selection'); K2 = usable_rows(full2, need_coords=False, need_z='none')
        if kind == 'selection@db2': full, ds = base, ds2
        else: full, ds = mask_any(rng, base, kind)
        # rows of the matrix: per variable, active samples where the variable is defined.  Samples that carry no row at all:
        K = usable_rows(full, need_coords=True, need_z='any')
        red = full.sub(K)
        ok = bool(K) and (full2 is None or bool(K2))
        t1 = B.add([5, ndim, nvar, full.sx(), full2.sx() if full2 else [], model_sx(model), ivar0, jvar0])
        t2 = B.add([5, ndim, nvar, red.sx(), full2.sub(K2).sx() if full2 else [], model_sx(model), ivar0, jvar0]) if ok else None
        t3 = B.add([6, ndim, nvar, full.sx(), model_sx(model), ivar0, rng.choice([0, 1])])
        t4 = B.add([6, ndim, nvar, red.sx(), model_sx(model), ivar0, B.cases[t3][6]]) if ok else None
        plan.append({'kind': kind, 'masks': [ds], 'full': full, 'K': K, 'K2': K2, 't': (t1, t2, t3, t4), 'nvar': nvar})
    B.run()
    for p in plan:
        ctx.dist('covmat:' + p['kind'])
        r = [B.get(t) if t is not None else None for t in p['t']]
        rep = {'with_masks': sx_str(B.cases[p['t'][0]]), 'reduced': sx_str(B.cases[p['t'][1]]) if p['t'][1] is not None else None, 'masks': p['masks'], 'kept': p['K'], 'kept_db2': p['K2']}
        if 'crash' in r: ctx.violation('covmat:' + classify(p, 'value'), 'the calculation crashes (the harness process died on one of the runs)', rep); found[0] = True; continue
        ctx.count(rep['with_masks'][:3000], len(p['K']) < p['full'].n)
        rf, rr, df, dr = r
        if rr is None:
            # nothing usable: every matrix must come back empty
            for name, ma in zip(['evalCovMatrix', 'evalCovMatrixSymmetric', 'evalCovMatrixOptim', 'evalCovMatrixSymmetricOptim'], rf[2:6]):
                if ma: ctx.violation('covmat:' + classify(p, 'value'), '%s: no usable sample, yet a %dx%d matrix is returned' % (name, len(ma), len(ma[0])), rep); found[0] = True
            if df[0] and p['K2'] is None: ctx.violation('driftmat:' + classify(p, 'value'), 'evalDriftMatrix: no usable sample, yet %d rows are returned' % len(df[0]), rep); found[0] = True
            continue
        K = p['K']; K2 = p['K2'] if p['K2'] is not None else K
        msgs = []
        # index lists (Db::getMultipleRanksActive with its default arguments): per variable, the active samples where it is defined
        def expected_index(db, vars_):
            act = db.active(); nz = db.ncol(Z)
            return [[i for i in range(db.n) if act[i] and (nz == 0 or db.col(Z, v)[i] is not None)] for v in vars_]
        c1 = B.cases[p['t'][0]]; iv0, jv0 = c1[6], c1[7]
        ivs = [iv0] if iv0 >= 0 else list(range(p['nvar'])); jvs = [jv0] if jv0 >= 0 else list(range(p['nvar']))
        exp1 = expected_index(p['full'], ivs)
        if [list(x) for x in rf[0]] != exp1:
            msgs.append(('getMultipleRanksActive', 'Db::getMultipleRanksActive: %s, but the active samples with the variable defined are %s' % (rf[0], exp1)))
        names = ['evalCovMatrix', 'evalCovMatrixSymmetric', 'evalCovMatrixOptim', 'evalCovMatrixSymmetricOptim']
        for name, ma, mb in zip(names, rf[2:6], rr[2:6]):
            if len(ma) != len(mb) or (ma and len(ma[0]) != len(mb[0])):
                msgs.append((name, '%s: %dx%d with the masked samples present, %dx%d on the reduced Db' % (name, len(ma), len(ma[0]) if ma else 0, len(mb), len(mb[0]) if mb else 0))); continue
            done = False
            for i, (ra, rb) in enumerate(zip(ma, mb)):
                for j, (x, y) in enumerate(zip(ra, rb)):
                    if not close(undy(x), undy(y), 1.0):
                        msgs.append((name, '%s[%d][%d]: %s with the masked samples present, %s on the reduced Db' % (name, i, j, fl(undy(x)), fl(undy(y))))); done = True; break
                if done: break
        for sk, m_ in msgs: ctx.violation('covmat:' + classify(p, 'value'), m_, rep); found[0] = True
        ma, mb = df[0], dr[0]
        repd = {'with_masks': sx_str(B.cases[p['t'][2]]), 'reduced': sx_str(B.cases[p['t'][3]]), 'masks': p['masks'], 'kept': p['K']}
        bad = None
        if len(ma) != len(mb): bad = 'evalDriftMatrix: %d rows with the masked samples present, %d on the reduced Db' % (len(ma), len(mb))
        else:
            for i, (ra, rb) in enumerate(zip(ma, mb)):
                for j, (x, y) in enumerate(zip(ra, rb)):
                    if not close(undy(x), undy(y), 1.0) and not bad: bad = 'evalDriftMatrix[%d][%d]: %s with the masked samples present, %s on the reduced Db' % (i, j, fl(undy(x)), fl(undy(y)))
        if bad and p['kind'] != 'selection@db2': ctx.violation('driftmat:' + classify(p, 'value'), bad, repd); found[0] = True
        ctx.count(repd['with_masks'][:3000], len(p['K']) < p['full'].n)

def run_ranks(ctx, exe, runner, ncase, found):
    """Db::getMultipleRanksActive / isActive against the Coq model, on arbitrary selection values (0/1, negative, tiny, undefined),
    undefined coordinates, with and without useCoord; the reduction statement of theorem C05_ranks_reduce is evaluated by the model"""
    rng = ctx.rng
    B = Batch(ctx, exe, 'ranks'); mcases = []; plan = []
    boundary = ['all-masked', 'nbgh-only-masked', 'all-ones', 'all-masked-nbgh', 'all-undefined-selection']
    for ic in range(ncase + len(boundary)):
        bkind = boundary[ic] if ic < len(boundary) else None
        n = rng.randint(1, 14) if bkind is None else rng.randint(3, 8); nz = rng.choice([0, 1, 2, 2]); nv = rng.choice([0, 0, nz]) if nz else 0
        db = PDb(n); nd = rng.choice([1, 2])
        for d in range(nd): db.add(X, d, [None if rng.random() < .2 else Fraction(rng.randint(-9, 9)) for i in range(n)])
        for v in range(nz): db.add(Z, v, [rng.choice([None, Fraction(rng.randint(-9, 9))]) if rng.random() < .4 else Fraction(rng.randint(-9, 9)) for _ in range(n)])
        for v in range(nv): db.add(V, v, [rng.choice([None, Fraction(-1), Fraction(0), Fraction(1, 2), Fraction(2)]) for _ in range(n)])
        hasSel = rng.random() < .8
        weird = rng.random() < .5
        if hasSel: db.add(SEL, 0, [rng.choice([Fraction(0), Fraction(1), Fraction(1)] + ([None, Fraction(-1), Fraction(2), Fraction(1, 2 ** 40), Fraction(-1, 2 ** 40)] if weird else [])) for _ in range(n)])
        ivars = rng.choice([[], [0], list(range(nz)), [nz - 1] if nz else []])
        ivars = [v for v in ivars if v < max(nz, 1)] if nz else []
        nbgh = [] if rng.random() < .7 else sorted(rng.sample(range(n), rng.randint(1, n)))
        useSel = rng.random() < .8; useVerr = rng.random() < .5; useCoord = rng.random() < .5
        if bkind is not None:
            # the boundary cases of the rank lists (an empty explicit list means 'all samples': it must not be produced by filtering)
            useSel = True
            if db.col(SEL) is None: db.add(SEL, 0, [Fraction(1)] * n)
            hasSel = True; sel = db.col(SEL)
            if bkind in ('all-masked', 'all-masked-nbgh'): sel[:] = [Fraction(0)] * n
            elif bkind == 'all-ones': sel[:] = [Fraction(1)] * n
            elif bkind == 'all-undefined-selection': sel[:] = [None] * n
            elif bkind == 'nbgh-only-masked': sel[:] = [Fraction(1)] * n; sel[0] = Fraction(0); sel[n - 1] = None
            nbgh = [0, n - 1] if bkind == 'nbgh-only-masked' else (list(range(n)) if bkind == 'all-masked-nbgh' else [])
        t = B.add([8, db.sx(), ivars, nbgh, useSel, useVerr, useCoord])
        rows = []
        for i in range(n):
            rows.append([dy(db.col(SEL)[i]) if hasSel else [], [], [dy(db.col(X, d)[i]) for d in range(nd)], [dy(db.col(Z, v)[i]) for v in range(nz)], [dy(db.col(V, v)[i]) for v in range(nv)]])
        mcases.append([3, hasSel, nz, nv, ivars, nbgh, useSel, useVerr, useCoord, rows])
        plan.append((t, weird, db))
    B.run()
    mf = write_cases(ctx, 'ranks_model', mcases)
    rcm, model = run_model(ctx, runner, mf)
    if len(model) != len(mcases): print('ERROR: model runner returned %d results for %d cases' % (len(model), len(mcases))); sys.exit(3)
    for (t, weird, db), mo, mc in zip(plan, model, mcases):
        r = B.get(t); ctx.dist('ranks:' + ('arbitrary-selection-values' if weird else 'selection-0/1') + (':useCoord' if mc[8] else '')); ctx.dist('ranks:explicit-nbgh' if mc[5] else 'ranks:all-samples')
        if r == 'crash': ctx.violation('ranks:crash', 'harness crashed', {'case': sx_str(B.cases[t])}); found[0] = True; continue
        ctx.count(sx_str(mc)[:2000])
        if mo and mo[0] == -999: print('ERROR: model rejected a ranks case'); sys.exit(3)
        if [list(x) for x in r[0]] != [list(x) for x in mo[0]] or list(r[1]) != list(mo[1]) or r[2] != sum(mo[1]):
            ctx.violation('model-drift:getRanksActive', 'impl index %s active %s count %d; model index %s active %s' % (r[0], r[1], r[2], mo[0], mo[1]),
                          {'impl_case': sx_str(B.cases[t]), 'model_case': sx_str(mc)}, found_input=False)
        # the reduction statement evaluated by the model (theorem C05_ranks_reduce: no premise on the selection values) when nbgh is empty and useSel
        if mc[5] == [] and mc[6] and [list(x) for x in mo[0]] != [list(x) for x in mo[3]]:
            ctx.violation('model-drift:ranks-reduce', 'model: ranks differ from the renamed ranks of the reduced table (theorem C05_ranks_reduce contradicted?)', {'model_case': sx_str(mc)}, found_input=False)

# ----------------------------------------------------------------------------- kreduce (Coq) against the physically reduced Db (impl)
def c01_db(db):
    """PDb -> the Db layout of harness/C01.cpp / kriggen"""
    nd, nz, nf = db.ncol(X), db.ncol(Z), db.ncol(F)
    return {'coords': [db.col(X, d) for d in range(nd)], 'z': [db.col(Z, v) for v in range(nz)], 'verr': [],
            'fext': [db.col(F, f) for f in range(nf)], 'sel': ([1 if a else 0 for a in db.active()] if db.col(SEL) is not None else []), 'n': db.n}

def run_kreduce_model(ctx, runner, ncase, found):
    """The Coq definition of the reduced kriging case (Spec_krige.kreduce, on which theorem C05_krige is stated) against the case that
    the implementation builds from the physically reduced Db: same samples, same covariance oracles (harvested by harness/C01.cpp)."""
    exe01 = getattr(ctx, 'c01_exe', None) or build_harness(ctx, 'C01')
    if exe01 is None: print('ERROR: harness C01 does not build'); sys.exit(3)
    rng = ctx.rng; cases = []; plan = []
    kinds = ['selection', 'undefined-coordinate', 'NA-value', 'undefined-fext', 'mixed']
    for ic in range(ncase):
        ndim = rng.choice([1, 2, 2, 3]); nvar = rng.choice([1, 1, 2]); order = rng.choice([-1, 0, 1]); kind = kinds[ic % len(kinds)]
        nfex = 1 if kind == 'undefined-fext' else 0
        if nfex and order < 0: order = 0
        lo = nvar * (monomials(ndim, order) + nfex) + 5; n = rng.randint(lo, max(lo + 2, 14)); m = 3
        base = gen_points(rng, ndim, nvar, n, nfex, hetero=(nvar == 2 and rng.random() < .5))
        out = gen_points(rng, ndim, 0, m, nfex)
        model = simple_model(rng, ndim, nvar, order, nfex)
        full = base
        for k in (rng.sample(['selection', 'undefined-coordinate', 'NA-value'], 2) if kind == 'mixed' else [kind]):
            full, ds = apply_mask(rng, full, k, pick_rows(rng, n, 1, .25))
        K = usable_rows(full)
        if not K: continue
        red = full.sub(K)
        pys = []
        for d in (full, red):
            py = {'ndim': ndim, 'nvar': nvar, 'dbin': c01_db(d), 'dbout': c01_db(out), 'model': model, 'neigh': [0], 'calcul': [0]}
            py['dbout']['z'] = []; py['dbout']['verr'] = []
            cases.append(kriging_case(ndim, nvar, py['dbin'], py['dbout'], model, [0], [0], list(range(m)))); pys.append(py)
        plan.append((kind, full, K, pys))
    cf = write_cases(ctx, 'kreduce_impl', cases)
    rc, res = run_impl(ctx, exe01, cf)
    if len(res) != len(cases):
        ctx.violation('kriging-unique:crash', 'harness C01 crashed on case %d' % len(res), {'case': sx_str(cases[len(res)])}); found[0] = True; return
    mcases = []; ref = []
    for ip, (kind, full, K, pys) in enumerate(plan):
        df, okf, perf = parse_harness(res[2 * ip]); dr, okr, perr = parse_harness(res[2 * ip + 1])
        if not okf or not okr: continue
        tf, tr = perf[0], perr[0]
        if not tf['nbgh'] or not tr['nbgh']: continue
        kf = model_case(pys[0], df, tf); kr = model_case(pys[1], dr, tr)
        mcases.append([5, kf]); ref.append((kind, full, K, tf, tr, kf, kr))
    if not mcases: return
    mf = write_cases(ctx, 'kreduce_model', mcases)
    rcm, model = run_model(ctx, runner, mf)
    if len(model) != len(mcases): print('ERROR: model runner returned %d results for %d cases' % (len(model), len(mcases))); sys.exit(3)
    def q(x): return None if x == [] else Fraction(x[0], x[1])
    def d(x): return undy(x)
    for (kind, full, K, tf, tr, kf, kr), mo, mc in zip(ref, model, mcases):
        ctx.dist('kreduce-correspondence:' + kind); ctx.count(sx_str(mc)[:2000], len(tr['nbgh']) < len(tf['nbgh']))
        if mo and mo[0] == -999: print('ERROR: model rejected a kriging case'); sys.exit(3)
        kkept, kcase, kr_full, kr_red, active_ren = mo
        bad = None
        # ranks: the neighbourhood of the full Db restricted to the model's kept positions = the usable samples
        if [tf['nbgh'][a] for a in kkept] != [K[j] for j in tr['nbgh']]:
            bad = 'kept samples: model %s (ranks %s), physically reduced Db %s' % (kkept, [tf['nbgh'][a] for a in kkept], [K[j] for j in tr['nbgh']])
        else:
            samples, clhs, crhs = kcase
            exp_samples = kr[3]; exp_clhs = kr[8]; exp_crhs = kr[9]
            if [[[q(x) for x in part] for part in s_] for s_ in samples] != [[[d(x) for x in part] for part in s_] for s_ in exp_samples]: bad = 'samples of kreduce differ from the samples of the reduced Db'
            elif [[[[q(x) for x in r_] for r_ in M] for M in row] for row in clhs] != [[[[d(x) for x in r_] for r_ in M] for M in row] for row in exp_clhs]: bad = 'left-hand-side covariance oracles of kreduce differ from those harvested on the reduced Db'
            elif [[[[q(x) for x in r_] for r_ in M] for M in row] for row in crhs] != [[[[d(x) for x in r_] for r_ in M] for M in row] for row in exp_crhs]: bad = 'right-hand-side covariance oracles of kreduce differ from those harvested on the reduced Db'
            elif kr_full[0] != kr_red[0] or (kr_full[0] == 1 and (kr_full[2:] != kr_red[2:] or kr_full[1] != active_ren)): bad = 'model: krige k and krige (kreduce k) differ (theorem C05_krige contradicted?)'
        if bad:
            ctx.violation('model-drift:kreduce', bad, {'model_case': sx_str(mc), 'kind': kind}, found_input=False)
        elif kr_full[0] == 1:
            # the implementation's estimate on the Db with masks against the exact solution of the reduced system
            est = [undy(x) for x in tf['est']]; mest = [q(x) for x in kr_red[2]]
            zs = zscale(full)
            for v, (a, b) in enumerate(zip(est, mest)):
                if a is None or abs(float(a) - float(b)) > 1e-6 * (zs + abs(float(b))):
                    ctx.dist('kreduce-correspondence:estimate-differs-beyond-1e-6 (ill-conditioned or C01 matter)')

def run_simtub(ctx, exe, runner, ncase, found):
    rng = ctx.rng
    B = Batch(ctx, exe, 'simtub'); plan = []
    kinds = ['selection', 'NA-value', 'masked-target', 'undefined-coordinate']
    # the last case is the undefined-coordinate witness (fast since the bands are sized on the usable samples only; if that
    # correction is lost it costs one to two minutes and ends in an error or a crash)
    for ic in range(ncase + 1):
        ndim = rng.choice([1, 2]); kind = kinds[ic % 3] if ic < ncase else 'undefined-coordinate'; n = rng.randint(6, 12); m = 6
        base = gen_points(rng, ndim, 1, n, 0); out = gen_points(rng, ndim, 0, m, 0, keepcol=True)
        model = simple_model(rng, ndim, 1, rng.choice([-1, 0]), simu=True)
        neigh = [0] if rng.random() < .6 else [1, 1, 6, dy(1000)]
        masks = []; full = base; fout = out
        if kind == 'masked-target': fout, ds = apply_mask(rng, out, 'selection'); ds['on'] = 'dbout'; masks.append(ds)
        else: full, ds = apply_mask(rng, base, kind); masks.append(ds)
        # targets 0 and 1 coincide with data, one of them masked / undefined whenever the mask is on the data
        # (_updateData2ToTarget substitutes the value of a coinciding ACTIVE datum)
        hit = [masks[0]['rows'][0]] if kind != 'masked-target' else []
        hit.append(next(i for i in range(n) if i not in hit))
        for j, i in enumerate(hit):
            if all(full.col(X, d)[i] is not None for d in range(ndim)):
                for d in range(ndim): fout.col(X, d)[j] = full.col(X, d)[i]
        K = usable_rows(full); KT = [i for i, a in enumerate(fout.active()) if a]
        tail = [model_sx(model), neigh, 2, 1234 + ic, 30]
        if not K or not KT: continue
        if kind == 'undefined-coordinate':
            # before the correction an undefined data coordinate made the band generation run for about a minute per 30 bands
            # before failing (or crashing): small witness, in a process of its own
            tail = [model_sx(model), neigh, 1, 1234 + ic, 2]; BB = Batch(ctx, exe, 'simtub_nacoord')
        else: BB = B
        t1 = BB.add([7, ndim, 1, full.sx(), fout.sx()] + tail); t2 = BB.add([7, ndim, 1, full.sub(K).sx(), fout.sub(KT).sx()] + tail)
        plan.append({'kind': kind, 'masks': masks, 'full': full, 'fout': fout, 'K': K, 'KT': KT, 't': (t1, t2), 'scale': zscale(base), 'neigh': 'moving' if neigh[0] else 'unique', 'B': BB})
    B.run(); titems = []
    for p in plan:
        if p['B'] is not B: p['B'].run()
    for p in plan:
        algo = 'simtub'; ctx.dist(algo + '-' + p['neigh'] + ':' + p['kind']); B_ = p['B']
        rf, rr = B_.get(p['t'][0]), B_.get(p['t'][1])
        rep = {'with_masks': sx_str(B_.cases[p['t'][0]]), 'reduced': sx_str(B_.cases[p['t'][1]]), 'masks': p['masks'], 'kept_data': p['K'], 'kept_targets': p['KT'], 'neigh': p['neigh']}
        if rf == 'crash' or rr == 'crash': ctx.violation(algo + ':' + classify(p, 'value'), 'simtub() crashes (%s)' % ('with the masked / undefined samples present' if rf == 'crash' else 'on the reduced Db'), rep); found[0] = True; continue
        ctx.count(rep['with_masks'][:3000], len(p['K']) < p['full'].n or len(p['KT']) < p['fout'].n)
        nold = len(p['fout'].cols); msgs = []
        if rf[0] != rr[0]: msgs.append(('status', 'simtub() returns %d with the masked samples present and %d on the reduced Db' % (rf[0], rr[0])))
        else:
            msgs += compare_rows(rf[1], rr[1], nold, nold, p['KT'], p['fout'], p['scale'])
            n, old, new = new_columns(rf[1], nold); act = p['fout'].active()
            for j, c in enumerate(new):
                for i in range(n):
                    if not act[i] and c[2][i] is not None: msgs.append(('masked-target-written', 'masked target %d received %s in simulation %d' % (i, fl(c[2][i]), j))); break
        for sk, m_ in msgs: ctx.violation(algo + ':' + classify(p, 'value' if sk == 'status' else sk), m_, rep); found[0] = True
        if not msgs and rf[0] == 0: titems.append((targets_model_case(7, p['fout'], p['KT'], new_columns(rr[1], nold)[2], nold), rf[1], p['scale'], rep['with_masks']))
    check_targets_model(ctx, runner, 'targets_simtub', titems)

# ----------------------------------------------------------------------------- further algorithms: generic masked-versus-reduced runner
def run_items(ctx, exe, name, items, found):
    """items: dicts with algo, kind, masks, full (case), red (case or None), cmp(rf, rr) -> [msg], empty(rf) -> [msg], nontrivial"""
    B = Batch(ctx, exe, name)
    for it in items:
        it['t'] = (B.add(it['full']), B.add(it['red']) if it['red'] is not None else None)
    B.run()
    for it in items:
        ctx.dist(it['algo'] + ':' + it['kind'])
        rf = B.get(it['t'][0]); rr = B.get(it['t'][1]) if it['t'][1] is not None else None
        rep = {'with_masks': sx_str(it['full']), 'reduced': sx_str(it['red']) if it['red'] is not None else None, 'masks': it['masks'], 'kept': it.get('K')}
        p = {'masks': it['masks'], 'kind': it['kind']}
        ctx.count(rep['with_masks'][:3000], it.get('nontrivial', True))
        if rf == 'crash' or rr == 'crash':
            ctx.violation(it['algo'] + ':' + classify(p, 'value'), 'the calculation crashes (%s)' % ('with the masked / undefined samples present' if rf == 'crash' else 'on the reduced Db'), rep); found[0] = True; continue
        msgs = it['cmp'](rf, rr) if rr is not None else it['empty'](rf)
        for m_ in msgs:
            sk = 'value'
            if isinstance(m_, tuple): sk, m_ = m_
            algo = it['algo']
            # the five simple interpolators share CalcSimpleInterpolation::_preprocess (creation of the output variables)
            if algo in ('invdist', 'movave', 'movmed', 'nearest', 'lstsq') and (sk == 'masked-target-written' or 'nothing usable' in m_) and any(x.get('on') == 'dbout' for x in it['masks']):
                ctx.violation('simple-interpolation:masked-target-written', algo + ': ' + m_, rep); found[0] = True; continue
            ctx.violation(algo + ':' + classify(p, sk), m_, rep); found[0] = True
        it['rf'] = rf; it['rr'] = rr; it['ok'] = not msgs

def dump_cmp(fout, KT, scale, what):
    """comparator for calculations that write new variables into an output Db"""
    nold = len(fout.cols)
    def cmp(rf, rr):
        if rf[0] != rr[0]: return [('status', '%s returns %d with the masked samples present and %d on the reduced Db' % (what, rf[0], rr[0]))]
        msgs = [(sk, m_) for sk, m_ in compare_rows(rf[1], rr[1], nold, nold, KT, fout, scale)]
        n, old, new = new_columns(rf[1], nold); act = fout.active()
        for j, c in enumerate(new):
            for i in range(n):
                if not act[i] and c[2][i] is not None: msgs.append(('masked-target-written', 'masked target %d received %s in new variable %d' % (i, fl(c[2][i]), j))); break
        return msgs
    def empty(rf):
        n, old, new = new_columns(rf[1], nold); msgs = []
        for j, c in enumerate(new):
            for i in range(n):
                if c[2][i] is not None: msgs.append('nothing usable, yet target %d received %s in new variable %d' % (i, fl(c[2][i]), j)); break
        return msgs
    return cmp, empty

BOUNDARY_KINDS = ['full-selection', 'empty-selection', 'all-undefined']

def mask_any(rng, db, kind, rows=None):
    """apply_mask plus the boundary kinds shared by all generators"""
    if kind == 'all-undefined':
        d = db.copy()
        for c in d.cols:
            if c[0] == Z: c[2][:] = [None] * d.n
        return d, {'kind': kind, 'rows': list(range(d.n)), 'aux': None}
    return apply_mask(rng, db, kind, rows)

def run_interp(ctx, exe, ncase, found):
    """inverseDistance, movingAverage, movingMedian, nearestNeighbor, leastSquares, migrate (point to point)"""
    rng = ctx.rng; items = []
    kinds = ['selection', 'NA-value', 'undefined-coordinate', 'selection-NA', 'masked-target'] + BOUNDARY_KINDS
    algos = ['invdist', 'movave', 'movmed', 'nearest', 'lstsq', 'migrate']
    for ic in range(ncase):
        algo = algos[ic % len(algos)]; kind = kinds[(ic // len(algos)) % len(kinds)]
        ndim = rng.choice([1, 2, 2]); n = rng.randint(8, 16); m = 5
        base = gen_points(rng, ndim, 1, n, 0); out = gen_points(rng, ndim, 0, m, 0, keepcol=True)
        if rng.random() < .5:
            for d in range(ndim): out.col(X, d)[0] = base.col(X, d)[0]      # a target on a datum
        masks = []; full = base; fout = out
        if kind == 'masked-target': fout, ds = apply_mask(rng, out, rng.choice(['selection', 'selection-NA', 'empty-selection'])); ds['on'] = 'dbout'; masks.append(ds)
        else: full, ds = mask_any(rng, base, kind); masks.append(ds)
        K = usable_rows(full); KT = [i for i, a in enumerate(fout.active()) if a]
        neigh = [1, 1, rng.choice([3, 5, 8]), dy(rng.choice([15, 1000]))] if rng.random() < .7 else [0]
        rng_dmax = rng.choice([None, None, 10])
        if algo == 'invdist': mk = lambda a, b, dm=rng_dmax: [20, ndim, a, b, dy(2), dy(dm)]
        elif algo == 'migrate':
            ball = False; dm = rng.choice([[], [], [dy(8)] * ndim])
            mk = lambda a, b, dm=dm: [24, ndim, a, b, ndim, 1, dm, ball]        # column ndim = z1
        else:
            ty = {'movave': 0, 'movmed': 1, 'nearest': 2, 'lstsq': 3}[algo]; order = rng.choice([0, 1])
            if algo == 'lstsq' and neigh == [0]: pass
            mk = lambda a, b, ty=ty, order=order, neigh=neigh: [21, ndim, a, b, neigh, ty, order]
        cmp, empty = dump_cmp(fout, KT, zscale(base), algo)
        items.append({'algo': algo, 'kind': kind, 'masks': masks, 'K': K, 'fout': fout, 'KT': KT, 'full': mk(full.sx(), fout.sx()),
                      'red': mk(full.sub(K).sx(), fout.sub(KT).sx()) if K and KT else None, 'cmp': cmp, 'empty': empty,
                      'nontrivial': len(K) < full.n or len(KT) < fout.n})
    run_items(ctx, exe, 'interp', items, found)
    return items

def check_interp_model(ctx, runner, items):
    """inverseDistance (exponent 2) and migrate (no dmax) against the Coq models invdist / migrate_value, target by target"""
    mcases = []; ref = []
    for it in items:
        if it['algo'] not in ('invdist', 'migrate') or not it.get('ok') or it.get('rf') in (None, 'crash'): continue
        c = it['full']; ndim = c[1]; dbin = c[2]; dbout = c[3]
        if it['algo'] == 'migrate' and c[6] != []: continue
        def col(db, loc, idx):
            for cc in db[1]:
                if cc[0] == loc and cc[1] == idx: return cc[2]
            return None
        n = dbin[0]; sel = col(dbin, SEL, 0)
        rows = [[sel[i] if sel is not None else [], [], [col(dbin, X, d)[i] for d in range(ndim)], [col(dbin, Z, 0)[i]], []] for i in range(n)]
        osel = col(dbout, SEL, 0)
        tg = [j for j in range(dbout[0]) if osel is None or (osel[j] != [] and undy(osel[j]) != 0)]
        targets = [[col(dbout, X, d)[j] for d in range(ndim)] for j in tg]
        if it['algo'] == 'invdist':
            dm = undy(c[5]); mc = [9, sel is not None, dy(Fraction(1, 2 ** 20)), dy(dm * dm) if dm is not None else [], targets, rows]
        else: mc = [10, sel is not None, [], targets, rows]
        mcases.append(mc); ref.append((it, tg))
    mf = write_cases(ctx, 'interp_model', mcases)
    rcm, model = run_model(ctx, runner, mf)
    if len(model) != len(mcases): print('ERROR: model runner returned %d results for %d cases' % (len(model), len(mcases))); sys.exit(3)
    for (it, tg), mo, mc in zip(ref, model, mcases):
        if mo and mo[0] == -999: print('ERROR: model rejected an interpolation case'); sys.exit(3)
        ctx.count(sx_str(mc)[:2000])
        n, cols = parse_dump(it['rf'][1]); newcol = cols[-1][2]
        bad = None
        if mo[0] != mo[1]: bad = 'model: result differs from the result on the reduced table (theorem C05_%s contradicted?)' % it['algo']
        for k, j in enumerate(tg):
            if bad: break
            if not close(newcol[j], unq(mo[0][k]), 20.0, 1e-8): bad = 'target %d: impl %s, model %s' % (j, fl(newcol[j]), fl(unq(mo[0][k])))
        if bad: ctx.violation('model-drift:' + it['algo'], bad, {'impl_case': sx_str(it['full']), 'model_case': sx_str(mc)}, found_input=False)
    # output initialisation: the table of the model (run_targets: new cells undefined, then the reduced-Db results at the active targets)
    titems = []
    for it in items:
        if not it.get('ok') or it.get('rr') in (None, 'crash') or it.get('rf') in (None, 'crash') or it['rf'][0] != 0: continue
        fout = it.get('fout')
        if fout is None: continue
        nold = len(fout.cols)
        titems.append((targets_model_case(4, fout, it['KT'], new_columns(it['rr'][1], nold)[2], nold), it['rf'][1], 20.0, sx_str(it['full'])))
    check_targets_model(ctx, runner, 'targets_interp', titems)

def table_cmp(names, scale, tol=TOL):
    def cmp(rf, rr):
        for name, a, b in zip(names, rf, rr):
            if isinstance(a, int) or isinstance(b, int):
                if a != b: return ['%s: %s with the masked samples present, %s on the reduced Db' % (name, a, b)]
                continue
            fa = flat_d(a); fb = flat_d(b)
            if len(fa) != len(fb): return ['%s: %d values with the masked samples present, %d on the reduced Db' % (name, len(fa), len(fb))]
            for k, (x, y) in enumerate(zip(fa, fb)):
                if not close(x, y, scale, tol): return ['%s[%d]: %s with the masked samples present, %s on the reduced Db' % (name, k, fl(x), fl(y))]
        return []
    return cmp

def flat_d(x):
    """all dyadics of a nested result, in order"""
    if x == []: return [None]
    if isinstance(x, list) and len(x) == 2 and all(isinstance(v, int) for v in x): return [undy(x)]
    out = []
    for y in x: out += flat_d(y)
    return out

def run_regression(ctx, exe, runner, ncase, found):
    rng = ctx.rng; items = []
    kinds = ['selection', 'NA-value', 'NA-aux', 'selection-NA'] + BOUNDARY_KINDS
    for ic in range(ncase):
        kind = kinds[ic % len(kinds)]; n = rng.randint(6, 16); naux = rng.choice([1, 2]); flagCst = rng.random() < .6
        base = gen_points(rng, 1, 1, n, 0)
        for a in range(naux): base.add(NONE, a, [Fraction(rng.randint(-40, 40), 4) for _ in range(n)])
        if kind == 'NA-aux':
            full = base.copy(); rows = pick_rows(rng, n)
            for i in rows: full.cols[2 + rng.randrange(naux)][2][i] = None
            ds = {'kind': 'NA-value', 'rows': rows, 'aux': None}
        else: full, ds = mask_any(rng, base, kind)
        act = full.active()
        K = [i for i in range(n) if act[i] and all(full.cols[k][2][i] is not None for k in range(1, 2 + naux))]
        mk = lambda d: [22, d.sx(), 1, list(range(2, 2 + naux)), flagCst]
        sc = zscale(base) ** 2
        def empty(rf): return [] if rf[0] == 0 else ['no usable sample, yet %d samples are counted' % rf[0]]
        items.append({'algo': 'regression', 'kind': kind, 'masks': [ds], 'K': K, 'full': mk(full), 'red': mk(full.sub(K)) if K else None,
                      'cmp': table_cmp(['count', 'coefficients', 'variance', 'residual variance'], sc, 1e-7), 'empty': empty, 'nontrivial': len(K) < n,
                      'db': full, 'naux': naux, 'cst': flagCst})
    run_items(ctx, exe, 'regr', items, found)
    # correspondence with the Coq accumulation (regr_acc) and the normal equations solved exactly
    mcases = []
    for it in items:
        d = it['db']; rows = rows_of(d, [1] + list(range(2, 2 + it['naux'])))
        mcases.append([8, d.col(SEL) is not None, it['cst'], it['naux'], rows])
    mf = write_cases(ctx, 'regr_model', mcases)
    rcm, model = run_model(ctx, runner, mf)
    if len(model) != len(mcases): print('ERROR: model runner returned %d results for %d cases' % (len(model), len(mcases))); sys.exit(3)
    for it, mo, mc in zip(items, model, mcases):
        if mo and mo[0] == -999: print('ERROR: model rejected a regression case'); sys.exit(3)
        rf = it.get('rf')
        if rf in (None, 'crash'): continue
        ctx.count(sx_str(mc)[:2000])
        num, coeffs, st_full, st_usable, st_red = mo
        same = (st_full == st_usable == st_red)
        bad = None
        if not same: bad = 'model: accumulators differ from those of the reduced table (theorem C05_regression contradicted?)'
        elif rf[0] != num and not (num > 0 and coeffs == [] and rf[0] == 0): bad = 'count: impl %d, model %d' % (rf[0], num)
        elif coeffs != [] and rf[0] > 0:
            ic_ = [undy(x) for x in rf[1]]; mc_ = [unq(x) for x in coeffs]
            if len(ic_) != len(mc_) or any(not close(x, y, 1.0, 1e-6) for x, y in zip(ic_, mc_)): bad = 'coefficients: impl %s, exact solution of the normal equations %s' % ([fl(x) for x in ic_], [fl(x) for x in mc_])
        if bad: ctx.violation('model-drift:regression', bad, {'impl_case': sx_str(it['full']), 'model_case': sx_str(mc)}, found_input=False)

def run_percell(ctx, exe, ncase, found):
    rng = ctx.rng; items = []
    kinds = ['selection', 'NA-value', 'NA-one-variable', 'undefined-coordinate', 'selection-NA'] + BOUNDARY_KINDS
    for ic in range(ncase):
        kind = kinds[ic % len(kinds)]; n = rng.randint(6, 20)
        base = PDb(n)
        for d in range(2): base.add(X, d, [Fraction(rng.randint(0, 23), 4) for _ in range(n)])
        for v in range(2): base.add(Z, v, [Fraction(rng.randint(-80, 80), 8) for _ in range(n)])
        full, ds = mask_any(rng, base, kind)
        oper = rng.choice([0, 1, 2, 3, 4, 5, 6]); c1 = 2; c2 = 3 if oper == 6 else -1
        act = full.active()
        K = [i for i in range(n) if act[i] and full.col(Z, 0)[i] is not None and (oper != 6 or full.col(Z, 1)[i] is not None)
             and all(full.col(X, d)[i] is not None for d in range(2))]
        grid = [[3, 3], [dy(2), dy(2)], [dy(0), dy(0)], []]
        mk = lambda d: [23, 2, d.sx(), grid, c1, c2, oper]
        def empty(rf): return [] if all((v or 0) == 0 for v in flat_d(rf[0]) if True) or all(v is None or v == 0 for v in flat_d(rf[0])) else ['no usable sample, yet a cell holds %s' % [fl(v) for v in flat_d(rf[0])]]
        outside = PDb(1)
        for d in range(2): outside.add(X, d, [Fraction(1000)])
        for v in range(2): outside.add(Z, v, [Fraction(1)])
        items.append({'algo': 'percell', 'kind': kind, 'masks': [ds], 'K': K, 'full': mk(full), 'red': mk(full.sub(K)) if K else mk(outside),
                      'cmp': table_cmp(['dbStatisticsPerCell'], zscale(base) ** 2), 'empty': empty, 'nontrivial': len(K) < n})
    run_items(ctx, exe, 'percell', items, found)

def run_gridvario(ctx, exe, ncase, found):
    """a grid cannot be physically reduced: a masked cell must behave as a cell whose values are undefined"""
    rng = ctx.rng; items = []
    kinds = ['selection', 'selection-NA', 'full-selection', 'empty-selection']
    for ic in range(ncase):
        kind = kinds[ic % len(kinds)]; nx = [rng.randint(3, 6), rng.randint(2, 5)]; n = nx[0] * nx[1]; nvar = rng.choice([1, 1, 2])
        zs = [[(None if rng.random() < .1 else Fraction(rng.randint(-80, 80), 8)) for _ in range(n)] for v in range(nvar)]
        sel = [Fraction(1)] * n; rows = pick_rows(rng, n)
        if kind == 'selection':
            for i in rows: sel[i] = Fraction(0)
        elif kind == 'selection-NA':
            for i in rows: sel[i] = None
        elif kind == 'empty-selection': sel = [Fraction(0)] * n; rows = list(range(n))
        else: rows = []
        blank = [[(None if i in rows else zs[v][i]) for i in range(n)] for v in range(nvar)]
        cols_full = [[Z, v, [dy(x) for x in zs[v]]] for v in range(nvar)] + [[SEL, 0, [dy(x) for x in sel]]]
        cols_red = [[Z, v, [dy(x) for x in blank[v]]] for v in range(nvar)]
        calc = rng.choice([0, 0, 1, 9])
        dirs = [[rng.randint(2, 3), [1, 0]], [2, [rng.choice([0, 1]), 1]]]
        gfull = [nx, [dy(1), dy(1)], [dy(0), dy(0)], cols_full]; gred = [nx, [dy(1), dy(1)], [dy(0), dy(0)], cols_red]
        def cmp(rf, rr, sc=float(max([abs(x) for z in zs for x in z if x is not None] + [1])) ** 2):
            if rf[0] != rr[0]: return ['computeFromDb %s with the selection and %s on the grid with undefined values' % ('succeeds' if rf[0] else 'fails', 'succeeds' if rr[0] else 'fails')]
            if not rf[0]: return []
            fa = flat_d(rf[3]) + flat_d(rf[2]); fb = flat_d(rr[3]) + flat_d(rr[2])
            for k, (x, y) in enumerate(zip(fa, fb)):
                if not close(x, y, sc): return ['value %d of the dump (sw/hh/gg per direction, then variances): %s with the selection, %s with undefined values instead' % (k, fl(x), fl(y))]
            return []
        items.append({'algo': 'vario-grid', 'kind': kind, 'masks': [{'kind': kind, 'rows': rows}], 'K': None, 'full': [25, 2, gfull, dirs, calc],
                      'red': [25, 2, gred, dirs, calc], 'cmp': cmp, 'empty': None, 'nontrivial': bool(rows)})
    run_items(ctx, exe, 'gridvario', items, found)

def run_vmap_vcloud(ctx, exe, ncase, found):
    rng = ctx.rng; items = []
    kinds = ['selection', 'NA-value', 'selection-NA'] + BOUNDARY_KINDS
    for ic in range(ncase):
        kind = kinds[(ic // 2) % len(kinds)]; n = rng.randint(6, 16); algo = ['vmap', 'vcloud'][ic % 2]; nvar = 1 if algo == 'vcloud' else rng.choice([1, 2])
        base = gen_points(rng, 2, nvar, n, 0)
        # distinct first coordinates: VMap sorts the samples on it with an unstable sort and orients each pair by that order
        # (cross terms z1(i) z2(j)), so that a tie makes the result depend on the number of samples - ties are excluded
        xs = rng.sample(range(-48, 48), n); base.col(X, 0)[:] = [Fraction(v, 4) for v in xs]
        full, ds = mask_any(rng, base, kind)
        K = usable_rows(full)
        if algo == 'vmap':
            calc = rng.choice([0, 1]); mk = lambda d: [26, 2, nvar, d.sx(), calc, [2, 2], [dy(Fraction(33, 8)), dy(Fraction(33, 8))]]   # cell edges never hit by a separation (multiples of 1/4): no tie
        else:
            dr = [5, dy(3), dy(Fraction(1, 2)), dy(90), [dy(1), dy(0)]]; mk = lambda d: [27, 2, d.sx(), dr, dy(20), dy(2000), 5, 4]
        def cmp(rf, rr, sc=zscale(base) ** 2):
            if rf[0] != rr[0]: return ['%s with the masked samples present, %s on the reduced Db' % ('succeeds' if rf[0] else 'fails', 'succeeds' if rr[0] else 'fails')]
            fa = flat_d(rf[1]); fb = flat_d(rr[1])
            if len(fa) != len(fb): return ['%d values with the masked samples present, %d on the reduced Db' % (len(fa), len(fb))]
            for k, (x, y) in enumerate(zip(fa, fb)):
                if not close(x, y, sc): return ['cell value %d: %s with the masked samples present, %s on the reduced Db' % (k, fl(x), fl(y))]
            return []
        def empty(rf):
            if not rf[0]: return []
            return [] if all(v is None or v == 0 for v in flat_d(rf[1])) else ['no usable sample, yet a cell holds a value']
        items.append({'algo': algo, 'kind': kind, 'masks': [ds], 'K': K, 'full': mk(full), 'red': mk(full.sub(K)) if K else None, 'cmp': cmp, 'empty': empty, 'nontrivial': len(K) < n})
    run_items(ctx, exe, 'vmap', items, found)

def run_fits(ctx, exe, ncase, found):
    """PCA and Hermite anamorphosis fitted on a Db with masked samples = fitted on the reduced Db"""
    rng = ctx.rng; items = []
    kinds = ['selection', 'NA-value', 'selection-NA', 'full-selection']
    for ic in range(ncase):
        kind = kinds[(ic // 2) % len(kinds)]; algo = ['pca', 'anam'][ic % 2]; n = rng.randint(10, 24); nvar = rng.choice([2, 3]) if algo == 'pca' else 1
        base = gen_points(rng, 2, nvar, n, 0)
        if algo == 'anam':      # distinct values (the fit sorts them)
            vals = rng.sample(range(-200, 200), n); base.col(Z, 0)[:] = [Fraction(v, 8) for v in vals]
        full, ds = mask_any(rng, base, kind, pick_rows(rng, n, 1, .25) if kind != 'full-selection' else None)
        act = full.active()
        K = [i for i in range(n) if act[i] and all(full.col(Z, v)[i] is not None for v in range(nvar))]
        if len(K) < 4: continue
        mk = (lambda d: [28, d.sx()]) if algo == 'pca' else (lambda d: [29, d.sx(), 6])
        names = ['status', 'eigenvalues', 'means', 'standard deviations'] if algo == 'pca' else ['status', 'Hermite coefficients']
        items.append({'algo': algo + '-fit', 'kind': kind, 'masks': [ds], 'K': K, 'full': mk(full), 'red': mk(full.sub(K)), 'cmp': table_cmp(names, zscale(base), 1e-7), 'empty': None, 'nontrivial': len(K) < n})
    run_items(ctx, exe, 'fits', items, found)

# ----------------------------------------------------------------------------- corpus
def run_corpus(ctx, exe, found):
    """corpus lines: '<key>\t<full case>\t<reduced case>\t<K as sx>\t<nold>[\t<masked rows as sx>]' kept from earlier failures (operations that
    write new variables into an output Db): values at the kept rows K must agree with the reduced run, the new variables must be
    undefined at the masked rows"""
    p = os.path.join(VERIF, 'corpus', 'C05.sx')
    if not os.path.exists(p): return
    B = Batch(ctx, exe, 'corpus'); plan = []
    for line in open(p):
        line = line.rstrip('\n')
        if not line or line.startswith('#'): continue
        f = line.split('\t')
        key, full, red, K, nold = f[:5]; masked = sx_parse(f[5]) if len(f) > 5 else []
        plan.append((key, B.add(sx_parse(full)), B.add(sx_parse(red)), sx_parse(K), int(nold), masked))
    if not plan: return
    B.run()
    for key, t1, t2, K, nold, masked in plan:
        rf, rr = B.get(t1), B.get(t2); ctx.dist('corpus'); ctx.count('corpus:' + key)
        rep = {'with_masks': sx_str(B.cases[t1]), 'reduced': sx_str(B.cases[t2]), 'kept': K}
        if rf == 'crash' or rr == 'crash': ctx.violation(key, 'harness crashed on a corpus case', rep); found[0] = True; continue
        if rf[0] != rr[0]: ctx.violation(key, 'status %d with masks, %d reduced (corpus case)' % (rf[0], rr[0]), rep); found[0] = True; continue
        n, old, new = new_columns(rf[1], nold); nr, oldr, newr = new_columns(rr[1], nold)
        for j, (c, cr) in enumerate(zip(new, newr)):
            bad = None
            for a, i in enumerate(K):
                if not close(c[2][i], cr[2][a], 20.0): bad = 'corpus case: new variable %d at row %d: %s with masks, %s reduced' % (j, i, fl(c[2][i]), fl(cr[2][a])); break
            for i in masked:
                if bad is None and c[2][i] is not None: bad = 'corpus case: masked row %d received %s in new variable %d' % (i, fl(c[2][i]), j)
            if bad: ctx.violation(key, bad, rep); found[0] = True; break

# ----------------------------------------------------------------------------- main
def run(ctx):
    build_lib(ctx); ctx.log('library built')
    debug_partial = bool(os.environ.get('C05_ONLY') or os.environ.get('C05_SKIP_COQ'))    # debugging aids: such a run is never a verdict (exit 3)
    # the two C++ harnesses compile while Coq re-checks the theorems and extracts the runner
    import threading
    built = {}
    th = threading.Thread(target=lambda: built.update(C05=build_harness(ctx, 'C05'), C01=build_harness(ctx, 'C01')))
    th.start()
    if os.environ.get('C05_SKIP_COQ'): proofs_ok = True; ctx.log('theorems NOT re-checked (C05_SKIP_COQ)')
    else: proofs_ok = coq_properties(ctx); ctx.log('theorems re-checked: %s' % ('ok' if proofs_ok else 'BROKEN'))
    runner = build_runner(ctx); th.join(); exe = built.get('C05'); ctx.c01_exe = built.get('C01'); ctx.log('runner and harnesses built')
    if runner is None or exe is None:
        print('ERROR: model runner or harness does not build'); sys.exit(3)
    q = ctx.quick()
    found = [False]
    only = os.environ.get('C05_ONLY', '').split(',') if os.environ.get('C05_ONLY') else None   # debugging aid: run some sections only
    def want(name):
        ctx.log('section', name)
        return only is None or name in only
    if want('corpus'): run_corpus(ctx, exe, found)
    if want('kriging'): run_kriging(ctx, exe, runner, 90 if q else 900, found)
    if want('xvalid'): run_xvalid(ctx, exe, 40 if q else 400, found)
    if want('vario'): run_vario(ctx, exe, 80 if q else 800, found)
    if want('stats'): run_stats(ctx, exe, runner, 64 if q else 640, found)
    if want('matrices'): run_matrices(ctx, exe, 64 if q else 640, found)
    if want('ranks'): run_ranks(ctx, exe, runner, 120 if q else 1500, found)
    if want('kreduce'): run_kreduce_model(ctx, runner, 30 if q else 300, found)
    if want('simtub'): run_simtub(ctx, exe, runner, 16 if q else 120, found)
    if want('interp'): check_interp_model(ctx, runner, run_interp(ctx, exe, 96 if q else 960, found))
    if want('regression'): run_regression(ctx, exe, runner, 28 if q else 280, found)
    if want('percell'): run_percell(ctx, exe, 32 if q else 320, found)
    if want('gridvario'): run_gridvario(ctx, exe, 24 if q else 240, found)
    if want('vmap'): run_vmap_vcloud(ctx, exe, 36 if q else 360, found)
    if want('fits'): run_fits(ctx, exe, 16 if q else 160, found)
    if only is not None: ctx.notes.append('partial run: C05_ONLY=%s' % ','.join(only))
    ctx.cov['rule'] = ('case = (algorithm, Db, kind of masking): kriging / xvalid (unique and moving neighbourhoods, SK/OK/UK, 1-2 variables, heterotopic), '
                       'experimental variograms (1-2 variables, 1-2 directions, variogram / covariance), statistics (Mono, Multi, Correl, variance matrix, per-sample), '
                       'covariance and drift matrices (plain and Optim), rank lists, turning-bands simulations; masks: selection (0/1, undefined value, full, empty), '
                       'undefined values (all variables / one variable), undefined coordinates, undefined external drift, zero / undefined weights, masked targets; '
                       'each case is run on the Db with the masks and on the physically reduced Db (directly built and, for selections, through Db::createReduce); '
                       'distinct = distinct case text; non-trivial = at least one sample or target is actually removed')
    if not proofs_ok: proof_break_violation(ctx, found[0])
    ctx.assumptions = ['samples without coordinates (or external drift, for the neighbourhood) enter the models of C06 and C12, whose coordinates are total, as masked samples (nembed / vembed): the corrected code discards them where it discards masked ones; the replays are the tie',
                       'the reduction theorems are stated on the models of C01 (kriging system), C06 (moving neighbourhood) and C12 (variogram pair loops), tied to the code by those checks\' correspondences; '
                       'the definition of the reduced kriging case (kreduce) is itself compared on every run with the case built by the implementation from the physically reduced Db',
                       'comparisons between the two runs of the implementation: |a-b| <= 1e-9 (scale + |b|)',
                       'turning-bands simulations: only the replay (no model); nugget-free models (the nugget component draws one number per point)',
                       'an undefined WEIGHT is documented by Db::getWeight as weight 1: checked as such (not as a masked sample); zero weights are checked against removal for the variogram and covariance estimators']
    ctx.notes.append('not covered: grid variograms, Poisson / covariogram estimators with zero weights, block / Bayesian / image kriging, kriging with collocated variables, '
                     'simulations other than turning bands, statistics on grids (dbStatisticsPerCell...), Optim covariance paths beyond evalCovMatrix*Optim; '
                     'the zero-weight relation is not checked for the Poisson and covariogram estimators (false by construction)')

def run_checked(ctx):
    run(ctx)
    if os.environ.get('C05_ONLY') or os.environ.get('C05_SKIP_COQ'):
        ctx.finish(); print('ERROR: partial debugging run (C05_ONLY / C05_SKIP_COQ set): not a verdict', flush=True); sys.exit(3)

if __name__ == '__main__':
    main(run_checked)

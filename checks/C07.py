"""C07 — a Db stays a consistent table under any sequence of edits.

Theorems of coq/C07 (invariant preserved by every modelled editor under the guard the proof forces, designator
consistency, frame, counts) + correspondence of the extracted state-machine model with the real Db on random
operation histories, observations compared after EVERY operation.  The spec of the search step is the invariant
itself, evaluated (extracted Coq: check_obs / post_bits / frame_bits) on the *implementation's* observations.
"""
import sys, os
sys.path.insert(0, os.path.dirname(__file__))
from common import *

NLOC = 29
Z, X, F, V, SEL = 1, 0, 3, 2, 10
OPNAME = {1: 'addColumnsByConstant', 2: 'addColumns', 3: 'addSelection', 4: 'deleteColumnByUID', 5: 'deleteColumnByColIdx',
          6: 'deleteColumn', 7: 'deleteColumnsByUID', 8: 'deleteColumnsByLocator', 9: 'setLocatorByUID',
          10: 'setLocatorByColIdx', 11: 'setLocator', 12: 'setLocatorsByUID', 13: 'setLocatorsByUID(range)',
          14: 'setLocatorsByColIdx', 15: 'setLocators', 16: 'clearLocators', 17: 'switchLocator', 18: 'setNameByColIdx',
          19: 'setNameByUID', 20: 'setName', 21: 'addSamples', 22: 'deleteSample', 23: 'setArray', 24: 'setValue',
          25: 'duplicateColumnByUID', 26: 'deleteColumnsByColIdx', 27: 'deleteColumns', 28: 'deleteColumnsByUIDRange',
          29: 'setName(list)', 30: 'setNameByLocator', 31: 'deleteSamples', 32: 'setColumnByUID', 33: 'setColumnByColIdx',
          34: 'setColumn', 35: 'setValueByColIdx', 36: 'setFromLocator', 37: 'addColumnsByVVD', 38: 'addSelection(combine)',
          39: 'addSelectionByRanks', 40: 'addSelectionByLimit', 50: 'Db::createFromSamples', 51: 'Db::createFromBox',
          52: 'Db::createFillRandom', 53: 'DbGrid::create', 54: 'DbGrid::createSubGrid', 55: 'DbGrid::createCoarse/Refine'}
BITS = {1: 'names-unique', 2: 'sizes', 4: 'uid-table', 8: 'name-designator', 16: 'roles', 32: 'role-counts',
        64: 'active-count', 128: 'column-designators', 256: 'role-postcondition', 512: 'frame', 1024: 'selected-cells-count'}
# reason codes of Spec.why_not -> canonical key of the call site + circumstance, and the bits that circumstance explains
REASON = {1: ('setLocatorByUID:index-beyond-count', 16 | 32 | 64 | 128 | 256)}
INIT_OBS = [0, 0, 0, [], [], [], [], [], [], [[] for _ in range(NLOC)], [], [], [], [], [], [], [], []]

def S(s): return [ord(c) for c in s]
def unS(l): return ''.join(chr(c) for c in l)

def rmatch(s, p):
    return len(s) == len(p) and all(d == '.' or c == d for c, d in zip(s, p))

class Shadow:
    """bookkeeping-only mirror of the model, used ONLY to bias the generator (never for a verdict)"""
    def __init__(self):
        self.ncol = 0; self.nech = 0; self.uidcol = []; self.names = []; self.loc = {t: [] for t in range(NLOC)}
        self.grid = None          # (nx, dx, x0) when the current Db is a DbGrid
    def live(self): return [u for u, c in enumerate(self.uidcol) if c >= 0]
    def dead(self): return [u for u, c in enumerate(self.uidcol) if c < 0]
    def uid_of_col(self, c):
        if not (0 <= c < self.ncol): return -1
        for u, cc in enumerate(self.uidcol):
            if cc == c: return u
        return -1
    def repair(self, others, s):
        while s in others: s += '.1'
        return s
    def correct_names(self):
        out = []
        for s in self.names: out.append(self.repair(out, s))
        self.names = out
    def expand(self, pats):
        out = []
        for p in pats:
            if p in self.names:
                if p not in out: out.append(p)
                continue
            for n in self.names:
                if rmatch(n, p) and n not in out: out.append(n)
        return out
    def rank(self, p):
        if p in self.names: return self.names.index(p)
        return next((i for i, x in enumerate(self.names) if rmatch(x, p)), -1)
    def expand1(self, p):
        return [p] if p in self.names else [n for n in self.names if rmatch(n, p)]
    def uids_basic(self, ns):
        out = []
        for n in ns:
            c = self.rank(n)
            if c < 0: return []
            u = self.uid_of_col(c)
            if u < 0: return []
            out.append(u)
        return out
    def ids_name(self, p, one):
        l = self.uids_basic(self.expand1(p))
        return [] if one and len(l) != 1 else l
    def set_loc1(self, u, t, k):
        """returns reason code"""
        if not (0 <= u < len(self.uidcol)) or self.uidcol[u] < 0: return 0
        r = 0
        for tt in range(NLOC):
            if u in self.loc[tt]: self.loc[tt].remove(u)
        if t >= 0:
            l = self.loc[t]
            if k > len(l) and r == 0: r = 1
            if k >= len(l): l.extend([0] * (k + 1 - len(l)))
            l[k] = u
        return r
    def set_locs(self, us, t, k, clean):
        if clean and t >= 0: self.loc[t] = []
        if k < 0: k = len(self.loc[t]) if t >= 0 else 0
        r = 0
        for i, u in enumerate(us):
            rr = self.set_loc1(u, t, k + i)
            if r == 0: r = rr
        return r
    def del_uid(self, u):
        if not (0 <= u < len(self.uidcol)): return
        c = self.uidcol[u]
        if not (0 <= c < self.ncol): return
        self.uidcol[u] = -1
        self.uidcol = [x if x < c else x - 1 for x in self.uidcol]
        for t in range(NLOC):
            if u in self.loc[t]: self.loc[t].remove(u)
        del self.names[c]; self.ncol -= 1
    def add_cols(self, nadd, radix, t, k, ni):
        if nadd <= 0: return 0
        if self.nech <= 0: self.nech = ni
        nmax = len(self.uidcol)
        self.uidcol += [self.ncol + i for i in range(nadd)]
        self.names += [radix] if nadd == 1 else ['%s-%d' % (radix, i + 1) for i in range(nadd)]
        self.correct_names()
        r = self.set_locs(list(range(nmax, nmax + nadd)), t, k, False) if t >= 0 else 0
        self.ncol += nadd
        return r
    def add_gen(self, size, nvar0, radix, t, k):
        if size == 0: return 0
        if self.nech <= 0: self.nech = size // max(nvar0, 1)
        if self.nech == 0: return 0
        nvar = size // self.nech
        if nvar * self.nech != size: return 0
        return self.add_cols(nvar, radix, t, k, 0)
    def reset(self, nc, ne):
        self.ncol = nc; self.nech = ne; self.uidcol = list(range(nc)); self.names = ['New-%d' % (i + 1) for i in range(nc)]
        self.loc = {t: [] for t in range(NLOC)}; self.grid = None
    def load(self, ntab, names, locs, shift):
        r = 0
        for i in range(ntab): self.set_name_at(i + shift, unS(names[i]) if names else 'New.%d' % (i + 1))
        for i in range(ntab if locs else 0):
            t, n = locs[i]
            if t < 0: rr = self.set_loc1(i + shift, -1, 0)
            elif t in (8, 9, 10) and n > 1: rr = 0
            else: rr = self.set_loc1(i + shift, t, max(n - 1, 0))
            r = r or rr
        return r
    def create(self, o):
        k = o[0]; r = 0
        if k == 50:
            ne, tab, names, locs, rank = o[1], o[3], o[4], o[5], o[6]
            ntab = len(tab) // ne if tab else 0
            self.reset(ntab + (1 if rank else 0), ne)
            if rank: self.set_name_at(0, 'rank')
            if tab and len(tab) % ne == 0: r = self.load(ntab, names, locs, 1 if rank else 0)
            return r
        if k == 51:
            ne, nd, rank = o[1], o[2], o[3]; sh = 1 if rank else 0
            self.reset(nd + sh, ne)
            if rank: self.set_name_at(0, 'rank')
            self.load(nd, [], [], sh)
            for i in range(nd):
                self.set_name_at(i + sh, 'x-%d' % (i + 1)); r = r or self.set_loc1(i + sh, X, i)
            return r
        if k == 52:
            nd, ndim, nvar, nfex, code, varm, sel, het, rank = o[1:10]
            self.reset(0, 0)
            if rank: self.add_gen(nd, 1, 'rank', -1, 0)
            self.add_gen(nd * ndim, ndim, 'x', X, 0)
            if varm: self.add_gen(nd * nvar, nvar, 'v', V, 0)
            if nfex: self.add_gen(nd * nfex, nfex, 'f', F, 0)
            if sel: self.add_gen(nd, 1, 'sel', SEL, 0)
            self.add_gen(nd * nvar, nvar, 'z', Z, 0)
            if code: self.add_gen(nd, 1, 'code', 9, 0)
            return 0
        if k == 53:
            nx, dx, x0, tab, names, locs, rank, coords = o[1], o[2], o[3], o[5], o[6], o[7], o[8], o[9]
            return self.make_grid(nx, dx, x0, tab, names, locs, rank, coords)
        if k == 54:
            nx, dx, x0, lims, coords = o[1:6]
            kept = [n for n in self.names if not (n[:1] in ('x', 'X') or n.upper() == 'RANK')]
            self.make_grid([b - a for a, b in lims], dx, [x0[i] + dx[i] * lims[i][0] for i in range(len(nx))], [], [], [], True, coords)
            for n in kept: self.add_cols(1, n, -1, 0, 0)
            return 0
        if k == 55:
            if not self.grid: return 0
            refine, nx, dx, x0, nm, cell, rank = o[1:8]
            src = [(c, self.names[c]) for c in range(self.ncol)
                   if not (rank and c == 0) and not any(self.uid_of_col(c) in self.loc[X][i:i + 1] for i in range(len(self.loc[X])))]
            roles = {}
            for c, _ in src:
                u = self.uid_of_col(c)
                roles[c] = next(((t, l.index(u)) for t, l in self.loc.items() if u in l), None)
            nxo = [(n * m if cell else 1 + (n - 1) * m) if refine else (n // m if cell else 1 + (n - 1) // m) for n, m in zip(nx, nm)]
            self.make_grid(nxo, dx, x0, [], [], [], rank, True)
            ndx = [Fraction(d) / m if refine else Fraction(d) * m for d, m in zip(dx, nm)]
            nx0 = [Fraction(a) + (Fraction(d) * Fraction(1 - m, 2 * m) if refine else Fraction(d) * Fraction(m - 1, 2)) if cell else Fraction(a)
                   for a, d, m in zip(x0, dx, nm)]
            ok = all(v.denominator == 1 for v in ndx + nx0)
            # a mesh or an origin that is not an integer: no further grid-to-grid command is generated on this grid
            self.grid = (nxo, [int(v) for v in ndx], [int(v) for v in nx0]) if ok else (nxo, None, None)
            r = 0
            if src:
                base = self.ncol
                self.add_cols(len(src), '', -1, 0, 0)
                for i, (c, n) in enumerate(src): self.set_name_at(base + i, n)
                self.loc[Z] = []
                for i in range(len(src)): r = r or self.set_loc1(base + i, Z, i)
                for i, (c, n) in enumerate(src):
                    t, k = roles[c] if roles[c] else (-1, 0)
                    r = r or self.set_loc1(self.uid_of_col(base + i), t, k)
            return r
        return 0
    def make_grid(self, nx, dx, x0, tab, names, locs, rank, coords):
        ne = 1
        for n in nx: ne *= n
        ntab = len(tab) // ne if tab else 0
        number = (1 if rank else 0) + (len(nx) if coords else 0)
        self.reset(number + ntab, ne); r = 0
        if tab and len(tab) % ne == 0: r = self.load(ntab, names, locs, number)
        if rank: self.set_name_at(0, 'rank')
        if coords:
            i0 = 1 if rank else 0
            for i in range(len(nx)): self.set_name_at(i0 + i, 'x%d' % (i + 1))
            r = r or self.set_locs(list(range(i0, i0 + len(nx))), X, 0, False)
        for i in range(ntab): self.set_name_at(i + number, unS(names[i]) if names else 'New.%d' % (i + 1))
        if coords:
            r = r or self.set_locs(list(range(i0, i0 + len(nx))), X, 0, False)
            if locs: r = r or self.load_locs_only(ntab, locs, number)
        self.grid = (list(nx), list(dx), list(x0))
        return r
    def load_locs_only(self, ntab, locs, shift):
        r = 0
        for i in range(ntab):
            t, n = locs[i]
            if t < 0: rr = self.set_loc1(i + shift, -1, 0)
            elif t in (8, 9, 10) and n > 1: rr = 0
            else: rr = self.set_loc1(i + shift, t, max(n - 1, 0))
            r = r or rr
        return r
    def set_name_at(self, c, n):
        self.names[c] = n
        self.names[c] = self.repair(self.names[:c] + self.names[c + 1:], n)
    def apply(self, o):
        """applies the op, returns the reason code (0 = within the guards of the theorems)"""
        k = o[0]
        if k == 1: return self.add_cols(o[1], unS(o[3]), o[4], o[5], o[6])
        if k == 2:
            tab = o[1]
            if not tab: return 0
            if self.nech <= 0: self.nech = len(tab)
            nvar = len(tab) // self.nech
            if nvar * self.nech != len(tab): return 0
            return self.add_cols(nvar, unS(o[2]), o[3], o[4], 0)
        if k == 3:
            if self.nech == 0 or (o[1] and len(o[1]) != self.nech): return 0
            return self.add_cols(1, unS(o[2]), SEL, 0, 0)
        if k == 4: self.del_uid(o[1]); return 0
        if k == 5:
            if 0 <= o[1] < self.ncol:
                l = self.ids_name(self.names[o[1]], True)
                if l: self.del_uid(l[0])
            return 0
        if k == 6:
            for u in self.ids_name(unS(o[1]), False): self.del_uid(u)
            return 0
        if k == 7:
            for u in o[1]: self.del_uid(u)
            return 0
        if k == 8:
            for i in range(len(self.loc[o[1]]) - 1, -1, -1): self.del_uid(self.loc[o[1]][i])
            return 0
        if k == 9:
            if not (0 <= o[1] < len(self.uidcol)) or self.uidcol[o[1]] < 0: return 0
            return self.set_locs([o[1]], o[2], o[3], o[4])
        if k == 10:
            if not (0 <= o[1] < self.ncol): return 0
            u = self.uid_of_col(o[1])
            return self.set_locs([u], o[2], o[3], o[4]) if u >= 0 else 0
        if k == 11:
            l = self.ids_name(unS(o[1]), False)
            return self.set_locs(l, o[2], o[3], o[4]) if l else 0
        if k == 12: return self.set_locs(o[1], o[2], o[3], o[4])
        if k == 13: return self.set_locs([o[2] + i for i in range(max(0, o[1]))], o[3], o[4], o[5])
        if k == 14: return self.set_locs([self.uid_of_col(c) for c in o[1]], o[2], o[3], o[4])
        if k == 15:
            l = self.uids_basic(self.expand([unS(p) for p in o[1]]))
            return self.set_locs(l, o[2], o[3], o[4]) if l else 0
        if k == 16: self.loc[o[1]] = []; return 0
        if k == 17:
            a, b = o[1], o[2]
            if a == b: self.loc[a] = []
            else: self.loc[b] = self.loc[b] + self.loc[a]; self.loc[a] = []
            return 0
        if k == 18:
            if 0 <= o[1] < self.ncol: self.set_name_at(o[1], unS(o[2]))
            return 0
        if k == 19:
            if 0 <= o[1] < len(self.uidcol) and self.uidcol[o[1]] >= 0: self.set_name_at(self.uidcol[o[1]], unS(o[2]))
            return 0
        if k == 20:
            e = self.expand1(unS(o[1]))
            if e: self.set_name_at(self.rank(e[0]), unS(o[2]))
            return 0
        if k == 21:
            if o[1] > 0 and not self.grid: self.nech += o[1]
            return 0
        if k == 22:
            if 0 <= o[1] < self.nech and not self.grid: self.nech -= 1
            return 0
        if k == 26:
            for c in sorted(o[1], reverse=True): self.apply([5, c])
            return 0
        if k == 31:
            if self.grid: return 0
            for e in sorted(o[1], reverse=True):
                if not (0 <= e < self.nech): break
                self.nech -= 1
            return 0
        if k == 34:
            l = self.ids_name(unS(o[2]), True)
            if l or not o[1]: return 0
            return self.add_gen(len(o[1]), 1, unS(o[2]), o[3], o[4])
        if k == 37: return self.add_gen(sum(len(v) for v in o[1]), len(o[1]), unS(o[2]), o[3], o[4])
        if k in (38, 39, 40):
            if self.nech == 0 or (k == 38 and o[1] and len(o[1]) != self.nech): return 0
            return self.add_cols(1, unS(o[2] if k != 40 else o[5]), SEL, 0, 0)
        if k >= 50: return self.create(o)
        if k == 27:
            for u in self.uids_basic(self.expand([unS(p) for p in o[1]])): self.del_uid(u)
            return 0
        if k == 28:
            if o[1] > 0:
                for i in range(o[2] - 1, -1, -1): self.del_uid(o[1] + i)
            return 0
        if k == 29:
            for i, p in enumerate(o[1]):
                e = self.expand1(unS(p))
                if e: self.names[self.rank(e[0])] = '%s.%d' % (unS(o[2]), i + 1)
            self.correct_names(); return 0
        if k == 30:
            l = self.loc[o[1]]
            if l:
                for i, u in enumerate(l):
                    c = self.uidcol[u] if 0 <= u < len(self.uidcol) else -1
                    if 0 <= c < len(self.names): self.names[c] = '%s.%d' % (unS(o[2]), i + 1)
                self.correct_names()
            return 0
        return 0
    def copy(self):
        s = Shadow(); s.ncol = self.ncol; s.nech = self.nech; s.uidcol = list(self.uidcol); s.names = list(self.names)
        s.loc = {t: list(l) for t, l in self.loc.items()}; s.grid = self.grid
        return s

class Gen:
    def __init__(self, rng, strict):
        self.rng = rng; self.strict = strict
        self.use_sel = rng.random() < .5
        self.use_na = rng.random() < .6
        self.binary = False        # selections may hold any value (one rule since the fix of getColumnByColIdx:useSel-selection-not-one)
        self.abstract = False      # set once a creator with random (abstracted) values has been used: their cells must not be read
        if strict and rng.random() < .5:
            self.single = ['a', 'b', 'c']; self.multi = ['p', 'q']; self.targets = ['a', 'b', 'd', 'e']
        else:
            self.single = ['a', 'b', 'ab1', 'a11', 'a-1', 'a.1', 'z']; self.multi = ['a', 'p', 'z']
            self.targets = ['a', 'b', 'a.1', 'a-1', 'ab1', 'a.1.1', 'p-1', 'p.2']
        self.types = [Z, Z, Z, X, F, V] + ([SEL, SEL] if self.use_sel else [])
    def val(self):
        r = self.rng
        if self.use_na and r.random() < .2: return []
        if self.binary: return r.choice([0, 1, 1])
        return r.choice([0, 0, 1, 1, 2, 5, -3, 7, 100])
    def typ(self, allow_unknown=True):
        r = self.rng
        if allow_unknown and r.random() < .1: return -1
        if r.random() < .04: return r.choice([28, 12, 5])
        return r.choice(self.types)
    def uid(self, sh, want_live=True):
        r = self.rng; x = r.random()
        live = sh.live(); dead = sh.dead()
        if want_live and live and x < .8: return self.pick_boundary(live)
        if dead and x < .9: return r.choice(dead)
        return r.choice([-1, len(sh.uidcol), len(sh.uidcol) + 2, 0])
    def pick_boundary(self, l):
        r = self.rng
        return r.choice([l[0], l[-1], l[len(l) // 2], r.choice(l), r.choice(l)])
    def col(self, sh):
        r = self.rng
        if sh.ncol and r.random() < .85: return r.choice([0, sh.ncol - 1, sh.ncol // 2, r.randrange(sh.ncol)])
        return r.choice([-1, sh.ncol, sh.ncol + 1])
    def sample(self, sh):
        r = self.rng
        if sh.nech and r.random() < .85: return r.choice([0, sh.nech - 1, r.randrange(sh.nech)])
        return r.choice([-1, sh.nech, sh.nech + 2])
    def existing_name(self, sh):
        r = self.rng
        if sh.names and r.random() < .85: return r.choice(sh.names)
        return r.choice(self.targets + ['nope'])
    def index(self, sh, t):
        """locator index relative to the current count: below, equal, 'next', (wild: beyond)"""
        r = self.rng
        n = len(sh.loc[t]) if t >= 0 else 0
        c = [-1, -1, 0, n, n, max(0, n - 1)]
        if not self.strict: c += [n + 1, n + 1, n + 3]
        return r.choice(c)
    def one(self, sh):
        r = self.rng
        if sh.ncol == 0 and r.random() < .7: kind = r.choice([1, 1, 1, 2, 21])
        else:
            kind = r.choice([1, 1, 1, 2, 3, 4, 4, 5, 5, 6, 7, 8, 9, 9, 9, 9, 10, 10, 10, 11, 11, 12, 12, 13, 14, 14, 15, 16, 17,
                             18, 18, 19, 20, 20, 21, 22, 22, 23, 23, 24, 25, 26, 27, 28, 29, 30,
                             31, 32, 32, 33, 33, 34, 34, 35, 36, 37, 38, 39, 40])
        if kind == 1:
            nadd = r.choice([1, 1, 1, 2, 2, 3, 4, 0, 11 if r.random() < .1 else 1])
            radix = r.choice(self.single if nadd == 1 else self.multi)
            t = self.typ() if r.random() < .6 else -1
            return [1, nadd, self.val(), S(radix), t, self.index(sh, t) if r.random() < .7 else 0, r.choice([0, 1, 2, 3, 5])]
        if kind == 2:
            n = sh.nech if sh.nech else r.choice([1, 2, 3])
            m = r.choice([1, 1, 1, 2, 0]) * n + (r.choice([0, 0, 0, 1]))
            t = self.typ() if r.random() < .5 else -1
            return [2, [self.val() for _ in range(m)], S(r.choice(self.single)), t, self.index(sh, t) if r.random() < .5 else 0]
        if kind == 3:
            if not self.use_sel: return [21, r.choice([1, 2]), self.val()]
            n = sh.nech + (r.choice([0, 0, 0, 0, 1]))
            tab = [] if r.random() < .3 else [self.val() for _ in range(n)]
            return [3, tab, S(r.choice(['s', 's', 'sel', 'a']))]
        if kind == 4: return [4, self.uid(sh)]
        if kind == 5: return [5, self.col(sh)]
        if kind == 6: return [6, S(self.existing_name(sh))]
        if kind == 7: return [7, [self.uid(sh) for _ in range(r.choice([0, 1, 2, 3]))]]
        if kind == 8: return [8, self.typ(False)]
        clean = r.random() < .25
        if kind in (9, 10, 11):
            t = self.typ()
            if t < 0: clean = False
            k = self.index(sh, t)
            if kind == 9: return [9, self.uid(sh), t, k, clean]
            if kind == 10: return [10, self.col(sh), t, k, clean]
            return [11, S(self.existing_name(sh)), t, k, clean]
        if kind in (12, 13, 14, 15):
            t = self.typ()
            if t < 0: clean = False
            k = self.index(sh, t)
            m = r.choice([0, 1, 2, 2, 3])
            if kind == 12: return [12, [self.uid(sh) for _ in range(m)], t, k, clean]
            if kind == 13: return [13, m, self.uid(sh), t, k, clean]
            if kind == 14:
                cs = list(range(m)) if r.random() < .3 else [self.col(sh) for _ in range(m)]
                return [14, cs, t, k, clean]
            return [15, [S(self.existing_name(sh)) for _ in range(m)], t, k, clean]
        if kind == 16: return [16, self.typ(False)]
        if kind == 17: return [17, self.typ(False), self.typ(False)]
        if kind == 18:
            n = r.choice(self.targets + (sh.names if sh.names else []))
            return [18, self.col(sh), S(n)]
        if kind == 19:
            return [19, self.uid(sh), S(r.choice(self.targets + (sh.names[:2] if sh.names else [])))]
        if kind == 20:
            return [20, S(self.existing_name(sh)), S(r.choice(self.targets + (sh.names[:2] if sh.names else [])))]
        if kind == 21: return [21, r.choice([1, 1, 2, 3, 0, -1]), self.val()]
        if kind == 22: return [22, self.sample(sh)]
        if kind == 23: return [23, self.sample(sh), self.uid(sh), self.val()]
        if kind == 24: return [24, S(self.existing_name(sh)), self.sample(sh), self.val()]
        if kind == 25: return [25, self.uid(sh), self.uid(sh)]
        if kind == 26: return [26, [self.col(sh) for _ in range(r.choice([0, 1, 2, 2, 3]))]]
        if kind == 27: return [27, [S(self.existing_name(sh)) for _ in range(r.choice([0, 1, 2]))]]
        if kind == 28: return [28, self.uid(sh), r.choice([0, 1, 2, 3])]
        if kind == 29: return [29, [S(self.existing_name(sh)) for _ in range(r.choice([0, 1, 2, 3]))], S(r.choice(self.targets))]
        if kind == 30: return [30, self.typ(False), S(r.choice(self.targets))]
        ne = sh.nech
        if kind == 31: return [31, [self.sample(sh) for _ in range(r.choice([0, 1, 2, 3]))]]
        if kind == 32: return [32, self.uid(sh), [self.val() for _ in range(max(0, ne - r.choice([0, 0, 0, 1])))], r.random() < .5]
        if kind == 33: return [33, self.col(sh), [self.val() for _ in range(max(0, ne - r.choice([0, 0, 0, 1])))], r.random() < .5]
        if kind == 34:
            if sh.names and r.random() < .6:
                return [34, [self.val() for _ in range(ne)], S(r.choice(sh.names)), -1, 0, r.random() < .5]
            n = ne if ne else r.choice([1, 2])
            t = self.typ() if r.random() < .5 else -1
            return [34, [self.val() for _ in range(n * r.choice([1, 1, 2]) + r.choice([0, 0, 0, 1]))], S(r.choice(self.targets + ['n1', 'n2'])),
                    t, self.index(sh, t), ne > 0 and r.random() < .3]
        if kind == 35: return [35, self.sample(sh), self.col(sh), self.val()]
        if kind == 36: return [36, self.typ(False), self.sample(sh), r.choice([0, 0, 1, 2]), self.val()]
        if kind == 37:
            n = ne if ne else r.choice([1, 2]); m = r.choice([1, 1, 2, 3])
            tabs = [[self.val() for _ in range(n)] for _ in range(m)]
            if r.random() < .1: tabs[-1] = tabs[-1][:-1]          # unequal vectors, possibly an empty one: refused when no sample results
            t = self.typ() if r.random() < .6 else -1
            # useSel on a Db without sample: the library reads the selection in the not yet resized array (excluded)
            return [37, tabs, S(r.choice(self.multi)), t, self.index(sh, t) if r.random() < .6 else 0, ne > 0 and r.random() < .3]
        if kind in (38, 39, 40) and not self.use_sel: return [35, self.sample(sh), self.col(sh), self.val()]
        cmb = r.choice([0, 0, 1, 2, 3, 4, 7])
        if kind == 38:
            tab = [] if r.random() < .3 else [self.val() for _ in range(ne + r.choice([0, 0, 0, 0, 1]))]
            return [38, tab, S(r.choice(['s', 'sel', 'a'])), cmb]
        if kind == 39: return [39, [r.randrange(ne) for _ in range(r.choice([0, 1, 2]))] if ne else [], S(r.choice(['s', 'r'])), cmb]
        if self.abstract: return [35, self.sample(sh), self.col(sh), self.val()]
        lo, hi = r.choice([[], 0, 1]), r.choice([[], 2, 5, 8])
        return [40, S(self.existing_name(sh)), r.random() < .8, lo, hi, S(r.choice(['s', 'lim'])), cmb]
    def locstrs(self, n):
        r = self.rng
        return [[r.choice([-1, X, X, Z, Z, V, F, 7, 8, 9, SEL if self.use_sel else Z]), r.choice([-1, 0, 1, 1, 2, 3])] for _ in range(n)]
    def creator(self, sh):
        r = self.rng
        k = r.choice([50, 50, 51, 52, 53, 53, 53] + ([54, 54, 54, 55, 55, 55] if (sh.grid and sh.grid[1] is not None) else []))
        if k == 50:
            ne = r.choice([1, 2, 3, 4]); ntab = r.choice([0, 1, 2, 3])
            tab = [self.val() for _ in range(ne * ntab)]
            if not tab and r.random() < .3: ne = 0
            names = [S(r.choice(self.single + self.targets)) for _ in range(ntab)] if r.random() < .6 else []
            locs = self.locstrs(ntab) if r.random() < .6 else []
            return [50, ne, r.random() < .5, tab, names, locs, r.random() < .6]
        if k in (51, 52, 55): self.abstract = True      # random draws, interpolated values, non-integer coordinates
        if k == 51: return [51, r.choice([1, 2, 3]), r.choice([1, 2, 3]), r.random() < .6]
        if k == 52:
            nvar = r.choice([1, 2])
            het = [] if r.random() < .5 else [r.random() < .5 for _ in range(nvar if r.random() < .8 else nvar + 1)]
            return [52, r.choice([1, 2, 3]), r.choice([1, 2]), nvar, r.choice([0, 1, 2]), r.random() < .4, r.random() < .4,
                    self.use_sel and r.random() < .5, het, r.random() < .6]
        if k == 53:
            nd = r.choice([1, 2, 2, 3]); nx = [r.choice([1, 2, 3]) for _ in range(nd)]
            ne = 1
            for n in nx: ne *= n
            ntab = r.choice([0, 0, 1, 2])
            tab = [self.val() for _ in range(ne * ntab)]
            names = [S(r.choice(self.single + self.targets + ['x1', 'rank'])) for _ in range(ntab)] if r.random() < .6 else []
            locs = self.locstrs(ntab) if r.random() < .5 else []
            return [53, nx, [r.choice([1, 2]) for _ in range(nd)], [r.choice([0, 10, -5]) for _ in range(nd)], r.random() < .5,
                    tab, names, locs, r.random() < .6, r.random() < .7]
        nx, dx, x0 = sh.grid
        if k == 55:
            refine = r.random() < .4; cell = r.random() < .6
            nm = [r.choice([1, 2]) if refine else (r.randint(1, n) if cell else r.choice([1, 2, 3])) for n in nx]
            return [55, refine, nx, dx, x0, nm, cell, r.random() < .6]
        lims = []
        for n in nx:
            a = r.randrange(n); lims.append([a, r.randint(a + 1, n)])
        return [54, nx, dx, x0, lims, r.random() < .7]
    def history(self, n):
        sh = Shadow(); ops = []
        for _ in range(n):
            for attempt in range(12):
                first = not ops
                o = self.creator(sh) if ((first and self.rng.random() < .35) or (not first and self.rng.random() < .03)) else self.one(sh)
                if sh.nech > 8 and o[0] == 21: continue
                if sh.ncol > 14 and o[0] in (1, 2, 3, 34, 37, 38, 39, 40): continue
                if not self.strict: break
                t = sh.copy()
                if t.apply(o) == 0: break
            else:
                o = [16, Z]
            sh.apply(o); ops.append(o)
        return ops

# ----------------------------------------------------------------------------- evaluation
def split_model_line(line):
    """model line '((obs...) (flags...))' -> (obs text, flags list) without parsing the observations"""
    i = line.rfind(' ((')
    if line.endswith(' ())'): i = line.rfind(' ()')
    return line[1:i], sx_parse(line[i + 1:-1])

def run_lines(ctx, exe, runner, cases, tag):
    """impl lines (None where the harness crashed: it is restarted on the remaining cases) and model lines"""
    cf = write_cases(ctx, tag, cases)
    impl = []
    start = 0
    for restart in range(30):
        sub = cf if start == 0 else write_cases(ctx, tag + '_r', cases[start:])
        outp = sub + '.impl'
        open(outp, 'w').close()
        with open(sub + '.impl.log', 'w') as fl:
            try: rc = subprocess.run([exe, sub, outp], stdout=fl, stderr=fl, timeout=3000).returncode
            except subprocess.TimeoutExpired: rc = 124
        got = [l.rstrip('\n') for l in open(outp) if l.strip()]
        impl += got
        if len(impl) >= len(cases): break
        impl.append(None)                  # the case on which the harness died
        start = len(impl)
        if start >= len(cases): break
    impl += [None] * (len(cases) - len(impl))
    rcm, o, e = sh(['bash', '-c', 'ulimit -s unlimited; exec "%s" "%s"' % (runner, cf)], timeout=3000)
    model = [l for l in o.splitlines() if l.strip()]
    return impl, model

def spec_on_impl(ctx, runner, hist, impl_obs):
    """spec bits (extracted Coq) for each step of hist, evaluated on the implementation's observations"""
    cases = []; prev = INIT_OBS; grid = False
    for o, ob in zip(hist, impl_obs):
        cases.append([1, grid, o, prev, ob]); prev = ob
        if o[0] in (50, 51, 52): grid = False
        elif o[0] == 53: grid = True       # 54 / 55 keep a grid a grid and do nothing on a plain Db
    cf = write_cases(ctx, 'spec', cases)
    rc, res = run_model(ctx, runner, cf)
    return [r[0] if len(r) == 1 else -1 for r in res]

def bitnames(b): return '+'.join(n for w, n in sorted(BITS.items()) if b & w) or 'none'

def sel_has_na(ob):
    for c, tk in enumerate(ob[8]):
        if tk[0] == SEL and tk[1] == 0 and c < len(ob[10]): return any(v == [] for v in ob[10][c])
    return False

def make_key(op, reason, newbits, ob):
    if reason in REASON and (newbits & REASON[reason][1]): return REASON[reason][0]
    if newbits == 1024: return 'getColumnByColIdx:useSel-selection-not-one'
    return '%s:%s' % (OPNAME.get(op[0], '?'), bitnames(newbits))

def lowbit(b):
    for w, n in sorted(BITS.items()):
        if b & w: return n
    return 'none'

def disagree_key(op, bits):
    """key of a breach of the implementation that the model does not have: call site + lowest violated clause; the
    selected-cells clause keeps the key of the repaired defect it comes back as"""
    if lowbit(bits) == 'selected-cells-count': return 'getColumnByColIdx:useSel-selection-not-one'
    return '%s:%s' % (OPNAME[op[0]], lowbit(bits))

def breaches(bits):
    """steps where the observations turn from clean (0) to dirty"""
    out = []; prev = 0
    for k, b in enumerate(bits):
        if b != 0 and prev == 0: out.append(k)
        prev = b
    return out

class Evaluator:
    def __init__(self, ctx, exe, runner):
        self.ctx, self.exe, self.runner = ctx, exe, runner
    def eval(self, hists, tag='h'):
        """returns per history: dict(agree, impl_obs (parsed or None), model_flags, impl_bits, crash)"""
        cases = [[0, h] for h in hists]
        impl, model = run_lines(self.ctx, self.exe, self.runner, cases, tag)
        if len(model) != len(cases):
            print('ERROR: model runner returned %d results for %d cases' % (len(model), len(cases))); sys.exit(3)
        out = []
        for i, h in enumerate(hists):
            ml = model[i]
            if ml.startswith('(-99'):
                print('ERROR: model rejected case %d: %s' % (i, sx_str([0, h])[:300])); sys.exit(3)
            mobs_txt, flags = split_model_line(ml)
            il = impl[i]
            r = {'flags': flags, 'crash': il is None or il.startswith('(-99'), 'mobs_txt': mobs_txt,
                 'ub': any(f[1] == 9 for f in flags)}      # a call outside the domain of the library: never a witness
            if not r['crash'] and il[1:-1] == mobs_txt:
                r['agree'] = True; r['bits'] = [f[0] for f in flags]; r['impl_obs'] = None
            else:
                r['agree'] = False
                r['model_obs'] = sx_parse(mobs_txt)
                r['impl_obs'] = None if r['crash'] else sx_parse(il)[0]
                r['bits'] = None if r['crash'] else spec_on_impl(self.ctx, self.runner, h, r['impl_obs'])
            out.append(r)
        return out

def ddmin(ev, hist, pred):
    """delta-debugging on the prefix (the last operation, the trigger, is kept), then removal of single operations and
    pairs, then simplification of arguments; pred(candidate, result) -> bool; every round is one batch run"""
    cur = list(hist)
    n = 2
    while len(cur) > 1:
        body = cur[:-1]
        size = max(1, len(body) // n)
        cands = [body[:st] + body[st + size:] + [cur[-1]] for st in range(0, len(body), size)]
        res = ev.eval(cands, 'shrink')
        ok = [pred(c, r) for c, r in zip(cands, res)]
        if any(ok):
            cur = cands[ok.index(True)]; n = max(n - 1, 2)
        else:
            if size == 1: break
            n = min(len(body), n * 2)
    for rounds in range(20):
        body = cur[:-1]
        cands = []
        for i in range(len(body)): cands.append(body[:i] + body[i + 1:] + [cur[-1]])
        if len(body) <= 10:
            for i in range(len(body)):
                for j in range(i + 1, len(body)):
                    cands.append([o for k, o in enumerate(body) if k not in (i, j)] + [cur[-1]])
        cands += simpler_args(cur)
        if not cands: break
        res = ev.eval(cands, 'shrink')
        ok = [pred(c, r) for c, r in zip(cands, res)]
        if not any(ok): break
        cur = cands[ok.index(True)]
    return cur

NAME_ARGS = {1: [3], 2: [2], 3: [2], 6: [1], 11: [1], 18: [2], 19: [2], 20: [1, 2], 24: [1], 29: [2], 30: [2],
             34: [2], 37: [2], 38: [2], 39: [2], 40: [1, 5]}
def simpler_args(hist):
    """candidate histories with one argument of one operation made simpler (smaller integer, shorter list, name 'a')"""
    out = []
    for i, o in enumerate(hist):
        if o[0] >= 31: continue        # composite arguments (tables, creators): removed as a whole or kept
        for a in range(1, len(o)):
            x = o[a]; alts = []
            if a in NAME_ARGS.get(o[0], []):
                if x != [97]: alts.append([97])
            elif o[0] in (15, 27, 29) and a == 1:
                if len(x) > 1: alts += [x[:-1], x[1:]]
            elif isinstance(x, bool):
                if x: alts.append(False)
            elif isinstance(x, int):
                if x > 0: alts += [0, x - 1] if x > 1 else [0]
                if x < -1: alts.append(-1)
            elif isinstance(x, list) and x != []:
                if len(x) > 1 or o[0] in (7, 12, 14, 26): alts += [x[:-1], x[1:]]
                if all(isinstance(y, int) for y in x) and any(y not in (0, 1) for y in x) and o[0] in (2, 3):
                    alts.append([1 if y else 0 for y in x])
            for alt in alts:
                if o[0] in (9, 10, 11, 12, 13, 14, 15) and a == len(o) - 1: continue
                no = list(o); no[a] = alt
                if no[0] in (9, 10, 11, 12, 14, 15) and no[2] == -1 and no[4]: continue      # clean with UNKNOWN is excluded
                if no[0] == 13 and no[3] == -1 and no[5]: continue
                if no[0] in (8, 16, 17, 30) and a == 1 and isinstance(alt, int) and not (0 <= alt < NLOC): continue
                out.append(hist[:i] + [no] + hist[i + 1:])
    return out

def directed_tests(ctx, exe):
    """post-conditions checked directly on the library (no model), one harness process per test:
    createCoarse / createRefine must carry over, by name and role, the non-coordinate columns of the input grid;
    addColumns with a null sample count (every sample masked with useSel; fewer values than vectors on an empty Db)
    must be refused, not kill the process (regression tests of repaired defects: the old keys fire again)"""
    found = False
    def one(case, tag):
        cf = write_cases(ctx, tag, [case])
        rc, res = run_impl(ctx, exe, cf, timeout=120)
        for f in (cf, cf + '.impl', cf + '.impl.log'):
            try: os.remove(f)
            except OSError: pass
        return res[0] if res else None
    for refine in (0, 1):
        for deleted in (0, 1):
            ctx.count('directed-migrate-%d-%d' % (refine, deleted)); ctx.dist('directed_migrate')
            r = one([2, refine, deleted], 'dir')
            fn = 'createRefine' if refine else 'createCoarse'
            if r is None or r[0] != r[1]:
                src = [(unS(x[0]), x[1], x[2]) for x in r[0]] if r else None
                out = [(unS(x[0]), x[1], x[2]) for x in r[1]] if r else None
                what = ('DbGrid::%s on a 4x4 grid holding rank, x1, x2 and the columns a(z1), b(f1), c(v1)%s: the new grid should carry the '
                        'columns %s (name, role type, rank) and carries %s') % (fn, ' after deleteColumn("a")' if deleted else '', src, out)
                key = 'migrateAllVariables:colidx-as-uid' if deleted else 'directed:%s' % fn
                ctx.violation(key, what, {'how': 'harness/C07.cpp case (2 %d %d)' % (refine, deleted), 'source_columns': src, 'new_grid_columns': out})
                found = True
    for kind, what in ((4, 'Db::addColumns(tab, name, type, 0, useSel=true) on a Db whose selection masks every sample'),
                       (5, 'Db::addColumnsByVVD({{1.},{}}, "p", ELoc::UNKNOWN) (fewer values than vectors) on an empty Db')):
        ctx.count('directed-division-%d' % kind); ctx.dist('directed_crash_probe')
        if one([kind], 'dir') is None:
            ctx.violation('addColumns:zero-sample-count-division', what + ' ends the process: Db::addColumns divides by getSampleNumber(useSel) = 0',
                          {'how': 'harness/C07.cpp case (%d)' % kind})
            found = True
    return found

def load_corpus(ctx):
    p = os.path.join(VERIF, 'corpus', ctx.pid + '.sx')
    if not os.path.exists(p): return []
    return [sx_parse(l)[1] for l in open(p) if l.strip() and not l.startswith('#')]

def describe(hist): return ' ; '.join('%s%s' % (OPNAME.get(o[0], '?'), pretty_args(o)) for o in hist)
def pretty_args(o):
    def p(x):
        if isinstance(x, list) and x and o[0] in (15, 27, 29, 50, 53) and all(isinstance(y, list) and y and all(isinstance(c, int) and 32 <= c < 127 for c in y) for y in x):
            return '[' + ','.join('"%s"' % unS(y) for y in x) + ']'
        if isinstance(x, list):
            if x and all(isinstance(c, int) and 32 <= c < 127 for c in x) and o[0] in (1, 2, 3, 6, 11, 15, 18, 19, 20, 24, 27, 29, 30, 34, 37, 38, 39, 40): return '"%s"' % unS(x)
            return '[' + ','.join(p(y) for y in x) + ']' if x else 'NA/[]'
        return str(x)
    return '(' + ', '.join(p(a) for a in o[1:]) + ')'

def run(ctx):
    quick = ctx.quick()
    build_lib(ctx)
    proofs_ok = coq_properties(ctx)
    if not proofs_ok:
        # common.coq_properties greps the WHOLE coq/ tree for forbidden constructs; a hit in a file of another property
        # (work in progress of a parallel builder) says nothing about C07, whose theorems depend on coq/C07 and coq/lib only
        errs = getattr(ctx, 'proof_errors', [])
        foreign = [e for e in errs if re.match(r'coq/(?!C07/|lib/)[^:]+\.v: ', e)]
        vo = os.path.join(VERIF, 'coq', 'C07', 'Properties.vo')
        if errs and len(foreign) == len(errs) and os.path.exists(vo):
            proofs_ok = True
            ctx.cov['discharged'] = ctx.cov['obligations']
            ctx.notes.append('forbidden-construct hits outside coq/C07 and coq/lib ignored: ' + '; '.join(foreign[:5]))
    if proofs_ok and not quick:
        # independent re-check of the compiled property file and everything it depends on
        rc, o, e = sh(['coqchk', '-silent', '-o', '-Q', os.path.join(VERIF, 'coq'), 'Gst', 'Gst.C07.Properties'], timeout=1500)
        ctx.cov['coqchk'] = 'ok, axioms: none' if (rc == 0 and 'Axioms: <none>' in (o + e)) else ('FAILED rc=%d %s' % (rc, (o + e)[-400:]))
        ctx.cov['checker_cmd'] += '; coqchk -o Gst.C07.Properties'
        if not ctx.cov['coqchk'].startswith('ok'):
            proofs_ok = False; ctx.proof_errors = ['coqchk: ' + ctx.cov['coqchk']]
    runner = build_runner(ctx)
    exe = build_harness(ctx, 'C07')
    if runner is None or exe is None:
        print('ERROR: model runner or harness does not build'); sys.exit(3)
    rng = ctx.rng
    ev = Evaluator(ctx, exe, runner)
    nh = 400 if quick else 20000
    hists = []; meta = []
    for h in load_corpus(ctx):
        hists.append(h); meta.append('corpus')
    for i in range(nh):
        strict = rng.random() < .7
        g = Gen(rng, strict)
        n = rng.choice([1, 2, 3, 5, 8, 12, 20, 30, 45, 60]) if rng.random() < .5 else rng.randint(1, 60)
        hists.append(g.history(n)); meta.append('strict' if strict else 'wild')
    found_input = False
    nsteps = 0; ndis = 0; nbreach = 0; nshrink = 0
    CH = 2000
    for base in range(0, len(hists), CH):
        chunk = hists[base:base + CH]
        res = ev.eval(chunk, 'main')
        for j, (h, r) in enumerate(zip(chunk, res)):
            kind = meta[base + j]
            ctx.dist('history_' + kind); ctx.dist('len_%02d' % (10 * (len(h) // 10)))
            for o in h: ctx.dist('op_' + OPNAME[o[0]])
            nsteps += len(h)
            ctx.count(sx_str(h), nontrivial=len(h) > 0)
            if len(ctx.cov['samples']) < 3:
                ctx.sample({'history': describe(h)[:400], 'agree': r['agree'], 'bits_per_step': r['bits']})
            if r['crash']:
                ndis += 1; found_input = True
                # the crashing call is the last one of the shortest crashing prefix; shrink what precedes it
                pre = ev.eval([h[:n] for n in range(1, len(h) + 1)], 'prefix')
                cut = next((n for n, rr in enumerate(pre) if rr['crash']), len(h) - 1)
                if any(v[0] == 'crash:' + OPNAME[h[cut][0]] for v in ctx.violations): continue
                small = ddmin(ev, h[:cut + 1], lambda c, rr: rr['crash'] and not rr['ub'])
                ctx.violation('crash:' + OPNAME[small[-1][0]], 'the harness crashed / produced no answer on a history the model accepts: ' + describe(small),
                              {'case': sx_str([0, small]), 'history': describe(small)})
                continue
            bits = r['bits']
            reasons = [f[1] for f in r['flags']]
            mbits = [f[0] for f in r['flags']]
            if not r['agree']:
                ndis += 1
                k = next((i for i in range(len(h)) if i >= len(r['impl_obs']) or r['impl_obs'][i] != r['model_obs'][i]), 0)
                # search: does impl break the property where the model does not? (spec evaluated on impl's own observations)
                hit = [i for i in range(len(h)) if bits[i] == -1 or (bits[i] & ~mbits[i]) != 0]
                if hit:
                    b0 = hit[0]
                    extra = 1023 if bits[b0] == -1 else (bits[b0] & ~mbits[b0])
                    key0 = disagree_key(h[b0], extra)
                    found_input = True
                    if any(v[0] == key0 for v in ctx.violations) or key0 in [kk for kk, _ in ctx.known]:
                        ctx.violation(key0, '', None); continue
                    def pred(c, rr, extra=extra):
                        if rr['crash'] or rr['agree'] or rr['ub']: return False
                        return rr['bits'][-1] == -1 or (rr['bits'][-1] & ~rr['flags'][-1][0] & extra) != 0
                    small = ddmin(ev, h[:b0 + 1], pred) if nshrink < 12 else h[:b0 + 1]
                    nshrink += 1
                    rs = ev.eval([small], 'final')[0]
                    sb = (rs['bits'][-1] & ~rs['flags'][-1][0]) if (rs['bits'] and rs['bits'][-1] != -1) else extra
                    ob = rs['impl_obs'][-1] if rs['impl_obs'] else INIT_OBS
                    key = disagree_key(small[-1], sb & extra if sb & extra else sb)
                    ctx.violation(key, 'the real Db breaks the table property (%s) where the model keeps it, after: %s' % (bitnames(sb), describe(small)),
                                  {'case': sx_str([0, small]), 'history': describe(small), 'violated': bitnames(sb),
                                   'impl_observation_after_last_op': sx_str(ob)[:2000],
                                   'model_observation_after_last_op': sx_str(rs['model_obs'][-1])[:2000] if rs.get('model_obs') else None})
                else:
                    fld = ''
                    if k < len(r['impl_obs']):
                        fld = ' fields ' + ','.join(str(i) for i, (a, b) in enumerate(zip(r['impl_obs'][k], r['model_obs'][k])) if a != b)
                    ctx.violation('model-drift:' + OPNAME[h[k][0]],
                                  'model and impl observations differ after step %d (%s)%s but impl satisfies the invariant, the role post-condition and the frame '
                                  'condition wherever the model does, at every step of the history: the correspondence coq/C07/Model.v <-> Db no longer holds'
                                  % (k, describe([h[k]]), fld),
                                  {'case': sx_str([0, h[:k + 1]]), 'history': describe(h[:k + 1]),
                                   'correspondence': 'coq/C07/Model.v step vs Db::' + OPNAME[h[k][0]]}, found_input=False)
                continue
            # impl == model at every step: any breach is a property violation reproduced on the real library
            br = breaches(bits)
            if br: mobs = None
            for b0 in br:
                nbreach += 1
                if mobs is None: mobs = sx_parse(r['mobs_txt'])
                key0 = make_key(h[b0], reasons[b0], bits[b0], mobs[b0])
                if key0 in [kk for kk, _ in ctx.known] or any(v[0] == key0 for v in ctx.violations):
                    ctx.violation(key0, '', None); continue      # already known / reported: no shrinking needed
                target = bits[b0]; rsn = reasons[b0]
                def pred2(c, rr, target=target, rsn=rsn):
                    if rr['crash'] or not rr['agree'] or rr['ub']: return False
                    bb = rr['bits']
                    return bb[-1] != 0 and (len(bb) < 2 or bb[-2] == 0) and (bb[-1] & target) != 0 and rr['flags'][-1][1] == rsn
                small = ddmin(ev, h[:b0 + 1], pred2)
                rs = ev.eval([small], 'final')[0]
                if rs['agree'] and rs['bits'][-1] != 0:
                    ob = sx_parse(rs['mobs_txt'])[-1]
                    key = make_key(small[-1], rs['flags'][-1][1], rs['bits'][-1], ob)
                    ctx.violation(key, 'the real Db breaks the table property (%s) after: %s' % (bitnames(rs['bits'][-1]), describe(small)),
                                  {'case': sx_str([0, small]), 'history': describe(small), 'violated': bitnames(rs['bits'][-1]),
                                   'reason_code': rs['flags'][-1][1], 'observation_after_last_op': sx_str(ob)[:2000],
                                   'note': 'model and implementation agree on every observation of this history; the model mirrors the defect (see the C07_*_refuted theorems)'})
                    found_input = True
    found_input = directed_tests(ctx, exe) or found_input
    ctx.cov['steps'] = nsteps; ctx.cov['disagreements'] = ndis; ctx.cov['invariant_breaches_seen'] = nbreach
    ctx.cov['rule'] = ('case = one history of 1..60 public calls on an initially empty Db: 40 editors (Db.cpp) and 5 creators (createFromSamples, '
                       'createFromBox, createFillRandom, DbGrid::create, DbGrid::createSubGrid; random values abstracted); after EVERY call 18 getter '
                       'families are compared textually with the extracted model and the invariant / selected-cells / role post-condition / frame '
                       'checks (extracted Coq) are evaluated; 70% strict histories (inside the only guard left in C07_step: locator rank <= current '
                       'count; selections kept in {0,1,NA}), 30% wild; plus 5 directed tests without model (createCoarse/createRefine carry over '
                       'names and roles; addColumns with a zero sample count); distinct = distinct history text')
    if not proofs_ok: proof_break_violation(ctx, found_input)
    # the case files of this run are large (every observation of every step) and every witness is stored,
    # self-contained, under replays/: do not leave them behind
    import glob
    for f in glob.glob(os.path.join(BUILD, 'cases', '%s_*_%d_%d.sx*' % (ctx.pid, ctx.seed, os.getpid()))):
        try: os.remove(f)
        except OSError: pass
    ctx.cov['trusted_base'] += [
        'checks/C07.py generator (incl. its bookkeeping shadow used only to bias the histories), textual comparison of observations, key derivation',
        'harness/C07.cpp: one public Db call per operation + 16 getter families after each call; library messages silenced through redefine_message/redefine_error',
        'observation-level spec (coq/C07/Spec.v, extracted) is the search oracle: check_obs is proved sound for Inv (C07_obs_sound); '
        'post_bits / frame_bits are the observation-level renderings of C07_setlocs_post / C07_frame, validated by the runs and by mutation tests only']
    ctx.assumptions = ['a name used as designator is either the name of an existing column (any characters: exact match has priority) or a pattern '
                       'over [A-Za-z0-9._-], where "." is the only metacharacter; an invalid regular expression makes the library throw std::regex_error',
                       'GlobalEnvironment domain reference off (default); DbGrid without rotation, integer mesh and origin; createCoarse/createRefine not modelled '
                       '(directed post-condition test only); random / interpolated cell values abstracted to one marker',
                       'cell values are small integers or NA: no editor computes on them',
                       'arguments that make the library itself undefined are excluded (clean=true with ELoc::UNKNOWN -> _p[-1]; negative nechInit; vectors '
                       'shorter than what setColumnBy* / createFromSamples names and role strings read; ranks outside the Db in addSelectionByRanks; '
                       'negative locator rank in setFromLocator; Limits with lower >= upper bound; addColumns*(useSel=true) on a Db holding columns and a '
                       'selection but no sample: the selection is read in the not yet resized array)']

if __name__ == '__main__':
    main(run)

"""C14 - non-conditional simulations follow the model they are given (PARTIAL claim).

What is logic is carried into Coq (coq/C14): second-moment calculus in L2 (independent standard draws = orthonormal family,
covariance = inner product of coefficient vectors), the turning-bands assembly (normation, sill matrices, nugget), the
anisotropy of the directions, Van der Corput sequences, the algebra of the 1-D processes, the Hermitian index maps of the FFT
simulator, the ranges of the Law.cpp generators, Cholesky glue.  What is statistical is named in ctx.assumptions.
Tie to the C++: differential correspondence through the C14 hook (band tables recorded just before accumulation)."""
import sys, os, math, time
sys.path.insert(0, os.path.dirname(__file__))
from common import *

TWO_PI = 2. * 3.14159265358979323846
# ----------------------------------------------------------------------------- generator replay (Law.cpp, old style)
P_LCG = 20000159
def lcg_next(v):
    prod = (105 * v + 2**31) % 2**32 - 2**31          # int * int, 32-bit wrap
    r = (prod % 2**32) % P_LCG                         # converted to unsigned, % Random_congruent
    return 1 if r == 0 else r
class Rng:
    def __init__(self, seed): self.v = seed
    def uniform(self, a=0., b=1.):
        self.v = lcg_next(self.v)
        return a + (self.v / P_LCG) * (b - a)
    def gaussian(self):
        r1 = self.uniform(); r2 = self.uniform(0., TWO_PI)
        return math.sqrt(-2. * math.log(r1)) * math.cos(r2)

VDC_TABLE = {}      # (p, n) -> exact radical inverse computed by the extracted Coq model (coq/C14/VdC.v), filled by run()
def vdc(n, p):
    if (p, n) in VDC_TABLE: return VDC_TABLE[(p, n)]
    x = Fraction(0); d = Fraction(p)
    while n > 0:
        x += Fraction(n % p) / d; d *= p; n //= p
    return x

def rodrigues(ct, st, a, v):
    rd = sum(v[k] * a[k] for k in range(3)); p = [rd * a[k] for k in range(3)]
    b = [v[k] - p[k] for k in range(3)]
    nb = math.sqrt(sum(x * x for x in b))
    if nb == 0.: return list(v)
    b = [x / nb for x in b]
    c = [a[1] * b[2] - a[2] * b[1], a[2] * b[0] - a[0] * b[2], a[0] * b[1] - a[1] * b[0]]
    return [p[k] + nb * (ct * b[k] + st * c[k]) for k in range(3)]

def base_directions(seed, nbands):
    """_generateDirections up to and including _rotateDirections, replayed in binary64"""
    dirs = []
    for ibs in range(nbands):
        x0 = float(vdc(1 + ibs, 2)); x1 = float(vdc(1 + ibs, 3))
        sqr = math.sqrt(1. - x1 * x1)
        dirs.append([math.cos(TWO_PI * x0) * sqr, math.sin(TWO_PI * x0) * sqr, x1])
    g = Rng(seed)
    a = [g.gaussian() for _ in range(3)]
    r = math.sqrt(sum(x * x for x in a)); a = [x / r for x in a]
    theta = TWO_PI * g.uniform(0., 1.)
    ct, st = math.cos(theta), math.sin(theta)
    return [rodrigues(ct, st, a, d) for d in dirs]

# ----------------------------------------------------------------------------- case generation: turning bands
TB_TYPES = {0: 'nugget', 1: 'exponential', 2: 'spherical', 3: 'gaussian', 4: 'cubic', 5: 'sincard', 6: 'besselj', 7: 'matern', 10: 'stable',
            11: 'linear', 12: 'power', 13: 'order1_gc', 14: 'spline_gc', 15: 'order3_gc', 16: 'order5_gc'}
CORREC2 = {1: 1, 2: 3, 3: 2, 4: 840, 5: 2}     # square of 'correc' per (particularised) structure; matern/stable: by parameter

def gen_sill(rng, nvar):
    while True:
        B = [[rng.randint(-2, 2) for _ in range(nvar)] for _ in range(nvar)]
        S = [[sum(B[i][k] * B[j][k] for k in range(nvar)) + (rng.choice([1, 1, 2]) if i == j else 0) for j in range(nvar)] for i in range(nvar)]
        if nvar == 1 or any(S[i][j] != 0 for i in range(nvar) for j in range(nvar) if i != j) or rng.random() < .2: return S

def gen_tb_case(rng, quick):
    ndim = rng.choice([1, 2, 2, 2, 3, 3]); nvar = rng.choice([1, 1, 2, 2, 3]); ncov = rng.choice([1, 1, 2, 3])
    nbtuba = rng.choice([1, 2, 3, 5, 8]); nbsimu = rng.choice([1, 1, 2]); seed = rng.choice([rng.randint(1, 2**31 - 1), rng.randint(1, 100000), 4324324])
    if rng.random() < .6:
        n = rng.randint(2, 9)
        coords = [[dy(Fraction(rng.randint(-80, 80), 4)) for _ in range(n)] for _ in range(ndim)]
        sel = [rng.random() < .8 for _ in range(n)] if rng.random() < .3 else []
        if sel and not any(sel): sel[0] = True
        db = [0, coords, sel]; grid = False
    else:
        nx = [rng.randint(1, 4) for _ in range(ndim)]
        dx = [dy(Fraction(rng.randint(1, 12), 4)) for _ in range(ndim)]
        x0 = [dy(Fraction(rng.randint(-40, 40), 4)) for _ in range(ndim)]
        ang = [dy(rng.choice([30, 45, 90, -20, 120, Fraction(45, 4)])) if (k == 0 or ndim == 3) else dy(0) for k in range(ndim)] if (ndim >= 2 and rng.random() < .5) else []
        n = 1
        for k in nx: n *= k
        sel = [rng.random() < .8 for _ in range(n)] if rng.random() < .3 else []
        if sel and not any(sel): sel[0] = True
        db = [1, nx, dx, x0, ang, sel]; grid = True
    structs = []; has_nug = False
    for s in range(ncov):
        t = rng.choice([1, 2, 2, 3, 4, 5, 7, 10, 0])
        if t == 0 and has_nug: t = 2
        if t == 0: has_nug = True
        param = 1
        if t == 7: param = rng.choice([Fraction(1, 4), Fraction(1, 2), 1, Fraction(3, 2)])
        if t == 10: param = rng.choice([Fraction(1, 2), 1, Fraction(3, 2), 2])
        rng_ = Fraction(rng.randint(2, 40), 2)
        ranges = []; angles = []
        if t != 0 and ndim >= 2 and rng.random() < .5:
            ranges = [dy(Fraction(rng.randint(2, 40), 2)) for _ in range(ndim)]
            if rng.random() < .6: angles = [dy(rng.choice([15, 30, 45, 60, 90, 120, -35])) if (k == 0 or ndim == 3) else dy(0) for k in range(ndim)]
        S = gen_sill(rng, nvar)
        structs.append([t, dy(rng_), dy(param), ranges, angles, [dy(S[i][j]) for i in range(nvar) for j in range(nvar)]])
    means = [dy(Fraction(rng.randint(-40, 40), 4)) for _ in range(nvar)] if rng.random() < .6 else []
    return [1, seed, nbtuba, nbsimu, ndim, nvar, db, [structs, means]]

# every branch of the switch (type) of _simulatePoint / _simulateGrid / _initializeSeedBands (after _particularCase)
TB_BRANCHES = [(1, 1), (2, 1), (4, 1), (3, 1), (5, 1), (6, 2), (7, Fraction(1, 4)), (7, Fraction(3, 8)), (7, Fraction(1, 2)), (7, Fraction(3, 2)),
               (10, Fraction(1, 2)), (10, Fraction(3, 4)), (10, 1), (10, Fraction(3, 2)), (10, 2), (11, 1), (12, 1), (12, Fraction(1, 2)), (13, 1), (14, 1), (15, 1), (16, 1)]
def gen_branch_cases(rng):
    """one unmasked 2-D or 3-D grid per branch (half of them rotated, some anisotropic): feeds the assembly check AND the grid/point twins,
    so that a scale / parameter handed differently to the 1-D process on a grid and on points is seen for EVERY structure"""
    out = []
    for t, par in TB_BRANCHES:
        ndim = rng.choice([2, 2, 3])
        nx = [rng.randint(2, 4) for _ in range(ndim)]
        dx = [dy(Fraction(rng.randint(2, 8), 4)) for _ in range(ndim)]
        x0 = [dy(Fraction(rng.randint(-20, 20), 4)) for _ in range(ndim)]
        ang = [dy(rng.choice([30, 45, -20, 120])) if (k == 0 or ndim == 3) else dy(0) for k in range(ndim)] if rng.random() < .5 else []
        ranges = []; angles = []
        if rng.random() < .4:
            ranges = [dy(Fraction(rng.randint(4, 24), 2)) for _ in range(ndim)]
            if rng.random() < .5: angles = [dy(rng.choice([30, 60, 110])) if (k == 0 or ndim == 3) else dy(0) for k in range(ndim)]
        st = [t, dy(Fraction(rng.randint(4, 24), 2)), dy(par), ranges, angles, [dy(rng.choice([1, 2, Fraction(9, 4)]))]]
        out.append([1, rng.randint(1, 2**31 - 1), rng.choice([2, 3, 5]), 1, ndim, 1, [1, nx, dx, x0, ang, []], [[st], []]])
    return out

def fl(p): return None if p == [] else float(undy(p))

def particular(t, param):
    if t == 10:
        if abs(param - 1.) < 1e-7: return 1
        if abs(param - 2.) < 1e-7: return 3
    if t == 7 and abs(param - .5) < 1e-7: return 1
    return t

def check_tb(ctx, case, res, model_cases, model_meta, idx):
    """first stage: structural checks on the harvested trace; builds the model cases (one per simulation)"""
    found = False
    _, seed, nbtuba, nbsimu, ndim, nvar, db, (structs, means) = case
    ncov = len(structs)
    what = 'simtub:%s' % ('grid' if db[0] == 1 else 'points')
    if res is None or res[0] != 0:
        ctx.violation(what + ':run-failed', 'turning bands failed or crashed on a valid model', {'case': sx_str(case), 'impl': res}); return True
    nech = res[1]; finals = res[2]; recs = res[3]; codirs = res[4]; seedbands = res[5]; sinfo = res[6]; mm = res[7]
    types = [s[0] for s in structs]
    ptypes = [particular(s[0], float(undy(s[2]))) for s in structs]
    act = None
    byk = {}
    for r in recs:
        ints = r[0]
        site, ivar, isimu, is_, ib, sd, nbt, nv, ty, shift, icase, ne = ints
        byk.setdefault((site, isimu + shift, ivar, is_, ib), []).append(r)
        if act is None and site != 2: act = r[5]
        if nbt != nbtuba or nv != nvar or ne != nech:
            ctx.violation(what + ':trace-header', 'record header inconsistent with the call', {'case': sx_str(case), 'record': ints}); found = True
        if site != 2 and sd != seedbands[ivar + nvar * (is_ + ncov * (ib + nbtuba * isimu))]:
            ctx.violation(what + ':band-seed', 'band (%d,%d,%d,%d) re-seeded with a seed that is not the one stored by _initializeSeedBands' % (ivar, isimu, is_, ib),
                          {'case': sx_str(case), 'record': ints}); found = True
    # orthogonality premise of the L2 theorems: two bands of the same structure never replay the same stretch of the generator
    seen = {}
    for r in recs:
        site_, ivar, isimu, is_, ib, sd = r[0][0:6]
        if site_ == 2: continue
        k2 = (is_, sd)
        if k2 in seen and seen[k2] != (ivar, isimu, ib):
            ctx.violation(what + ':band-seed-collision', 'bands %r and %r of structure %d start from the same generator state %d: identical, not independent, band processes' % (seen[k2], (ivar, isimu, ib), is_, sd),
                          {'case': sx_str(case)}); found = True
        seen[k2] = (ivar, isimu, ib)
    # the factor 'correc' is the constant the algebra of the 1-D processes requires (coq/C14 Proc: 3 and 840 for the dilution
    # processes of the spherical and cubic structures, 2 for the cosine processes, 1 for the migration processes)
    for r in recs:
        site_, ivar, isimu, is_, ib = r[0][0:5]
        if site_ == 2: continue
        pt = ptypes[is_]; par = float(undy(structs[is_][2]))
        k = CORREC2.get(pt)
        if pt == 7: k = 2 if par > 0.5 else 1
        if pt == 10: k = 2 if par > 1 else 1
        c2 = float(undy(r[1])) ** 2
        if k is not None and abs(c2 - k) > 1e-12 * k:
            ctx.violation('%s:correc' % TB_TYPES[types[is_]], 'structure %d (%s): correc^2 = %r, the normalisation of its 1-D process requires %d' % (is_, TB_TYPES[types[is_]], c2, k),
                          {'case': sx_str(case), 'record': r[0]}); found = True
    site = 1 if db[0] == 1 else 0
    # completeness: one record per (ivar, isimu, is, ib) for non nugget structures, one nugget record per (isimu, ivar, is)
    for isimu in range(nbsimu):
        for ivar in range(nvar):
            for is_ in range(ncov):
                if types[is_] == 0:
                    if len(byk.get((2, isimu, ivar, is_, 0), [])) != 1:
                        ctx.violation(what + ':nugget-records', 'nugget contribution (%d,%d,%d) recorded %d times' % (isimu, ivar, is_, len(byk.get((2, isimu, ivar, is_, 0), []))), {'case': sx_str(case)}); found = True
                    continue
                for ib in range(nbtuba):
                    if len(byk.get((site, isimu, ivar, is_, ib), [])) != 1:
                        ctx.violation(what + ':band-records', 'band (%d,%d,%d,%d) accumulated %d times' % (ivar, isimu, is_, ib, len(byk.get((site, isimu, ivar, is_, ib), []))), {'case': sx_str(case)}); found = True
    if found: return True
    if act is None:   # only nugget structures
        sel = db[2] if db[0] == 0 else db[5]
        act = [1 if (not sel or sel[x]) else 0 for x in range(nech)]
    zero = dy(0)
    for isimu in range(nbsimu):
        tabs = []; correc = []; nug = []
        norme = None
        for ivar in range(nvar):
            tabs.append([]); correc.append([]); nug.append([])
            for is_ in range(ncov):
                if types[is_] == 0:
                    r = byk[(2, isimu, ivar, is_, 0)][0]
                    nug[-1].append(r[4]); tabs[-1].append([[zero] * nech] * nbtuba); correc[-1].append([zero] * nbtuba)
                else:
                    nug[-1].append([zero] * nech)
                    rr = [byk[(site, isimu, ivar, is_, ib)][0] for ib in range(nbtuba)]
                    tabs[-1].append([[t if act[x] else zero for x, t in enumerate(r[4])] for r in rr])
                    correc[-1].append([r[1] for r in rr])
                    norme = rr[0][2]
        # aic[s][j][i] from the records (first band of each (ivar, is))
        aic = []
        for is_ in range(ncov):
            rows = [[None] * nvar for _ in range(nvar)]
            for ivar in range(nvar):
                r = byk[(2, isimu, ivar, is_, 0)][0] if types[is_] == 0 else byk[(site, isimu, ivar, is_, 0)][0]
                for j in range(nvar): rows[j][ivar] = r[3][j]
            aic.append(rows)
        if norme is None: norme = dy(1)
        outs = [[finals[isimu][j][x] for x in range(nech)] for j in range(nvar)]
        sills = [s[8] for s in sinfo]
        model_cases.append([1, nvar, ncov, nbtuba, nech, norme, mm if mm else [zero] * nvar, tabs, correc, aic, nug, [t == 0 for t in types], outs, act, sills])
        model_meta.append(('tb', idx, isimu, what, ptypes))
    return False

def mres_aic(case, meta, res, is_):
    """AIC[j][i] of structure is_ as recorded by the hook for the simulation of this model case"""
    _, idx, isimu, what, ptypes = meta
    nvar = case[5]
    A = [[None] * nvar for _ in range(nvar)]
    for r in res[3]:
        site, ivar, isim, s_, ib = r[0][0:5]
        if s_ != is_ or isim + r[0][9] != isimu: continue
        for j in range(nvar): A[j][ivar] = float(undy(r[3][j]))
    return A if all(v is not None for row in A for v in row) else None

def cmp_tb(ctx, case, meta, res, mres):
    _, idx, isimu, what, ptypes = meta
    _, seed, nbtuba, nbsimu, ndim, nvar, db, (structs, means) = case
    found = False
    perjx, gramdiff, normchk = mres
    nech = res[1]
    nterms = nvar * len(structs) * nbtuba + 4
    sq = math.sqrt(nbtuba)
    for j in range(nvar):
        for x in range(nech):
            S, Sa, Ng, Na, r, sgn, a = perjx[j][x]
            S = unq(S); Sa = unq(Sa); Ng = unq(Ng); Na = unq(Na)
            o = fl(res[2][isimu][j][x])
            mean = float(undy(res[7][j])) if res[7] else 0.
            if not a:
                if o is not None:
                    ctx.violation(what + ':masked-sample-defined', 'masked sample %d receives the value %r' % (x, o), {'case': sx_str(case), 'sample': x}); found = True
                continue
            expect = float(S) / sq + mean + float(Ng)
            tol = 8 * nterms * 2.**-53 * (float(Sa) / sq + abs(mean) + float(Na)) + 1e-300
            ctx.count(None, False)
            if o is None or abs(o - expect) > tol:
                # spec: square-root-free residual  (o - mean - nug)^2 nbtuba = S^2  and same sign
                # one common factor f != 1/sqrt(nbtuba) for every value of the simulation (norm_resid = (f^2 nb - 1) S^2, C14_normation_residual) => normation
                key = what + ':assembly'
                ratios = []
                for jj in range(nvar):
                    for xx in range(nech):
                        S2, _, N2, _, r2, _, a2 = perjx[jj][xx]
                        o2 = fl(res[2][isimu][jj][xx])
                        if a2 and o2 is not None and r2 != [] and unq(S2) != 0:
                            m2 = float(undy(res[7][jj])) if res[7] else 0.
                            ratios.append(float(unq(r2)) / float(unq(S2)) ** 2)
                if len(ratios) >= 2 and max(ratios) - min(ratios) < 1e-6 * (1 + abs(ratios[0])) and abs(ratios[0]) > 1e-6:
                    key = what + ':normation'
                ctx.violation(key, 'simulation %d variable %d sample %d: implementation %r, recomputed from the recorded band tables %r (sum %r, nbtuba %d)' % (isimu, j, x, o, expect, float(S), nbtuba),
                              {'case': sx_str(case), 'isimu': isimu, 'jvar': j, 'sample': x, 'impl': o, 'expected': expect})
                found = True
    # normation constant and correc constants
    if abs(float(unq(normchk))) > 1e-14 and any(t != 0 for t in [s[0] for s in structs]):
        ctx.violation(what + ':norme', 'norme^2 * nbtuba - 1 = %r' % float(unq(normchk)), {'case': sx_str(case)}); found = True
    # AIC.t(AIC) = sill.  The pinned tree builds M = t(V).Lambda^1/2 instead of V.Lambda^1/2 (known finding createAIC:aic-aict-vs-sill,
    # theorems C14_aic_code_gram / C14_aic_code_refuted*): exactly THAT construction is recognised (t(M).M diagonal = Lambda,
    # W = M.Lambda^-1/2 orthogonal, t(W).Lambda.W = sill, i.e. W = t(V) for an exact eigen-decomposition of the sill) and keyed so;
    # coefficients that are neither a square root of the sill nor that construction are a different, fresh violation.
    smax = max(abs(float(undy(v))) for s in res[6] for row in s[8] for v in row)
    tolg = 1e-10 * (1 + smax)
    ncov_ = len(structs)
    for is_ in range(ncov_):
        diffs = [[float(unq(gramdiff[is_][j][jp])) for jp in range(nvar)] for j in range(nvar)]
        if max(abs(d) for row in diffs for d in row) <= tolg: continue
        sill = [[float(undy(v)) for v in row] for row in res[6][is_][8]]
        M = [[sill[j][jp] + diffs[j][jp] for jp in range(nvar)] for j in range(nvar)]      # gram = M.t(M) (exact from the model)
        A = mres_aic(case, meta, res, is_)                                                  # AIC[j][i] as harvested
        known = False
        if A is not None:
            MtM = [[sum(A[j][a] * A[j][b] for j in range(nvar)) for b in range(nvar)] for a in range(nvar)]
            diag_ok = all(abs(MtM[a][b]) <= tolg for a in range(nvar) for b in range(nvar) if a != b) and all(MtM[a][a] > 0 for a in range(nvar))
            if diag_ok:
                lam = [MtM[a][a] for a in range(nvar)]
                W = [[A[j][a] / math.sqrt(lam[a]) for a in range(nvar)] for j in range(nvar)]
                orth = all(abs(sum(W[j][a] * W[jp][a] for a in range(nvar)) - (1. if j == jp else 0.)) <= 1e-9 for j in range(nvar) for jp in range(nvar))
                rec = all(abs(sum(W[a][j] * lam[a] * W[a][jp] for a in range(nvar)) - sill[j][jp]) <= 1e-9 * (1 + smax) for j in range(nvar) for jp in range(nvar))
                known = orth and rec
        j, jp = max(((j, jp) for j in range(nvar) for jp in range(nvar)), key=lambda t: abs(diffs[t[0]][t[1]]))
        if known:
            ctx.violation('createAIC:aic-aict-vs-sill', 'structure %d: (AIC.t(AIC))[%d][%d] - sill = %r: the coefficients used at the accumulation site are t(V).sqrt(Lambda) for the eigen-pairs of the sill, '
                          'they realise t(V).Lambda.V instead of the sill V.Lambda.t(V)' % (is_, j, jp, diffs[j][jp]),
                          {'case': sx_str(case), 'structure': is_, 'j': j, 'jp': jp, 'diff': diffs[j][jp], 'sill': sill, 'realised': M}); found = True
        else:
            ctx.violation('createAIC:coefficients-unrelated-to-sill', 'structure %d: (AIC.t(AIC))[%d][%d] - sill = %r and the coefficients are not the (known) transposed eigen-construction of this sill either' % (is_, j, jp, diffs[j][jp]),
                          {'case': sx_str(case), 'structure': is_, 'j': j, 'jp': jp, 'diff': diffs[j][jp], 'sill': sill, 'realised': M}); found = True
    return found

def check_directions(ctx, case, res, model_cases, model_meta, idx):
    """numeric replay (binary64) of _generateDirections; exact residual codir - scale t(Tinv) u delegated to the model"""
    found = False
    _, seed, nbtuba, nbsimu, ndim, nvar, db, (structs, means) = case
    ncov = len(structs); codirs = res[4]; sinfo = res[6]
    what = 'generateDirections'
    nbands = nbsimu * nbtuba * ncov
    if len(codirs) != nbands:
        ctx.violation(what + ':count', '%d directions for %d bands' % (len(codirs), nbands), {'case': sx_str(case)}); return True
    base = base_directions(seed, nbands)
    ibs = 0
    # coordinates of the active samples, for tmin/tmax
    for isimu in range(nbsimu):
        for is_ in range(ncov):
            ty, hasrange, faniso, frot, scale, scales, rot, tinv, sill, param = sinfo[is_]
            for ib in range(nbtuba):
                cd = [fl(v) for v in codirs[ibs]]
                u = base[ibs]
                if hasrange == 0:        # nugget: the loop 'continue's (hasRange() is -1 for the structures defined by a slope, which go on)
                    exp_ang = u; exp_scale = 1.
                elif faniso:
                    T = [[fl(v) for v in row] for row in tinv]
                    val = [sum(T[j][i] * u[j] for j in range(ndim)) if i < ndim else 0. for i in range(3)]
                    nv = math.sqrt(sum(v * v for v in val))
                    exp_scale = 1. / nv; exp_ang = [v * exp_scale for v in val]
                    # exact residual through the model (kind 2), 3-D embedding
                    T3 = [[tinv[i][j] if (i < ndim and j < ndim) else dy(0) for j in range(3)] for i in range(3)]
                    model_cases.append([2, 3, T3, codirs[ibs][0:3], codirs[ibs][3], [dy(x) for x in u]])
                    model_meta.append(('aniso', idx, ibs, is_))
                else:
                    exp_ang = u; exp_scale = fl(scale)
                # grid path: t00 / dxp / dyp / dzp are the band abscissa of the origin node and its increments along the GRID axes
                # (TurningBandDirection::projectGrid through the grid rotation; divided by the scale for the dilution structures)
                if db[0] == 1 and hasrange != 0 and len(res) > 10:
                    coords = [[fl(v) for v in col] for col in res[10]]
                    nxs = db[1]
                    div = cd[3] if ty in (2, 4) else 1.
                    def node(ix): return [coords[k][ix] for k in range(ndim)]
                    def proj(pt): return sum(pt[k] * cd[k] for k in range(ndim))
                    p0 = proj(node(0))
                    exp_t = [p0 / div, None, None, None]
                    stride = 1
                    for k in range(ndim):
                        if nxs[k] > 1: exp_t[1 + k] = (proj(node(stride)) - p0) / div
                        stride *= nxs[k]
                    sc_ = max(abs(p0 / div), 1.)
                    for k4, name4 in enumerate(['t00', 'dxp', 'dyp', 'dzp']):
                        if exp_t[k4] is not None and abs(cd[6 + k4] - exp_t[k4]) > 1e-9 * sc_:
                            ctx.violation(what + ':grid-increment', 'band %d: %s = %r, the projection of the grid geometry (rotation included) on the band gives %r' % (ibs, name4, cd[6 + k4], exp_t[k4]),
                                          {'case': sx_str(case), 'band': ibs, 'which': name4}); found = True
                ctx.count(None, False)
                err = max(abs(cd[k] - exp_ang[k]) for k in range(3))
                if err > 1e-9 or abs(cd[3] - exp_scale) > 1e-9 * (1 + abs(exp_scale)):
                    rule = 'anisotropy' if (hasrange != 0 and faniso) else 'van-der-corput-rotation'
                    ctx.violation(what + ':' + rule, 'band %d (simulation %d, structure %d): direction %r scale %r, expected %r scale %r' % (ibs, isimu, is_, cd[0:3], cd[3], exp_ang, exp_scale),
                                  {'case': sx_str(case), 'band': ibs, 'impl': cd[0:4], 'expected': exp_ang + [exp_scale]}); found = True
                ibs += 1
    return found

def cmp_aniso(ctx, case, meta, res, mres):
    _, idx, ibs, is_ = meta
    resid, u2, c2 = mres
    m = max(abs(float(unq(r))) for r in resid)
    if m > 1e-9 or abs(float(unq(c2))) > 1e-9:
        ctx.violation('generateDirections:anisotropy-tensor', 'band %d: codir - scale * t(TensorInverse).u = %r, |codir|^2 - 1 = %r: the band abscissa is not that of the point transformed by the model\'s own tensor' % (ibs, m, float(unq(c2))),
                      {'case': sx_str(case), 'band': ibs, 'structure': is_}); return True
    return False

# ----------------------------------------------------------------------------- deterministic band-average evidence (numeric)
def c1_of(t, param=1.):
    """one-dimensional covariance whose average over uniform directions is the 3-D structure: C1(s) = d/ds (s C(s))"""
    if t == 2: return lambda s: (1 - 3 * abs(s) + 2 * abs(s) ** 3) if abs(s) < 1 else 0.
    if t == 4: return lambda s: (1 - 21 * s**2 + 35 * abs(s)**3 - 21 * abs(s)**5 + 6 * abs(s)**7) if abs(s) < 1 else 0.
    if t == 1: return lambda s: (1 - abs(s)) * math.exp(-abs(s))
    if t == 3: return lambda s: (1 - 2 * s * s) * math.exp(-s * s)
    return None

def gen_quad_case(rng):
    ndim = rng.choice([1, 2, 3, 3]); t = rng.choice([1, 2, 3, 4])
    ranges = []; angles = []
    if ndim >= 2 and rng.random() < .7:
        ranges = [dy(Fraction(rng.randint(4, 40), 2)) for _ in range(ndim)]
        if rng.random() < .7: angles = [dy(rng.choice([20, 45, 70, 110])) if (k == 0 or ndim == 3) else dy(0) for k in range(ndim)]
    st = [t, dy(Fraction(rng.randint(4, 30), 2)), dy(1), ranges, angles, [dy(1)]]
    coords = [[dy(0)] for _ in range(ndim)]
    nb = 400
    case = [1, rng.randint(1, 10**6), nb, 1, ndim, 1, [0, coords, []], [[st], []]]
    hs = []
    for _ in range(6):
        hs.append([dy(Fraction(rng.randint(-24, 24), 4)) for _ in range(ndim)])
    return case, [5, ndim, 1, [[st], []], hs]

def cmp_quad(ctx, case, covcase, res, cres):
    if res is None or res[0] != 0 or cres is None:
        ctx.violation('band-average:run-failed', 'run failed', {'case': sx_str(case)}); return True
    t = case[7][0][0][0]; ndim = case[4]
    c1 = c1_of(t); codirs = res[4]
    worst = 0.; found = False
    for k, h in enumerate(covcase[4]):
        hv = [float(undy(v)) for v in h]
        acc = 0.
        for cd in codirs:
            ang = [fl(v) for v in cd[0:3]]; sc = fl(cd[3])
            tt = sum(hv[i] * ang[i] for i in range(ndim)) / sc
            acc += c1(tt)
        acc /= len(codirs)
        ref = fl(cres[0][k])
        worst = max(worst, abs(acc - ref))
        ctx.count(None, False)
        if abs(acc - ref) > 0.06:
            ctx.violation('band-average:%s' % TB_TYPES[t], 'average over the %d harvested directions of C1(<h,codir>/scale) = %.4f, model covariance C(h) = %.4f for h = %r' % (len(codirs), acc, ref, hv),
                          {'case': sx_str(case), 'h': hv, 'average': acc, 'model': ref}); found = True
    ctx.cov.setdefault('band_average_max_error', 0.)
    ctx.cov['band_average_max_error'] = max(ctx.cov['band_average_max_error'], worst)
    return found

# ----------------------------------------------------------------------------- Cholesky simulator
def gen_chol_case(rng):
    n = rng.randint(1, 6)
    B = [[rng.randint(-3, 3) for _ in range(n)] for _ in range(n)]
    S = [[sum(B[i][k] * B[j][k] for k in range(n)) + (rng.randint(1, 3) if i == j else 0) for j in range(n)] for i in range(n)]
    return [3, n, [[dy(S[i][j]) for j in range(n)] for i in range(n)], rng.randint(1, 2**31 - 1), rng.random() < .4]

def cmp_chol(ctx, case, res, mres, stage):
    """stage 1 builds the model case from the harvested factor, stage 2 compares"""
    _, n, S, seed, inverse = case
    what = 'MatrixSquareSymmetricSim:%s' % ('precision' if inverse else 'covariance')
    if res is None or res[0] != 0:
        ctx.violation(what + ':run-failed', 'Cholesky simulator failed on an SPD matrix', {'case': sx_str(case)}); return True, None
    cols, g, out = res[1], res[2], res[3]
    if stage == 1:
        # columns of the simulator map: evalSimulate(e_k); for the precision form these are the columns of t(L)^-1: the check
        # then runs on the covariance-form factor recomputed by the model from ... the harvested map itself (M = t(L)^-1)
        Lrows = [[cols[k][i] for k in range(n)] for i in range(n)]
        return False, Lrows
    found = False
    # draws of the seed replayed by the generator model
    r = Rng(seed); gm = [r.gaussian() for _ in range(n)]
    gi = [fl(v) for v in g]
    ctx.count(sx_str(case))
    if max(abs(a - b) for a, b in zip(gi, gm)) > 1e-12 * (1 + max(abs(x) for x in gm)):
        ctx.violation('simulateGaussian:replay', 'the draws of seed %d are not the Box-Muller pairs of the generator model' % seed, {'case': sx_str(case), 'impl': gi, 'model': gm}); found = True
    cres, upper, lres = mres
    smax = max(abs(float(undy(v))) for row in S for v in row)
    m1 = max(abs(float(unq(v))) for row in cres for v in row)
    m2 = max(abs(float(unq(v))) for v in upper)
    if m1 > 1e-9 * (1 + smax) ** 2 or m2 != 0:
        ctx.violation(what + ':factor', ('the map applied to the draws is not an upper triangular M with Sigma.M.t(M) = I' if inverse else 'the map applied to the draws is not a lower triangular L with L.t(L) = Sigma') +
                      ' (max residual %r, other triangle %r)' % (m1, m2), {'case': sx_str(case)}); found = True
    m3 = max(abs(float(unq(v))) for v in lres)
    if m3 > 1e-10 * (1 + smax) * (1 + max(abs(x) for x in gi)):
        ctx.violation(what + ':apply', 'output is not the harvested factor applied to the draws (residual %r)' % m3, {'case': sx_str(case)}); found = True
    return found, None

PARTS = []     # (name, gen_<p>(ctx, quick) -> cases, meta ; cmp_<p>(ctx, case, meta, impl, model) -> found a failing input)
# BEGIN PART vdc 

"""C14 part vdc (case kinds 300..349): Van der Corput loop of CalcSimuTurningBands::_generateDirections
(src/Simulation/CalcSimuTurningBands.cpp:141-150) - C++ doubles (verbatim copy of the loop, harness run_vdc) against the
exact rational Coq model (Run_vdc.run_vdc).  The copy is tied to the real (private, randomly rotated) library function by
the Gram-matrix correspondence of another part of C14, not here."""
from fractions import Fraction
import math


VDC_TOL = Fraction(1, 10 ** 15)      # base != 2^j: the double is the correctly accumulated sum of <= 31 rounded terms (measured max 4.7e-16)

def _vdc_exact(p, n):
    """independent evaluation: sum digit_i p^-(i+1) with python integers"""
    x = Fraction(0); d = p
    while n > 0:
        x += Fraction(n % p, d); d *= p; n //= p
    return x

def _vdc_pow2(p): return p & (p - 1) == 0
def _vdc_lbl(p): return str(p) if p in (2, 3) else 'other'

def gen_vdc(ctx, quick):
    rng = ctx.rng
    cases, meta = [], []
    def add300(p, n, why):
        cases.append([300, p, n]); meta.append({'kind': 300, 'p': p, 'n': n, 'why': why}); ctx.dist('vdc300:base%s:%s' % (_vdc_lbl(p), why))
    def add301(p, n0, k, why):
        cases.append([301, p, n0, k]); meta.append({'kind': 301, 'p': p, 'n0': n0, 'k': k, 'why': why}); ctx.dist('vdc301:base%s:%s' % (_vdc_lbl(p), why))
    nsmall = 1500 if quick else 20000
    nrand = 1500 if quick else 20000
    IMAX = 2 ** 31 - 1
    for p in (2, 3):
        for n in range(0, nsmall + 1): add300(p, n, 'first-bands')        # n = 1 + ibs for the first bands (n = 0: loop not entered)
        k = 1
        while p ** k <= IMAX:                                             # digit boundaries
            for n in (p ** k - 1, p ** k, p ** k + 1, 2 * p ** k - 1, (p - 1) * p ** k):
                if 0 < n <= IMAX: add300(p, n, 'digit-boundary')
            k += 1
        add300(p, IMAX, 'int-max')
        for _ in range(nrand):
            bits = rng.randint(1, 31)
            add300(p, rng.randrange(1, min(2 ** bits, IMAX) + 1), 'random')
    for p in (4, 5, 7, 10, 16, 46341):                                    # the theorems are for every base; the library uses 2 and 3 only
        for _ in range(60 if quick else 600):
            add300(p, rng.randrange(1, IMAX), 'random')
    for p, kmax in ((2, 10 if quick else 12), (3, 6 if quick else 7), (5, 3)):
        for k in range(0, kmax + 1):
            add301(p, 1, k, 'aligned-start')                              # bands 0 .. p^k - 1
            for _ in range(2 if quick else 5):
                add301(p, rng.randrange(0, 10 ** rng.randint(1, 8)), k, 'any-window')
    return cases, meta

def _cmp_x(ctx, site, p, n, xd, xm, replay):
    """one double against the exact value; True when a violation was recorded"""
    if _vdc_pow2(p):
        if xd != xm:
            ctx.violation('%s.base%s:exact-radical-inverse' % (site, _vdc_lbl(p)),
                          'n=%d base %d: loop in doubles gives %r, exact radical inverse %s (all partial sums are dyadic: must be equal)' % (n, p, float(xd), xm), replay)
            return True
    elif abs(xd - xm) > VDC_TOL:
        ctx.violation('%s.base%s:radical-inverse' % (site, _vdc_lbl(p)),
                      'n=%d base %d: loop in doubles gives %r, exact radical inverse %s = %r (|diff| %.3g > 1e-15)' % (n, p, float(xd), xm, float(xm), float(abs(xd - xm))), replay)
        return True
    if n >= 1 and not (0 < xd < 1):
        ctx.violation('%s.base%s:open-unit-interval' % (site, _vdc_lbl(p)), 'n=%d base %d: x=%r not strictly inside (0,1)' % (n, p, float(xd)), replay)
        return True
    return False

def cmp_vdc(ctx, case, meta, impl, model):
    site = 'generateDirections.vdc'
    replay = {'case': sx_str(case), 'impl': impl, 'model': model, 'how': 'harness run_vdc (copy of CalcSimuTurningBands.cpp:141-150) vs coq/C14/Run_vdc.v'}
    p = meta['p']
    if impl is None or (isinstance(impl, list) and len(impl) == 2 and impl[0] in (-997,)):
        ctx.violation(site + ':harness-crash', 'harness crashed / refused case %s' % sx_str(case), replay); return True
    if model is None or (isinstance(model, list) and len(model) == 2 and model[0] == -999):
        ctx.violation('model-drift:' + site, 'model refused case %s: %r' % (sx_str(case), model), replay, found_input=False); return False
    if meta['kind'] == 300:
        n = meta['n']
        ctx.count(('vdc300', p, n.bit_length(), n % p), n >= p)
        xd = undy(impl[0]); xm = unq(model[0]); xs = unq(model[1]); xe = _vdc_exact(p, n)
        if not (xm == xs == xe):           # the model (loop as written) against the closed form: a theorem; disagreement = drift
            ctx.violation('model-drift:' + site, 'n=%d base %d: model %s, closed form %s, python %s' % (n, p, xm, xs, xe), replay, found_input=False)
            return False
        if n > 1000: ctx.sample({'part': 'vdc', 'case': sx_str(case), 'double': float(xd), 'exact': str(xm)})
        return _cmp_x(ctx, site, p, n, xd, xm, replay)
    # kind 301: a window of p^k consecutive indices
    n0, k = meta['n0'], meta['k']; P = p ** k
    ctx.count(('vdc301', p, k, n0 % P), k >= 1)
    xds = [undy(t) for t in impl[0]]
    js, rs, xms = model[0], model[1], [unq(t) for t in model[2]]
    if len(xds) != P or len(js) != P:
        ctx.violation(site + ':window-length', 'window n0=%d k=%d base %d: %d doubles, %d model values, expected %d' % (n0, k, p, len(xds), len(js), P), replay)
        return True
    # theorems observed on the model: bucket = reversal of n mod p^k, window = permutation of 0..p^k-1
    ok = js == rs and sorted(js) == list(range(P)) and all(xms[i] == _vdc_exact(p, n0 + i) and js[i] == math.floor(xms[i] * P) for i in range(P))
    if not ok:
        ctx.violation('model-drift:' + site, 'window n0=%d k=%d base %d: model buckets are not the digit reversal / not a permutation' % (n0, k, p), replay, found_input=False)
        return False
    bad = False
    jd = []
    for i in range(P):
        if _cmp_x(ctx, site, p, n0 + i, xds[i], xms[i], dict(replay, index=n0 + i)): bad = True; break
        # interval index from the double (snapped by the tolerance for non-dyadic bases: x_n can sit exactly on j/p^k)
        jd.append(math.floor(xds[i] * P) if _vdc_pow2(p) else math.floor((xds[i] + VDC_TOL) * P))
    if not bad and (jd != js or sorted(jd) != list(range(P))):
        i = next(i for i in range(P) if jd[i] != js[i])
        ctx.violation(site + '.base%s:one-term-per-interval' % _vdc_lbl(p),
                      'window n0=%d k=%d base %d: band n=%d falls in interval %d, the digit reversal predicts %d' % (n0, k, p, n0 + i, jd[i], js[i]), dict(replay, index=n0 + i))
        bad = True
    if not bad: ctx.sample({'part': 'vdc', 'case': sx_str(case), 'intervals': js[:16]})
    return bad




PARTS.append(('vdc', gen_vdc, cmp_vdc, 300, 349, globals().get('meta_vdc')))
# END PART vdc 
# BEGIN PART proc 

"""C14 part `proc`: correspondence of the 1-D processes of the turning bands (kinds 400..499).
gen_proc(ctx, quick) -> cases, meta ; cmp_proc(ctx, case, meta, impl, model) -> True when a failing input was found.
Stand-alone: python3 proc_check.py quick|thorough seed workdir   (workdir holds ./runner and ./harness, see proc_test.sh)"""
import sys, os, math
sys.path.insert(0, '/verif/checks')
from fractions import Fraction


F = Fraction
COVNAME = {0: 'Spherical', 1: 'Cubic', 2: 'Exponential', 3: 'Gaussian', 4: 'Sincard', 5: 'BesselJ', 6: 'Linear', 7: 'GC1',
           8: 'GC3', 9: 'GC5', 10: 'Power', 11: 'GCspline', 12: 'Stable', 13: 'Matern'}

# ------------------------------------------------------------------ replica of the old-style generator (src/Basic/Law.cpp:127-200)
class Lcg:
    def __init__(self, seed): self.s = seed
    def uniform(self, a=0., b=1.):
        self.s = (105 * self.s) % 20000159
        if self.s == 0: self.s = 1
        return a + (self.s / 20000159) * (b - a)
    def gaussian(self):
        r1 = self.uniform(); r2 = self.uniform(0., 2. * math.pi)
        return math.sqrt(-2. * math.log(r1)) * math.cos(r2) * 1. + 0.

def dyf(x):
    """exact dyadic (m e) of a python float (fast path of common.dy)"""
    if x == 0.0: return [0, 0]
    m, e = math.frexp(x); m = int(m * 9007199254740992.0); e -= 53
    z = (m & -m).bit_length() - 1
    return [m >> z, e + z]

def dyad(rng, n, b):
    return F(rng.randint(-n, n), 2 ** b)

def mkst(nt0=0, flag=False, vexp=0, tdeb=0, omega=0, phi=0, offset=0, scale=1, t=(), v0=(), v1=(), v2=()):
    return [nt0, 1 if flag else 0, dy(vexp), dy(tdeb), dy(omega), dy(phi), dy(offset), dy(scale),
            [dy(x) for x in t], [dy(x) for x in v0], [dy(x) for x in v1], [dy(x) for x in v2]]

def incr_vec(rng, nt, lo=-8, step=4, b=3):
    t = [F(rng.randint(lo * 8, lo * 8 + 32), 8)]
    for _ in range(nt - 1): t.append(t[-1] + F(rng.randint(1, step * 2 ** b), 2 ** b))
    return t

def poisson_queries(rng, t, n):
    qs = []; nt = len(t)
    k = rng.randrange(max(1, nt - 1))
    for _ in range(n):
        r = rng.random()
        if r < .35: k = min(max(k + rng.choice([-1, 0, 1, 1]), 0), max(nt - 2, 0))      # neighbouring interval: cache paths
        else: k = rng.randrange(max(1, nt - 1))                                           # far: dichotomy
        a, b = (t[k], t[k + 1]) if nt >= 2 else (t[0], t[0] + 1)
        r = rng.random()
        if r < .15: x = a
        elif r < .25: x = b
        elif r < .40: x = (a + b) / 2
        elif r < .50: x = (a + b) / 2 + F(rng.choice([-1, 1]), 2 ** 20)
        elif r < .56: x = t[0] - F(rng.randint(0, 16), 8)
        elif r < .62: x = t[-1] + F(rng.randint(0, 16), 8)
        else: x = a + (b - a) * F(rng.randint(0, 64), 64)
        qs.append(x)
    return qs

# ------------------------------------------------------------------ generators
def gen_shot(ctx, n, kind):
    rng = ctx.rng; cases = []; meta = []
    for _ in range(n):
        pow2 = rng.random() < .6
        scale = F(2) ** rng.randint(-3, 3) if pow2 else rng.choice([F(3), F(3, 4), F(5, 4), F(7, 8), F(11, 2), F(float(1.7)), F(float(0.3))])
        flag = rng.random() < .5
        ncell = rng.randint(1, 8)
        t = [F(rng.choice([-1, 1])) for _ in range(ncell)]
        if rng.random() < .15: t[rng.randrange(ncell)] = F(rng.choice([5, -3, 0]), 2)
        tdeb = dyad(rng, 400, 4)
        ts = []
        for _ in range(rng.randint(3, 9)):
            k = rng.randint(-1, ncell) if rng.random() < .2 else rng.randrange(ncell)
            frac = rng.choice([F(0), F(1, 2), F(1, 4), F(3, 4), F(rng.randint(0, 63), 64), 1 - F(1, 2 ** 20), F(1, 2 ** 20)])
            x = k + frac
            if pow2: t0 = x + tdeb / scale if flag else scale * x + tdeb
            else: t0 = F(float(x + tdeb / scale)) if flag else F(float(scale * x + tdeb))
            ts.append(t0)
        st = mkst(flag=flag, tdeb=tdeb, scale=scale, t=t)
        cases.append([kind, st, [dy(x) for x in ts]])
        meta.append(meta_proc(cases[-1]))
        ctx.dist('shot:%s:%s:%s' % ('affine' if kind == 400 else 'cubic', 'pow2' if pow2 else 'anyscale', 'scaled' if flag else 'raw'))
    return cases, meta

def gen_poisson(ctx, n, kind):
    rng = ctx.rng; cases = []; meta = []
    for _ in range(n):
        r = rng.random()
        nt = rng.randint(2, 10)
        t = incr_vec(rng, nt)
        shape = 'sorted'
        if r < .08:
            rng.shuffle(t); shape = 'unsorted'
        elif r < .14 and nt > 2:
            i = rng.randrange(nt - 1); t[i + 1] = t[i]; shape = 'ties'
        nt0 = rng.randint(0, nt - 2)
        if r > .97: nt0 = nt - 1; shape = 'cache-out-of-range'
        if r > .985: t = t[:1]; nt = 1; nt0 = 0; shape = 'single-point'
        ts = poisson_queries(rng, sorted(t), rng.randint(4, 12))
        kw = dict(nt0=nt0, t=t, vexp=dyad(rng, 64, 5) if rng.random() < .5 else F(float(0.9 + 0.1967708298 * rng.random())))
        if kind == 420:
            lev = rng.choice([-1, 0, 1, 2, 2])
            if lev >= 0: kw['v0'] = [dyad(rng, 64, 3) for _ in range(nt)]
            if lev >= 1: kw['v1'] = [dyad(rng, 64, 3) for _ in range(nt)]
            if lev >= 2: kw['v2'] = [dyad(rng, 64, 3) for _ in range(nt)]
            if rng.random() < .05 and lev >= 1: kw['v0'] = []          # v1 present, v0 empty -> TEST
            shape += ':level%d' % lev
        cases.append([kind, mkst(**kw), [dy(x) for x in ts]])
        meta.append(meta_proc(cases[-1]))
        ctx.dist(('spectral:' if kind == 410 else 'irf:') + shape)
    return cases, meta

def gen_cos(ctx, n):
    rng = ctx.rng; cases = []; meta = []
    for _ in range(n):
        flag = rng.random() < .4
        st = mkst(flag=flag, omega=dyad(rng, 200, 5), phi=dyad(rng, 200, 5), offset=dyad(rng, 16, 4) if rng.random() < .5 else 0)
        ts = [dyad(rng, 4000, 6) for _ in range(rng.randint(2, 8))]
        cases.append([430, st, [dy(x) for x in ts]]); meta.append(meta_proc(cases[-1]))
        ctx.dist('cosine:' + ('scaled' if flag else 'cos'))
    return cases, meta

def gen_irfinit(ctx, n):
    rng = ctx.rng; cases = []; meta = []
    for _ in range(n):
        code = rng.choice([6, 7, 8, 8, 9, 9])
        nt = rng.randint(1, 9)
        t = incr_vec(rng, nt)
        seed = rng.randint(1, 20000000)
        g = Lcg(seed); gs = [g.gaussian() for _ in range(nt - 1)]
        theta1 = F(rng.randint(1, 64), 16); scale = F(rng.randint(1, 64), 8)
        cases.append([440, code, [dy(x) for x in t], [dy(x) for x in gs], seed, dy(theta1), dy(scale)])
        meta.append(meta_proc(cases[-1]))
        ctx.dist('irfInit:' + COVNAME[code])
    return cases, meta

def gen_specgrid(ctx, n):
    rng = ctx.rng; cases = []; meta = []
    for _ in range(n):
        code = rng.choice([3, 4, 5, 10, 11, 12, 13])
        param = F(1)
        if code == 12: param = F(rng.choice([5, 6, 7]), 4)      # > 1 : cosine
        if code == 13: param = F(rng.choice([3, 4, 6]), 4)      # > 0.5 : cosine
        if code == 5: param = F(rng.choice([2, 3, 4]), 2)
        if code == 10: param = F(rng.choice([2, 3, 5]), 4)
        nx, ny, nz = rng.randint(1, 5), rng.randint(1, 4), rng.randint(1, 3)
        omega, phi = float(dyad(rng, 300, 6)), float(dyad(rng, 300, 6))
        t00, dxp, dyp, dzp = [float(dyad(rng, 200, 5)) for _ in range(4)]
        offset = dyad(rng, 16, 4) if rng.random() < .4 else F(0)
        pairs = [(math.cos(omega * t00 + phi), math.sin(omega * t00 + phi))] + \
                [(math.cos(omega * d), math.sin(omega * d)) for d in (dxp, dyp, dzp)]
        mask = [1 if rng.random() < .85 else 0 for _ in range(nx * ny * nz)]
        st = mkst(flag=True, omega=F(omega), phi=F(phi), offset=offset)
        cases.append([450, code, dy(param), st, nx, ny, nz, dy(F(t00)), dy(F(dxp)), dy(F(dyp)), dy(F(dzp))] +
                     [[dy(F(a)), dy(F(b))] for a, b in pairs] + [mask])
        meta.append(meta_proc(cases[-1]))
        ctx.dist('spectralGrid:' + COVNAME[code])
    return cases, meta

def gen_reggrid(ctx, n):
    rng = ctx.rng; cases = []; meta = []
    for _ in range(n):
        code = rng.choice([0, 1, 2, 6, 7, 8, 9, 12, 13])
        param = F(1)
        if code == 12: param = F(rng.choice([1, 2, 3, 4]), 4)   # <= 1 : migration
        if code == 13: param = F(rng.choice([1, 2]), 4)         # <= 0.5 : migration
        nx, ny, nz = rng.randint(1, 5), rng.randint(1, 4), rng.randint(1, 3)
        dxp, dyp, dzp = [F(rng.randint(0, 24), 16) * rng.choice([1, 1, -1]) for _ in range(3)]
        t00 = dyad(rng, 100, 4)
        nodes = [t00 + ix * dxp + iy * dyp + iz * dzp for iz in range(nz) for iy in range(ny) for ix in range(nx)]
        lo, hi = min(nodes), max(nodes)
        mask = [1 if rng.random() < .85 else 0 for _ in range(nx * ny * nz)]
        if code in (0, 1):
            scale = F(2) ** rng.randint(-2, 2); flag = rng.random() < .7
            # the abscissae handed over are already divided by scale when flagScaled (CalcSimuTurningBands.cpp:308-315)
            span_lo, span_hi = (lo, hi) if flag else (lo / scale, hi / scale)
            u = F(rng.randint(0, 15), 16)
            tdeb_s = span_lo - u                                # tdeb / scale
            ncell = int(math.floor(span_hi - tdeb_s)) + 1
            if rng.random() < .05: ncell = max(1, ncell - 1)    # a node beyond the last cell: guarded
            st = mkst(flag=flag, scale=scale, tdeb=tdeb_s * scale, t=[F(rng.choice([-1, 1])) for _ in range(ncell)])
        else:
            nt = rng.randint(2, 9)
            t = [lo - F(rng.randint(0, 8), 8)]
            for _ in range(nt - 1): t.append(t[-1] + F(rng.randint(1, max(2, int((hi - lo) * 16 / (nt - 1)) + 4)), 8))
            kw = dict(flag=rng.random() < .5, t=t, nt0=rng.randint(0, nt - 2), vexp=dyad(rng, 64, 5))
            if code in (6, 7, 8, 9):
                lev = {6: 0, 7: 0, 8: 1, 9: 2}[code]
                kw['v0'] = [dyad(rng, 64, 3) for _ in range(nt)]
                if lev >= 1: kw['v1'] = [dyad(rng, 64, 3) for _ in range(nt)]
                if lev >= 2: kw['v2'] = [dyad(rng, 64, 3) for _ in range(nt)]
            st = mkst(**kw)
        cases.append([451, code, dy(param), st, nx, ny, nz, dy(t00), dy(dxp), dy(dyp), dy(dzp), mask])
        meta.append(meta_proc(cases[-1]))
        ctx.dist('regularGrid:' + COVNAME[code])
    return cases, meta

def _mig_draws(seed, tmin, tmax, scale, maxn):
    """replays _migrationInit (CalcSimuTurningBands.cpp:620-643) in floats: the draws x = -log(u) it consumes and the
    uniform used for vexp; (x0, x1, xs, u) or None when more than maxn points would be needed"""
    g = Lcg(seed)
    delta = float(tmax) - float(tmin); sc = float(scale)
    if sc < delta * 1.e-5: sc = delta * 1.e-5
    x0 = -math.log(g.uniform()); x1 = -math.log(g.uniform())
    value = float(tmin) + sc * x1; xs = []
    while value <= float(tmax):
        if len(xs) >= maxn: return None
        x = -math.log(g.uniform()); xs.append(x); value += sc * x
    return x0, x1, xs, g.uniform()

def gen_miginit(ctx, n):
    rng = ctx.rng; cases = []; meta = []
    while len(cases) < n:
        tmin = dyad(rng, 200, 3); tmax = tmin + F(rng.randint(0, 400), 8)
        scale = F(rng.randint(4, 200), 16) if rng.random() < .7 else F(float(rng.uniform(0.5, 20)))
        seed = rng.randint(1, 20000000)
        d = _mig_draws(seed, tmin, tmax, scale, 400)
        if d is None: continue
        x0, x1, xs, u = d
        xs = xs + [1.0, 1.0, 1.0]      # spare draws, never used unless a tie flips the loop
        case = [460, dy(tmin), dy(tmax), dy(scale), dyf(x0), dyf(x1), [dyf(x) for x in xs], seed, dyf(u)]
        cases.append(case); meta.append(meta_proc(case))
        ctx.dist('migrationInit:npoints<=%d' % (10 * ((len(xs) + 8) // 10)))
    return cases, meta

def mig_degenerate_case(rng, full):
    """_migrationInit with scale < (tmax - tmin) * 1e-5 (the scale is then bounded below: about 1e5 Poisson points).
    full: the case carries all the draws, so that the model of the code rebuilds the whole vector (digest compared);
    otherwise only the spec (increasing, covering) is checked.  Both carry the gaussian draws that the code pushed into _t
    before commit e4e350f57, so that a reverted fix is named."""
    while True:
        tmin = dyad(rng, 200, 3); delta = F(rng.randint(3, 60), 2 ** 16)      # ceil(delta / 1e-5) between 5 and 92
        tmax = tmin + delta
        scale = F(1, 2 ** rng.randint(34, 40))                                  # far below delta * 1e-5
        if abs(float(delta) / 1.e-5 - round(float(delta) / 1.e-5)) > 1e-6: break
    seed = rng.randint(1, 20000000)
    g = Lcg(seed)
    count = int(math.ceil(float(delta) / 1.e-5))
    gs = [g.gaussian() for _ in range(count)]; u_old = g.uniform()
    if full:
        x0, x1, xs, u = _mig_draws(seed, tmin, tmax, scale, 10 ** 7); xs = xs + [1.0, 1.0, 1.0]
    else:
        x0, x1, xs, u = 1.0, 1.0, [], 0.5          # placeholders: the model cannot rebuild the vector, only the spec is checked
    return [462, dy(tmin), dy(tmax), dy(scale), dyf(x0), dyf(x1), [dyf(x) for x in xs], seed, dyf(u), [dyf(x) for x in gs], dyf(u_old)]

def gen_migdeg(ctx, nfull, nlight):
    cases = []; meta = []
    for i in range(nfull + nlight):
        case = mig_degenerate_case(ctx.rng, i < nfull)
        cases.append(case); meta.append(meta_proc(case))
        ctx.dist('migrationInit:bounded-scale:' + ('full' if i < nfull else 'spec-only'))
    return cases, meta

def gen_dilinit(ctx, n):
    rng = ctx.rng; cases = []; meta = []
    for _ in range(n):
        code = rng.choice([0, 1])
        tmin = dyad(rng, 200, 3); tmax = tmin + F(rng.randint(0, 400), 8)
        scale = F(2) ** rng.randint(-1, 3) if rng.random() < .5 else F(rng.randint(8, 200), 16)
        seed = rng.randint(1, 20000000)
        g = Lcg(seed); u = g.uniform()
        ncell = int((float(tmax) - float(tmin)) / float(scale)) + 4
        us = [g.uniform() for _ in range(ncell)]
        cases.append([461, code, dy(tmin), dy(tmax), dy(scale), dy(F(u)), [dy(F(x)) for x in us], seed])
        meta.append(meta_proc(cases[-1]))
        ctx.dist('dilutionInit:' + COVNAME[code])
    return cases, meta

# witnesses of the two defects cured by commits 61380c95b and e4e350f57 (also in proc_corpus.sx)
def _irf_witness(code):
    """t = 0, 1, 2 and the two gaussian draws of seed 12345 (the rational witness of the theorems is g = 1, 1; through
    _irfProcessInit the draws come from the generator)"""
    g = Lcg(12345); gs = [g.gaussian(), g.gaussian()]
    return [440, code, [dy(0), dy(1), dy(2)], [dyf(x) for x in gs], 12345, dy(1), dy(1)]
WITNESS_IRF1 = _irf_witness(8)       # ORDER3_GC, level 1
WITNESS_IRF2 = _irf_witness(9)       # ORDER5_GC, level 2

def meta_proc(case):
    """the meta that cmp_proc needs, rebuilt from the case alone (corpus lines)"""
    kind = case[0]
    m = {'kind': kind}
    if kind in (400, 401):
        m['exact'] = abs(case[1][7][0]) == 1                   # scale = +-2^e: every operation of the code is exact
    elif kind == 440:
        m['code'] = case[1]
    elif kind in (450, 451):
        m['code'] = case[1]
        if kind == 450:
            st = case[3]
            m['pairs'] = [(float(undy(p[0])), float(undy(p[1]))) for p in case[11:15]]
            m['geom'] = (float(undy(st[4])), float(undy(st[5]))) + tuple(float(undy(x)) for x in case[7:11]) + \
                        (float(undy(st[6])), case[4], case[5], case[6])
    elif kind in (460, 462):
        m['tmin'] = undy(case[1]); m['tmax'] = undy(case[2])
    return m

def gen_proc(ctx, quick):
    k = 1 if quick else 20
    cases, meta = [WITNESS_IRF1, WITNESS_IRF2], [meta_proc(WITNESS_IRF1), meta_proc(WITNESS_IRF2)]
    for c, m in (gen_shot(ctx, 100 * k, 400), gen_shot(ctx, 100 * k, 401), gen_poisson(ctx, 200 * k, 410),
                 gen_poisson(ctx, 200 * k, 420), gen_cos(ctx, 60 * k), gen_irfinit(ctx, 60 * k),
                 gen_specgrid(ctx, 50 * k), gen_reggrid(ctx, 120 * k), gen_miginit(ctx, 50 * k), gen_dilinit(ctx, 50 * k),
                 gen_migdeg(ctx, 1 if quick else 4, 8 * k)):
        cases += c; meta += m
    return cases, meta

# ------------------------------------------------------------------ comparison
def _tie(ctx):
    ctx.cov['tie_excluded'] = ctx.cov.get('tie_excluded', 0) + 1

def _vio(ctx, key, text, case):
    return ctx.violation(key, text, {'case': sx_str(case), 'part': 'proc'}) in ('new', 'dup', 'known')

def _vals_close(a, b, tol):
    if a is None or b is None: return a is None and b is None
    return abs(a - b) <= tol * (1 + abs(b))

def cmp_proc(ctx, case, meta, impl, model):
    kind = case[0]
    ck = '%d:%s' % (kind, hash(sx_str(case)) & 0xffffffff)
    if model is None or (isinstance(model, list) and len(model) == 2 and model[0] == -999):
        ctx.count(ck, False)
        return _vio(ctx, 'model:malformed-case-%d' % kind, 'model rejected the case: %r' % (model,), case)
    if impl is None or impl == [-997, 0]:
        ctx.count(ck, True)
        site = {400: 'shotNoiseAffineOne', 401: 'shotNoiseCubicOne', 410: 'spectralOne', 420: 'IRFProcessOne', 430: 'cosineOne',
                440: '_irfProcessInit', 450: '_spreadSpectralOnGrid', 451: '_spreadRegularOnGrid', 460: '_migrationInit', 461: '_dilutionInit',
                462: '_migrationInit'}[kind]
        return _vio(ctx, site + ':crash', 'harness crashed / threw on the case', case)
    bad = False
    if kind in (400, 401):
        site = 'shotNoiseAffineOne' if kind == 400 else 'shotNoiseCubicOne'
        nontriv = False
        for j, (mi, ii) in enumerate(zip(model, impl)):
            margin = unq(mi[3] if mi[0] == 1 else mi[2]); dt = unq(mi[4] if mi[0] == 1 else mi[3])
            if not meta['exact'] and margin < F(1, 10 ** 9) * (1 + abs(dt)): _tie(ctx); continue
            if mi[0] != ii[0] or mi[1] != ii[1]:
                bad |= _vio(ctx, site + ':cell-index', 't0 #%d: model (in-range, cell)=%r impl=%r dt=%s' % (j, mi[:2], ii[:2], float(dt)), case); continue
            if mi[0] == 1:
                nontriv = True
                if not _vals_close(undy(ii[2]), unq(mi[2]), 1e-12):
                    bad |= _vio(ctx, site + ':value', 't0 #%d: model %s impl %s' % (j, float(unq(mi[2])), float(undy(ii[2]))), case)
        ctx.count(ck, nontriv)
    elif kind in (410, 420):
        site = 'spectralOne' if kind == 410 else 'IRFProcessOne'
        if impl == [-2]:
            # outside the domain where the C++ is defined (cached rank outside [0, nt-2], too short tables): model only
            ctx.count(ck, False); ctx.dist(site + ':guarded(model-only)'); return False
        nontriv = False
        for j, mi in enumerate(model):
            if mi == [-1]:
                bad |= _vio(ctx, site + ':read-outside-vector', 'model reports a read outside a vector inside the guarded domain (t0 #%d)' % j, case); break
            ii = impl[j]
            if mi[1] != ii[1]:
                bad |= _vio(ctx, site + ':rank-cache', 't0 #%d: rank model %d impl %d' % (j, mi[1], ii[1]), case); break   # later ranks depend on the cache
            mv = unq(mi[2]); iv = undy(ii[2])
            if not _vals_close(iv, mv, 1e-12):
                bad |= _vio(ctx, site + ':value', 't0 #%d (rank %d): model %r impl %r' % (j, mi[1], mv and float(mv), iv and float(iv)), case)
            nontriv = True
        ctx.count(ck, nontriv)
    elif kind == 430:
        for j, (mi, iv) in enumerate(zip(model, impl)):
            iv = undy(iv)
            if mi[0] == 1: ok = _vals_close(iv, unq(mi[1]), 1e-12)
            else:
                ang = unq(mi[1]); ok = abs(float(iv) - (math.cos(float(ang)) - float(unq(mi[2])))) <= 1e-12 * (1 + abs(float(ang)))
            if not ok: bad |= _vio(ctx, 'cosineOne:value', 't0 #%d: model %r impl %s' % (j, mi, float(iv)), case)
        ctx.count(ck, True)
    elif kind == 440:
        def same(mv, iv, tol=1e-11):
            return len(mv) == len(iv) and all(_vals_close(undy(b), unq(a), tol) for a, b in zip(mv, iv))
        if len(model[0]) != len(impl[0]) or len(model[1]) != len(impl[1]) or len(model[2]) != len(impl[2]):
            bad |= _vio(ctx, '_irfProcessInit:table-size', 'sizes model %r impl %r' % ([len(x) for x in model[:3]], [len(x) for x in impl[:3]]), case)
        elif not same(model[0], impl[0]):
            bad |= _vio(ctx, '_irfProcessInit:tables', 'v0 (cumulated gaussian draws) differs', case)
        elif not (same(model[1], impl[1]) and same(model[2], impl[2])):
            # the implementation leaves the model of the code; name the disagreement
            if same(model[4], impl[1]) and same(model[5], impl[2]):
                # ... it follows the recurrences used before commit 61380c95b: the tables are not the integrals of the path
                # that _irfProcessSample evaluates (theorems C14_old_irf_level1_jump, C14_old_irf_continuity_refuted)
                j = next((i for i, (a, b) in enumerate(zip(model[1], impl[1])) if not _vals_close(undy(b), unq(a), 1e-11)), None)
                if j is not None:
                    txt = 'v1[%d] = %s but the integral of the sampled path is %s' % (j, float(undy(impl[1][j])), float(unq(model[1][j])))
                else:
                    j = next(i for i, (a, b) in enumerate(zip(model[2], impl[2])) if not _vals_close(undy(b), unq(a), 1e-11))
                    txt = 'v2[%d] = %s but the second integral of the sampled path is %s' % (j, float(undy(impl[2][j])), float(unq(model[2][j])))
                bad |= _vio(ctx, '_irfProcessInit:tables-not-integrals-of-sampled-path',
                            '%s: the sampled process jumps at the Poisson points (cov %s)' % (txt, COVNAME[meta['code']]), case)
            else:
                bad |= _vio(ctx, '_irfProcessInit:tables', 'v1/v2 differ from the model of the code', case)
        if not _vals_close(undy(impl[3]), unq(model[3]), 1e-12):
            bad |= _vio(ctx, '_irfCorrec:value', 'correc^2 model %s impl %s' % (float(unq(model[3])), float(undy(impl[3]))), case)
        ctx.count(ck, len(model[0]) > 1)
    elif kind in (450, 451):
        site = '_spreadSpectralOnGrid' if kind == 450 else '_spreadRegularOnGrid'
        if impl == [-2]:
            ctx.count(ck, False); ctx.dist(site + ':guarded(model-only)'); return False
        if kind == 450:
            got = [float(undy(x)) for x in impl[0]]; want = [v for p in meta['pairs'] for v in p]
            if any(abs(a - b) > 1e-15 for a, b in zip(got, want)):
                bad |= _vio(ctx, '_getOmegaPhi:value', 'cos/sin of the steps: impl %r expected %r' % (got, want), case)
        mres = model[1]; ires = impl[1]
        if any(m == [-1] for m in mres):
            bad |= _vio(ctx, site + ':read-outside-vector', 'model reports a read outside a vector inside the guarded domain', case)
        else:
            for j, (mi, ii) in enumerate(zip(mres, ires)):
                if mi[0] != ii[0]:
                    bad |= _vio(ctx, site + ':mask', 'node %d: written model %d impl %d' % (j, mi[0], ii[0]), case); break
                if mi[0] == 1 and not _vals_close(undy(ii[1]), unq(mi[1]), 1e-11):
                    bad |= _vio(ctx, site + ':value', 'cov %s node %d: model %r impl %r' % (COVNAME[meta['code']], j, unq(mi[1]) and float(unq(mi[1])), undy(ii[1]) and float(undy(ii[1]))), case); break
            if kind == 450 and not bad:
                # theorem C14_spectral_grid_is_point, numerically: value = cos(omega * abscissa + phi) - offset
                omega, phi, t00, dxp, dyp, dzp, off, nx, ny, nz = meta['geom']
                j = 0
                for iz in range(nz):
                    for iy in range(ny):
                        for ix in range(nx):
                            if ires[j][0] == 1:
                                w = math.cos(omega * (t00 + ix * dxp + iy * dyp + iz * dzp) + phi) - off
                                if abs(float(undy(ires[j][1])) - w) > 1e-9 * (1 + abs(omega) * (abs(t00) + nx * abs(dxp) + ny * abs(dyp) + nz * abs(dzp))):
                                    bad |= _vio(ctx, '_spreadSpectralOnGrid:grid-vs-point', 'node (%d,%d,%d): %s vs cos %s' % (ix, iy, iz, float(undy(ires[j][1])), w), case)
                            j += 1
        ctx.count(ck, True)
    elif kind == 460:
        if model == [0]:
            ctx.count(ck, False); _tie(ctx); return False
        mt = [unq(x) for x in model[1]]; margin = unq(model[2]); it = [undy(x) for x in impl[0]]
        if margin < F(1, 10 ** 9) * (1 + abs(meta['tmax'])) or unq(model[4]) < F(1, 10 ** 9) * abs(meta['tmax'] - meta['tmin']) * F(1, 10 ** 5):
            _tie(ctx); ctx.count(ck, False); return False
        if len(mt) != len(it) or any(not _vals_close(a, b, 1e-12) for a, b in zip(it, mt)):
            bad |= _vio(ctx, '_migrationInit:abscissae', 'model %d points, impl %d points (first difference shown) %r' % (
                len(mt), len(it), [(float(a), float(b)) for a, b in zip(it, mt) if not _vals_close(a, b, 1e-12)][:1]), case)
        if not (all(it[i] < it[i + 1] for i in range(len(it) - 1)) and it[0] <= meta['tmin'] and it[-1] > meta['tmax'] and len(it) >= 2):
            bad |= _vio(ctx, '_migrationInit:coverage', 'Poisson points not increasing or not covering [tmin,tmax]', case)
        if not _vals_close(undy(impl[1]), unq(model[3]), 1e-12):
            bad |= _vio(ctx, '_migrationInit:vexp', 'vexp model %s impl %s' % (float(unq(model[3])), float(undy(impl[1]))), case)
        ctx.count(ck, True)
    elif kind == 462:
        # scale < (tmax - tmin) * 1e-5.  impl = ((n (first 3) (last 2) sum) vexp non-decreasing ties)
        def digest_same(md, idg, tol):
            return (md[0] == idg[0] and len(md[1]) == len(idg[1]) and len(md[2]) == len(idg[2]) and
                    all(_vals_close(undy(b), unq(a), tol) for a, b in zip(md[1] + md[2], idg[1] + idg[2])) and
                    abs(undy(idg[3]) - unq(md[3])) <= tol * max(1, idg[0]) * (1 + abs(unq(md[3])) / max(1, idg[0])))
        cur, old = model[0], model[1]
        idg = impl[0]; n = idg[0]
        first = [undy(x) for x in idg[1]]; last = [undy(x) for x in idg[2]]
        covers = n >= 2 and impl[2] == 1 and first[0] <= meta['tmin'] and last[-1] > meta['tmax']
        ok = digest_same(cur[1], idg, 1e-11) if cur[0] == 1 else covers
        if not ok:
            if old[0] == 1 and digest_same(old[1], idg, 1e-12):
                # the implementation follows the code before commit e4e350f57 (theorem C14_old_migration_degenerate_refuted)
                bad |= _vio(ctx, '_migrationInit:degenerate-branch-not-a-point-process',
                            'scale < (tmax-tmin)*1e-5: _t holds %d N(0,1) draws (first %s), not increasing abscissae covering [%s, %s]' % (
                                n, float(first[0]) if first else None, float(meta['tmin']), float(meta['tmax'])), case)
            elif cur[0] == 1:
                bad |= _vio(ctx, '_migrationInit:abscissae', 'bounded scale: digest of impl %r differs from the model of the code (%d points)' % (
                    [n, [float(x) for x in first], [float(x) for x in last]], cur[1][0]), case)
            else:
                bad |= _vio(ctx, '_migrationInit:coverage', 'bounded scale: Poisson points not increasing or not covering [tmin,tmax]', case)
        else:
            if not covers:
                bad |= _vio(ctx, '_migrationInit:coverage', 'bounded scale: Poisson points not increasing or not covering [tmin,tmax]', case)
            if cur[0] == 1:
                if not _vals_close(undy(impl[1]), unq(cur[2]), 1e-12):
                    bad |= _vio(ctx, '_migrationInit:vexp', 'vexp model %s impl %s' % (float(unq(cur[2])), float(undy(impl[1]))), case)
            elif not (F(9, 10) <= undy(impl[1]) <= F(9, 10) + F(1967708298, 10 ** 10) + F(1, 10 ** 12)):
                bad |= _vio(ctx, '_migrationInit:vexp', 'vexp %s outside [0.9, 1.0967708298]' % float(undy(impl[1])), case)
        ctx.count(ck, cur[0] == 1)
    elif kind == 461:
        if model == [-1]: ctx.count(ck, False); _tie(ctx); return False
        if unq(model[4]) < F(1, 10 ** 9) * 100: _tie(ctx); ctx.count(ck, False); return False
        if not _vals_close(undy(impl[0]), unq(model[0]), 1e-12):
            bad |= _vio(ctx, '_dilutionInit:tdeb', 'tdeb model %s impl %s' % (float(unq(model[0])), float(undy(impl[0]))), case)
        if model[1] != impl[1]:
            bad |= _vio(ctx, '_dilutionInit:count', 'cells model %d impl %d' % (model[1], impl[1]), case)
        elif [unq(x) for x in model[2]] != [undy(x) for x in impl[2]]:
            bad |= _vio(ctx, '_dilutionInit:signs', 'signs differ', case)
        if not _vals_close(undy(impl[3]), unq(model[3]), 1e-12):
            bad |= _vio(ctx, '_dilutionInit:correc', 'correc^2 model %s impl %s' % (float(unq(model[3])), float(undy(impl[3]))), case)
        ctx.count(ck, True)
    if len(ctx.cov['samples']) < 4 and not bad: ctx.sample({'part': 'proc', 'case': sx_str(case)[:300], 'model': sx_str(model)[:200]})
    return bad

# ------------------------------------------------------------------ stand-alone driver



PARTS.append(('proc', gen_proc, cmp_proc, 400, 499, globals().get('meta_proc')))
# END PART proc 
# BEGIN PART fft 


# C14 / part fft : generators and comparison for the kinds 200..299
#   200 _getFactors / _getOptimalEvenNumber (exact)           210 _defineSymmetry + _setVariance cells on integer arrays (exact)
#   220 second moment of the whole FFT simulator (numeric)     240 dimension order of fftn (numeric)
#   270 SimuSpectral::_computeOnRn with injected state (exact arguments from the model, sqrt(sill) exact (sills are squares of dyadics),
#       cosines in Python; numeric)
#   271 real simuSpectral, sill 1 / sill s with the same seed, recomputed from the harvested private draws (numeric)
# Every comparison is against the model of the FIXED code (/repo HEAD, commits f1042d400 f398de2e6 cdb459fb2 f6d25e5eb); a disagreement that
# matches the model of the FORMER code raises the key of the original finding, so that reverting a fix makes its key fire again.
import sys, os, math
sys.path.insert(0, os.path.dirname(os.path.abspath(__file__)))
sys.path.insert(0, '/verif/checks')

from fractions import Fraction

FFT_COV = {1: 'exponential', 2: 'spherical', 3: 'gaussian', 4: 'cubic', 5: 'matern'}

def fft_angles(ndim, a):
    return [dy(a)] + [dy(0)] * (ndim - 1)

def fft_sincos(a):
    """GH::rotationGetSinCos (GeometryHelper.cpp:72): angle in degrees, exact values at 0/90/180/270"""
    a = float(a)
    if a == 0.: return 1., 0.
    if a == 90.: return 0., 1.
    if a == 180.: return -1., 0.
    if a == 270.: return 0., -1.
    v = a * math.pi / 180.
    return math.cos(v), math.sin(v)

def fft_rotmat(nd, angles):
    """rotation matrix of a grid (rows), convention of coq/C16/Model.v rot2d / rot3d = GH::rotation2DMatrixInPlace / 3D read column-major;
    [] when every angle is 0 (the library keeps the identity and does not rotate)"""
    if nd == 1 or all(float(a) == 0. for a in angles[:nd]): return []
    if nd == 2:
        c, s_ = fft_sincos(angles[0]); return [[c, -s_], [s_, c]]
    (c0, s0), (c1, s1), (c2, s2) = fft_sincos(angles[0]), fft_sincos(angles[1]), fft_sincos(angles[2])
    return [[c0 * c1, -s0 * c2 + c0 * s1 * s2, s0 * s2 + c0 * s1 * c2],
            [s0 * c1, c0 * c2 + s0 * s1 * s2, -c0 * s2 + s0 * s1 * c2],
            [-s1, c1 * s2, c1 * c2]]

def fft_case220(nd, nx, ct, sill, rg, mang, alias=1, dx=None, gang=None, x0=None, percent=Fraction(1, 8)):
    """kind-220 case: model (covariance type, sill, ranges, angles) on a DbGrid (nx, dx, rotation angles, origin)"""
    dx = dx or [1] * nd; gang = gang or [0] * nd; x0 = x0 or [0] * nd
    mang = mang if isinstance(mang, list) else [mang] + [0] * (nd - 1)
    M = fft_rotmat(nd, gang)
    return [220, nd, nx, ct, dy(sill), [dy(r) for r in rg], [dy(a) for a in mang], dy(percent), alias,
            [dy(v) for v in dx], [dy(a) for a in gang], [dy(v) for v in x0], [[dy(v) for v in row] for row in M]]

def meta_fft(case):
    """meta of a case rebuilt from the case alone (cmp_fft reads everything it needs from the case; the meta is a label)"""
    kind = case[0] if isinstance(case, list) and case and isinstance(case[0], int) else None
    return ('fft', {200: 'optimal-even', 210: 'symmetry', 220: 'second-moment', 240: 'fftn-order', 270: 'spectral-injected', 271: 'spectral-real'}.get(kind, 'unknown'))

def gen_fft(ctx, quick):
    rng = ctx.rng
    cases, meta = [], []
    def add(c, m, d):
        cases.append(c); meta.append(meta_fft(c)); ctx.dist(d)
    # ---- (a) factors / optimal even number
    nums = list(range(1, 601 if quick else 3001))
    nums += sorted(rng.sample(range(601, 3001), 250)) if quick else []
    for n in nums: add([200, n, 11], ('opt', 'range'), 'fft:optimal-even:1..3000')
    for _ in range(40 if quick else 150):
        add([200, rng.randint(3001, 60000), 11], ('opt', 'large'), 'fft:optimal-even:random-larger')
    for lf in (2, 3, 5, 7, 13, 17):
        for _ in range(12 if quick else 60):
            add([200, rng.randint(1, 1500), lf], ('opt', 'factor%d' % lf), 'fft:optimal-even:other-largeFactor')
    for n in range(-12, 0): add([200, n, 11], ('opt', 'negative'), 'fft:optimal-even:negative(unreachable)')
    # ---- (b) symmetry
    ev = [2, 4, 6, 8, 10, 12, 14, 16, 18, 20, 24, 28, 30, 36]
    for a in (ev if quick else ev + [40, 48, 50, 64, 100]): add([210, 1, a, 1, 1], ('sym', 1), 'fft:symmetry:1d')
    small = [2, 4, 6, 8, 10, 12]
    for a in small:
        for b in small: add([210, 2, a, b, 1], ('sym', 2), 'fft:symmetry:2d-' + ('square' if a == b else 'unequal'))
    for _ in range(10 if quick else 60):
        a, b = rng.choice(ev), rng.choice(ev)
        add([210, 2, a, b, 1], ('sym', 2), 'fft:symmetry:2d-' + ('square' if a == b else 'unequal'))
    s3 = [2, 4, 6]
    for a in s3:
        for b in s3:
            for c in s3: add([210, 3, a, b, c], ('sym', 3), 'fft:symmetry:3d-' + ('x=z' if a == c else 'x!=z'))
    for _ in range(8 if quick else 60):
        a, b, c = rng.choice(ev[:7]), rng.choice(ev[:7]), rng.choice(ev[:7])
        add([210, 3, a, b, c], ('sym', 3), 'fft:symmetry:3d-' + ('x=z' if a == c else 'x!=z'))
    # ---- fftn dimension order
    for dims in ([4, 6, 1], [6, 4, 1], [3, 5, 1], [2, 3, 5], [4, 2, 6], [8, 1, 1]):
        nd = 3 if dims[2] > 1 else (2 if dims[1] > 1 else 1)
        n = dims[0] * dims[1] * dims[2]
        for _ in range(2 if quick else 6):
            add([240, nd, dims, rng.randrange(n), rng.choice([-1, 1])], ('fftn', nd), 'fft:fftn-order')
    # ---- (c) second moments
    H = Fraction(1, 2)
    fixed = [
        (1, [12, 1, 1], 2, 2, [4], 0), (1, [9, 1, 1], 1, 3, [3], 0), (1, [22, 1, 1], 2, 2, [4], 0),
        (2, [8, 6, 1], 2, Fraction(5, 2), [3, 3], 0), (2, [6, 8, 1], 1, 2, [3, 3], 0), (2, [7, 7, 1], 3, Fraction(3, 2), [3, 3], 0),
        (2, [6, 6, 1], 2, 1, [2, 2], 0), (2, [12, 10, 1], 2, 4, [4, 4], 0), (2, [3, 3, 1], 2, Fraction(3, 4), [5, 5], 0),
        (2, [8, 6, 1], 2, 2, [5, 2], 0), (2, [6, 6, 1], 2, 2, [2, 5], 0), (2, [7, 6, 1], 2, 3, [5, 2], 30),
        (2, [5, 6, 1], 2, 2, [3, 2], 0), (2, [6, 5, 1], 1, 2, [2, 3], 0), (3, [3, 4, 4], 2, 2, [3, 2, 2], 0),
        (3, [4, 3, 3], 2, 2, [2, 2, 2], 0), (3, [3, 3, 3], 2, 2, [2, 2, 2], 0), (3, [3, 3, 2], 2, 2, [3, 2, 2], 0),
    ]
    def label(nd, rg, gang, dx):
        return 'fft:second-moment:%dd-%s-%s%s' % (nd, 'iso' if len(set(rg)) == 1 else 'aniso', 'rotated-grid' if any(gang) else 'unrotated-grid',
                                                  '-dx!=dy' if len(set(dx)) > 1 else '')
    for nd, nx, ct, sill, rg, ang in fixed:
        add(fft_case220(nd, nx, ct, sill, rg, ang), None, label(nd, rg, [0], [1]))
    Q = Fraction
    # rotated grids (the lag of a cell is R.(jnd*dx): CalcSimuFFT.cpp:502-508) x isotropic / anisotropic / rotated-anisotropic models x dx != dy
    rotated = [
        # nd  nx          ct sill   ranges                    model angle(s)  alias dx                 grid angles      x0
        (2, [7, 7, 1],   4, 1,      [6, Q(3, 2)],             0,             1, [1, 1],             [30, 0],         [0, 0]),      # the seed's demo (30 deg, ranges 30/6), scaled down
        (2, [6, 5, 1],   2, 2,      [5, 2],                   0,             1, [1, 1],             [45, 0],         [0, 0]),
        (2, [6, 6, 1],   2, Q(3, 2), [4, 2],                  30,            1, [1, Q(1, 2)],       [-20, 0],        [0, 0]),
        (2, [5, 7, 1],   1, 2,      [3, Q(3, 2)],             0,             1, [Q(1, 2), 1],       [120, 0],        [0, 0]),
        (2, [6, 6, 1],   2, 2,      [3, 3],                   0,             1, [1, 1],             [30, 0],         [0, 0]),
        (2, [6, 5, 1],   2, 2,      [5, 2],                   0,             1, [1, 1],             [90, 0],         [3, -2]),
        (2, [7, 6, 1],   4, 3,      [5, 2],                   45,            1, [1, Q(3, 4)],       [45, 0],         [0, 0]),
        (2, [5, 5, 1],   2, 1,      [4, Q(3, 2)],             0,             1, [1, 1],             [Q(45, 4), 0],   [0, 0]),
        (2, [6, 6, 1],   2, 2,      [5, 2],                   0,             0, [1, 1],             [-20, 0],        [10, -5]),
        (2, [4, 4, 1],   2, 1,      [3, 1],                   0,             1, [1, 1],             [30, 0],         [0, 0]),      # smallest witness kept in the corpus
        (2, [6, 6, 1],   2, 2,      [4, 2],                   0,             1, [1, Q(1, 2)],       [0, 0],          [0, 0]),
        (2, [6, 4, 1],   1, 2,      [2, 4],                   60,            1, [Q(3, 4), Q(1, 2)], [Q(135, 2), 0],  [1, 1]),
        (3, [3, 3, 3],   2, 2,      [3, 2, Q(3, 2)],          [0, 0, 0],     1, [1, 1, 1],          [30, 0, 0],      [0, 0, 0]),
        (3, [3, 4, 3],   2, 2,      [3, Q(3, 2), 2],          [0, 0, 0],     1, [1, Q(1, 2), 1],    [20, 10, -15],   [1, 2, 3]),
        (1, [9, 1, 1],   2, 2,      [3],                      0,             1, [Q(1, 2)],          [0],             [5]),
        # witnesses of the defect CalcSimuFFT:antialiasing-shift-not-rotated of /repo HEAD 81e8ebafa (anti-aliasing pass on a rotated grid; see fft_fix_5.patch)
        (3, [2, 3, 3],   4, Q(1, 2), [Q(3, 2), Q(5, 2), Q(5, 2)], [0, 0, 0], 1, [Q(1, 2), Q(1, 2), 1], [120, -15, 20], [0, 0, 0]),
        (2, [3, 5, 1],   4, Q(15, 4), [4, 4],                 0,             1, [Q(1, 2), 1],       [30, 0],         [0, 0]),
    ]
    for nd, nx, ct, sill, rg, mang, alias, dx, gang, x0 in rotated:
        add(fft_case220(nd, nx, ct, sill, rg, mang, alias, dx, gang, x0), None, label(nd, rg, gang, dx))
    for _ in range(0 if quick else 24):
        nd = rng.choice([1, 2, 2, 2, 3])
        nx = [rng.randint(3, 12), rng.randint(3, 10) if nd >= 2 else 1, rng.randint(2, 3) if nd >= 3 else 1]
        if nd == 3: nx = [rng.randint(2, 4), rng.randint(2, 4), rng.randint(2, 3)]
        ct = rng.choice([1, 2, 2, 3, 4])
        iso = rng.random() < .5
        r0 = Fraction(rng.randint(4, 10), 2)
        rg = [r0] * nd if iso else [Fraction(rng.randint(3, 10), 2) for _ in range(nd)]
        if nd == 3: rg = [min(r, Fraction(5, 2)) for r in rg]
        ang = 0 if (iso or nd != 2 or rng.random() < .5) else rng.choice([30, 45, 90, 120])
        sill = Fraction(rng.randint(1, 16), 4)
        add(fft_case220(nd, nx, ct, sill, rg, ang, 1 if rng.random() < .7 else 0), None, label(nd, rg, [0], [1]))
    for _ in range(0 if quick else 30):
        nd = rng.choice([2, 2, 2, 3])
        nx = [rng.randint(3, 8), rng.randint(3, 8), 1] if nd == 2 else [rng.randint(2, 4), rng.randint(2, 4), rng.randint(2, 3)]
        ct = rng.choice([1, 2, 2, 4])
        kind_m = rng.choice(['iso', 'aniso', 'aniso', 'aniso-rot'])
        r0 = Fraction(rng.randint(4, 10), 2)
        rg = [r0] * nd if kind_m == 'iso' else [Fraction(rng.randint(3, 10), 2) for _ in range(nd)]
        if nd == 3: rg = [min(r, Fraction(5, 2)) for r in rg]
        mang = [rng.choice([30, 45, 60, 120]) if (kind_m == 'aniso-rot') else 0] + [0] * (nd - 1)
        dx = [rng.choice([1, 1, Fraction(1, 2), Fraction(3, 4)]) for _ in range(nd)]
        ga = lambda: rng.choice([30, 45, -20, 90, 120, Fraction(45, 4), Fraction(-135, 8), 200])
        gang = [ga(), 0] if nd == 2 else [ga(), rng.choice([0, 10, -15]), rng.choice([0, 20])]
        x0 = [rng.randint(-5, 5) for _ in range(nd)]
        sill = Fraction(rng.randint(1, 16), 4)
        add(fft_case220(nd, nx, ct, sill, rg, mang, 1 if rng.random() < .7 else 0, dx, gang, x0), None, label(nd, rg, gang, dx))
    # ---- spectral, injected state
    for _ in range(10 if quick else 60):
        nd = rng.choice([1, 2, 2, 3]); ns = rng.randint(3, 24)
        omega = [[dy(Fraction(rng.randint(-48, 48), 16)) for _ in range(nd)] for _ in range(ns)]
        phi = [dy(Fraction(rng.randint(0, 6433), 1024)) for _ in range(ns)]
        gamma = [dy(Fraction(rng.randint(0, 2048), 1024)) for _ in range(ns)]
        scales = [Fraction(2) ** rng.randint(-1, 2) for _ in range(nd)]
        ang = rng.choice([0, 0, 30, 45, 90]) if nd == 2 else 0
        ca, sa = math.cos(math.radians(ang)), math.sin(math.radians(ang))
        if nd == 2:
            R = [[ca, sa], [-sa, ca]] if ang else [[1., 0.], [0., 1.]]
        else:
            R = [[1. if i == j else 0. for j in range(nd)] for i in range(nd)]
        tensor = [[dy(R[i][j] / float(scales[i])) for j in range(nd)] for i in range(nd)]
        pts = [[dy(Fraction(rng.randint(-160, 160), 8)) for _ in range(nd)] for _ in range(rng.randint(1, 6))]
        ssill = rng.choice([1, 1, 2, Fraction(3, 2), Fraction(1, 2)]); sill = ssill * ssill     # sqrt(sill) exact
        mean = rng.choice([None, None, 3])
        ct = rng.choice([1, 3, 5])
        add([270, omega, tensor, phi, pts, gamma, ct, dy(sill), [dy(s) for s in scales], fft_angles(nd, ang), dy(mean), dy(ssill)],
            meta_fft([270]), 'fft:spectral-injected:' + ('sill=1' if sill == 1 else 'sill!=1'))
    # ---- spectral, the real entry point
    for _ in range(4 if quick else 20):
        nd = rng.choice([1, 2, 2, 3]); ns = rng.randint(5, 60)
        ct = rng.choice([1, 3, 5])
        rg = [Fraction(rng.randint(2, 12), 2) for _ in range(nd)]
        ang = rng.choice([0, 30, 75]) if nd == 2 else 0
        pts = [[dy(Fraction(rng.randint(-80, 80), 4)) for _ in range(nd)] for _ in range(rng.randint(2, 6))]
        sills = [dy(1), dy(rng.choice([4, 9, Fraction(9, 4), Fraction(1, 4)]))]
        add([271, nd, ct, ns, rng.randint(1, 100000), sills, [dy(r) for r in rg], fft_angles(nd, ang), pts], ('simuSpectral', nd), 'fft:spectral-real')
    # ---- spectral on a rotated DbGrid: _computeOnRn reads the node coordinates of the grid (rotation included); the case lists the nodes
    #      x0 + R.(ind*dx) computed here with the convention of C16, the implementation gets the grid itself
    for _ in range(3 if quick else 12):
        nd = rng.choice([2, 2, 3]); ns = rng.randint(5, 40)
        ct = rng.choice([1, 3, 5])
        rg = [Fraction(rng.randint(2, 12), 2) for _ in range(nd)]
        ang = rng.choice([0, 30, 75]) if nd == 2 else 0
        nxg = [rng.randint(2, 4) for _ in range(nd)]
        dxg = [rng.choice([1, Fraction(1, 2), Fraction(3, 4)]) for _ in range(nd)]
        x0g = [rng.randint(-5, 5) for _ in range(nd)]
        gang = [rng.choice([30, 45, -20, 120, Fraction(45, 4)])] + ([0] if nd == 2 else [rng.choice([0, 10]), rng.choice([0, -15])])
        M = fft_rotmat(nd, gang) or [[1. if a == b else 0. for b in range(nd)] for a in range(nd)]
        pts = []
        for r in range(nxg[0] * nxg[1] * (nxg[2] if nd == 3 else 1)):
            ind = [r % nxg[0], (r // nxg[0]) % nxg[1]] + ([r // (nxg[0] * nxg[1])] if nd == 3 else [])
            pts.append([dy(float(x0g[a]) + sum(M[a][b] * ind[b] * float(dxg[b]) for b in range(nd))) for a in range(nd)])
        sills = [dy(1), dy(rng.choice([4, 9, Fraction(9, 4), Fraction(1, 4)]))]
        add([271, nd, ct, ns, rng.randint(1, 100000), sills, [dy(r) for r in rg], fft_angles(nd, ang), pts, nxg, [dy(v) for v in dxg], [dy(v) for v in x0g], [dy(a) for a in gang]],
            None, 'fft:spectral-real:rotated-grid')
    return cases, meta

def fft_f(p): return float(undy(p))

def fft_lagcov(tab, nx, lag):
    L = [nx[0] - 1, nx[1] - 1, nx[2] - 1]
    return tab[(lag[0] + L[0]) + (2 * L[0] + 1) * ((lag[1] + L[1]) + (2 * L[1] + 1) * (lag[2] + L[2]))]

def cmp_fft(ctx, case, meta, impl, model):
    kind = case[0]
    replay = {'case': sx_str(case)[:4000], 'how': 'one line of the case file of harness/C14 (kind %d)' % kind}
    if impl is None:
        ctx.count(sx_str(case)[:200])
        ctx.violation('crash:fft-kind-%d' % kind, 'harness crashed / gave no answer', replay); return True
    if model is not None and isinstance(model, list) and len(model) == 2 and model[0] == -999:
        ctx.violation('model-drift:fft-case-format', 'the model rejected a generated case (kind %d, code %r)' % (kind, model[1]), replay, found_input=False); return False
    # ------------------------------------------------------------------ 200
    if kind == 200:
        ctx.count(sx_str(case)); number, large = case[1], case[2]
        m_opt, m_fs = model
        if m_opt == [] or m_fs == []:
            ctx.violation('model-drift:_getOptimalEvenNumber:fuel', 'model ran out of fuel on %d' % number, replay, found_input=False); return False
        i_opt, i_fs = impl[0], impl[1][0]
        ctx.sample({'number': number, 'large': large, 'impl': i_opt, 'model': m_opt})
        if i_fs != m_fs[0]:
            prod = 1
            for x in i_fs: prod *= x
            if number >= 1 and prod != number:
                ctx.violation('_getFactors:product', '_getFactors(%d) = %r does not multiply back' % (number, i_fs), replay); return True
            ctx.violation('model-drift:_getFactors', '_getFactors(%d): impl %r model %r' % (number, i_fs, m_fs[0]), replay, found_input=False); return False
        if i_opt != m_opt:
            # spec: even, >= number, smallest such number whose prime factors are all <= large (checked by trial division here)
            def smooth(x):
                for p in range(2, large + 1):
                    while x % p == 0: x //= p
                return x == 1
            spec_ok = number >= 1 and i_opt % 2 == 0 and i_opt >= number and smooth(i_opt) and not any(smooth(y) for y in range(number + (number % 2), i_opt, 2))
            if not spec_ok:
                ctx.violation('_getOptimalEvenNumber:not-smallest-smooth-even', '_getOptimalEvenNumber(%d,%d) = %d, model %d' % (number, large, i_opt, m_opt), replay); return True
            ctx.violation('model-drift:_getOptimalEvenNumber', 'impl %d model %d for (%d,%d)' % (i_opt, m_opt, number, large), replay, found_input=False); return False
        return False
    # ------------------------------------------------------------------ 210
    if kind == 210:
        ctx.count(sx_str(case)); ndim, a, b, c = case[1:5]
        U, V, zv, sc, okrule = impl
        Ui, Vi, herm, vi, Uo, Vo, herm_old, vo = model
        iu = [undy(x) for x in U]; iv = [undy(x) for x in V]
        mu, mv = [unq(x) for x in Ui], [unq(x) for x in Vi]
        ou, ov = [unq(x) for x in Uo], [unq(x) for x in Vo]
        mvar = sorted(vi)
        ctx.sample({'dims': [a, b, c], 'hermitian for fftn (model of the current macro)': herm, 'same with the macro before f1042d400': herm_old})
        if not herm:
            ctx.violation('model-drift:_defineSymmetry-model-not-hermitian', 'dims %r: the model of the current code is not Hermitian (theorem C14_fft_layout_hermitian contradicted?)' % ([a, b, c],), replay, found_input=False)
            return False
        if iu != mu or iv != mv:
            if (iu, iv) == (ou, ov):
                # the implementation behaves as the code before commit f1042d400 (macro IND with ix slowest)
                if not herm_old:
                    ctx.violation('CalcSimuFFT:hermitian-layout-unequal-dims',
                                  'dims %r: after _defineSymmetry (u[i]=i+1, v[i]=1000+i) the memory is the one of the former macro IND(ix,iy,iz)=iz+d2*(iy+d1*ix) '
                                  'and is not Hermitian for the DFT of these dimensions in the order given to fftn (first dimension fastest)' % ([a, b, c],), replay)
                else:
                    ctx.violation('CalcSimuFFT:axes-swapped',
                                  'dims %r: after _defineSymmetry the memory is the one of the former macro IND(ix,iy,iz)=iz+d2*(iy+d1*ix): Hermitian for fftn, but every cell '
                                  'sits at the position of the transposed node (x and %s exchanged)' % ([a, b, c], 'z' if ndim == 3 else 'y'), replay)
                return True
            # spec: is the memory left by the implementation Hermitian for the (a,b,c) DFT as fftn reads it (first dimension fastest)?
            def lin(x, y, z): return x + a * (y + b * z)
            ok = True
            for z in range(c):
                for y in range(b):
                    for x in range(a):
                        k = lin(x, y, z); nk = lin((a - x) % a, (b - y) % b, (c - z) % c)
                        if iu[nk] != iu[k] or iv[nk] != -iv[k]: ok = False
            if not ok:
                ctx.violation('CalcSimuFFT:_defineSymmetry-not-hermitian', 'dims %r: memory after _defineSymmetry is neither the modelled one nor Hermitian for fftn' % ([a, b, c],), replay); return True
            ctx.violation('model-drift:_defineSymmetry', 'dims %r: impl differs from the model (but is Hermitian for fftn)' % ([a, b, c],), replay, found_input=False); return False
        if sorted(zv) != mvar or sorted(sc) != mvar or not okrule:
            ctx.violation('CalcSimuFFT:_setVariance-cells', 'dims %r: _defineRandom zeroes v at %r and scales u at %r; the self-conjugate cells are at %r' % ([a, b, c], zv, sc, mvar), replay)
            return True
        return False
    # ------------------------------------------------------------------ 240
    if kind == 240:
        ctx.count(sx_str(case)); nd, dims, m, isign = case[1:5]
        rc, re, im = impl
        re = [fft_f(x) for x in re]; im = [fft_f(x) for x in im]
        d0, d1, d2 = dims
        def expect(first_fastest):
            out = []
            if first_fastest:
                k = (m % d0, (m // d0) % d1, m // (d0 * d1))
            else:   # last dimension fastest
                k = (m // (d1 * d2), (m // d2) % d1, m % d2)
            for p in range(d0 * d1 * d2):
                q = (p % d0, (p // d0) % d1, p // (d0 * d1)) if first_fastest else (p // (d1 * d2), (p // d2) % d1, p % d2)
                ph = 2 * math.pi * (k[0] * q[0] / d0 + k[1] * q[1] / d1 + k[2] * q[2] / d2) * isign
                out.append((math.cos(ph), math.sin(ph)))
            return out
        def dist(e): return max(max(abs(re[i] - e[i][0]), abs(im[i] - e[i][1])) for i in range(len(re)))
        dA, dB = dist(expect(True)), dist(expect(False))
        ctx.sample({'fftn dims': dims, 'err first-dim-fastest': dA, 'err last-dim-fastest': dB})
        if rc != 0 or dA > 1e-12:
            ctx.violation('fftn:dimension-order', 'fftn(%r) impulse %d: distance to the first-dimension-fastest DFT %.3g, to the last-dimension-fastest one %.3g: '
                          'the layout assumption of the model (lin_fill) does not hold' % (dims, m, dA, dB), replay); return True
        return False
    # ------------------------------------------------------------------ 220
    if kind == 220:
        ctx.count(sx_str(case)); nd, nx, ct, sill = case[1], case[2], case[3], float(undy(case[4]))
        dims, shift, maxu, maxv, okrule, cov, ctrue, cdist, nclip, coords, lags, ctrans = impl
        maxu, maxv = fft_f(maxu), fft_f(maxv)
        cov = [fft_f(x) for x in cov]; ctrue = [fft_f(x) for x in ctrue]; cdist = [fft_f(x) for x in cdist]; ctrans = [fft_f(x) for x in ctrans]
        coords = [fft_f(x) for x in coords]; lags = [fft_f(x) for x in lags]
        nn = nx[0] * nx[1] * nx[2]
        def node(i): return (i % nx[0], (i // nx[0]) % nx[1], i // (nx[0] * nx[1]))
        # ---- geometry of the grid (mesh, rotation, origin): cases without the geometry tail are unit-mesh unrotated grids at the origin
        if len(case) > 9:
            dxs = [fft_f(x) for x in case[9]]; gang = [fft_f(x) for x in case[10]]; x0 = [fft_f(x) for x in case[11]]
            M = [[fft_f(v) for v in row] for row in case[12]]
        else:
            dxs, gang, x0, M = [1.] * nd, [0.] * nd, [0.] * nd, []
        rotated = bool(M)
        if not M: M = [[1. if a == b else 0. for b in range(nd)] for a in range(nd)]
        gscale = max(1., max(abs(v) for v in coords))
        # (1) node coordinates of the library vs x0 + R.(ind*dx) with the rotation convention of coq/C16/Model.v (i2c, rot2d/rot3d)
        gerr = 0.
        for i in range(nn):
            ind = node(i)
            for a in range(nd):
                want = x0[a] + sum(M[a][b] * ind[b] * dxs[b] for b in range(nd))
                gerr = max(gerr, abs(coords[i * nd + a] - want))
        if gerr > 1e-9 * gscale:
            ctx.violation('DbGrid:node-coordinates-vs-rotation-convention',
                          'grid nx %r dx %r angles %r x0 %r: node coordinates of the DbGrid differ from x0 + R.(ind*dx) by %.3g (rotation convention of C16 i2c)' % (nx[:nd], dxs, gang, x0, gerr), replay)
            return True
        # (2) the exact lags of the Coq model (lag_of (step_mat g) = _prepar's formula, node(l) - node(0)) vs the coordinate differences of the library
        if model:
            m_lag, m_lagT, m_diff = model
            if m_lag != m_diff:
                ctx.violation('model-drift:lag-is-coordinate-difference', 'the model lag of _prepar differs from node(l) - node(0) (theorem C14_fft_lag_is_coordinate_difference contradicted?)', replay, found_input=False)
                return False
            lerr = 0.; k = 0
            for v in m_lag:
                for a in range(nd):
                    lerr = max(lerr, abs(lags[k] - float(unq(v[a])))); k += 1
            if k != len(lags) or lerr > 1e-9 * gscale:
                ctx.violation('DbGrid:node-coordinates-vs-rotation-convention',
                              'grid nx %r dx %r angles %r: coordinate differences of the library differ from the exact lags R.(l*dx) of the model by %.3g' % (nx[:nd], dxs, gang, lerr), replay)
                return True
        # ---- second moments
        errs = {'true': 0., 'dist': 0., 'swapxy': 0., 'swapxz': 0., 'trans': 0.}
        worst = None
        for i in range(nn):
            pi = node(i)
            for j in range(nn):
                pj = node(j); lag = (pi[0] - pj[0], pi[1] - pj[1], pi[2] - pj[2]); cij = cov[i * nn + j]
                e = abs(cij - fft_lagcov(ctrue, nx, lag))
                if e > errs['true']: errs['true'] = e; worst = (lag, cij, fft_lagcov(ctrue, nx, lag))
                errs['dist'] = max(errs['dist'], abs(cij - fft_lagcov(cdist, nx, lag)))
                errs['trans'] = max(errs['trans'], abs(cij - fft_lagcov(ctrans, nx, lag)))
                if nd >= 2 and abs(lag[1]) < nx[0] and abs(lag[0]) < nx[1]:
                    errs['swapxy'] = max(errs['swapxy'], abs(cij - fft_lagcov(ctrue, nx, (lag[1], lag[0], lag[2]))))
                if nd >= 3 and abs(lag[2]) < nx[0] and abs(lag[0]) < nx[2]:
                    errs['swapxz'] = max(errs['swapxz'], abs(cij - fft_lagcov(ctrue, nx, (lag[2], lag[1], lag[0]))))
        # spectrum clipped while the caller switched the anti-aliasing off: the method is approximate by design there (documented clipping)
        tol = (0.10 if (nclip > 0 and not case[8]) else 0.03) * sill
        def fft_opt(n):      # smallest even number >= n whose prime factors are all <= 11 (what C14_fft_optimal_even proves of the model)
            m = n + (n % 2)
            while True:
                x = m
                for p in (2, 3, 5, 7, 11):
                    while x % p == 0: x //= p
                if x == 1: return m
                m += 2
        smooth_ok = all(dims[i] == fft_opt(shift[i] + nx[i]) for i in range(nd)) and all(dims[i] == 1 for i in range(nd, 3))
        ctx.sample({'nx': nx, 'dx': dxs, 'grid angles': gang, 'dims': dims, 'shift': shift, 'cov': FFT_COV.get(ct), 'sill': sill, 'max|Im| after inverse fft': maxv, 'max|Re|': maxu,
                    'max |Cov_out - C_model(coord(b)-coord(a))|': errs['true'], 'tol': tol}, maxn=8)
        if os.environ.get('FFT_DEBUG'): print('DBG220 nd=%d nx=%r cov=%s sill=%g ranges=%r mang=%r dx=%r gang=%r dims=%r shift=%r maxv=%.3g nclip=%d alias=%r errs=%r' % (nd, nx[:nd], FFT_COV.get(ct), sill, [fft_f(x) for x in case[5]], fft_f(case[6][0]), dxs, gang, dims[:nd], shift[:nd], maxv, nclip, case[8], {k: round(v, 5) for k, v in errs.items()}))
        if not smooth_ok:
            ctx.violation('CalcSimuFFT:_alloc-dims', 'extended dims %r are not the smallest even 11-smooth numbers >= shift+nx (%r + %r)' % (dims, shift, nx), replay); return True
        if not okrule:
            ctx.violation('CalcSimuFFT:_setVariance-cells', '_defineRandom applies a multiplier that is not 1, sqrt 2 (u) / 1, 0 (v)', replay); return True
        unequal = (nd == 2 and dims[0] != dims[1]) or (nd == 3 and dims[0] != dims[2])
        if maxv > 1e-9 * max(1., maxu):
            ctx.violation('CalcSimuFFT:hermitian-layout-unequal-dims' if unequal else 'CalcSimuFFT:inverse-fft-not-real',
                          'grid %r, extended dims %r: the inverse FFT of one symmetrised unit draw has an imaginary part %.3g (real part %.3g) that _final drops; '
                          'output covariance differs from the model by %.3g (sill %.3g)' % (nx[:nd], dims[:nd], maxv, maxu, errs['true'], sill), replay)
            return True
        if errs['true'] <= tol: return False
        if rotated and errs['trans'] <= tol:
            ctx.violation('CalcSimuFFT:lag-of-rotated-grid-transposed',
                          'grid %r dx %r rotated by %r, %s ranges %r: the output covariance matches the model evaluated at the lag built with the TRANSPOSED step matrix '
                          '(sum_j jnd[j]*xyz1[i][j], err %.3g) and not at the coordinate difference of the nodes (err %.3g, sill %.3g); worst pair: index offset %r '
                          'simulated %.4g model %.4g' % (nx[:nd], dxs, gang[:max(1, nd - 1) if nd == 2 else nd], FFT_COV.get(ct), [fft_f(x) for x in case[5]],
                                                         errs['trans'], errs['true'], sill, worst[0][:nd], worst[1], worst[2]), replay)
            return True
        if nclip > 0 and case[8] and rotated:
            ctx.violation('CalcSimuFFT:antialiasing-shift-not-rotated',
                          'grid %r dx %r rotated by %r, dims %r, flag_aliasing on: the anti-aliasing pass shifts the lag by k*DX*_dims along the axes of the SPACE while the period '
                          'of the extended array runs along the rotated axes of the GRID: %d spectrum terms clipped, output covariance differs from the model by %.3g (sill %.3g)'
                          % (nx[:nd], dxs, gang, dims[:nd], nclip, errs['true'], sill), replay)
            return True
        if nclip > 0 and case[8]:
            ctx.violation('CalcSimuFFT:antialiasing-wrong-period',
                          'grid %r dims %r, flag_aliasing on: negative spectrum terms on the first pass trigger the anti-aliasing pass, which sums the covariance '
                          'shifted by multiples of the ORIGINAL grid size nx*dx (as before commit f6d25e5eb) and not of the extended period: %d spectrum terms clipped, output covariance differs '
                          'from the model by %.3g (sill %.3g)' % (nx[:nd], dims[:nd], nclip, errs['true'], sill), replay)
            return True
        if errs['dist'] <= tol:
            ctx.violation('CalcSimuFFT:anisotropy-ignored',
                          'grid %r dims %r: output covariance matches C(|h| along the first axis) (err %.3g) and not the anisotropic model C(h) (err %.3g, sill %.3g): '
                          'as _prepar/_checkCorrect did before commit cdb459fb2 (evaluateOneIncr(|h|) without the direction)' % (nx[:nd], dims[:nd], errs['dist'], errs['true'], sill), replay)
            return True
        if nd >= 2 and errs['swapxy'] <= tol:
            ctx.violation('CalcSimuFFT:axes-swapped', 'grid %r dims %r: output covariance matches the model with x and y exchanged (err %.3g vs %.3g)' % (nx[:nd], dims[:nd], errs['swapxy'], errs['true']), replay)
            return True
        if nd >= 3 and errs['swapxz'] <= tol:
            ctx.violation('CalcSimuFFT:axes-swapped', 'grid %r dims %r: output covariance matches the model with x and z exchanged (err %.3g vs %.3g)' % (nx[:nd], dims[:nd], errs['swapxz'], errs['true']), replay)
            return True
        ctx.violation('CalcSimuFFT:second-moment', 'grid %r dx %r angles %r dims %r: max |Cov_out - C_model| = %.3g > %.3g (errors vs alternatives %r; worst index offset %r)' % (nx[:nd], dxs, gang, dims[:nd], errs['true'], tol, errs, worst[0][:nd]), replay)
        return True
    # ------------------------------------------------------------------ 270
    if kind == 270:
        ctx.count(sx_str(case)[:400])
        omega, tensor, phi, pts, gamma, ct, sill, scales, angles, mean, ssill = case[1:12]
        rc, vals, tv = impl
        ns = len(gamma); nd = len(pts[0])
        tcase = [fft_f(x) for row in tensor for x in row]; timpl = [fft_f(x) for x in tv]
        if rc != 0 or len(timpl) != len(tcase) or max(abs(x - y) for x, y in zip(tcase, timpl)) > 1e-12:
            ctx.violation('model-drift:spectral-tensor', 'tensor of the case %r is not getTensorInverse() of the model %r (generator assumption)' % (tcase, timpl), replay, found_input=False); return False
        g = [fft_f(x) for x in gamma]
        s = fft_f(sill); rs = fft_f(ssill); mu = fft_f(mean) if mean != [] else 0.     # rs * rs == s was checked exactly by the model
        base = [math.sqrt(2. / ns) * sum(g[b] * math.cos(float(unq(model[p][b]))) for b in range(ns)) for p in range(len(pts))]
        iv = [fft_f(x) for x in vals]
        scale = max(1., max(abs(x) for x in base))
        d_code = max(abs(x - y) for x, y in zip(iv, base))
        d_spec = max(abs(x - (rs * y + mu)) for x, y in zip(iv, base))           # current code: mean + sqrt(sill) * base
        ctx.sample({'spectral ns': ns, 'sill': s, 'mean': mu, 'impl': iv[:2], 'scale*sum gamma cos': base[:2]})
        if d_spec <= 1e-10 * scale: return False
        if d_code <= 1e-10 * scale:      # behaves as the code before commit f398de2e6
            ctx.violation('SimuSpectral:sill-ignored', 'model sill %g mean %g: _computeOnRn returns sqrt(2/ns) sum gamma cos(u+phi) = %r: neither sqrt(sill) nor the mean enter' % (s, mu, iv[:3]), replay)
            return True
        ctx.violation('SimuSpectral:_computeOnRn-value', 'impl %r, recomputed %r (x sqrt(sill) + mean: %r)' % (iv[:3], base[:3], [rs * y + mu for y in base[:3]]), replay)
        return True
    # ------------------------------------------------------------------ 271
    if kind == 271:
        ctx.count(sx_str(case)[:400])
        nd, ct, ns = case[1], case[2], case[3]; pts = [[fft_f(x) for x in p] for p in case[8]]
        ref = None; bad = False
        for blk in impl:
            rc, rc2, sill, vals, om, ga, ph, tv = blk
            if rc != 0 or rc2 != 0:
                ctx.violation('model-drift:simuSpectral-refused', 'simuSpectral refused the generated model', replay, found_input=False); return False
            s = fft_f(sill); iv = [fft_f(x) for x in vals]
            om = [fft_f(x) for x in om]; ga = [fft_f(x) for x in ga]; ph = [fft_f(x) for x in ph]; tv = [fft_f(x) for x in tv]
            base = []
            for x in pts:
                val = 0.
                for b in range(ns):
                    res = [sum(om[b * nd + k] * tv[k * nd + j] for k in range(nd)) for j in range(nd)]
                    val += ga[b] * math.cos(sum(res[j] * x[j] for j in range(nd)) + ph[b])
                base.append(val * math.sqrt(2. / ns))
            scale = max(1., max(abs(x) for x in base))
            d_code = max(abs(x - y) for x, y in zip(iv, base)); d_spec = max(abs(x - math.sqrt(s) * y) for x, y in zip(iv, base))
            if ref is None: ref = iv
            ctx.sample({'simuSpectral sill': s, 'values': iv[:2], 'recomputed (sill 1)': base[:2]})
            if d_spec <= 1e-10 * scale: continue
            if d_code <= 1e-10 * scale:
                ctx.violation('SimuSpectral:sill-ignored', 'simuSpectral with sill %g returns %s values as with sill 1 (same seed): %r' % (s, 'bit-identical' if iv == ref else 'the same', iv[:3]), replay)
                bad = True
            else:
                ctx.violation('SimuSpectral:_computeOnRn-value', 'sill %g: impl %r recomputed %r' % (s, iv[:3], base[:3]), replay); bad = True
        return bad
    return False






PARTS.append(('fft', gen_fft, cmp_fft, 200, 299, globals().get('meta_fft')))
# END PART fft 
# BEGIN PART law 

# C14 / law: generators and comparison for the case kinds 100..199 (basic random generators of Law.cpp).
# Pasted into checks/C14.py: uses dy, undy, unq, close_enough, sx_str, Fraction, REPO, os, re of common.py.
LAW_P = 20000159
LAW_FN = {112: 'law_gamma', 100: 'law_uniform', 101: 'law_int_uniform', 102: 'sampleInteger', 103: 'law_gaussian', 104: 'law_exponential',
          105: 'law_gamma', 106: 'law_beta1', 107: 'law_beta2', 108: 'law_poisson', 109: 'law_binomial',
          110: 'law_random_path', 111: 'law_invcdf_gaussian'}
LAW_SPECIAL_SEEDS = [1, 2, 104, 105, LAW_P - 1, LAW_P, LAW_P + 1, 2 * LAW_P, 3 * LAW_P, 107 * LAW_P, 55380756, 11619140, 8381019,
                     43241421, 2 ** 31 - 1, 2 ** 31 - 2, 40904450, 40904451, 2 ** 30, 2 ** 24, 190476, 190477]

def law_seed(rng):
    r = rng.random()
    if r < .25: return rng.choice(LAW_SPECIAL_SEEDS)
    if r < .35: return LAW_P * rng.randint(1, 107)              # multiples of the modulus (state 0 after the first step)
    if r < .55: return rng.randint(1, 2 ** 31 - 1)                # includes products 105*seed that wrap in 32 bits
    if r < .75: return rng.randint(1, LAW_P - 1)
    return rng.randint(1, 100000)

def law_dyadic(rng, lo, hi, bits=4):
    return Fraction(rng.randint(int(lo * 2 ** bits), int(hi * 2 ** bits)), 2 ** bits)

# ---- probe of the source tree (REPO of common.py = VERIF_REPO or /repo), done once per run; fails closed.
# The model mirrors whichever code is in the tree: GV_EE is read from the header and handed to the model as a dyadic in every case
# that reaches law_gamma; the p <-> 1-p flip of law_binomial (fixes/C14_8.patch) is detected and handed over as a flag.
LAW_HISTORIC_EE = 2.732            # "#define GV_EE  2.732" of the pinned tree (finding law_gamma:alpha-below-one:support-gap-gv-ee)
_LAW_SRC = {}
def law_strip_comments(t):
    t = re.sub(r'/\*.*?\*/', ' ', t, flags=re.S)
    return re.sub(r'//[^\n]*', ' ', t)
def law_source():
    if _LAW_SRC: return _LAW_SRC
    import math
    hp = os.path.join(REPO, 'include', 'geoslib_define.h')
    defs = re.findall(r'^[ \t]*#[ \t]*define[ \t]+GV_EE[ \t]+(\S+)[ \t]*$', law_strip_comments(open(hp).read()), re.M)
    if len(defs) != 1: raise RuntimeError('law: expected exactly one "#define GV_EE <number>" in %s, found %r' % (hp, defs))
    try: ee = float(defs[0])
    except ValueError: raise RuntimeError('law: GV_EE is not a plain decimal literal in %s: %r' % (hp, defs[0]))
    if not (ee > 0 and math.isfinite(ee)): raise RuntimeError('law: GV_EE = %r' % ee)
    cp = os.path.join(REPO, 'src', 'Basic', 'Law.cpp')
    src = law_strip_comments(open(cp).read())
    m = re.search(r'\bint\s+law_binomial\s*\(\s*int\s+n\s*,\s*double\s+p\s*\)\s*\{', src)
    if not m: raise RuntimeError('law: definition of law_binomial(int n, double p) not found in %s' % cp)
    depth, i = 1, m.end()
    while i < len(src) and depth:
        depth += (src[i] == '{') - (src[i] == '}'); i += 1
    if depth: raise RuntimeError('law: unbalanced braces in law_binomial (%s)' % cp)
    body = src[m.end():i]
    head = body.split('const double q')[0] if 'const double q' in body else ''
    flip = bool(re.search(r'if\s*\(\s*p\s*>\s*0?\.5\s*\)\s*return\s+n\s*-\s*law_binomial\s*\(\s*n\s*,\s*1\.?0?\s*-\s*p\s*\)\s*;', head))
    _LAW_SRC.update({'ee': ee, 'ee_literal': defs[0], 'flip': flip})
    return _LAW_SRC

def meta_law(case):
    """what cmp_law needs, rebuilt from the case alone (generated cases and corpus lines go through the same function)"""
    k = case[0]
    if k == 100: return {'a': undy(case[3]), 'b': undy(case[4])}
    if k in (101, 102): return {'a': case[3], 'b': case[4]}
    if k == 103: return {}
    if k == 104: return {'lambda': undy(case[3])}
    if k == 105: return {'alpha': undy(case[3]), 'ee': undy(case[4])}
    if k in (106, 107): return {'p1': undy(case[3]), 'p2': undy(case[4]), 'ee': undy(case[5])}
    if k == 108: return {'t': undy(case[3]), 'ee': undy(case[4])}
    if k == 109:
        n, p, flip = case[3], undy(case[4]), bool(case[5])
        pe = 1 - p if (flip and p > Fraction(1, 2)) else p          # the probability the BINV / BTPE code of the model runs with
        return {'n': n, 'p': p, 'flip': flip, 'binv': n * pe < 30}
    if k == 110: return {'n': case[2]}
    if k == 111: return {'x': undy(case[1])}
    if k == 112: return {'N': case[2], 'alpha': undy(case[3]), 'bounds': [undy(b) for b in case[4:8]]}
    raise ValueError('law: unknown case kind %r' % (k,))

def law_case_stale(case, meta):
    """a corpus line written for another state of the tree (other GV_EE, other flip): only the spec is evaluated on it"""
    src = law_source()
    if 'ee' in meta and meta['ee'] != Fraction(src['ee']): return True
    if 'flip' in meta and meta['flip'] != src['flip']: return True
    return False

def law_gap_case(ee):
    """counting case for the support of law_gamma(1/2): ]1, ln GV_EE] when GV_EE > e, else the gap of the historic constant 2.732"""
    import math
    hi = math.log(ee) if ee > math.e + 1e-12 else math.log(LAW_HISTORIC_EE)
    hi = Fraction(hi)
    return [112, 4321, 200000, dy(Fraction(1, 2)), dy(2 - hi), dy(1), dy(hi), dy(2 * hi - 1)]

def gen_law(ctx, quick):
    rng = ctx.rng
    cases, meta = [], []
    src = law_source()
    EE = dy(Fraction(src['ee'])); flip = src['flip']
    ctx.cov.setdefault('source_probe', {}).update({'GV_EE': src['ee_literal'], 'law_binomial_flip': flip})
    def add(c, m=None):
        cases.append(c); meta.append(meta_law(c)); ctx.dist(LAW_FN[c[0]] if c[0] != 112 else 'law_gamma:support-count')
    rep = 1 if quick else 8
    kmax = 25 if quick else 60
    # seeds whose first step lands on state 0 (multiples of the modulus; 55380756 through the 32-bit wrap): always covered
    for sd in (LAW_P, 2 * LAW_P, 55380756):
        add([100, sd, 3, dy(0), dy(1)], {'a': Fraction(0), 'b': Fraction(1)})
        add([100, sd, 3, dy(-2), dy(Fraction(7, 2))], {'a': Fraction(-2), 'b': Fraction(7, 2)})
        add([101, sd, 3, -4, 11], {'a': -4, 'b': 11})
        add([102, sd, 3, -4, 11], {'a': -4, 'b': 11})
        add([103, sd, 2, dy(0), dy(1)], {})
        add([104, sd, 2, dy(1)], {'lambda': Fraction(1)})
    for _ in range(40 * rep):      # law_uniform
        r = rng.random()
        if r < .3: a, b = Fraction(0), Fraction(1)
        elif r < .8:
            a = law_dyadic(rng, -100, 100); b = a + law_dyadic(rng, Fraction(1, 16), 50)
        elif r < .9:
            a = law_dyadic(rng, -100, 100); b = a                   # degenerate interval
        else:
            b = law_dyadic(rng, -100, 100); a = b + law_dyadic(rng, Fraction(1, 16), 50)   # reversed bounds
        add([100, law_seed(rng), rng.randint(1, kmax), dy(a), dy(b)], {'a': a, 'b': b})
    for kind in (101, 102):          # law_int_uniform / sampleInteger
        for _ in range(40 * rep):
            a = rng.choice([0, 0, 1, -1, -5, -50, 7, rng.randint(-1000, 1000)])
            w = rng.choice([0, 1, 2, 3, 9, 99, 1000, rng.randint(0, 50), rng.randint(0, 2 ** 20)])
            add([kind, law_seed(rng), rng.randint(1, kmax), a, a + w], {'a': a, 'b': a + w})
        # the proved witnesses of the two ends (any interval narrower than the modulus)
        for s in (11619140, 8381019):
            a = rng.randint(-100, 100); w = rng.randint(0, 10 ** 6)
            add([kind, s, 1, a, a + w], {'a': a, 'b': a + w})
    for _ in range(25 * rep):      # law_gaussian
        add([103, law_seed(rng), rng.randint(1, kmax // 2), dy(law_dyadic(rng, -10, 10)), dy(law_dyadic(rng, 0, 8))], {})
    for _ in range(15 * rep):      # law_exponential
        lam = law_dyadic(rng, Fraction(1, 16), 8)
        add([104, law_seed(rng), rng.randint(1, kmax), dy(lam)], {'lambda': lam})
    alphas = [Fraction(1, 8), Fraction(1, 4), Fraction(1, 2), Fraction(3, 4), Fraction(15, 16), Fraction(1), 1 + Fraction(1, 2 ** 20),
              1 - Fraction(1, 2 ** 18), 1 + Fraction(1, 2 ** 10), Fraction(3, 2), Fraction(2), Fraction(5), Fraction(14), Fraction(41, 2), Fraction(100)]
    for _ in range(32 * rep):      # law_gamma
        al = rng.choice(alphas + [Fraction(0), Fraction(-1)]) if rng.random() < .8 else law_dyadic(rng, Fraction(1, 16), 30)
        add([105, law_seed(rng), rng.randint(1, kmax // 3), dy(al), EE])
    for kind in (106, 107):          # law_beta1 / law_beta2
        for _ in range(12 * rep):
            p1 = rng.choice(alphas); p2 = rng.choice(alphas + ([Fraction(0)] if rng.random() < .2 else []))
            add([kind, law_seed(rng), rng.randint(1, kmax // 5), dy(p1), dy(p2), EE])
    for _ in range(25 * rep):      # law_poisson
        t = rng.choice([Fraction(1, 4), Fraction(1), Fraction(3), Fraction(10), Fraction(31, 2), Fraction(16), Fraction(17), Fraction(20),
                        Fraction(40), Fraction(100), Fraction(0), law_dyadic(rng, 0, 60)])
        add([108, law_seed(rng), rng.randint(1, kmax // 3), dy(t), EE])
    # support of law_gamma(alpha < 1): one counting case evaluated by the harness (spec evaluation independent of the model)
    add(law_gap_case(src['ee']))
    # BTPE used with p > 1/2 (reproduced defect without the flip: the value exceeds n; exact comparison with the flip)
    add([109, 1780014151, 1, 33, dy(Fraction(63, 64)), int(flip)])
    if flip:
        # with "if (p > 0.5) return n - law_binomial(n, 1. - p);" in the source p = 1 and p > 1/2 are safe: p = 1 returns n
        for n in (0, 1, 5, 29, 33, 100):
            add([109, law_seed(rng), 3, n, dy(Fraction(1)), 1])
    for _ in range(35 * rep):      # law_binomial: BINV (n p < 30) mostly, a few BTPE (range only)
        n = rng.choice([0, 1, 2, 5, 10, 29, 30, 50, rng.randint(0, 80)])
        p = rng.choice([Fraction(0), Fraction(1, 2), Fraction(1, 64), Fraction(63, 64), Fraction(33, 64), Fraction(1), law_dyadic(rng, 0, 1, 6)])
        if p == 1 and not flip: p = Fraction(63, 64)     # without the flip p = 1 never returns from BINV (finding; the harness would hang)
        c = [109, law_seed(rng), 1, n, dy(p), int(flip)]
        if meta_law(c)['binv']: c[2] = rng.randint(1, kmax)
        add(c)
    for _ in range(30 * rep):      # law_random_path
        n = rng.choice([0, 1, 2, 3, 10, 50, rng.randint(0, 120 if quick else 400)])
        add([110, law_seed(rng), n], {'n': n})
    for _ in range(25 * rep):      # law_invcdf_gaussian
        x = rng.choice([Fraction(0), Fraction(1), Fraction(-1), Fraction(2), Fraction(1, 2), Fraction(1, 2 ** 20), 1 - Fraction(1, 2 ** 20)]) \
            if rng.random() < .3 else law_dyadic(rng, 0, 1, rng.choice([4, 10, 20, 30]))
        add([111, dy(x)], {'x': x})
    return cases, meta

def law_range_ok(kind, case, meta, val):
    """the proved range, evaluated on one value returned by the implementation (val: int, Fraction or None for TEST)"""
    if kind == 100:
        a, b = meta['a'], meta['b']
        if val is None: return False
        return (a < val < b) if a < b else ((b < val < a) if b < a else val == a)
    if kind in (101, 102): return meta['a'] <= val <= meta['b']
    if kind == 103: return val is not None
    if kind == 104: return val is not None and val > 0
    if kind == 105:
        al = meta['alpha']
        if al <= 0: return val is None
        return val is not None and (val >= 0 if al > 1 and abs(al - 1) >= 1e-5 else val > 0)
    if kind in (106, 107):
        if meta['p1'] <= 0 or meta['p2'] <= 0: return val is None
        if val is None: return False
        return 0 <= val <= 1 if kind == 106 else val >= 0
    if kind == 108: return val is not None and val >= 0
    if kind == 109: return 0 <= val <= meta['n']
    return True

def cmp_law(ctx, case, meta, impl, model):
    kind = case[0]; fn = LAW_FN[kind]
    replay = {'case': sx_str(case), 'how': 'law_set_random_seed(seed) then k calls of %s with the parameters of the case' % fn}
    if model is None or (model and model[0] == -999):
        ctx.violation('model-error:' + fn, 'the model rejected the case', replay, found_input=False); return False
    if impl is None or (impl and impl[0] == -997):
        ctx.violation('crash:' + fn, 'the harness produced no answer', replay); return True
    ctx.sample({'case': sx_str(case)[:200], 'impl': str(impl)[:200], 'model': str(model)[:200]})
    stale = law_case_stale(case, meta)
    if kind == 112:
        # spec evaluation, no model: the Gamma(alpha) law charges every interval of ]0,+inf[; the harness counted the values of N successive
        # calls in three adjacent intervals of equal width, the middle one being the gap ]1, ln GV_EE] of the constant (see law_gap_case)
        import math
        src = law_source()
        n1, n2, n3 = impl[0], impl[1], impl[2]; ee_lib = undy(impl[3])
        ctx.count(sx_str(case), True)
        if ee_lib is None or float(ee_lib) != src['ee']:
            ctx.violation('model-drift:law_gamma:gv-ee-constant', 'the harness was compiled with GV_EE = %s, the header read by the check says %s (stale build?)' % (
                ee_lib and float(ee_lib), src['ee_literal']), replay, found_input=False)
        wrong = abs(src['ee'] - math.e) > 1e-12
        empty = n2 == 0 and n1 > 0 and n3 > 0
        if wrong or empty:
            b = [float(x) for x in meta['bounds']]
            ctx.violation('law_gamma:alpha-below-one:support-gap-gv-ee',
                          'GV_EE = %s in include/geoslib_define.h (e = 2.718281828459045): among %d successive values of law_gamma(%s) after law_set_random_seed(%d), '
                          '%d lie in ]%.6f,%.6f], %d in ]%.6f,%.6f] and %d in ]%.6f,%.6f]' % (src['ee_literal'], meta['N'], meta['alpha'], case[1],
                                                                                         n1, b[0], b[1], n2, b[1], b[2], n3, b[2], b[3]),
                          dict(replay, GV_EE=src['ee_literal'], counts=[n1, n2, n3], intervals=b,
                               how='law_set_random_seed(%d); count the values of %d calls law_gamma(%s, 1.) in the three intervals' % (case[1], meta['N'], meta['alpha'])),
                          found_input=empty)
            return empty
        return False
    if kind == 111:
        xi = undy(impl[0]); xm = unq(model[0]); x = meta['x']
        ctx.count(sx_str(case), 0 < x < 1)
        bad = xi is None or not (-10 <= xi <= 10) or (x <= 0 and xi != -10) or (x >= 1 and xi != 10)
        if bad:
            ctx.violation('impl-vs-spec:law_invcdf_gaussian:range', 'law_invcdf_gaussian(%s) = %s' % (x, xi), replay); return True
        if len(model) == 2 and 0 < x < 1 and model[1] != 15:
            ctx.violation('model-drift:law_invcdf_gaussian:iterations', 'model iterates %d times, theorem says 15' % model[1], replay, found_input=False)
        if len(model) == 2 and not close_enough(xi, xm, 1e-12) and close_enough(xi, xm, 2e-7, scale=0.):
            ctx.cov['tie_excluded'] += 1      # one test of the bisection answered differently (both end within the final width 1e-7 of the root)
        elif len(model) < 2 or not close_enough(xi, xm, 1e-12):
            ctx.violation('model-drift:law_invcdf_gaussian:value', 'impl %s model %s' % (float(xi), xm and float(xm)), replay, found_input=False)
        return False
    if kind == 110:
        n = meta['n']; path = impl[1]
        ctx.count(sx_str(case), n > 1)
        if sorted(path) != list(range(n)):
            ctx.violation('law_random_path:permutation', 'law_random_path(%d) is not a permutation of 0..n-1: %s' % (n, path[:20]), replay); return True
        if impl[0] != model[0]:
            ctx.violation('model-drift:law_random_path:draw-count', 'state after the call: impl %d model %d' % (impl[0], model[0]), replay, found_input=False)
        elif path != model[1]:
            ctx.violation('model-drift:law_random_path:order', 'impl path %s model path %s' % (path[:12], model[1][:12]), replay, found_input=False)
        return False
    # iterated kinds: walk the calls in order
    exact_int = kind in (101, 102, 108, 109)
    found = False
    if stale:
        # corpus line written for another state of the tree (other GV_EE / flip flag): the model of the line is not the code; spec only
        for i, ii in enumerate(impl):
            vi = (None if ii[1] == [] else ii[1]) if exact_int else undy(ii[1])
            ctx.count(sx_str(case) + '#%d' % i, True)
            if not law_range_ok(kind, case, meta, vi):
                ctx.violation('impl-vs-spec:%s:range' % fn, 'call %d returns %s, outside the proved range (corpus case)' % (i + 1, vi), dict(replay, call=i + 1))
                return True
        return False
    for i, mi in enumerate(model):
        if i >= len(impl):
            ctx.violation('crash:' + fn, 'fewer results than calls', replay); return True
        ii = impl[i]
        if mi[0] == -1:        # model out of fuel: nothing to compare from here on
            ctx.cov['tie_excluded'] += 1; ctx.count(None, False); break
        if exact_int: vi = None if ii[1] == [] else ii[1]
        else: vi = undy(ii[1])
        ctx.count(sx_str(case) + '#%d' % i, True)
        if not law_range_ok(kind, case, meta, vi):
            sub = ''
            if kind == 109:
                cur_flip = law_source()['flip']; pe = 1 - meta['p'] if (cur_flip and meta['p'] > Fraction(1, 2)) else meta['p']
                if meta['n'] * pe >= 30: sub = ':btpe-p-above-half' if pe > Fraction(1, 2) else ':btpe'
            ctx.violation('impl-vs-spec:%s:range%s' % (fn, sub), 'call %d returns %s, outside the range proved for every state (parameters %s)' % (
                i + 1, vi if exact_int else (None if vi is None else float(vi)), {k: str(v) for k, v in meta.items()}), dict(replay, call=i + 1))
            return True
        if kind == 109 and not meta['binv']: break         # BTPE: range only
        margin = unq(mi[2]) if kind not in (100, 103, 104) else None
        if margin is not None and margin < Fraction(1, 10 ** 9):
            ctx.cov['tie_excluded'] += 1; break             # a decision on reals too close to call: the rest of the stream may differ
        if ii[0] != mi[0]:
            rule = 'state' if kind in (100, 101, 102, 103, 104) else 'draw-count'
            ctx.violation('model-drift:%s:%s' % (fn, rule), 'call %d: state after the call is %d, model %d' % (i + 1, ii[0], mi[0]),
                          dict(replay, call=i + 1), found_input=False)
            break
        if exact_int:
            vm = None if mi[1] == [] else mi[1]
            if vi != vm:
                ctx.violation('model-drift:%s:value' % fn, 'call %d: impl %s model %s' % (i + 1, vi, vm), dict(replay, call=i + 1), found_input=False); break
        else:
            vm = unq(mi[1])
            if kind == 100:
                ok = close_enough(vi, vm, 1e-15, scale=float(max(abs(meta['a']), abs(meta['b']))))
            else:
                # gamma / beta: the rejection samplers subtract nearly equal numbers (c1 - value, a/(a+b)) and raise to the power 1/alpha:
                # the binary64 evaluation is conditioned up to ~1e3, hence the project's default 1e-9; the state after the call (exact) pins the decisions
                ok = close_enough(vi, vm, 1e-9 if kind in (105, 106, 107) else 1e-12)
            if not ok:
                ctx.violation('model-drift:%s:value' % fn, 'call %d: impl %s model %s' % (i + 1, vi and float(vi), vm and float(vm)),
                              dict(replay, call=i + 1), found_input=False); break
    return found




PARTS.append(('law', gen_law, cmp_law, 100, 199, globals().get('meta_law')))
# END PART law 
#@PARTS@

# ----------------------------------------------------------------------------- main
def load_corpus(ctx):
    p = os.path.join(VERIF, 'corpus', ctx.pid + '.sx')
    if not os.path.exists(p): return []
    return [sx_parse(l) for l in open(p) if l.strip() and not l.startswith('#')]

def run(ctx):
    quick = ctx.quick()
    build_lib(ctx)
    proofs_ok = coq_properties(ctx)
    runner = build_runner(ctx)
    exe = build_harness(ctx, 'C14')
    if runner is None or exe is None:
        print('ERROR: model runner or harness does not build'); sys.exit(3)
    rng = ctx.rng
    found_input = False
    # ---- hook present ?
    cf = write_cases(ctx, 'hook', [[0]])
    rc, r0 = run_impl(ctx, exe, cf)
    if not r0 or r0[0] != [1]:
        print('ERROR: the C14 hook (verif_tb_trace_*) is not in the library built from %s: apply /verif/hooks/C14.patch (this is not a verdict on the property)' % REPO, flush=True)
        sys.exit(3)
    # ---- turning bands
    ntb = 55 if quick else 900
    cases = [c for c in load_corpus(ctx) if c and c[0] == 1] + gen_branch_cases(rng) + [gen_tb_case(rng, quick) for _ in range(ntb)]
    if not quick: cases += [c for _ in range(6) for c in gen_branch_cases(rng)]
    nq = 8 if quick else 60
    quad = [gen_quad_case(rng) for _ in range(nq)]
    nch = 40 if quick else 400
    chol = [gen_chol_case(rng) for _ in range(nch)]
    allc = cases + [q[0] for q in quad] + [q[1] for q in quad] + chol
    cf = write_cases(ctx, 'impl', allc)
    rc_i, impl = run_impl(ctx, exe, cf)
    impl = impl + [None] * (len(allc) - len(impl))
    for k in range(len(impl)):
        if impl[k] is not None and impl[k] and impl[k][0] in (-997, -996): impl[k] = None
    # Van der Corput values of the Coq model (kind 300) for every band index used below: the replay of the directions is
    # then "library directions = f(model's radical inverses)"
    nmax = max([c[2] * c[3] * len(c[7][0]) for c in cases] + [q[0][2] for q in quad])
    vc = [[300, pp, n] for pp in (2, 3) for n in range(1, nmax + 1)]
    vf = write_cases(ctx, 'vdctab', vc)
    rc_v, vres = run_model(ctx, runner, vf)
    if len(vres) != len(vc) or any((not r) or r[0] == -999 for r in vres):
        print('ERROR: the Van der Corput model did not evaluate'); sys.exit(3)
    for c3, r in zip(vc, vres): VDC_TABLE[(c3[1], c3[2])] = unq(r[0])
    mcases = []; mmeta = []
    for i, c in enumerate(cases):
        ctx.dist('tb_ndim%d' % c[4]); ctx.dist('tb_nvar%d' % c[5]); ctx.dist('tb_ncov%d' % len(c[7][0])); ctx.dist('tb_grid' if c[6][0] == 1 else 'tb_points')
        for s in c[7][0]: ctx.dist('tb_type_' + TB_TYPES[s[0]]); ctx.dist('tb_aniso' if s[3] else 'tb_iso')
        bad = check_tb(ctx, c, impl[i], mcases, mmeta, i)
        if not bad: bad = check_directions(ctx, c, impl[i], mcases, mmeta, i)
        found_input = found_input or bad
        ctx.count(sx_str(c))
        if impl[i]: ctx.sample({'case': sx_str(c)[:300], 'impl_values': sx_str(impl[i][2])[:200]})
    off = len(cases)
    for k, (qc, cc) in enumerate(quad):
        ctx.dist('quad_' + TB_TYPES[qc[7][0][0][0]])
        found_input = cmp_quad(ctx, qc, cc, impl[off + k], impl[off + nq + k]) or found_input
    off += 2 * nq
    chol_l = []
    for k, c in enumerate(chol):
        ctx.dist('chol_n%d' % c[1])
        bad, lrows = cmp_chol(ctx, c, impl[off + k], None, 1)
        found_input = found_input or bad
        if lrows is not None:
            res = impl[off + k]
            mcases.append([3, c[1], lrows, c[2], res[2], res[3], c[4]])   # out = M.g with M the harvested map
            mmeta.append(('chol', off + k))
    # grid / point twins: the same nodes (coordinates as the DbGrid gives them, rotation included) given as an isolated point set
    # must receive the same values (same seed): ties _simulateGrid / _spreadRegularOnGrid / _spreadSpectralOnGrid (running sums and
    # cosine recurrences along the ROTATED grid axes) to the point evaluation.  Unmasked grids only (a mask changes the band extents).
    twins = []
    for i, c in enumerate(cases):
        d = c[6]
        if d[0] == 1 and not d[5] and impl[i] is not None and impl[i][0] == 0 and len(impl[i]) > 10:
            twins.append((i, [1] + c[1:6] + [[0, impl[i][10], []], c[7]]))
            ctx.dist('twin_rotated_grid' if d[4] and any(undy(a) != 0 for a in d[4]) else 'twin_plain_grid')
    tf = write_cases(ctx, 'twins', [t[1] for t in twins])
    rc_t, timpl = run_impl(ctx, exe, tf)
    timpl = timpl + [None] * (len(twins) - len(timpl))
    for k, (i, tc) in enumerate(twins):
        rg, rp = impl[i], timpl[k]
        ctx.count(None, False)
        if rg is None or rp is None or rg[0] != 0 or rp[0] != 0:
            if not (rg is None or rg[0] != 0):
                ctx.violation('simtub:grid-vs-points:run-failed', 'the point twin of a grid case failed', {'case': sx_str(tc)}); found_input = True
            continue
        worst = 0.; at = None
        for a in range(len(rg[2])):
            for j in range(len(rg[2][a])):
                for x in range(rg[1]):
                    vg, vp = fl(rg[2][a][j][x]), fl(rp[2][a][j][x])
                    if (vg is None) != (vp is None): worst = float('inf'); at = (a, j, x, vg, vp)
                    elif vg is not None and abs(vg - vp) > worst: worst = abs(vg - vp); at = (a, j, x, vg, vp)
        # band tables of the twin runs (hook trace): first band whose spread values differ between the grid and the point path
        firstband = None
        pt_recs = {tuple(r[0][1:5]): r for r in rp[3] if r[0][0] != 2}
        for r in rg[3]:
            if r[0][0] == 2: continue
            q = pt_recs.get(tuple(r[0][1:5]))
            if q is None: continue
            tg = [fl(v) for v in r[4]]; tp = [fl(v) for v in q[4]]
            sc_t = max([abs(v) for v in tg + tp] + [1.])
            if any(abs(a_ - b_) > 1e-8 * sc_t for a_, b_ in zip(tg, tp)) or fl(r[1]) != fl(q[1]):
                firstband = {'ivar': r[0][1], 'isimu': r[0][2], 'structure': r[0][3], 'band': r[0][4], 'correc_grid': fl(r[1]), 'correc_points': fl(q[1]),
                             'tab_grid': tg[:4], 'tab_points': tp[:4]}
                break
        scale_v = max([abs(fl(v)) for a in rg[2] for col in a for v in col if fl(v) is not None] + [1.])
        if firstband is not None and worst <= 1e-8 * scale_v: worst = float('inf'); at = (firstband['isimu'], 0, 0, firstband['tab_grid'], firstband['tab_points'])
        if worst > 1e-8 * scale_v:
            stn = ', '.join('%s(param %s)' % (TB_TYPES.get(st_[0], st_[0]), undy(st_[2])) for st_ in cases[i][7][0])
            ctx.violation('simtub:grid-vs-points', ('structures [%s]: ' % stn) + 'the same nodes simulated as a grid and as isolated points (same seed) differ: simulation %d variable %d node %d: grid %r points %r' % at,
                          {'grid_case': sx_str(cases[i]), 'point_case': sx_str(tc), 'at': at, 'first_differing_band': firstband}); found_input = True
    mf = write_cases(ctx, 'model', mcases)
    rc_m, model = run_model(ctx, runner, mf)
    if len(model) != len(mcases):
        print('ERROR: model runner returned %d results for %d cases' % (len(model), len(mcases))); sys.exit(3)
    for k, mc in enumerate(mcases):
        mr = model[k]
        if mr and mr[0] == -999:
            print('ERROR: model rejected case %d: %s' % (k, sx_str(mc)[:200])); sys.exit(3)
        mt = mmeta[k]
        if mt[0] == 'tb':
            found_input = cmp_tb(ctx, cases[mt[1]], mt, impl[mt[1]], mr) or found_input
        elif mt[0] == 'aniso':
            found_input = cmp_aniso(ctx, cases[mt[1]], mt, impl[mt[1]], mr) or found_input
        elif mt[0] == 'chol':
            c = allc[mt[1]]
            # for the covariance form the harvested map must itself be the Cholesky factor of Sigma; for the precision form
            # M = t(L)^-1 is upper triangular and M.t(M) = Sigma^-1: checked as Sigma.(M.t(M)) = I by the model on request
            bad, _ = cmp_chol(ctx, c, impl[mt[1]], mr, 2)
            found_input = found_input or bad
    # ---- parts: Law generators, FFT simulator index algebra, Van der Corput, 1-D processes
    corpus_all = load_corpus(ctx)
    for name, gen, cmp, klo, khi, metaf in PARTS:
        t0 = time.time()
        pc, pm = gen(ctx, quick)
        # regression cases of the corpus (witnesses of repaired defects) come first; meta_<p>(case) rebuilds what cmp_<p> needs
        if metaf is not None:
            cc = [c for c in corpus_all if c and isinstance(c[0], int) and klo <= c[0] <= khi]
            pc = cc + pc; pm = [metaf(c) for c in cc] + pm
        if not pc: continue
        pf = write_cases(ctx, 'part_' + name, pc)
        rc_pi, pimpl = run_impl(ctx, exe, pf)
        rc_pm, pmodel = run_model(ctx, runner, pf)
        if len(pmodel) != len(pc):
            print('ERROR: model runner returned %d results for %d cases of part %s' % (len(pmodel), len(pc), name)); sys.exit(3)
        for k in range(len(pc)):
            ii = pimpl[k] if k < len(pimpl) else None
            found_input = bool(cmp(ctx, pc[k], pm[k], ii, pmodel[k])) or found_input
        ctx.cov.setdefault('part_wall_s', {})[name] = round(time.time() - t0, 1)
        ctx.cov.setdefault('part_cases', {})[name] = len(pc)
    #@PART_RUN@
    ctx.cov['rule'] = ('evaluations = elementary comparisons (one simulated value recomputed from the recorded band tables, one direction, one Cholesky case, one generator draw ...); '
                       'distinct_nontrivial = distinct (model, data base, seed) cases + distinct part cases; inputs: dyadic coordinates/ranges/angles, integer sill matrices B.t(B)+D, 1-3 variables, '
                       '1-3 structures, 1-3 D, points and grids, masks; every structure the turning bands accept except the IRF/power family')
    if not proofs_ok: proof_break_violation(ctx, found_input)
    ctx.level = ('partial proof: second-moment (L2) calculus of every simulator output that is linear in the elementary draws; the law of the draws themselves and '
                 'the Monte-Carlo clause are not theorems')
    ctx.assumptions = [
        'STATISTICAL, not proved: independence and exact standardisation of successive outputs of the congruential generator (an idealisation: the L2 theorems take the elementary draws as an orthonormal family)',
        'STATISTICAL, not proved: the law of each one-dimensional band process beyond the algebra of coq/C14 (Poisson migration process, spectral measures of the gaussian/matern/stable/sine-cardinal/Bessel structures, IRF-k processes)',
        'STATISTICAL, not proved: the clause "within the sampling error expected for the number of realisations" (no hypothesis test is run); the moments of the non-rational generators (gaussian, exponential, gamma, beta, stable, Poisson, binomial)',
        'NUMERIC EVIDENCE, not theorem: the band average (1/nb) sum_b C1(<h,u_b>) vs C(h) over the harvested directions (quasi Monte-Carlo quadrature, tolerance 0.06); the binary64 replay of _generateDirections; the second-moment check of the FFT simulator',
        'oracles: eigen-pairs of the sill matrices (Eigen), Cholesky factor (Eigen), cos/sin/log/sqrt of libm; the band tables, correc, AIC coefficients recorded by the C14 hook are harvested data',
        'doubles are read as exact dyadic rationals; tolerance of the assembly comparison = 8 (number of terms) 2^-53 (sum of absolute values)',
    ]

if __name__ == '__main__':
    main(run)

"""C13 — simulations are reproducible from their seed and honour their conditioning.

Theorems of coq/C13 + correspondence / property-on-impl runs:
  lcg        law_uniform / law_int_uniform bit-exact against the model (32-bit wrap included)
  bounded    law_gaussian_between_bounds / GibbsMulti::getSimulate : value inside its bounds, same draws as the model
  cond       Db::getSimRank, _difference, KrigingSystem::_simulateCalcul (weights read from impl) ; exactness at a datum
  rule       Rule::getThresh / getFaciesFromGaussian against the tree model ; round trip facies -> bounds -> facies
  sims       every simulator: RNG trace in the seed-discipline language, double runs bit-identical after an unrelated
             use of the generator, different seeds / ranks differ, data honoured, Gibbs values inside bounds, facies at data
"""
import sys, os, math
sys.path.insert(0, os.path.dirname(__file__))
from common import *

P = 20000159
HOOKS = ['verif_rng_trace_start', 'verif_rng_trace_stop', 'verif_rng_trace_size', 'verif_rng_trace_get']
SIMNAME = {0: 'simtub', 1: 'simtub-cond-grid', 2: 'simtub-cond-points', 3: 'simfft', 4: 'simulateSPDE', 5: 'simulateSPDE-cond',
           6: 'gibbs_sampler', 7: 'simpgs', 8: 'simpgs-cond', 9: 'simbipgs', 10: 'Db::addColumnsRandom', 11: 'Db::createFromBox',
           12: 'Db::createFillRandom', 13: 'VH::simulateGaussian'}
# seed discipline expected of each entry point: 'strict' = SetSeed(s).Draw* ; 'derived' = SetSeed(s) then draws, reads of the
# state and re-seeding with values read earlier in the same trace (turning bands: one seed per band, save/restore)
LANG = {0: 'derived', 1: 'derived', 2: 'derived', 3: 'strict', 4: 'strict', 5: 'strict', 6: 'strict', 7: 'derived', 8: 'derived',
        9: 'derived', 10: 'strict', 11: 'strict', 12: 'strict', 13: 'strict'}

def S(s): return [ord(ch) for ch in s]
def fr(x): return None if x is None else Fraction(x)
def dyq(rng, lo, hi, den=16): return Fraction(rng.randint(int(lo * den), int(hi * den)), den)

class Batch:
    """collect (impl case, callback) pairs; run the harness once"""
    def __init__(self, ctx, exe, name): self.ctx, self.exe, self.name, self.cases, self.cbs = ctx, exe, name, [], []
    def add(self, case, cb): self.cases.append(case); self.cbs.append(cb)
    def run(self, timeout=1500):
        if not self.cases: return
        cf = write_cases(self.ctx, self.name, self.cases)
        rc, res = run_impl(self.ctx, self.exe, cf, timeout=timeout)
        for i, cb in enumerate(self.cbs):
            cb(self.cases[i], res[i] if i < len(res) else None)
        self.cases, self.cbs = [], []

def model_run(ctx, runner, name, cases):
    if not cases: return []
    cf = write_cases(ctx, name, cases)
    rc, res = run_model(ctx, runner, cf)
    if len(res) != len(cases):
        print('ERROR: model runner returned %d results for %d cases (%s)' % (len(res), len(cases), name)); sys.exit(3)
    for i, r in enumerate(res):
        if r and r[0] == -999:
            print('ERROR: model rejected case %d of %s: %s' % (i, name, sx_str(cases[i])[:200])); sys.exit(3)
    return res

def crash(ctx, what, case):
    ctx.violation('crash:' + what, 'impl produced no answer (crash / exception) on a %s case' % what, {'case': sx_str(case)[:4000]})
    ctx.found_input = True

# ============================================================================================ LCG
def check_lcg(ctx, exe, runner):
    rng = ctx.rng; quick = ctx.quick()
    seeds = [1, 2, 5, 1234, 43241421, 2147483647, 40904450, 40904451, P - 1, P + 1, 3 * P + 7, 55380755]
    seeds += [rng.randint(1, 2 ** 31 - 1) for _ in range(4 if quick else 20)]
    cases = [[0, s, 100000 if quick else 1000000] for s in seeds]
    cases += [[0, s, 10 ** 6 if quick else 10 ** 7] for s in ([1234] if quick else [1234, 43241421, 2147483647, 777])]
    cf = write_cases(ctx, 'lcg', cases)
    rc, impl = run_impl(ctx, exe, cf); model = model_run(ctx, runner, 'lcg', cases)
    for i, c in enumerate(cases):
        ii = impl[i] if i < len(impl) else None
        ctx.count('lcg:%d:%d' % (c[1], c[2])); ctx.dist('lcg_seed_wrap' if 105 * c[1] >= 2 ** 32 else 'lcg_seed_nowrap'); ctx.dist('lcg_draws', c[2])
        if ii is None: crash(ctx, 'law_uniform', c); continue
        if i < 2: ctx.sample({'case': sx_str(c), 'impl': ii, 'model': model[i]})
        if ii[:4] != model[i][:4] or ii[4] != 1:
            # spec on impl: every state in ]0,p[ (given the model says so) and u == state/p exactly
            if model[i][2] == 1 and (ii[2] != 1 or ii[4] != 1):
                ctx.violation('law_uniform:draw-outside-open-unit-interval', 'seed %d: a draw left ]0,1[ or is not state/p although the first state is not 0' % c[1],
                              {'case': sx_str(c), 'impl': ii, 'model': model[i]}); ctx.found_input = True
            else:
                ctx.violation('model-drift:law_uniform', 'old-style generator differs from coq/C13/Model.v lcg_next on seed %d after %d draws (impl %s, model %s) '
                              'while every draw is still in ]0,1[' % (c[1], c[2], ii[:2], model[i][:2]),
                              {'case': sx_str(c), 'impl': ii, 'model': model[i], 'correspondence': 'lcg_next vs law_uniform'}, found_input=False)
    # law_uniform(mini,maxi) / law_int_uniform
    cases = []
    for _ in range(20 if quick else 200):
        a = dyq(rng, -50, 50); b = a + dyq(rng, 0, 40)
        imin = rng.randint(-5, 5); imax = imin + rng.choice([0, 1, 2, 5, 17, 1000, 99999])
        cases.append([6, rng.randint(1, 2 ** 31 - 1), dy(a), dy(b), imin, imax, 8])
    cf = write_cases(ctx, 'unif', cases)
    rc, impl = run_impl(ctx, exe, cf); model = model_run(ctx, runner, 'unif', cases)
    for i, c in enumerate(cases):
        ii = impl[i] if i < len(impl) else None
        ctx.count('unif:' + sx_str(c))
        if ii is None: crash(ctx, 'law_int_uniform', c); continue
        us_i = [undy(x) for x in ii[0]]; us_m = [unq(x) for x in model[i][0]]
        a, b = undy(c[2]), undy(c[3])
        okr = all(a <= u <= b for u in us_i) and all(c[4] <= k <= c[5] for k in ii[1])
        same = ii[1] == model[i][1] and ii[2] == model[i][2] and all(close_enough(x, y, 1e-12, float(abs(a) + abs(b) + 1)) for x, y in zip(us_i, us_m))
        if not okr:
            ctx.violation('law_int_uniform:outside-range', 'law_uniform(mini,maxi) / law_int_uniform(mini,maxi) returned a value outside [mini,maxi]',
                          {'case': sx_str(c), 'impl': ii}); ctx.found_input = True
        elif not same:
            ctx.violation('model-drift:law_int_uniform', 'law_uniform(mini,maxi)/law_int_uniform differ from the model but stay in range',
                          {'case': sx_str(c), 'impl': ii, 'model': model[i]}, found_input=False)

# ============================================================================================ bounded draws
def gen_bounds(rng):
    r = rng.random()
    if r < .30:
        a = dyq(rng, -6, 6); b = a + dyq(rng, 0, 8)
    elif r < .40:
        a = dyq(rng, -6, 6); b = a                                   # degenerate
    elif r < .50:
        a = dyq(rng, -6, 6); b = a + Fraction(rng.randint(1, 64), 2 ** rng.choice([10, 20, 30]))   # narrow
    elif r < .60:
        a = dyq(rng, 2, 12); b = a + dyq(rng, 0, 10)                 # upper tail
    elif r < .70:
        b = -dyq(rng, 2, 12); a = b - dyq(rng, 0, 10)                # lower tail
    elif r < .80:
        a = None; b = dyq(rng, -8, 8)
    elif r < .90:
        a = dyq(rng, -8, 8); b = None
    elif r < .95:
        a = rng.choice([-2, 0, 2, Fraction(-5, 2)]); b = rng.choice([0, 2, 3, 10])   # on the break points
        a, b = Fraction(a), Fraction(b)
        if a > b: a, b = b, a
    else:
        a = dyq(rng, 18, 30); b = a + dyq(rng, 0, 5)                 # beyond 'large' with both bounds defined
        if rng.random() < .5: a, b = -b, -a
    return a, b

def check_bounded(ctx, exe, runner):
    rng = ctx.rng; quick = ctx.quick()
    n = 400 if quick else 6000
    cases = []
    for _ in range(n):
        a, b = gen_bounds(rng)
        cases.append([1, rng.randint(1, 2 ** 31 - 1), dy(a), dy(b), 600])
    # open side replaced by -20/+20 : C13_bounded_draw_open_refuted
    cases.append([1, 7, [], dy(-25), 600]); cases.append([1, 9, dy(Fraction(45, 2)), [], 600])
    cases.append([1, 11, [], dy(Fraction(-81, 4)), 600])
    ng = 200 if quick else 3000
    for _ in range(ng):
        yk = dyq(rng, -3, 3); sk = Fraction(rng.randint(1, 40), 16)
        lo, hi = gen_bounds(rng)
        if lo is None and hi is None: hi = Fraction(1)
        # keep standardised bounds inside +-20 so that the replacement of NA by +-20 is not what is tested here
        if lo is not None and (lo - yk) / sk > 19: lo = yk + 19 * sk
        if hi is not None and (hi - yk) / sk < -19: hi = yk - 19 * sk
        if lo is not None and hi is not None and lo > hi: lo, hi = hi, lo
        cases.append([2, rng.randint(1, 2 ** 31 - 1), dy(yk), dy(sk), dy(lo), dy(hi), 600])
    cf = write_cases(ctx, 'bounded', cases)
    rc, impl = run_impl(ctx, exe, cf); model = model_run(ctx, runner, 'bounded', cases)
    for i, c in enumerate(cases):
        ii = impl[i] if i < len(impl) else None; mi = model[i]
        what = 'law_gaussian_between_bounds' if c[0] == 1 else 'GibbsMulti::getSimulate'
        lo, hi = (undy(c[2]), undy(c[3])) if c[0] == 1 else (undy(c[4]), undy(c[5]))
        kindk = ('open-lo' if lo is None else 'open-hi' if hi is None else 'degenerate' if lo == hi else 'interval')
        ctx.dist('bounded_' + kindk if c[0] == 1 else 'gibbs_' + kindk)
        if ii is None or ii[0] != 0: crash(ctx, what, c); continue
        x = undy(ii[1])
        # ---- the property, on impl: the value honours the bounds it was given
        if c[0] == 1:
            beyond = (lo is None and hi is not None and hi < -20) or (hi is None and lo is not None and lo > 20)
        else:
            beyond = False
        tol = 0 if c[0] == 1 else Fraction(1, 2 ** 48) * (1 + abs(x))   # yk + sk*t : two roundings
        bad = x is None or (lo is not None and x < lo - tol) or (hi is not None and x > hi + tol)
        ctx.count('%d:%s:%s:%s' % (c[0], c[1], lo, hi), True)
        if i % 97 == 0: ctx.sample({'case': sx_str(c), 'impl': ii, 'model': mi})
        if bad:
            if beyond:
                key = 'law_gaussian_between_bounds:undefined-bound-replaced-by-20'
                txt = 'bounds (%s, %s): value %s is outside: the undefined side is replaced by -20/+20 although the defined bound lies beyond it' % (lo, hi, float(x))
            else:
                key = what + ':value-outside-bounds:' + kindk
                txt = '%s with bounds (%s, %s) and seed %d returned %r' % (what, lo, hi, c[1], float(x) if x is not None else None)
            ctx.violation(key, txt, {'case': sx_str(c), 'impl': ii, 'model': mi, 'call': what}); ctx.found_input = True
            continue
        # ---- correspondence with the model (same uniforms, same number of draws, same value)
        if mi[0] == 1: ctx.cov['tie_excluded'] += 1; continue         # model ran out of the uniforms it was given
        if mi[0] != 0:
            ctx.violation('model-drift:' + what, 'model leaves a table where impl returns', {'case': sx_str(c), 'impl': ii, 'model': mi}, found_input=False); continue
        xm = unq(mi[1]); nd = mi[2]; margin = unq(mi[3])
        if margin is not None and abs(margin) < Fraction(1, 10 ** 9) and (ii[2] != nd):
            ctx.cov['tie_excluded'] += 1; continue
        if ii[2] != nd or not close_enough(x, xm, 1e-9):
            ctx.violation('model-drift:' + what, '%s: impl draws %d uniforms and returns %r, model %d and %r; impl stays inside its bounds on every explored input' % (
                what, ii[2], float(x), nd, float(xm)), {'case': sx_str(c), 'impl': ii, 'model': mi, 'correspondence': 'gbb / ' + what}, found_input=False)

def check_gibbs_site(ctx, exe, runner):
    """one site of the Gibbs sampler (hard datum kept, else getSimulate) for GibbsUMulti / GibbsMMulti / GibbsUMultiMono and the
    five kinds of bounds: value in the interval, same number of uniforms and same value as the model"""
    rng = ctx.rng; quick = ctx.quick()
    KINDS = ['free', 'lower', 'upper', 'two-sided', 'hard']
    cases = []
    for r in range(150 if quick else 2000):
        kind = KINDS[r % 5]; variant = (r // 5) % 3
        yk = dyq(rng, -3, 3); sk = Fraction(rng.randint(1, 40), 16)
        a = yk + sk * dyq(rng, -4, 4); w = sk * dyq(rng, 0, 5) + Fraction(1, 64)
        lo, hi = {'free': (None, None), 'lower': (a, None), 'upper': (None, a), 'two-sided': (a, a + w), 'hard': (a, a)}[kind]
        cases.append([12, variant, rng.randint(1, 2 ** 31 - 1), dy(yk), dy(sk), dy(lo), dy(hi)])
    cf = write_cases(ctx, 'site', cases); rc, impl = run_impl(ctx, exe, cf)
    model = model_run(ctx, runner, 'site', [[12, c[2], c[3], c[4], c[5], c[6], 600] for c in cases])
    VN = ['GibbsUMulti', 'GibbsMMulti', 'GibbsUMultiMono']
    for i, c in enumerate(cases):
        ii = impl[i] if i < len(impl) else None; mi, mk = model[i]
        kind = KINDS[i % 5]; what = VN[c[1]] + '::update-site'
        ctx.count('site:' + sx_str(c)); ctx.dist('site_%s_%s' % (VN[c[1]], kind))
        if ii is None or ii[0] != 0: crash(ctx, what, c); continue
        if mk != [0, 1, 2, 3, 4][i % 5]:
            print('ERROR: model classifies bounds of case %s as kind %d' % (sx_str(c), mk)); sys.exit(3)
        x = undy(ii[1]); lo, hi = undy(c[5]), undy(c[6])
        tol = Fraction(1, 2 ** 48) * (1 + abs(x)) if x is not None else 0
        if x is None or (lo is not None and x < lo - tol) or (hi is not None and x > hi + tol):
            ctx.violation('%s:value-outside-bounds:%s' % (what, kind), '%s with %s bounds (%s, %s), yk=%s sk=%s seed %d: value %r outside its interval' % (
                what, kind, lo, hi, undy(c[3]), undy(c[4]), c[2], None if x is None else float(x)), {'case': sx_str(c), 'impl': ii, 'model': mi}); ctx.found_input = True; continue
        if mi[0] == 1: ctx.cov['tie_excluded'] += 1; continue
        xm = unq(mi[1]); nd = mi[2]; margin = unq(mi[3])
        if margin is not None and abs(margin) < Fraction(1, 10 ** 9) and ii[2] != nd: ctx.cov['tie_excluded'] += 1; continue
        if ii[2] != nd or (kind != 'free' and not close_enough(x, xm, 1e-9)):
            ctx.violation('model-drift:' + what, '%s (%s bounds): impl draws %d uniforms and returns %r, model %d and %r; the value stays inside its interval on every explored input' % (
                what, kind, ii[2], float(x), nd, float(xm)), {'case': sx_str(c), 'impl': ii, 'model': mi}, found_input=False)

# ============================================================================================ conditioning
def check_cond(ctx, exe, runner):
    rng = ctx.rng; quick = ctx.quick()
    # --- rank indexing
    cases = []
    for _ in range(60 if quick else 600):
        nbsimu = rng.randint(1, 6); nvar = rng.randint(1, 4)
        cases.append([8, [rng.randrange(nbsimu), rng.randrange(nvar), rng.randint(0, 3), nbsimu, nvar]])
    cf = write_cases(ctx, 'rank', cases); rc, impl = run_impl(ctx, exe, cf); model = model_run(ctx, runner, 'rank', cases)
    for i, c in enumerate(cases):
        ctx.count('rank:' + sx_str(c))
        if i >= len(impl): crash(ctx, 'Db::getSimRank', c); continue
        if impl[i] != model[i]:
            # spec: injectivity over the (isimu, ivar) box
            ctx.violation('Db::getSimRank:index', 'getSimRank%s = %s, model %s' % (tuple(c[1]), impl[i], model[i]), {'case': sx_str(c)}); ctx.found_input = True
    # injectivity directly on impl
    for nbsimu, nvar in [(3, 2), (2, 3), (4, 1), (1, 4)]:
        cs = [[8, [i, v, k, nbsimu, nvar]] for k in range(2) for v in range(nvar) for i in range(nbsimu)]
        cf = write_cases(ctx, 'rankinj', cs); rc, impl = run_impl(ctx, exe, cf)
        vals = [r[0] for r in impl]
        if len(set(vals)) != len(cs) or sorted(vals) != list(range(len(cs))):
            ctx.violation('Db::getSimRank:not-injective', 'ranks of (isimu<%d, ivar<%d, icase<2) are not a bijection onto 0..%d: %s' % (nbsimu, nvar, len(cs) - 1, vals),
                          {'nbsimu': nbsimu, 'nvar': nvar, 'ranks': vals}); ctx.found_input = True
    # --- _difference
    cases = []
    for _ in range(60 if quick else 600):
        nbsimu = rng.randint(1, 3); nvar = rng.randint(1, 2); icase = rng.randint(0, 1)
        z = [dy(dyq(rng, -5, 5)) if rng.random() < .85 else [] for _ in range(nvar)]
        row = [dy(dyq(rng, -9, 9)) if rng.random() < .9 else [] for _ in range(nbsimu * nvar * (icase + 1))]
        cases.append([7, nbsimu, nvar, icase, z, row])
    cf = write_cases(ctx, 'diff', cases); rc, impl = run_impl(ctx, exe, cf); model = model_run(ctx, runner, 'diff', cases)
    for i, c in enumerate(cases):
        ctx.count('diff:' + sx_str(c)); ctx.dist('difference_rows')
        if i >= len(impl) or impl[i][0] != 0: crash(ctx, '_difference', c); continue
        a = [undy(x) for x in impl[i][1]]; b = [unq(x) for x in model[i][1]]
        if a != b:
            ctx.violation('CalcSimuTurningBands::_difference:simulated-error', 'stored simulated error differs from (simulation - datum) at its rank: impl %s model %s' % (
                [None if v is None else float(v) for v in a], [None if v is None else float(v) for v in b]), {'case': sx_str(c)}); ctx.found_input = True
    # --- _simulateCalcul : pass 1 on impl (weights), pass 2 on the model
    cases = []; meta = []
    for _ in range(60 if quick else 500):
        nbsimu = rng.randint(1, 3); nvar = rng.choice([1, 1, 2]); icase = rng.choice([0, 0, 1])
        nitem = nbsimu * nvar * (icase + 1)
        nd = rng.randint(2, 7)
        pts = rng.sample([(x, y) for x in range(0, 12, 2) for y in range(0, 12, 2)], nd)
        mtype = rng.choice([0, 1, 3]); mrange = rng.choice([6, 10, 15])
        data = []
        hetero = nvar == 2 and rng.random() < .4
        for j, (x, y) in enumerate(pts):
            zs = [dyq(rng, -4, 4) for _ in range(nvar)]
            und = [False] * nvar
            if hetero and j > 0 and rng.random() < .4: und[1] = True
            row = []
            for k in range(nitem):
                # item k = isimu + nbsimu*(ivar + nvar*icase')
                ivar = (k // nbsimu) % nvar
                row.append([] if und[ivar] else dy(dyq(rng, -3, 3)))
            data.append([dy(x), dy(y)] + [[] if und[v] else dy(zs[v]) for v in range(nvar)] + [row])
        coincide = rng.random() < .5
        if coincide:
            k = rng.randrange(nd); tx, ty = pts[k]
        else:
            k = None; tx, ty = Fraction(rng.randint(0, 20), 2), Fraction(rng.randint(0, 20), 2)
            if (tx, ty) in [(Fraction(a), Fraction(b)) for a, b in pts]: tx += Fraction(1, 4)
        trow = [dy(dyq(rng, -5, 5)) for _ in range(nitem)]
        cases.append([30, nbsimu, nvar, icase, [mtype, dy(mrange), dy(1)], data, [dy(tx), dy(ty), trow]])
        meta.append(k)
    cf = write_cases(ctx, 'simcalc', cases); rc, impl = run_impl(ctx, exe, cf)
    mcases = []; idx = []
    for i, c in enumerate(cases):
        ii = impl[i] if i < len(impl) else None
        if ii is None: crash(ctx, 'KrigingSystem::_simulateCalcul', c); continue
        if ii[0] != 0: ctx.dist('simcalc_rejected'); continue
        nbgh = ii[1]; nvar = c[2]
        nb = [c[5][j][2 + nvar] for j in nbgh]
        wq = [[x for x in r] for r in ii[2]]
        mcases.append([3, c[1], c[2], c[3], nb, wq, c[6][2]]); idx.append(i)
    model = model_run(ctx, runner, 'simcalc', mcases)
    # layout hypothesis of C13_krig_error_is_fdot_partial, discharged by computation on every case (with and without drift equations)
    lcases = []
    for j, i in enumerate(idx):
        c = cases[i]; nbsimu, nvar, icase = c[1], c[2], c[3]
        zs = [[r[0 + nbsimu * (iv + nvar * icase)] for iv in range(nvar)] for r in mcases[j][4]]
        lcases.append([13, nvar, 0, zs]); lcases.append([13, nvar, 1, zs])
    lres = model_run(ctx, runner, 'layout', lcases)
    for j, i in enumerate(idx):
        for d in (0, 1):
            ok, n, nd = lres[2 * j + d]
            ctx.count('layout:%d:%d' % (i, d))
            if not ok or (d == 0 and n != len(impl[i][2])):
                print('ERROR: layout hypothesis of C13_krig_error_is_fdot_partial fails on case %s (ok=%s, nred model %d, impl %d)' % (sx_str(lcases[2 * j + d])[:300], ok, n, len(impl[i][2]))); sys.exit(3)
    for j, i in enumerate(idx):
        c = cases[i]; ii = impl[i]; mi = model[j]; k = meta[i]
        nbsimu, nvar, icase = c[1], c[2], c[3]
        ctx.count('simcalc:' + sx_str(c)[:200]); ctx.dist('simcalc_nvar%d' % nvar); ctx.dist('simcalc_coincide' if k is not None else 'simcalc_free')
        out = [undy(x) for x in ii[3]]
        scale = 1 + max(abs(undy(v)) for r in mcases[j][4] for v in r if v != []) + max(abs(undy(v)) for v in c[6][2])
        if j < 2: ctx.sample({'case': sx_str(c)[:400], 'impl': sx_str(ii)[:300], 'model': sx_str(mi)[:300]})
        # the property on impl: exact at a coinciding datum: new = old - (simulated error of datum k), per simulation / variable / case
        viol = None
        if k is not None:
            for isimu in range(nbsimu):
                for ivar in range(nvar):
                    item = isimu + nbsimu * (ivar + nvar * icase)
                    dk = c[5][k][2 + nvar][item]
                    if dk == []: continue
                    exp = undy(c[6][2][item]) - undy(dk)
                    if out[item] is None or abs(out[item] - exp) > Fraction(1, 10 ** 8) * scale:
                        viol = (isimu, ivar, item, exp, out[item])
        if viol:
            ctx.violation('_simulateCalcul:not-exact-at-coinciding-datum', 'target on datum %d: simulation %d variable %d (item %d) gives %r instead of %r' % (
                k, viol[0], viol[1], viol[2], None if viol[4] is None else float(viol[4]), float(viol[3])), {'case': sx_str(c), 'impl': sx_str(ii)}); ctx.found_input = True
            continue
        if mi[0] != 0:
            ctx.violation('model-drift:_simulateCalcul', 'model runs out of weights where impl does not', {'case': sx_str(c), 'impl': sx_str(ii), 'model': mi}, found_input=False); continue
        mo = [unq(x) for x in mi[1]]
        if len(mo) != len(out) or any(not close_enough(a, b, 1e-9, float(scale)) for a, b in zip(out, mo)):
            # items of other cases must be untouched, items of this case follow the formula: both are part of the model
            ctx.violation('model-drift:_simulateCalcul', 'conditional values differ from target - sum_j w_j (simulated error_j) with the weights of impl: impl %s model %s' % (
                [None if v is None else round(float(v), 9) for v in out], [None if v is None else round(float(v), 9) for v in mo]),
                {'case': sx_str(c), 'impl': sx_str(ii), 'model': sx_str(mi), 'correspondence': 'simulate_calcul vs KrigingSystem::_simulateCalcul'}, found_input=False)

def check_copy(ctx, exe, runner):
    """CalcSimuTurningBands::_updateData2ToTarget on point targets, with selections on both Dbs and undefined data"""
    rng = ctx.rng; quick = ctx.quick()
    cases = []
    for r in range(60 if quick else 600):
        nbsimu = rng.randint(1, 3); nvar = rng.choice([1, 1, 2]); icase = rng.choice([0, 0, 1]); nitem = nbsimu * nvar * (icase + 1)
        nd = rng.randint(2, 8)
        pts = rng.sample([(x, y) for x in range(6) for y in range(6)], nd)
        mode = r % 3      # 0: no selection, 1: random masks, 2: first samples masked
        data = []
        for j, (x, y) in enumerate(pts):
            a = 1 if mode == 0 else (0 if (mode == 2 and j < 2) else (0 if rng.random() < .3 else 1))
            data.append([a, [dy(x), dy(y)], [dy(dyq(rng, -5, 5)) if rng.random() < .9 else [] for _ in range(nvar)]])
        if not any(d[0] for d in data): data[-1][0] = 1
        tg = [(Fraction(x), Fraction(y)) for x, y in pts] + [(Fraction(rng.randint(0, 10), 2) + Fraction(1, 4), Fraction(rng.randint(0, 10), 2)) for _ in range(3)]
        rng.shuffle(tg)
        tgs = [[0 if (mode and rng.random() < .2) else 1, [dy(x), dy(y)], [dy(dyq(rng, -9, 9)) for _ in range(nitem)]] for x, y in tg]
        cases.append([9, nbsimu, nvar, icase, dy(Fraction(1, 2 ** 30)), data, tgs])
    cf = write_cases(ctx, 'copy', cases); rc, impl = run_impl(ctx, exe, cf); model = model_run(ctx, runner, 'copy', cases)
    for i, c in enumerate(cases):
        ii = impl[i] if i < len(impl) else None; mi = model[i]
        ctx.count('copy:' + sx_str(c)[:300]); ctx.dist('copy_selection_mode_%d' % (i % 3))
        if ii is None or ii[0] != 0: crash(ctx, '_updateData2ToTarget', c); continue
        out = [[undy(v) for v in r] for r in ii[1]]; mo = [[unq(v) for v in r] for r in mi[1]]
        if out == mo: continue
        nbsimu, nvar, icase = c[1], c[2], c[3]
        # the property on impl: an active target on an active datum carries that datum's defined values
        bad = None
        for it, t in enumerate(c[6]):
            if not t[0]: continue
            on = [j for j, d in enumerate(c[5]) if d[0] and d[1] == t[1]]
            if not on: continue
            for isimu in range(nbsimu):
                for ivar in range(nvar):
                    z = undy(c[5][on[0]][2][ivar]); item = isimu + nbsimu * (ivar + nvar * icase)
                    if z is not None and out[it][item] != z: bad = (it, on[0], isimu, ivar, out[it][item], z)
        if bad:
            others = [j for j, d in enumerate(c[5]) if any(undy(v) == bad[4] for v in d[2] if v != [])]
            ctx.violation('_updateData2ToTarget:points:wrong-datum' + (':under-selection' if any(not d[0] for d in c[5]) else ''),
                          'target %d coincides with active datum %d (absolute rank) but simulation %d variable %d receives %r instead of %r%s; data selection %s' % (
                              bad[0], bad[1], bad[2], bad[3], None if bad[4] is None else float(bad[4]), float(bad[5]),
                              ' = value of datum %s' % others if others else '', [d[0] for d in c[5]]), {'case': sx_str(c), 'impl': sx_str(ii), 'model': sx_str(mi)}); ctx.found_input = True
            continue
        # ... and a target (masked, or lying on masked data only, or off the data) keeps its row
        touched = None
        for it, t in enumerate(c[6]):
            on = [j for j, d in enumerate(c[5]) if d[0] and d[1] == t[1]]
            if (not t[0] or not on) and out[it] != [undy(v) for v in t[2]]: touched = it
        if touched is not None:
            ctx.violation('_updateData2ToTarget:points:row-modified-without-active-datum', 'target %d (active=%d) coincides with no active datum but its simulated values were overwritten; '
                          'data selection %s' % (touched, c[6][touched][0], [d[0] for d in c[5]]), {'case': sx_str(c), 'impl': sx_str(ii), 'model': sx_str(mi)}); ctx.found_input = True
        else:
            ctx.violation('model-drift:_updateData2ToTarget', 'rows after the copy differ from the model although every active target on an active datum carries its value',
                          {'case': sx_str(c), 'impl': sx_str(ii), 'model': sx_str(mi)}, found_input=False)

# ============================================================================================ rule
RULES = [['S', 'F1', 'F2'], ['T', 'F1', 'F2'], ['S', 'T', 'F1', 'F2', 'F3'], ['S', 'S', 'F1', 'F2', 'F3'], ['T', 'F1', 'S', 'F2', 'F3'],
         ['S', 'T', 'F1', 'F2', 'T', 'F3', 'F4'], ['S', 'F1', 'S', 'F2', 'S', 'F3', 'F4'], ['S', 'S', 'T', 'F1', 'F2', 'F3', 'T', 'F4', 'F5']]

def gen_props(rng, nfac, allow_zero=True):
    while True:
        w = [rng.randint(0 if allow_zero else 1, 6) for _ in range(nfac)]
        if sum(w) > 0 and sum(1 for x in w if x > 0) >= 2: break
    # dyadic proportions summing to one exactly
    tot = 64; acc = []; s = sum(w)
    for k in range(nfac - 1): acc.append((w[k] * tot) // s)
    acc.append(tot - sum(acc))
    return [Fraction(a, tot) for a in acc]

def check_rule(ctx, exe, runner):
    rng = ctx.rng; quick = ctx.quick()
    nrule = 40 if quick else 400
    c1 = []
    for r in range(nrule):
        names = RULES[r % len(RULES)]; nfac = sum(1 for n in names if n.startswith('F'))
        props = gen_props(rng, nfac, allow_zero=(r % 3 == 0))
        c1.append([40, [S(n) for n in names], [dy(p) for p in props]])
    cf = write_cases(ctx, 'rule1', c1); rc, r1 = run_impl(ctx, exe, cf)
    c2 = []; mc = []; exp_inside = []
    for i, c in enumerate(c1):
        ii = r1[i] if i < len(r1) else None
        if ii is None: crash(ctx, 'Rule::setProportions', c); continue
        if ii[0] != 0: ctx.dist('rule_rejected'); continue
        ext = undy(ii[1]); tree = ii[3]; nfac = ii[4]
        ths = []
        def walk(t):
            if t[0] == 1: ths.append((t[1], undy(t[2]))); walk(t[3]); walk(t[4])
        walk(tree)
        qs = []
        for (o, t) in ths:
            for d in [0, Fraction(1, 2 ** 30), -Fraction(1, 2 ** 30), Fraction(1, 8), -Fraction(1, 8)]:
                other = rng.choice([tt for (oo, tt) in ths] + [Fraction(0), dyq(rng, -3, 3)]) + rng.choice([0, Fraction(1, 16), -Fraction(1, 16)])
                qs.append((t + d, other) if o else (other, t + d))
        for _ in range(6): qs.append((dyq(rng, -4, 4), dyq(rng, -4, 4)))
        qs += [(ext, Fraction(0)), (-ext, Fraction(0)), (Fraction(0), ext), (ext + 1, -ext - 1), (Fraction(0), -ext)]
        qs = [(Fraction(float(x)), Fraction(float(y))) for x, y in qs]     # binary64 numbers, read identically by both sides
        fl = list(range(1, nfac + 2))
        c2.append([41, c[1], c[2], fl, [[dy(x), dy(y)] for x, y in qs]])
        mc.append([4, dy(ext), tree, fl, [[dy(x), dy(y)] for x, y in qs]])
        ctx.dist('rule_' + ''.join(chr(ch[0]) for ch in c[1]))
    cf = write_cases(ctx, 'rule2', c2); rc, r2 = run_impl(ctx, exe, cf)
    model = model_run(ctx, runner, 'rule', mc)
    # round trip on impl: points strictly inside the bounds of each facies
    c3 = []; exp3 = []
    for i, c in enumerate(c2):
        ii = r2[i] if i < len(r2) else None
        if ii is None or ii[0] != 0: continue
        qs = []; ex = []
        for f, b in zip(c[3], ii[1]):
            if b == []: continue
            lo1, hi1, lo2, hi2 = [undy(v) for v in b]
            if lo1 < hi1 and lo2 < hi2:
                for (u, v) in [(Fraction(1, 2), Fraction(1, 2)), (Fraction(1, 1024), Fraction(1023, 1024)), (Fraction(1023, 1024), Fraction(1, 64))]:
                    y1 = lo1 + (hi1 - lo1) * u; y2 = lo2 + (hi2 - lo2) * v
                    # keep representable doubles: round to 2^-40
                    y1 = Fraction(float(y1)); y2 = Fraction(float(y2))
                    if lo1 < y1 < hi1 and lo2 < y2 < hi2: qs.append([dy(y1), dy(y2)]); ex.append(f)
        c3.append([41, c[1], c[2], [], qs]); exp3.append(ex)
    cf = write_cases(ctx, 'rule3', c3); rc, r3 = run_impl(ctx, exe, cf)
    for i, c in enumerate(c3):
        ii = r3[i] if i < len(r3) else None
        if ii is None or ii[0] != 0: crash(ctx, 'Rule::getFaciesFromGaussian', c); continue
        for q, f, g in zip(c[4], exp3[i], ii[2]):
            ctx.count('roundtrip:%s:%s' % (sx_str(c[1]), sx_str(q)))
            if f != g:
                ctx.violation('Rule:facies-roundtrip', 'a gaussian vector strictly inside the bounds of facies %d (Rule::getThresh) is mapped to facies %d' % (f, g),
                              {'case': sx_str(c), 'query': sx_str(q), 'expected': f, 'impl': g}); ctx.found_input = True; break
    for i, c in enumerate(c2):
        ii = r2[i] if i < len(r2) else None; mi = model[i]
        if ii is None or ii[0] != 0: crash(ctx, 'Rule::getThresh', c); continue
        wf, mb, mf = mi
        if not wf: ctx.dist('rule_not_wf')
        if i < 2: ctx.sample({'case': sx_str(c)[:300], 'impl': sx_str(ii)[:300], 'model': sx_str(mi)[:300]})
        ib = [[undy(v) for v in b] if b != [] else None for b in ii[1]]
        mbq = [[unq(v) for v in b] if b != [] else None for b in mb]
        if ib != mbq:
            ctx.violation('model-drift:Rule::getThresh', 'facies bounds differ from the rectangles handed down the tree: impl %s model %s' % (ib, mbq),
                          {'case': sx_str(c), 'impl': sx_str(ii), 'model': sx_str(mi)}, found_input=False); continue
        for q, g, (f, tie) in zip(c[4], ii[2], mf):
            ctx.count('rule:%s:%s' % (sx_str(c[1]) + sx_str(c[2]), sx_str(q)), not tie)
            if tie: ctx.cov['tie_excluded'] += 1
            if g != f:
                ctx.violation('model-drift:Rule::getFaciesFromGaussian', 'facies of gaussians %s: impl %d, model %d (the round trip holds on every explored input)' % (
                    [float(undy(v)) for v in q], g, f), {'case': sx_str(c), 'query': sx_str(q), 'impl': g, 'model': f}, found_input=False); break

# ============================================================================================ simulators
def grid_of(nx, ny): return [nx, ny, dy(1), dy(1), dy(0), dy(0)]
def mdl(t, r, p=1, nug=0): return [t, dy(r), dy(p), dy(nug)]

def gen_sim_configs(ctx):
    rng = ctx.rng; quick = ctx.quick()
    cfgs = []
    def data_on_grid(nx, ny, k, zgen):
        pts = rng.sample([(x, y) for x in range(nx) for y in range(ny)], k)
        return [[dy(x), dy(y)] + zgen() for x, y in pts], pts
    rep = 1 if quick else 4
    for _ in range(rep):
        nx, ny = rng.randint(4, 12), rng.randint(4, 12)
        # 0 simtub nc
        cfgs.append(dict(sim=0, nbsimu=rng.randint(2, 3), nbtuba=rng.choice([10, 30, 50]), grid=grid_of(nx, ny),
                         model=mdl(rng.choice([0, 1, 2, 3]), rng.randint(3, 8), nug=rng.choice([0, 0, Fraction(1, 4)]))))
        cfgs.append(dict(sim=0, nbsimu=2, nbtuba=10, grid=grid_of(5, 4), model=mdl(0, 4), oldstyle=0))
        # kept witness: with the std engine every band is re-seeded with the same value (law_get_random_seed does not advance)
        if _ == 0: cfgs.append(dict(sim=0, nbsimu=2, nbtuba=10, grid=grid_of(5, 4), model=mdl(1, 4), oldstyle=0, tag=':exponential', seed=991447))
        cfgs.append(dict(sim=3, nbsimu=1, nbtuba=0, grid=grid_of(8, 8), model=mdl(0, 3), oldstyle=0))
        # 1 simtub cond grid
        d, pts = data_on_grid(nx, ny, rng.randint(2, 10), lambda: [dy(dyq(rng, -3, 3))])
        cfgs.append(dict(sim=1, nbsimu=rng.randint(2, 3), nbtuba=rng.choice([10, 30]), grid=grid_of(nx, ny), model=mdl(rng.choice([0, 1, 3]), rng.randint(3, 8)), data=d, pts=pts))
        # 2 simtub cond point targets: first targets off the data, then targets on data, then off again
        d, pts = data_on_grid(nx, ny, rng.randint(2, 8), lambda: [dy(dyq(rng, -3, 3))])
        nd = len(d)
        tg = [(Fraction(rng.randint(0, 2 * nx), 2) + Fraction(1, 4), Fraction(rng.randint(0, 2 * ny), 2) + Fraction(1, 4)) for _ in range(nd + 1)]
        on = [pts[j] for j in rng.sample(range(nd), min(nd, 3))]
        tg = tg + [(Fraction(x), Fraction(y)) for x, y in on] + [(Fraction(rng.randint(0, nx)) + Fraction(1, 8), Fraction(rng.randint(0, ny)) + Fraction(3, 8))]
        cfgs.append(dict(sim=2, nbsimu=2, nbtuba=rng.choice([10, 30]), grid=[], model=mdl(rng.choice([0, 1, 3]), rng.randint(3, 8)), data=d, pts=pts,
                         targets=[[dy(x), dy(y)] for x, y in tg], tg=tg))
        # masks: selection on the data (first sample masked in one case out of two), undefined data, selection on the targets
        def masks(n, first):
            m = [0 if rng.random() < .35 else 1 for _ in range(n)]
            if first: m[0] = 0
            if sum(m) < 2:
                for j in rng.sample(range(1, n), 2): m[j] = 1
            return m
        for first in (True, False):
            d, pts = data_on_grid(nx, ny, rng.randint(5, 10), lambda: [dy(dyq(rng, -3, 3))])
            nd = len(d); dsel = masks(nd, first)
            for j in range(1, nd):
                if rng.random() < .15: d[j] = [d[j][0], d[j][1], []]            # undefined datum
            tsel = [0 if rng.random() < .2 else 1 for _ in range(nx * ny)]
            for j in (0, nx - 1, nx * (ny - 1), nx * ny - 1): tsel[j] = 1
            cfgs.append(dict(sim=1, nbsimu=2, nbtuba=rng.choice([10, 30]), grid=grid_of(nx, ny), model=mdl(rng.choice([0, 1, 3]), rng.randint(3, 8)), data=d, pts=pts,
                             dsel=dsel, tsel=tsel, masked=1))
            # point targets: on every datum (active or not), plus targets off the data; corners of the box stay active
            d, pts = data_on_grid(nx, ny, rng.randint(5, 9), lambda: [dy(dyq(rng, -3, 3))])
            nd = len(d); dsel = masks(nd, first)
            for j in range(1, nd):
                if rng.random() < .15: d[j] = [d[j][0], d[j][1], []]
            tg = [(Fraction(-1), Fraction(-1)), (Fraction(nx + 1), Fraction(ny + 1))]
            tg += [(Fraction(x), Fraction(y)) for x, y in pts]
            tg += [(Fraction(rng.randint(0, 2 * nx), 2) + Fraction(1, 4), Fraction(rng.randint(0, 2 * ny), 2) + Fraction(1, 4)) for _ in range(4)]
            order = list(range(2, len(tg))); rng.shuffle(order); tg = tg[:2] + [tg[k] for k in order]
            tsel = [1, 1] + [0 if rng.random() < .2 else 1 for _ in range(len(tg) - 2)]
            cfgs.append(dict(sim=2, nbsimu=2, nbtuba=rng.choice([10, 30]), grid=[], model=mdl(rng.choice([0, 1, 3]), rng.randint(3, 8)), data=d, pts=pts,
                             targets=[[dy(x), dy(y)] for x, y in tg], tg=tg, dsel=dsel, tsel=tsel, masked=1))
        # 3 simfft (one simulation: see finding simfft:nbsimu) and with several
        cfgs.append(dict(sim=3, nbsimu=1, nbtuba=0, grid=grid_of(rng.choice([8, 12, 16]), rng.choice([8, 10])), model=mdl(rng.choice([0, 1, 3]), rng.randint(2, 5))))
        cfgs.append(dict(sim=3, nbsimu=2, nbtuba=0, grid=grid_of(8, 8), model=mdl(0, 3)))
        # 4/5 SPDE
        cfgs.append(dict(sim=4, nbsimu=2, nbtuba=0, grid=grid_of(rng.randint(5, 8), rng.randint(5, 8)), model=mdl(4, rng.randint(2, 4), 1), extra=[rng.choice([0, 1])]))
        d, pts = data_on_grid(6, 6, 3, lambda: [dy(dyq(rng, -2, 2))])
        cfgs.append(dict(sim=5, nbsimu=2, nbtuba=0, grid=grid_of(6, 6), model=mdl(4, 3, 1), data=d, pts=pts, extra=[rng.choice([0, 1])]))
        # 6 gibbs_sampler: every member of the family x number of iterations (the state after n iterations of a run is the output of
        # the run stopped at n: same seed => same stream), every data set mixes the five kinds of bounds
        def five_kinds(k):
            out = []
            for j in range(k):
                a = dyq(rng, -2, 2); kind = j % 5
                out.append([[], []] if kind == 0 else [dy(a), []] if kind == 1 else [[], dy(a)] if kind == 2 else
                           [dy(a), dy(a + dyq(rng, 0, 2) + Fraction(1, 16))] if kind == 3 else [dy(a), dy(a)])
            rng.shuffle(out); return out
        for mm, mv in ((0, 0), (0, 1), (1, 0)):
            k = rng.randint(5, 9); bl = five_kinds(k); it = iter(bl)
            d, pts = data_on_grid(10, 10, k, lambda: next(it))
            mg = mdl(rng.choice([0, 1]), rng.randint(3, 8))
            for nburn, niter in ((0, 1), (0, 2), (0, 3), (0, 10), (3, 10)):
                cfgs.append(dict(sim=6, nbsimu=rng.randint(1, 2), nbtuba=0, grid=[], model=mg, data=d, pts=pts, extra=[nburn, niter, mm, mv]))
        # 7/8 simpgs
        for simk, names, nbs in [(7, rng.choice(RULES[:6]), 2), (8, RULES[0], 2), (8, RULES[3], rng.randint(2, 3)), (8, rng.choice([RULES[2], RULES[4], RULES[5]]), 1),
                                 (8, rng.choice([RULES[2], RULES[4], RULES[5]]), rng.randint(2, 3))]:
            nfac = sum(1 for n in names if n.startswith('F'))
            props = gen_props(rng, nfac, allow_zero=False)
            m1 = mdl(rng.choice([0, 1]), rng.randint(3, 6)); m2 = mdl(rng.choice([0, 1]), rng.randint(3, 6)); nbt = rng.choice([10, 30]); nit = rng.choice([10, 30])
            d, pts = data_on_grid(nx, ny, rng.randint(2, 8), lambda: [dy(rng.randint(1, nfac))])
            for flag_gaus in ((0, 1) if simk == 8 else (rng.choice([0, 1]),)):
                ex = [[S(n) for n in names], [dy(p) for p in props], m2, flag_gaus, 5, nit]
                c = dict(sim=simk, nbsimu=nbs, nbtuba=nbt, grid=grid_of(nx, ny), model=m1, extra=ex, nfac=nfac, ngrf=2 if 'T' in names else 1)
                if simk == 8: c['data'] = d; c['pts'] = pts
                cfgs.append(c)
        for names, nbs in [(RULES[3], 2), (RULES[2], 1)]:
            nfac = sum(1 for n in names if n.startswith('F')); props = gen_props(rng, nfac, allow_zero=False)
            d, pts = data_on_grid(nx, ny, rng.randint(4, 8), lambda: [dy(rng.randint(1, nfac))])
            dsel = [0] + [0 if rng.random() < .3 else 1 for _ in range(len(d) - 1)]
            if sum(dsel) < 2: dsel[-1] = dsel[-2] = 1
            tsel = [0 if rng.random() < .15 else 1 for _ in range(nx * ny)]
            m1 = mdl(rng.choice([0, 1]), rng.randint(3, 6)); m2 = mdl(rng.choice([0, 1]), rng.randint(3, 6))
            for flag_gaus in (0, 1):
                cfgs.append(dict(sim=8, nbsimu=nbs, nbtuba=10, grid=grid_of(nx, ny), model=m1, extra=[[S(n) for n in names], [dy(p) for p in props], m2, flag_gaus, 5, 10],
                                 nfac=nfac, ngrf=2 if 'T' in names else 1, data=d, pts=pts, dsel=dsel, tsel=tsel, masked=1))
        # gibbs_sampler with a selection
        k = rng.randint(4, 8)
        d, pts = data_on_grid(10, 10, k, lambda: [dy(Fraction(-1, 2)), dy(Fraction(3, 4))])
        cfgs.append(dict(sim=6, nbsimu=2, nbtuba=0, grid=[], model=mdl(1, 5), data=d, pts=pts, extra=[5, 10, 0, 0], dsel=[0] + [1] * (k - 2) + [0], masked=1))
        # 9 simbipgs
        props = gen_props(rng, 6, allow_zero=False)
        cfgs.append(dict(sim=9, nbsimu=2, nbtuba=10, grid=grid_of(6, 5), model=mdl(0, 4),
                         extra=[[S(n) for n in ['S', 'S', 'F1', 'F2', 'F3']], [S(n) for n in ['S', 'F1', 'F2']], [dy(p) for p in props], mdl(1, 3), mdl(0, 5), mdl(1, 2)]))
        # 10..13
        cfgs.append(dict(sim=10, nbsimu=2, nbtuba=0, grid=grid_of(4, 3), model=mdl(0, 3)))
        cfgs.append(dict(sim=11, nbsimu=1, nbtuba=rng.randint(3, 20), grid=[], model=mdl(0, 3)))
        cfgs.append(dict(sim=12, nbsimu=rng.randint(1, 2), nbtuba=rng.randint(3, 20), grid=[], model=mdl(0, 3)))
        cfgs.append(dict(sim=13, nbsimu=1, nbtuba=rng.randint(3, 20), grid=[], model=mdl(0, 3)))
    return cfgs

def sim_case(cfg, seed, prelude):
    c = [50, cfg['sim'], seed, cfg['nbsimu'], cfg['nbtuba'], cfg['grid'], cfg['model'], prelude, cfg.get('data', []), cfg.get('targets', []), cfg.get('extra', []), cfg.get('oldstyle', 1)]
    if cfg.get('dsel') or cfg.get('tsel'): c.append([cfg.get('dsel') or [], cfg.get('tsel') or []])
    return c

def removed_cfg(cfg):
    """the same configuration after physically removing the masked / undefined data (and, for point outputs, the masked targets)"""
    d = dict(cfg)
    keep = data_active(cfg)
    d['data'] = [x for x, k in zip(cfg['data'], keep) if k]; d['pts'] = [x for x, k in zip(cfg['pts'], keep) if k]; d['dsel'] = []
    if cfg['sim'] == 2 and cfg.get('tsel'):
        d['targets'] = [t for t, k in zip(cfg['targets'], cfg['tsel']) if k]; d['tg'] = [t for t, k in zip(cfg['tg'], cfg['tsel']) if k]; d['tsel'] = []
    return d

def data_active(cfg):
    """active and defined data (selection flag set, first value defined)"""
    ds = cfg.get('dsel') or [1] * len(cfg['data'])
    return [bool(f) and d[2] != [] for f, d in zip(ds, cfg['data'])]


def cols(res): return [[undy(v) for v in col] for col in res[2]]

def check_sims(ctx, exe, runner):
    rng = ctx.rng
    cfgs = gen_sim_configs(ctx)
    runs = []   # (cfg index, tag, case)
    for k, cfg in enumerate(cfgs):
        s1 = rng.randint(1, 2 ** 20); s2 = s1 + rng.randint(1, 1000)
        if cfg.get('seed'): s1 = cfg['seed']; s2 = s1 + 1
        runs.append((k, 'A', sim_case(cfg, s1, [-3])))
        runs.append((k, 'B', sim_case(cfg, s1, [rng.randint(1, 99999), -rng.randint(5, 40)])))   # same seed, other history
        runs.append((k, 'C', sim_case(cfg, s2, [-3])))                                           # other seed
        if cfg.get('masked'): runs.append((k, 'D', sim_case(removed_cfg(cfg), s1, [-3])))           # masked / undefined data physically removed
    cf = write_cases(ctx, 'sims', [r[2] for r in runs])
    rc, impl = run_impl(ctx, exe, cf, timeout=1500)
    res = {}
    for j, (k, tag, c) in enumerate(runs): res[(k, tag)] = (c, impl[j] if j < len(impl) else None)
    # traces through the model's decision procedure
    tcases = []; tkeys = []
    for (k, tag), (c, r) in res.items():
        if r is None or len(r) < 2: continue
        tcases.append([5, c[2], [], r[1]]); tkeys.append((k, tag))
    tres = model_run(ctx, runner, 'trace', tcases)
    tdec = {key: t for key, t in zip(tkeys, tres)}
    for k, cfg in enumerate(cfgs):
        sim = cfg['sim']; name = SIMNAME[sim]
        cA, A = res[(k, 'A')]; cB, B = res[(k, 'B')]; cC, C = res[(k, 'C')]
        if not cfg.get('oldstyle', 1): name += '(mt19937)' + cfg.get('tag', '')
        if sim == 6: name += ':' + ('multi-mono' if cfg['extra'][2] else 'moving' if cfg['extra'][3] else 'unique')
        ctx.dist('sim_' + name); ctx.count('sim:%d:%s' % (k, sx_str(cA)[:300]))
        if A is None or B is None or C is None: crash(ctx, name, cA if A is None else cB if B is None else cC); continue
        if A[0] != 0 or B[0] != 0 or C[0] != 0:
            ctx.violation('sim-error:' + name, '%s returned error codes %s/%s/%s on a valid configuration' % (name, A[0], B[0], C[0]), {'case': sx_str(cA)}); ctx.found_input = True; continue
        if k < 3: ctx.sample({'simulator': name, 'case': sx_str(cA)[:300], 'trace_head': sx_str(A[1])[:120], 'ncols': len(A[2])})
        a, b, cc = cols(A), cols(B), cols(C)
        # --- seed discipline: trace language
        for tag, c, r in (('A', cA, A), ('B', cB, B)):
            if (k, tag) not in tdec: continue
            ok, strict, derived = tdec[(k, tag)]
            good = {'strict': strict, 'derived': derived}[LANG[sim]] and ok
            if not good:
                hist = a != b or A[1] != B[1]
                ctx.violation('seed-discipline:%s' % name, '%s(seed=%d): RNG trace %s... is not in the language %s; outputs of two runs with the same seed after different histories %s' % (
                    name, c[2], sx_str(r[1])[:100], 'SetSeed(seed).Draw*' if LANG[sim] == 'strict' else 'SetSeed(seed).(Draw|Get|SetSeed(read earlier))*',
                    'DIFFER' if hist else 'are identical'), {'case_1': sx_str(cA), 'case_2': sx_str(cB), 'outputs_differ': hist, 'trace': sx_str(r[1])[:300]},
                    found_input=hist)
                if hist: ctx.found_input = True
                break
        # --- same seed, different history: bit identical
        if a != b:
            ctx.violation('not-reproducible:%s' % name, '%s: two runs with seed %d differ bit-wise (second run made after an unrelated use of the generator)' % (name, cA[2]),
                          {'case_1': sx_str(cA), 'case_2': sx_str(cB)}); ctx.found_input = True
        # --- non finite output
        if sim == 6: omask = cfg.get('dsel')
        else: omask = cfg.get('tsel')
        if any(v is None and (not omask or omask[j]) for col in a for j, v in enumerate(col)):
            ctx.violation('undefined-output:%s' % name, '%s wrote undefined / non finite values with seed %d' % (name, cA[2]), {'case': sx_str(cA)}); ctx.found_input = True; continue
        # --- number of realisations, ranks differ, seeds differ
        nreal = {0: 1, 1: 1, 2: 1, 3: 1, 4: 1, 5: 1, 6: 1, 9: 1}.get(sim)
        if sim in (0, 1, 2, 3, 4, 5, 6, 7, 8, 9):
            want = cfg['nbsimu'] * (2 if sim == 9 else 1)     # bi-PGS: one facies column per PGS and simulation
            if sim in (7, 8) and cfg['extra'][3] == 1:
                # gaussians: one column per GRF used and simulation
                want = None
            if want is not None and len(a) != want:
                ctx.violation('%s:number-of-realisations' % name, '%s with nbsimu=%d delivered %d output column(s)' % (name, cfg['nbsimu'], len(a)), {'case': sx_str(cA)}); ctx.found_input = True
        if sim in (0, 1, 2, 3, 4, 5) and len(a) >= 2:
            for i1 in range(len(a)):
                for i2 in range(i1 + 1, len(a)):
                    if a[i1] == a[i2]:
                        ctx.violation('ranks-identical:%s' % name, '%s: realisations %d and %d of the same call are identical' % (name, i1, i2), {'case': sx_str(cA)}); ctx.found_input = True
        if sim != 10 and a == cc and len(a) > 0:
            ctx.violation('seeds-identical:%s' % name, '%s: seeds %d and %d give identical outputs' % (name, cA[2], cC[2]), {'case_1': sx_str(cA), 'case_2': sx_str(cC)}); ctx.found_input = True
        # --- conditioning, under arbitrary selections on data and targets and with undefined data
        masked = ':under-selection' if cfg.get('masked') else ''
        if sim in (1, 2, 8) :
            act = data_active(cfg)
            if sim == 2:
                tloc = cfg['tg']; tact = cfg.get('tsel') or [1] * len(tloc)
            else:
                nx, ny = cfg['grid'][0], cfg['grid'][1]
                tloc = [(Fraction(x), Fraction(y)) for y in range(ny) for x in range(nx)]; tact = cfg.get('tsel') or [1] * (nx * ny)
            where = {}
            for j, (x, y) in enumerate(cfg['pts']): where.setdefault((Fraction(x), Fraction(y)), []).append(j)
        if sim in (1, 2):
            zs = [undy(d[2]) for d in cfg['data']]; scale = 1 + max(abs(z) for z in zs if z is not None)
            tol = Fraction(1, 10 ** 8) * scale
            kind = 'grid' if sim == 1 else 'points'
            for it, loc in enumerate(tloc):
                if not tact[it]: continue
                vals = [col[it] for col in a]
                js = where.get(loc, [])
                on = [j for j in js if act[j]]
                if on:
                    z = zs[on[0]]
                    for isimu, v in enumerate(vals):
                        if v is None or abs(v - z) > tol:
                            other = [j for j in range(len(zs)) if zs[j] is not None and v is not None and abs(v - zs[j]) <= tol]
                            ctx.violation('simtub:datum-not-honoured:%s%s' % (kind, masked),
                                          'conditional simulation %d at active target %d = (%s,%s) coinciding with active datum %d: %r instead of %r%s (data selection %s)' % (
                                              isimu, it, float(loc[0]), float(loc[1]), on[0], None if v is None else float(v), float(z),
                                              ' - this is the value of datum %s' % other if other else '', cfg.get('dsel')),
                                          {'case': sx_str(cA), 'target': it, 'datum': on[0]}); ctx.found_input = True; break
                else:
                    if any(v is None for v in vals): continue
                    for j in js:    # masked or undefined datum at this target: must not be honoured
                        if zs[j] is not None and all(abs(v - zs[j]) <= tol for v in vals):
                            ctx.violation('simtub:masked-datum-honoured:%s' % kind, 'every realisation at active target %d equals the value %r of the MASKED datum %d located there' % (
                                it, float(zs[j]), j), {'case': sx_str(cA), 'target': it, 'datum': j}); ctx.found_input = True
                    if sim == 2 and len(vals) >= 2 and len(set(vals)) == 1:
                        hit = [j for j in range(len(zs)) if zs[j] is not None and vals[0] == zs[j]]
                        if hit and hit[0] == it:
                            ctx.violation('simtub:cond-point-output:target-overwritten-by-datum-of-same-rank',
                                          'conditional simulation on a point Db: target %d at (%s,%s) coincides with no active datum but every realisation equals the value %s of datum %d' % (
                                              it, float(loc[0]), float(loc[1]), float(vals[0]), it), {'case': sx_str(cA), 'target': it}); ctx.found_input = True
                        else:
                            ctx.violation('ranks-identical:%s' % name, 'target %d (off the active data): all realisations equal%s' % (it, ' to the value of datum %s' % hit if hit else ''),
                                          {'case': sx_str(cA), 'target': it}); ctx.found_input = True
        if sim == 6:
            ds = cfg.get('dsel') or [1] * len(cfg['data'])
            for j, d in enumerate(cfg['data']):
                if not ds[j]: continue
                lo, hi = undy(d[2]), undy(d[3])
                for isimu, col in enumerate(a):
                    v = col[j]
                    if v is None:
                        ctx.violation('gibbs_sampler:undefined-at-active-sample', 'sample %d simulation %d undefined' % (j, isimu), {'case': sx_str(cA)}); ctx.found_input = True; continue
                    tol = Fraction(1, 2 ** 45) * (1 + abs(v))
                    if (lo is not None and v < lo - tol) or (hi is not None and v > hi + tol):
                        first = cfg['extra'][0] == 0 and cfg['extra'][1] == 1
                        ctx.violation('gibbs_sampler:value-outside-bounds' + (':nburn=0:niter=1' if first else ''),
                                      '%s (nburn=%d, niter=%d): sample %d simulation %d: %r not in [%s, %s]%s' % (name, cfg['extra'][0], cfg['extra'][1], j, isimu, float(v), lo, hi,
                                      ' (first iteration with nburn=0: AGibbs::_getBoundsDecay computes iter/nburn = 0/0 and the bounds become NaN = undefined)' if first else ''),
                                      {'case': sx_str(cA), 'sample': j}); ctx.found_input = True
        if sim == 8:
            bounds = [[undy(v) for v in b] for b in A[3]]
            flag_gaus = cfg['extra'][3]
            combo = '%s:%s' % ('single-simulation' if cfg['nbsimu'] == 1 else 'several-simulations', 'two-grf' if cfg['ngrf'] == 2 else 'one-grf')
            for it, loc in enumerate(tloc):
                if not tact[it]: continue
                on = [j for j in where.get(loc, []) if act[j]]
                if not on: continue
                f = int(undy(cfg['data'][on[0]][2])); node = it
                if not flag_gaus:
                    for isimu, col in enumerate(a):
                        if col[node] != f:
                            ctx.violation('simpgs:cond:datum-not-honoured:' + combo + masked, 'conditional PGS (%s) simulation %d: facies %s at the active node of active datum %d of facies %d' % (
                                combo, isimu, None if col[node] is None else float(col[node]), on[0], f), {'case': sx_str(cA), 'node': node}); ctx.found_input = True; break
                else:
                    nb = cfg['nbsimu']; b = bounds[f - 1]
                    for igrf in range(len(a) // nb):
                        for isimu in range(nb):
                            v = a[isimu + nb * igrf][node]; lo, hi = b[2 * igrf], b[2 * igrf + 1]; tol = Fraction(1, 10 ** 8)
                            if v is None or v < lo - tol or v > hi + tol:
                                ctx.violation('simpgs:cond:datum-not-honoured:' + combo + masked, 'conditional PGS (%s): GRF %d simulation %d at the node of active datum %d of facies %d: %r not in [%r, %r]' % (
                                    combo, igrf + 1, isimu, on[0], f, None if v is None else float(v), float(lo), float(hi)), {'case': sx_str(cA), 'node': node}); ctx.found_input = True
        # --- masked / undefined data physically removed: same results at the active targets
        if cfg.get('masked') and (k, 'D') in res:
            cD, D = res[(k, 'D')]
            if D is None or D[0] != 0:
                ctx.violation('sim-error:%s:after-removal' % name, '%s fails once the masked data are physically removed' % name, {'case': sx_str(cD)}); ctx.found_input = True
            else:
                dd = cols(D)
                if sim == 6: amap = [j for j, f in enumerate(cfg['dsel']) if f]
                elif sim == 2: amap = [j for j, f in enumerate(cfg.get('tsel') or [1] * len(cfg['tg'])) if f]
                else: amap = [j for j, f in enumerate(tact) if f]
                dmap = list(range(len(amap))) if sim in (2, 6) else amap
                worst = Fraction(0); nbit = 0; ntot = 0
                for ca, cd in zip(a, dd):
                    for ja, jd in zip(amap, dmap):
                        va, vd = ca[ja], cd[jd]; ntot += 1
                        if va == vd: nbit += 1; continue
                        if va is None or vd is None: worst = Fraction(10 ** 9); continue
                        worst = max(worst, abs(va - vd) / (1 + abs(vd)))
                ctx.dist('removal_bit_identical', nbit); ctx.dist('removal_compared', ntot)
                if len(a) != len(dd) or nbit != ntot:     # observed and required: bit-identical (same active samples in the same order => same arithmetic)
                    ctx.violation('masked-data-influence:%s' % name, '%s: results at the active targets differ (relative %.3g) from those obtained with the same seed after physically removing '
                                  'the masked / undefined data' % (name, float(worst)), {'case_with_selection': sx_str(cA), 'case_removed': sx_str(cD)}); ctx.found_input = True

def check_degenerate(ctx, exe, runner):
    """regression for the repaired step (state 0 replaced by 1): seeds whose first raw state is 0 - multiples of the modulus
    and, through the 32-bit wrap of 105*seed, others such as 55380756 - used to freeze the generator at 0 (C13_prefix_step_froze)"""
    cases = [[0, P, 1000], [0, 2 * P, 1000], [0, 55380756, 1000], [0, 75380915, 1000]]
    cf = write_cases(ctx, 'degen', cases); rc, impl = run_impl(ctx, exe, cf); model = model_run(ctx, runner, 'degen', cases)
    sim = sim_case(dict(sim=0, nbsimu=1, nbtuba=10, grid=grid_of(4, 4), model=mdl(0, 3)), 55380756, [-3])
    cf2 = write_cases(ctx, 'degen2', [sim]); rc, impl2 = run_impl(ctx, exe, cf2)
    if not impl2: effect = 'crashes (no answer from the harness)'
    elif impl2[0][0] != 0: effect = 'returns an error'
    elif any(v == [] for col in impl2[0][2] for v in col): effect = 'writes undefined / non finite values'
    else: effect = None
    for i, c in enumerate(cases):
        ctx.count('degenerate:%d' % c[1]); ctx.dist('lcg_seed_first_raw_state_zero')
        ii = impl[i] if i < len(impl) else None
        if ii is None: crash(ctx, 'law_uniform', c); continue
        if ii[2] != 1 or ii[4] != 1:
            ctx.violation('law_uniform:degenerate-seed', 'law_set_random_seed(%d) (%s): draws of law_uniform() leave ]0,1[ (generator frozen at 0: law_gaussian() = inf)%s' % (
                c[1], 'multiple of the modulus' if c[1] % P == 0 else 'NOT a multiple of the modulus: 32-bit wrap of 105*seed',
                '; simtub(seed=55380756, spherical model) ' + effect if effect else ''), {'case': sx_str(c), 'impl': ii, 'model': model[i], 'simtub_case': sx_str(sim)}); ctx.found_input = True
        elif ii[:4] != model[i][:4]:
            ctx.violation('model-drift:law_uniform:degenerate', 'impl and model differ on seed %d (every draw of impl is in ]0,1[)' % c[1], {'case': sx_str(c), 'impl': ii, 'model': model[i]}, found_input=False)
    if effect and not any(v[0] == 'law_uniform:degenerate-seed' for v in ctx.violations):
        ctx.violation('simtub:seed-55380756', 'simtub(seed=55380756, spherical model) ' + effect, {'case': sx_str(sim)}); ctx.found_input = True

def load_corpus(ctx):
    p = os.path.join(VERIF, 'corpus', ctx.pid + '.sx')
    if not os.path.exists(p): return []
    return [sx_parse(l) for l in open(p) if l.strip() and not l.startswith('#')]

def check_corpus(ctx, exe, runner):
    """corpus lines: impl-side cases of kinds 1/2 (bounded draws) kept from earlier failures"""
    cases = [c for c in load_corpus(ctx) if c and c[0] in (1, 2)]
    if not cases: return
    cf = write_cases(ctx, 'corpus', cases); rc, impl = run_impl(ctx, exe, cf)
    for i, c in enumerate(cases):
        ii = impl[i] if i < len(impl) else None
        if ii is None or ii[0] != 0: crash(ctx, 'corpus', c); continue
        x = undy(ii[1]); lo, hi = (undy(c[2]), undy(c[3])) if c[0] == 1 else (undy(c[4]), undy(c[5]))
        ctx.count('corpus:' + sx_str(c))
        beyond = c[0] == 1 and ((lo is None and hi is not None and hi < -20) or (hi is None and lo is not None and lo > 20))
        if (lo is not None and x < lo) or (hi is not None and x > hi):
            ctx.violation('law_gaussian_between_bounds:undefined-bound-replaced-by-20' if beyond else 'corpus:value-outside-bounds',
                          'corpus case %s returns %r' % (sx_str(c), float(x)), {'case': sx_str(c), 'impl': ii}); ctx.found_input = True

def run(ctx):
    ctx.found_input = False
    build_lib(ctx)
    lib = os.path.join(BUILD, 'lib', 'Verif', 'libgstlearn.so')
    rc, out, err = sh(['nm', '-D', '--defined-only', lib])
    missing = [h for h in HOOKS if (' T ' + h) not in out]
    if missing:
        print('ERROR: the RNG trace hook (hooks/C13.patch, guard GSTLEARN_VERIF in src/Basic/Law.cpp) is not present in the library built from %s: '
              'missing symbol(s) %s. The check cannot run; this is not a verdict on the property.' % (REPO, ', '.join(missing)), flush=True)
        sys.exit(3)
    proofs_ok = coq_properties(ctx)
    runner = build_runner(ctx); exe = build_harness(ctx, 'C13')
    if runner is None or exe is None:
        print('ERROR: model runner or harness does not build'); sys.exit(3)
    for name, fn in [('corpus', check_corpus), ('lcg', check_lcg), ('degenerate', check_degenerate), ('bounded', check_bounded), ('site', check_gibbs_site), ('cond', check_cond), ('copy', check_copy),
                     ('rule', check_rule), ('sims', check_sims)]:
        t = time.time(); fn(ctx, exe, runner); ctx.log('%s: %.1fs, %d evaluations so far' % (name, time.time() - t, ctx.cov['evaluations']))
    ctx.cov['rule'] = ('cases: (seed, n) LCG runs compared state by state (checksum) with lcg_next; (seed, bounds) bounded / Gibbs draws with the uniforms of the model LCG; '
                       'rank / _difference rows; kriging systems (2-7 data, 1-2 variables, 1-3 simulations, PGS case 0/1) whose weights are read from impl and whose conditional '
                       'values are recomputed by the model; rule trees x proportions x queries on and around thresholds; simulator configurations x (same seed, other history) x '
                       '(other seed). distinct = distinct case text; non-trivial = not a tie (model margin < 1e-9 on a decision whose outcome differs, query on a threshold)')
    if not proofs_ok: proof_break_violation(ctx, ctx.found_input)
    ctx.assumptions = [
        'law_uniform as repaired (state 0 replaced by 1) and law_gaussian_between_bounds as repaired (undefined bound kept 20 beyond the defined one) are what is modelled; the former witnesses are regression cases',
        'int*int overflow in "Random_factor * Random_value" wraps modulo 2^32 (two\'s complement; formally undefined behaviour in C++): modelled as wrap_int, compared bit-exactly on every run',
        'the std::mt19937 generator (law_set_old_style(false)) is a black box: only "state is a function of the seed" is modelled; it is not the default',
        'reals: the bounded-draw theorems are stated over Coq\'s R (classical axioms of the standard library, see Print Assumptions); the executable instance uses 120-bit rational '
        'approximations of exp/ln/sqrt and is compared with the binary64 implementation with tolerance 1e-9, ties (decision margin < 1e-9) excluded',
        'kriging exactness (weights = unit vector at a coinciding datum) is a hypothesis of C13_cond_exact (property C02); on impl it is observed, not proved',
        'reproducibility theorem covers the dependence on the generator only: other hidden inputs (statics, uninitialised memory, threads) are covered by the double runs only',
        'C13_krig_error_is_fdot_partial: the layout of the centred data vector of the C01 kriging model (defined simulated errors in the loop order of _simulateCalcul, then zeros) is a hypothesis of the link between the list model and the C01/C02 formula; it is evaluated by the extracted model on every _simulateCalcul case of the run (with and without drift equations)',
        'Gibbs sampler: the bounds are checked on the outputs of runs stopped after 1, 2, 3, 10 iterations (same seed => same stream); iterations inside the burn-in use relaxed bounds by design (decay) and are not required to honour the final bounds',
        'simulateSPDE has no seed argument: it is checked with the caller seeding the generator immediately before the call',
        'Gibbs / yk + sk*t: values are compared with the bounds with a tolerance of 2^-45 relative (two binary64 roundings of an exact in-bounds value)']
    ctx.cov['trusted_base'] = ctx.cov.get('trusted_base', []) + [
        'hooks/C13.patch: RNG event trace in src/Basic/Law.cpp under GSTLEARN_VERIF (add-only)',
        'Coq standard library axioms of Reals (ClassicalDedekindReals.sig_forall_dec, sig_not_dec, functional_extensionality_dep, Classical_Prop.classic) for the C13_bounded_draw* / C13_gibbs_in_bounds theorems']

if __name__ == '__main__':
    main(run)

"""C20 — point-in-polygon: theorems of coq/C20 + correspondence of PolyElem::inside / Polygons::inside / db_polygon."""
import sys, os, math
sys.path.insert(0, os.path.dirname(__file__))
from common import *

import os
def gen_polygon(rng, kind, n):
    """integer-coordinate polygons (vertex list, open); adversarial alignments on a small lattice"""
    if kind == 'star':      # star-shaped, simple
        cx, cy = rng.randint(-20, 20), rng.randint(-20, 20)
        angs = sorted(rng.uniform(0, 2 * math.pi) for _ in range(n))
        pts = []
        for a in angs:
            r = rng.randint(3, 12)
            p = (cx + round(r * math.cos(a)), cy + round(r * math.sin(a)))
            if not pts or pts[-1] != p: pts.append(p)
        if len(pts) > 1 and pts[0] == pts[-1]: pts.pop()
        return pts
    if kind == 'stair':     # staircase: axis-parallel edges, many vertices level with lattice queries
        x, y = rng.randint(-10, 0), rng.randint(-10, 0)
        x0, y0 = x, y
        pts = [(x, y)]
        for i in range(n // 2):
            x += rng.randint(1, 3); pts.append((x, y))
            y += rng.randint(1, 3); pts.append((x, y))
        pts.append((x0, y))
        return pts
    if kind == 'comb':      # comb with teeth: vertices and horizontal edges at the same ordinates
        w = max(2, n // 4); h = rng.randint(2, 6); base = rng.randint(-5, 5)
        pts = [(0, base), (2 * w, base)]
        x = 2 * w
        for i in range(w):
            top = base + h + (rng.randint(0, 1) if rng.random() < .3 else 0)
            mid = base + h // 2 + 1
            pts.append((x, top)); x -= 1
            pts.append((x, mid)); x -= 1
            if rng.random() < .4 and x > 0:   # flat valley: horizontal edge at mid level
                pts.append((x, mid)); x -= 1
            if x <= 0: break
        pts.append((0, base + h))
        return pts
    if kind == 'rect':
        a, b = rng.randint(-8, 0), rng.randint(-8, 0); c, d = a + rng.randint(1, 9), b + rng.randint(1, 9)
        pts = [(a, b), (c, b), (c, d), (a, d)]
        # insert collinear points
        if rng.random() < .5: pts.insert(1, ((a + c) // 2, b))
        if rng.random() < .5: pts.insert(len(pts) - 1, (c - 1 if c - 1 > a else c, d))
        return pts
    # random (possibly self-intersecting): the half-open theorem covers these too
    return [(rng.randint(-8, 8), rng.randint(-8, 8)) for _ in range(n)]

def variants(rng, pts):
    out = list(pts)
    if rng.random() < .5: out = out[::-1]
    k = rng.randrange(len(out)); out = out[k:] + out[:k]
    if rng.random() < .5: out = out + [out[0]]   # closed explicitly
    return out

def scale_pts(rng, pts):
    """optionally move to dyadic non-integer coordinates (exact in binary64), per-axis units, and translate"""
    s = rng.choice([1, 1, Fraction(1, 2), Fraction(1, 4), 3, Fraction(5, 8)])
    tx, ty = rng.choice([0, 0, 100, -1000, Fraction(7, 8)]), rng.choice([0, 0, 50, -3])
    sy = s if rng.random() < .6 else rng.choice([1, Fraction(1, 2), 2, Fraction(3, 4), 5])   # different units per axis (theorem C20_axis_scaling)
    return [(Fraction(x) * s + tx, Fraction(y) * sy + ty) for x, y in pts], s, tx, ty

def queries(rng, pts, m):
    xs = sorted(set(p[0] for p in pts)); ys = sorted(set(p[1] for p in pts))
    qs = []
    for _ in range(m):
        r = rng.random()
        if r < .55:    # level with a vertex, abscissa between / at vertex abscissae
            y = rng.choice(ys); x = rng.choice(xs) + rng.choice([Fraction(-1, 2), Fraction(1, 2), 0, Fraction(1, 4), -3, 3])
        elif r < .8:
            x = rng.choice(xs) + rng.choice([0, Fraction(1, 2)]); y = rng.choice(ys) + rng.choice([Fraction(1, 2), Fraction(-1, 2), 0])
        else:
            x = Fraction(rng.randint(-30, 30), 2) + min(xs); y = Fraction(rng.randint(-30, 30), 2) + min(ys)
        qs.append((x, y))
    return qs

def P(p): return [dy(p[0]), dy(p[1])]

def run(ctx):
    quick = ctx.quick()
    build_lib(ctx)
    proofs_ok = coq_properties(ctx)
    runner = build_runner(ctx)
    exe = build_harness(ctx, 'C20')
    if runner is None or exe is None:
        print('ERROR: model runner or harness does not build'); sys.exit(3)
    rng = ctx.rng
    npoly = 120 if quick else 2500
    nq = 16 if quick else 40
    cases = []; meta = []
    kinds = ['star', 'stair', 'comb', 'rect', 'random']
    for i in range(npoly):
        kind = kinds[i % len(kinds)]
        n = rng.choice([3, 4, 5, 8, 12, 20, 40] + ([] if quick else [100, 200, 400]))
        base = gen_polygon(rng, kind, n)
        if len(base) < 3: continue
        pts, s, tx, ty = scale_pts(rng, variants(rng, base))
        ctx.dist('poly_' + kind); ctx.dist('nvert_%d' % (10 * (len(pts) // 10)))
        for q in queries(rng, pts, nq):
            cases.append([0, [P(p) for p in pts], P(q)]); meta.append(('inside', kind))
    # polygon sets with vertical limits, nested / union
    nset = 150 if quick else 3000
    for i in range(nset):
        pes = []
        for k in range(rng.randint(1, 4)):
            base = gen_polygon(rng, rng.choice(['star', 'rect', 'stair']), rng.choice([4, 6, 10]))
            if len(base) < 3: continue
            pts, s, tx, ty = scale_pts(rng, variants(rng, base))
            if rng.random() < .6:
                zmin = rng.choice([None, 0, 1, 5]); zmax = rng.choice([None, 1, 6, 10])
            else: zmin = zmax = None
            pes.append([[P(p) for p in pts], dy(zmin), dy(zmax)])
        if not pes: continue
        nested = rng.random() < .5
        allpts = [undy_pt(p) for pe in pes for p in pe[0]]
        for q in queries(rng, allpts, 4):
            z = rng.choice([None, 0, Fraction(1, 2), 3, 5, Fraction(11, 2), 20])
            cases.append([1, nested, pes, P(q), dy(z)]); meta.append(('set', 'nested' if nested else 'union'))
            ctx.dist('set_nested' if nested else 'set_union'); ctx.dist('set_z' if z is not None else 'set_noz')
    # edit histories on one Polygons object (add / replace vertices through setX+setY), then a query
    nhist = 150 if quick else 3000
    for i in range(nhist):
        ops = []; cur = []
        for k in range(rng.randint(1, 3)):
            base = gen_polygon(rng, rng.choice(['star', 'rect', 'stair', 'comb']), rng.choice([4, 6, 10]))
            if len(base) < 3: continue
            pts, s, tx, ty = scale_pts(rng, variants(rng, base))
            ops.append([0, [[P(p) for p in pts], [], []]]); cur.append(pts)
        if not cur: continue
        for k in range(rng.randint(1, 3)):
            ip = rng.randrange(len(cur))
            r = rng.random()
            if r < .5:      # translate the current vertices
                tdx, tdy = Fraction(rng.randint(-40, 40), 4), Fraction(rng.randint(-40, 40), 4)
                newp = [(x + tdx, y + tdy) for x, y in cur[ip]]
            elif r < .75:   # open <-> closed
                newp = cur[ip][:-1] if (len(cur[ip]) > 3 and cur[ip][0] == cur[ip][-1]) else cur[ip] + [cur[ip][0]]
            else:           # a new shape
                base = gen_polygon(rng, rng.choice(['star', 'rect']), rng.choice([4, 6]))
                if len(base) < 3: continue
                newp, s, tx, ty = scale_pts(rng, variants(rng, base))
            ops.append([1, ip, [P(p) for p in newp]]); cur[ip] = newp
        nested = rng.random() < .3
        for q in queries(rng, [p for c_ in cur for p in c_], 4):
            cases.append([3, nested, ops, P(q), []]); meta.append(('history', ''))
            ctx.dist('history')
    # db_polygon selections
    ndb = 40 if quick else 600
    for i in range(ndb):
        pes = []
        for k in range(rng.randint(1, 3)):
            base = gen_polygon(rng, rng.choice(['star', 'rect', 'comb']), rng.choice([4, 6, 10]))
            if len(base) < 3: continue
            pts = [(Fraction(x), Fraction(y)) for x, y in variants(rng, base)]
            zmin = rng.choice([None, None, 0, 2]); zmax = rng.choice([None, None, 3, 8])
            pes.append([[P(p) for p in pts], dy(zmin), dy(zmax)])
        if not pes: continue
        has_z = rng.random() < .5
        allpts = [undy_pt(p) for pe in pes for p in pe[0]]
        period = rng.random() < .3
        ss = []
        for q in queries(rng, allpts, rng.randint(1, 25)):
            if period and rng.random() < .5: q = (q[0] + rng.choice([360, -360]), q[1])
            ss.append([rng.random() < .8, dy(q[0]), dy(q[1]), dy(rng.choice([0, 1, Fraction(5, 2), 7, 9])) if has_z else []])
        cases.append([2, rng.random() < .5, period, rng.random() < .5, pes, ss]); meta.append(('dbpoly', 'z' if has_z else 'noz'))
        ctx.dist('dbpoly')
    # corpus first
    corpus = load_corpus(ctx)
    cases = corpus + cases; meta = [('corpus', '')] * len(corpus) + meta
    cf = write_cases(ctx, 'main', cases)
    rc_i, impl = run_impl(ctx, exe, cf)
    rc_m, model = run_model(ctx, runner, cf)
    if len(model) != len(cases):
        print('ERROR: model runner returned %d results for %d cases' % (len(model), len(cases))); sys.exit(3)
    found_input = False
    ndis = 0
    for i, c in enumerate(cases):
        mi = model[i]
        ii = impl[i] if i < len(impl) else None
        if mi and mi[0] == -999:
            print('ERROR: model rejected case', i); sys.exit(3)
        if c[0] in (0, 1, 3):
            m_ans, onb, spec = mi
            if onb:
                ctx.cov['tie_excluded'] += 1; ctx.count(None, False); continue
            ctx.count(sx_str(c)); ctx.sample({'case': sx_str(c)[:300], 'impl': ii, 'model': mi})
            if ii is None or ii[0] != m_ans or m_ans != spec:
                ndis += 1
                what = 'PolyElem::inside' if c[0] == 0 else (('Polygons::inside nested' if c[1] else 'Polygons::inside union') + (':after-edits' if c[0] == 3 else ''))
                if ii is None:
                    ctx.violation('crash:' + what, 'impl produced no answer (crash) on case %d' % i, {'case': sx_str(c)}); found_input = True
                elif ii[0] != spec:
                    # search succeeded at once: the property itself (impl vs geometric spec) fails on this input
                    key = 'impl-vs-spec:' + what + (':zlimits' if c[0] == 1 and any(pe[1] or pe[2] for pe in c[2]) and c[4] else '')
                    small = shrink(ctx, exe, runner, c)
                    ctx.violation(key, '%s returns %d, geometric truth (half-open crossing parity) is %d' % (what, ii[0], spec),
                                  {'case': sx_str(small), 'impl': ii[0], 'spec': spec, 'how': 'bin/check C20 --replay <this file>'})
                    found_input = True
                else:
                    ctx.violation('model-drift:' + what, 'model and impl disagree but impl agrees with the spec on every explored input: correspondence C20/%s no longer checks' % what,
                                  {'case': sx_str(c), 'impl': ii, 'model': mi, 'correspondence': 'coq/C20/Model.v vs ' + what}, found_input=False)
        else:
            sel_m, onb = mi
            ctx.count(sx_str(c)); 
            sel_i = ii[0] if ii else None
            for k in range(len(sel_m)):
                if onb[k]: ctx.cov['tie_excluded'] += 1; continue
                if sel_i is None or sel_i[k] != sel_m[k]:
                    ndis += 1
                    ctx.violation('impl-vs-spec:db_polygon', 'db_polygon marks sample %d as %s, model/spec says %d' % (k, sel_i[k] if sel_i else None, sel_m[k]),
                                  {'case': sx_str(c), 'sample': k}); found_input = True
                    break
    # ---- convex hull (Polygons::createFromDb): translation validation by the checker hull_ok, proved sound in coq/C20/Hull.v
    nh = (120 if quick else 1500) if os.environ.get('VERIF_C20_HULL') == '1' else 0   # OFF by default: see DESIGN 9.3 (createFromDb does not terminate on corpus/C20_hull_nontermination.sx)
    hcases = []
    for i in range(nh):
        r = rng.random(); n = rng.choice([1, 2, 3, 4, 5, 8, 12, 25] + ([] if quick else [60, 150]))
        if r < .35:     # lattice points (many collinear triples, ties for the leftmost point)
            w = rng.choice([2, 3, 5, 9]); P0 = [(rng.randint(0, w), rng.randint(0, w)) for _ in range(n)]; style = 'lattice'
        elif r < .5:    # all on one line
            a, b = rng.randint(-3, 3), rng.randint(-3, 3); P0 = [(t * a, t * b) for t in [rng.randint(-6, 6) for _ in range(n)]]; style = 'collinear'
        elif r < .7:    # points of a convex polygon plus interior points and duplicates
            base = gen_polygon(rng, 'rect', 4) + [(rng.randint(-5, 5), rng.randint(-5, 5)) for _ in range(n)]
            P0 = base + [rng.choice(base) for _ in range(rng.randint(0, 3))]; rng.shuffle(P0); style = 'rect+interior+dups'
        else:
            P0 = [(Fraction(rng.randint(-200, 200), 8), Fraction(rng.randint(-200, 200), 8)) for _ in range(n)]; style = 'dyadic-random'
        s_ = rng.choice([1, 1, Fraction(1, 4), 7]); tx = rng.choice([0, 0, 1000, Fraction(-37, 8)])
        P1 = [(Fraction(x) * s_ + tx, Fraction(y) * s_) for x, y in P0]
        if not P1: continue
        hcases.append([4, [P(q) for q in P1]]); ctx.dist('hull_' + style); ctx.dist('hull_n_%d' % (10 * (len(P1) // 10)))
    hf = write_cases(ctx, 'hull', hcases)
    rc_h, himpl = run_impl(ctx, exe, hf)
    vcases = []; vmap = []
    for i, c in enumerate(hcases):
        hi = himpl[i] if i < len(himpl) else None
        ctx.count(sx_str(c))
        if hi is None:
            ctx.violation('crash:createFromDb', 'impl produced no answer (crash) on hull case %d' % i, {'case': sx_str(c)}); found_input = True; continue
        if hi == [-1] or not isinstance(hi[0], list):
            ctx.violation('impl-vs-spec:createFromDb:no-hull', 'createFromDb returned no polygon for %d data points' % len(c[1]), {'case': sx_str(c)}); found_input = True; continue
        if any(k < 0 for k in hi[0]):
            ctx.violation('impl-vs-spec:createFromDb:vertex-not-a-data-point', 'a vertex of the hull is not one of the data points', {'case': sx_str(c), 'impl': hi[0]}); found_input = True; continue
        vcases.append([5, c[1], hi[0]]); vmap.append(i)
    if vcases:
        vf = write_cases(ctx, 'hullcheck', vcases)
        rc_v, vres = run_model(ctx, runner, vf)
        if len(vres) != len(vcases):
            print('ERROR: model runner returned %d results for %d hull certificates' % (len(vres), len(vcases))); sys.exit(3)
        for j, vr in enumerate(vres):
            ctx.sample({'hull case': sx_str(vcases[j])[:200], 'hull_ok': vr})
            if not (vr and vr[0] == 1 and vr[1] == 1):
                ndis += 1
                ctx.violation('impl-vs-spec:createFromDb:hull-rejected', 'the polygon returned by createFromDb is not a convex ring of data points containing every data point (checker hull_ok, theorem C20_hull_certificate)',
                              {'case': sx_str(hcases[vmap[j]]), 'hull_ranks': vcases[j][2], 'checker': vr}); found_input = True
    ctx.cov['disagreements'] = ndis
    ctx.cov['rule'] = ('cases = (polygon, query) pairs / polygon sets with vertical limits / db_polygon selections; integer or dyadic coordinates; '
                       'queries placed level with vertices and horizontal edges; distinct = distinct case text; non-trivial = query off the boundary '
                       '(decided exactly by the model; on-boundary cases are counted under tie_excluded)')
    if not proofs_ok: proof_break_violation(ctx, found_input)
    ctx.assumptions = ['coordinates are dyadic rationals with < 2^40 mantissa so that binary64 evaluation of the crossing abscissa decides like exact arithmetic',
                       'Jordan curve theorem is not re-proved: "geometric truth" is the half-open crossing parity (C20_half_open)']

def undy_pt(p): return (undy(p[0]), undy(p[1]))

def load_corpus(ctx):
    p = os.path.join(VERIF, 'corpus', ctx.pid + '.sx')
    if not os.path.exists(p): return []
    return [sx_parse(l) for l in open(p) if l.strip() and not l.startswith('#')]

def shrink(ctx, exe, runner, c):
    """drop polygon elements / vertices while impl and spec still differ"""
    def differs(cands):
        cf = write_cases(ctx, 'shrink', cands)
        _, im = run_impl(ctx, exe, cf); _, mo = run_model(ctx, runner, cf)
        out = []
        for k in range(len(cands)):
            ok = k < len(im) and k < len(mo) and len(mo[k]) == 3 and not mo[k][1] and im[k][0] != mo[k][2]
            out.append(ok)
        return out
    cur = c
    for _ in range(30):
        cands = []
        if cur[0] == 1:
            for k in range(len(cur[2])):
                if len(cur[2]) > 1: cands.append([1, cur[1], cur[2][:k] + cur[2][k + 1:], cur[3], cur[4]])
            for k, pe in enumerate(cur[2]):
                for j in range(len(pe[0])):
                    if len(pe[0]) > 3: cands.append([1, cur[1], cur[2][:k] + [[pe[0][:j] + pe[0][j + 1:], pe[1], pe[2]]] + cur[2][k + 1:], cur[3], cur[4]])
        elif cur[0] == 0:
            for j in range(len(cur[1])):
                if len(cur[1]) > 3: cands.append([0, cur[1][:j] + cur[1][j + 1:], cur[2]])
        if not cands: break
        d = differs(cands)
        nxt = [cands[k] for k in range(len(cands)) if d[k]]
        if not nxt: break
        cur = nxt[0]
    return cur

if __name__ == '__main__':
    main(run)

"""C15 — SPDE operators, projections and solvers are mutually consistent.

  tie 1 (translator)     translators/C15_mss.py regenerates coq/C15/gen/MSS.v (simplex tables MSS, number of simplices per cell,
                         polarity rule) from src/Mesh/Delaunay.cpp and src/Mesh/MeshETurbo.cpp; C15_simplices_tile & co are re-proved on it.
  tie 2 (correspondence) harness/C15.cpp vs the extracted model (coq/C15/Run.v) on generated cases:
        kind 0  ProjMatrix rows on small turbo meshes (1-3 D, rotations, selections, polarity)
        kind 1  ProjMatrix rows on small standard meshes with dyadic vertices
        kind 2  PrecisionOp::evalDirect (matrix-free) / PrecisionOpCs::getQ().v / model Lambda.P(S).Lambda.v, S and Lambda harvested exactly
        kind 6  finite-element assembly of the shift operator (model, exact) vs the harvested S, TildeC, Lambda entry by entry
        kind 7  Markov coefficients of the Matern structure (binomial coefficients) vs getCoeffs()
        kind 8  the kriging system in the model (A from the model's projection, Q = Lambda P(S) Lambda exact, solution with
                certificate) vs the implementation's Cholesky and conjugate-gradient solutions, tolerance by the conditioning
  property on impl (independent of the model): rows aligned with the samples, empty outside, weights >= 0 summing to one and reproducing
        affine functions; Q symmetric and positive definite; both operator forms apply identically; diagonal extraction;
        kind 0 alone  a selection masking every mesh: no sample may get weights (key turbo-proj:selection-masks-every-mesh)
        kind 4  MeshEStandard::resetFromTurbo on a fresh object, then the same samples projected on both meshings get the same rows
        kind 3  conditional solves: residuals of the Cholesky and of the conjugate-gradient solutions computed here from the harvested
                operators, kriging through the API in both modes equals the solution of (Q + A'A/s2) x = A'z/s2 projected on the targets.
"""
import sys, os, math, importlib.util, itertools
sys.path.insert(0, os.path.dirname(__file__))
from common import *

F = Fraction
TIE = F(1, 10 ** 9)

def load_translator(name):
    p = os.path.join(VERIF, 'translators', name + '.py')
    spec = importlib.util.spec_from_file_location(name, p)
    m = importlib.util.module_from_spec(spec); spec.loader.exec_module(m)
    return m

def write_if_changed(path, text):
    os.makedirs(os.path.dirname(path), exist_ok=True)
    if os.path.exists(path) and open(path).read() == text: return False
    with open(path, 'w') as f: f.write(text)
    return True

# ----------------------------------------------------------------------------- small exact linear algebra
def matvec(A, v): return [sum(a * x for a, x in zip(r, v)) for r in A]
def ident(n): return [[F(int(i == j)) for j in range(n)] for i in range(n)]
def solve_exact(A, b):
    """Gauss elimination over Fractions; None when singular"""
    n = len(A); M = [list(map(F, A[i])) + [F(b[i])] for i in range(n)]
    for c in range(n):
        p = next((r for r in range(c, n) if M[r][c] != 0), None)
        if p is None: return None
        M[c], M[p] = M[p], M[c]
        pv = M[c][c]; M[c] = [x / pv for x in M[c]]
        for r in range(n):
            if r != c and M[r][c] != 0:
                f = M[r][c]; M[r] = [x - f * y for x, y in zip(M[r], M[c])]
    return [M[i][n] for i in range(n)]
def inv_exact(A):
    n = len(A); cols = [solve_exact(A, [F(int(i == j)) for i in range(n)]) for j in range(n)]
    if any(c is None for c in cols): return None
    return [[cols[j][i] for j in range(n)] for i in range(n)]
def ldl_pivots(A, exact=True):
    """pivots of the LDL' factorisation without pivoting (symmetric A); stops at the first non-positive pivot"""
    n = len(A); M = [[(F(x) if exact else float(x)) for x in r] for r in A]; piv = []
    for k in range(n):
        d = M[k][k]; piv.append(d)
        if d <= 0: return piv
        for i in range(k + 1, n):
            if M[i][k] != 0:
                f = M[i][k] / d
                for j in range(k + 1, n): M[i][j] -= f * M[k][j]
    return piv
def solve_float(A, b):
    n = len(A); M = [[float(x) for x in A[i]] + [float(b[i])] for i in range(n)]
    for c in range(n):
        p = max(range(c, n), key=lambda r: abs(M[r][c]))
        if M[p][c] == 0: return None
        M[c], M[p] = M[p], M[c]
        pv = M[c][c]
        for r in range(c + 1, n):
            f = M[r][c] / pv
            if f != 0.:
                for j in range(c, n + 1): M[r][j] -= f * M[c][j]
    x = [0.] * n
    for i in range(n - 1, -1, -1):
        x[i] = (M[i][n] - sum(M[i][j] * x[j] for j in range(i + 1, n))) / M[i][i]
    return x
def fl(x): return float(x)
def to_dy(x):
    """nearest double of a rational, as an exact Fraction"""
    return F(float(x))

# ----------------------------------------------------------------------------- generators
EXACT_ANGLES = [0., 90., 180., 270.]
GEN_ANGLES = [30., 45., 60., 12.5, -33.75, 123.456, 200.5, 17.0, 0.1, 300.25]
DXS = [F(1), F(2), F(1, 2), F(1, 4), F(3, 8), F(5, 4), F(3), F(10), F(7, 16)]

def gen_angles(rng, n, kind):
    if kind == 'none' or n == 1: return None
    pool = EXACT_ANGLES if kind == 'exact' else GEN_ANGLES
    if n == 2: return [rng.choice(pool[1:] if kind == 'exact' else pool)]
    a = [rng.choice(pool + ([0.] if kind != 'exact' else [])) for _ in range(3)]
    if all(x == 0. for x in a): a[0] = pool[1]
    return a

class Harvest:
    def __init__(self): self.want = {}; self.got = {}
    def ask(self, n, ang): self.want[(n, tuple(ang))] = True
    def run(self, ctx, exe):
        keys = [k for k in self.want if k not in self.got]
        if not keys: return
        cases = [[9, k[0], [dy(a) for a in k[1]]] for k in keys]
        cf = write_cases(ctx, 'harvest', cases)
        rc, res = run_impl(ctx, exe, cf)
        if len(res) != len(cases) or any(r and r[0] == -997 for r in res):
            print('ERROR: harness failed while harvesting rotation matrices'); sys.exit(3)
        for k, r in zip(keys, res): self.got[k] = [[undy(x) for x in row] for row in r[0]]

def gen_turbo(rng, ndim=None, maxn=6, rot=None, allow_sel=True):
    n = ndim or rng.choice([1, 2, 2, 2, 3, 3])
    cap = {1: maxn, 2: maxn, 3: min(maxn, 4)}[n]
    nx = [rng.randint(2, cap) for _ in range(n)]
    dx = [rng.choice(DXS) for _ in range(n)]
    x0 = [F(rng.randint(-4096 * 8, 4096 * 8), 8) if rng.random() < .8 else F(0) for _ in range(n)]
    rk = rot or rng.choice(['none', 'none', 'exact', 'general', 'general'])
    ang = gen_angles(rng, n, rk)
    pol = rng.random() < .5
    sel = []
    if allow_sel and rng.random() < .3:
        ntot = math.prod(nx)
        while True:
            sel = [0 if rng.random() < .15 else 1 for _ in range(ntot)]
            # at least one cell with all its nodes selected (a meshing without any active mesh is not a meshing:
            # Indirection treats its empty map as "no indirection")
            def rank_of(t):
                r = 0
                for k, i in reversed(list(zip(nx, t))): r = r * k + i
                return r
            if any(all(sel[rank_of([c[d] + o[d] for d in range(n)])] for o in itertools.product([0, 1], repeat=n))
                   for c in itertools.product(*[range(k - 1) for k in nx])): break
    return {'n': n, 'nx': nx, 'dx': dx, 'x0': x0, 'ang': ang, 'rotkind': rk if ang else 'none', 'pol': pol, 'sel': sel}

def turbo_M(ts, hv):
    return hv.got[(ts['n'], tuple(ts['ang']))] if ts['ang'] else ident(ts['n'])

def turbo_sx(ts, hv):
    rot = [[dy(x) for x in r] for r in turbo_M(ts, hv)] if ts['ang'] else []
    return [list(ts['nx']), [dy(x) for x in ts['dx']], [dy(x) for x in ts['x0']], rot, 1 if ts['pol'] else 0, list(ts['sel'])]

FRACS = [F(0), F(1, 2), F(1, 4), F(3, 4), F(1, 8), F(1), F(1, 1024), F(1023, 1024)]
def gen_point_u(rng, ts, where):
    """grid-frame position in cell units"""
    u = []
    for d in range(ts['n']):
        nx = ts['nx'][d]
        if where == 'inside':
            i = rng.randint(0, nx - 2)
            f = rng.choice(FRACS) if rng.random() < .5 else F(rng.randint(0, 64), 64)
            u.append(F(i) + f)
        elif where == 'edge':          # between the last node and one cell beyond: located, not in the mesh
            u.append(F(nx - 1) + F(rng.randint(1, 63), 64) if rng.random() < .5 else F(rng.randint(0, (nx - 1) * 16), 16))
        else:                           # anywhere around, possibly off the grid
            u.append(F(rng.randint(-24, (nx + 1) * 16), 16))
    return u

def point_of_u(ts, M, u):
    w = [u[d] * ts['dx'][d] for d in range(ts['n'])]
    x = matvec(M, w)
    return [to_dy(x[d] + ts['x0'][d]) for d in range(ts['n'])]

def u_of_point(ts, Minv, x):
    w = matvec(Minv, [x[d] - ts['x0'][d] for d in range(ts['n'])])
    return [w[d] / ts['dx'][d] for d in range(ts['n'])]

def gen_standard(rng, tab, ndim=None):
    """structured topology with jittered dyadic vertices, cells split with the turbo tables, random mesh/vertex order, holes"""
    n = ndim or rng.choice([1, 2, 2, 3])
    nx = [rng.randint(2, 4 if n < 3 else 3) for _ in range(n)]
    h = [rng.choice([F(1), F(2), F(1, 2), F(3, 4)]) for _ in range(n)]
    o = [F(rng.randint(-64, 64), 4) for _ in range(n)]
    idxs = list(itertools.product(*[range(k) for k in nx][::-1]))
    idxs = [t[::-1] for t in idxs]       # first index fastest
    rank = {t: i for i, t in enumerate(idxs)}
    jit = rng.random() < .7
    ap = []
    for t in idxs:
        ap.append([o[d] + h[d] * (t[d] + (F(rng.randint(-16, 16), 64) if jit else 0)) for d in range(n)])
    T = {1: tab['S1D'], 2: tab['S2D'], 3: tab['S3D']}[n]
    meshes = []
    for cell in itertools.product(*[range(k - 1) for k in nx]):
        ipol = rng.randrange(len(T))
        for simplex in T[ipol]:
            if rng.random() < .12: continue       # hole
            vs = [rank[tuple(cell[d] + c[d] for d in range(n))] for c in simplex]
            rng.shuffle(vs)
            meshes.append(vs)
    if not meshes: return gen_standard(rng, tab, ndim)
    rng.shuffle(meshes)
    # renumber apices randomly
    perm = list(range(len(ap))); rng.shuffle(perm)
    ap2 = [None] * len(ap)
    for i, p in enumerate(perm): ap2[p] = ap[i]
    meshes = [[perm[v] for v in m] for m in meshes]
    return {'n': n, 'ap': ap2, 'meshes': meshes}

def bary_exact(corners, x):
    n = len(x)
    A = [[corners[c][d] for c in range(n + 1)] for d in range(n)] + [[F(1)] * (n + 1)]
    return solve_exact(A, list(x) + [F(1)])

def gen_standard_points(rng, sm, m, trailing_out):
    n = sm['n']; ap = sm['ap']; pts = []
    lo = [min(a[d] for a in ap) for d in range(n)]; hi = [max(a[d] for a in ap) for d in range(n)]
    for _ in range(m):
        r = rng.random()
        if r < .55:      # strictly inside a mesh: dyadic barycentric weights
            ms = rng.choice(sm['meshes'])
            w = [rng.randint(1, 16) for _ in ms]; s = sum(w)
            while s & (s - 1): w[rng.randrange(len(w))] += 1; s = sum(w)
            pts.append([sum(F(w[k], s) * ap[ms[k]][d] for k in range(len(ms))) for d in range(n)])
        elif r < .7:     # on a vertex or the middle of an edge
            ms = rng.choice(sm['meshes']); a, b = rng.choice(ms), rng.choice(ms)
            pts.append([(ap[a][d] + ap[b][d]) / 2 for d in range(n)])
        else:
            pts.append([F(rng.randint(int(lo[d] * 16) - 8, int(hi[d] * 16) + 8), 16) for d in range(n)])
    pts = [[to_dy(x) for x in p] for p in pts]
    far = [[hi[d] + 5 + k for d in range(n)] for k in range(2)]
    if trailing_out: pts += far[:rng.randint(1, 2)]
    else:
        ms = rng.choice(sm['meshes'])
        pts.append([to_dy(sum(ap[v][d] for v in ms) / F(4 if len(ms) == 4 else len(ms)) if len(ms) in (2, 4) else
                          (ap[ms[0]][d] / 2 + ap[ms[1]][d] / 4 + ap[ms[2]][d] / 4)) for d in range(n)])
    return pts

def gen_cov(rng, n, nostat=False):
    nu = {1: [F(1, 2), F(3, 2)], 2: [F(1), F(2)], 3: [F(1, 2), F(3, 2)]}[n]
    param = rng.choice(nu)
    sill = rng.choice([F(1), F(2), F(1, 2), F(5, 4)])
    if rng.random() < .5: ranges = [rng.choice([F(2), F(3), F(4), F(3, 2)])] * n
    else: ranges = [rng.choice([F(2), F(3), F(4), F(3, 2), F(6)]) for _ in range(n)]
    ang = []
    if n >= 2 and rng.random() < .5: ang = [F(rng.choice([30, 45, 90, 120, 17]))] + ([F(0)] * (n - 1) if n == 3 else [F(0)])
    cv = {'param': param, 'sill': sill, 'ranges': ranges, 'angles': ang, 'spiral': None}
    if n == 2 and nostat:     # non-stationary anisotropy angle: FunctionalSpirale(a, b, c, d, sx, sy)
        cv['ranges'] = [rng.choice([F(2), F(3)]), rng.choice([F(4), F(6)])]
        cv['spiral'] = [F(0), F(-3, 2), F(1), F(1), F(rng.randint(-8, 8), 2), F(rng.randint(-8, 8), 2)]
    return cv
def cov_sx(cv):
    out = [dy(cv['param']), dy(cv['sill']), [dy(x) for x in cv['ranges']], [dy(x) for x in cv['angles']]]
    if cv.get('spiral'): out.append([dy(x) for x in cv['spiral']])
    return out

# ----------------------------------------------------------------------------- comparisons
def row_dict(entries, conv):
    d = {}
    for e in entries:
        v = conv(e[1])
        if v is None: v = float('nan')          # non-finite value printed by the harness as ()
        d[e[0]] = d.get(e[0], 0) + v
    return d
def rows_close(ri, rm, tol=1e-9):
    for k in set(ri) | set(rm):
        if not abs(float(ri.get(k, 0)) - float(rm.get(k, 0))) <= tol: return False
    return True

def affine_check(w, apex, x, rng_coefs, tight, cond=1.):
    """weights w: {col: value}; returns None when fine, else a description.
    cond: size of the coordinates relative to the mesh (the barycentric system is solved in absolute coordinates)"""
    tol_s = max(1e-12, 2e-14 * cond) if tight else 5e-6
    vals = [float(v) for v in w.values()]
    if any(v != v or abs(v) == float('inf') for v in vals): return 'non-finite weight'
    if any(v < 0 for v in vals): return 'negative weight %r' % min(vals)
    s = sum(vals)
    if abs(s - 1) > tol_s: return 'weights sum to %.17g' % s
    n = len(x)
    scale = 1 + max(abs(float(apex[c][d])) for c in w for d in range(n))
    tol_x = (1e-9 if tight else 1e-5) * scale
    for d in range(n):
        r = sum(float(w[c]) * float(apex[c][d]) for c in w)
        if abs(r - float(x[d])) > tol_x: return 'coordinate %d reproduced as %.17g instead of %.17g' % (d, r, float(x[d]))
    a, b = rng_coefs
    f = lambda p: b + sum(a[d] * float(p[d]) for d in range(n))
    r = sum(float(w[c]) * f(apex[c]) for c in w)
    if abs(r - f(x)) > tol_x * (1 + sum(abs(t) for t in a)): return 'affine function reproduced as %.17g instead of %.17g' % (r, f(x))
    return None

# ----------------------------------------------------------------------------- the check
def translate(ctx):
    ctx.tab = None
    try:
        text, tab = load_translator('C15_mss').translate(REPO)
        write_if_changed(os.path.join(VERIF, 'coq', 'C15', 'gen', 'MSS.v'), text)
        ctx.tab = tab
        return True
    except Exception as ex:
        if type(ex).__name__ != 'TranslationError': raise
        ctx.violation('translator:MSS', 'Delaunay.cpp / MeshETurbo.cpp are no longer in the form the translator understands: %s; '
                      'the generated simplex table, hence the theorems about it, is not tied to the code any more' % ex,
                      {'translator': 'translators/C15_mss.py', 'error': str(ex)}, found_input=False)
        return False

def run(ctx):
    quick = ctx.quick(); rng = ctx.rng
    build_lib(ctx)
    tie_ok = translate(ctx)
    if ctx.tab is None:
        if REPO != '/repo':
            try: _, ctx.tab = load_translator('C15_mss').translate('/repo')
            except Exception: ctx.tab = None
        if ctx.tab is None: return
    proofs_ok = coq_properties(ctx)
    runner = build_runner(ctx)
    exe = build_harness(ctx, 'C15')
    if exe is None: print('ERROR: harness does not build'); sys.exit(3)
    if runner is None:
        if proofs_ok: print('ERROR: model runner does not build'); sys.exit(3)
    st = {'found': False, 'ndis': 0}
    def viol(key, text, replay, found=True):
        if found: st['found'] = True
        st['ndis'] += 1
        return ctx.violation(key, text, replay, found_input=found)

    hv = Harvest()
    check_turbo(ctx, exe, runner, hv, viol)
    check_standard(ctx, exe, runner, viol)
    check_degenerate_selection(ctx, exe, viol)
    check_from_turbo(ctx, exe, hv, viol)
    check_convolution(ctx, exe, runner, viol)
    check_multi(ctx, exe, hv, viol)
    check_operators(ctx, exe, runner, hv, viol)
    check_solvers(ctx, exe, runner, hv, viol)
    check_solvers_vars(ctx, exe, runner, hv, viol)
    check_entry_points(ctx, exe, runner, hv, viol)

    ctx.cov['disagreements'] = st['ndis']
    ctx.cov['rule'] = ('evaluation = one (mesh, query point) row of a projection matrix / one (mesh, Matern model, vector) operator application / '
                       'one conditional solve; meshes: turbo 1-3 D (nx <= 6 per axis, dyadic origin and mesh, rotation none / exact / general with the '
                       'matrix harvested from the library, selections, polarity) and standard meshes with dyadic vertices; distinct = distinct case text; '
                       'non-trivial = decision margins (cell location, simplex acceptance) above 1e-9, the others are counted under tie_excluded')
    if not proofs_ok: proof_break_violation(ctx, st['found'])
    ctx.cov['trusted_base'] += [
        'translators/C15_mss.py (regex translation of the MSS tables, the dispatch of MSS(), _setNumberElementPerCell and _getPolarized; fails closed)',
        'coq/C16/Model.v grid index / coordinate maps (imported; tied to Grid.cpp by the C16 check)',
        'python exact rational arithmetic (fractions) for the independent spec of the projection rows and the LDL\' pivots of the harvested Q']
    ctx.assumptions = [
        'corpus/C15.sx keeps the witnesses of the repaired defects (row counter of MeshETurbo::resetProjMatrix, forced dimensions of '
        'MeshEStandard::resetProjMatrix); PrecisionOp::addToDest on a non-zero destination and krigingSPDENew in both modes are exercised by every operator / solver case',
        'the finite-element assembly of S is modelled for constant anisotropy and full-dimensional simplices (turbo and standard meshings); the square roots '
        '(sqrt(1/det hh), TildeC^-1/2, Lambda = sqrt(TildeC correc / sill)) are evaluated in floating point by the correspondence from the model\'s exact det hh and TildeC; '
        'the theorems on S and Q hold for any value of these factors; non-stationary models, meshes on a variety / sphere are not modelled',
        'the operator applications (kind 2) and the kriging system (kind 8) use S and Lambda harvested as exact doubles',
        'Chebyshev approximations (powers -1, -1/2, log of the operator), Eigen sparse Cholesky and conjugate gradient are external: '
        'the clauses "Cholesky and CG agree" and "every solve satisfies its system" are runtime evidence (residuals recomputed from the harvested operators)',
        'points closer than 1e-9 (barycentric / cell units) to a decision threshold are excluded; within 1e-6 of a simplex face the stored weights are '
        'clamped without renormalisation (sum within (ndim+1)e-6 of one): the tight 1e-12 test applies when every weight exceeds 1e-5']

# ----------------------------------------------------------------------------- turbo projections
def check_turbo(ctx, exe, runner, hv, viol):
    quick = ctx.quick(); rng = ctx.rng
    ncase = 220 if quick else 2500
    specs = []
    for i in range(ncase):
        fam = 'A' if i % 3 else 'B'           # A: every sample is located on the grid; B: anything
        ts = gen_turbo(rng, maxn=6 if quick or rng.random() < .8 else 8)
        if ts['ang']: hv.ask(ts['n'], ts['ang'])
        specs.append((fam, ts))
    hv.run(ctx, exe)
    cases = []; meta = []
    for fam, ts in specs:
        M = turbo_M(ts, hv)
        npt = rng.randint(4, 14)
        us = []
        for k in range(npt):
            if fam == 'A': us.append(gen_point_u(rng, ts, 'inside' if rng.random() < .8 else 'edge'))
            else: us.append(gen_point_u(rng, ts, rng.choice(['inside', 'inside', 'edge', 'any', 'any'])))
        pts = [point_of_u(ts, M, u) for u in us]
        cases.append([0] + turbo_sx(ts, hv) + [[[dy(x) for x in p] for p in pts]])
        meta.append((fam, ts, pts))
        ctx.dist('turbo_%dd' % ts['n']); ctx.dist('turbo_rot_' + ts['rotkind']); ctx.dist('turbo_sel' if ts['sel'] else 'turbo_nosel')
        ctx.dist('turbo_pol' if ts['pol'] else 'turbo_nopol'); ctx.dist('turbo_family_' + fam)
    corpus = [c for c in load_corpus(ctx) if c[0] == 0]
    cases = corpus + cases; meta = [('corpus', None, None)] * len(corpus) + meta
    cf = write_cases(ctx, 'turbo', cases)
    rc_i, impl = run_impl(ctx, exe, cf)
    model = None
    if runner is not None:
        rc_m, model = run_model(ctx, runner, cf)
        if len(model) != len(cases): print('ERROR: model runner returned %d results for %d cases' % (len(model), len(cases))); sys.exit(3)
    for i, c in enumerate(cases):
        ii = impl[i] if i < len(impl) else None
        fam, ts, pts = meta[i]
        if ts is None:    # corpus case: rebuild the description from the case
            ts = {'n': len(c[1]), 'nx': c[1], 'dx': [undy(x) for x in c[2]], 'x0': [undy(x) for x in c[3]],
                  'M': [[undy(x) for x in r] for r in c[4]] if c[4] else ident(len(c[1])), 'pol': bool(c[5]), 'sel': c[6], 'ang': None, 'rotkind': 'corpus'}
            pts = [[undy(x) for x in p] for p in c[7]]
            M = ts['M']
        else: M = turbo_M(ts, hv)
        if ii is None or (ii and ii[0] == -997):
            viol('crash:turbo-proj', 'the harness produced no answer (crash) on a turbo projection case', {'case': sx_str(c)}); continue
        nr, nc, rows_i, apex = ii[0], ii[1], ii[2], [[undy(x) for x in a] for a in ii[3]]
        rows_i = [row_dict(r, undy) for r in rows_i]
        npt = len(pts)
        # ---- property on impl, independent of the model
        Minv = inv_exact(M)
        us = [u_of_point(ts, Minv, p) for p in pts]
        bad = None
        if nr != npt: bad = ('turbo-proj:row-count', 'the projection matrix has %d rows for %d active samples' % (nr, npt))
        coefs = ([rng.uniform(-2, 2) for _ in range(ts['n'])], rng.uniform(-5, 5))
        cond = 1 + max([abs(float(a)) for ap_ in apex for a in ap_] + [0.]) / float(min(ts['dx']))
        nontriv = 0
        for k in range(min(nr, npt)):
            if bad: break
            u = us[k]; w = rows_i[k]
            dist_in = min(min(u[d], (ts['nx'][d] - 1) - u[d]) for d in range(ts['n']))     # > 0: strictly inside the meshed box
            if w:
                tight = min(float(v) for v in w.values()) > 1e-5 and len(w) == ts['n'] + 1
                if any(float(v) != float(v) for v in w.values()): tight = False
                msg = affine_check(w, apex, pts[k], coefs, tight, cond)
                if msg:
                    # is the row simply the row of another sample (rows shifted)?
                    other = [j for j in range(npt) if j != k and affine_check(w, apex, pts[j], coefs, tight, cond) is None]
                    if other: bad = ('turbo-proj:rows-shifted-after-sample-outside-grid',
                                     'row %d of the projection matrix holds the weights of sample %d (%s)' % (k, other[0], msg))
                    else: bad = ('turbo-proj:weights-not-affine', 'row %d: %s' % (k, msg))
                elif dist_in < -F(3, 10 ** 6) * 4:
                    bad = ('turbo-proj:weights-for-outside-point', 'sample %d lies outside the meshed box (grid frame %s) and has weights' % (k, [float(x) for x in u]))
                else: nontriv += 1
            else:
                if not ts['sel'] and dist_in > F(1, 10 ** 5):
                    later = [j for j in range(k) if not all(-1e-6 <= float(us[j][d]) < ts['nx'][d] for d in range(ts['n']))]
                    if later: bad = ('turbo-proj:rows-shifted-after-sample-outside-grid',
                                     'sample %d lies inside the mesh but its row is empty; sample %d before it is outside the grid' % (k, later[0]))
                    else: bad = ('turbo-proj:inside-point-empty-row', 'sample %d lies inside the mesh (grid frame %s) but its row is empty' % (k, [float(x) for x in u]))
        if bad:
            small = shrink_turbo(ctx, exe, c, bad[0])
            viol(bad[0], bad[1], {'case': sx_str(small), 'how': 'harness/C15.cpp kind 0; rows of ProjMatrix(db, MeshETurbo)'})
        # ---- impl vs model
        if model is None: continue
        mi = model[i]
        if mi and mi[0] == -999: print('ERROR: model rejected turbo case', i); sys.exit(3)
        nap_m, rows_m, info = mi
        rows_m = [row_dict(r, unq) for r in rows_m]
        loc_tie = any(unq(p[3]) < TIE for p in info)
        if loc_tie:
            ctx.cov['tie_excluded'] += npt; ctx.count(None, False); continue
        if nap_m != nc or len(rows_m) != nr:
            if not bad: viol('model-drift:turbo-proj:dimensions', 'model gives %d rows x %d apices, impl %d x %d' % (len(rows_m), nap_m, nr, nc),
                             {'case': sx_str(c)}, found=False)
            continue
        # rows are compared position by position; the model mirrors the row counter of the code
        tie_rows = set()
        iech = 0
        for k, p in enumerate(info):
            if unq(p[2]) < TIE: tie_rows.add(iech if p[0] else None)
            if p[0]: iech += 1
        for k in range(nr):
            if k in tie_rows: ctx.cov['tie_excluded'] += 1; continue
            ctx.count(sx_str([c[1:7], c[7][k] if k < npt else k]), True)
            if not rows_close(rows_i[k], rows_m[k]):
                if not bad:
                    viol('model-drift:turbo-proj:row', 'row %d differs: impl %s, model %s; the projection still satisfies the property on every explored input: '
                         'correspondence coq/C15/Model.v vs MeshETurbo::resetProjMatrix no longer checks' % (k, fmt_row(rows_i[k]), fmt_row(rows_m[k])),
                         {'case': sx_str(c), 'row': k}, found=False)
                break
        ctx.sample({'kind': 'turbo', 'case': sx_str(c)[:300], 'impl_row0': fmt_row(rows_i[0]) if rows_i else None})

def fmt_row(r): return {k: float(v) for k, v in sorted(r.items())}

def shrink_turbo(ctx, exe, c, key):
    """drop query points while the same symptom stays (cheap: a few harness runs)"""
    if 'shifted' not in key and 'row-count' not in key: return c
    pts = c[7]
    cur = list(pts)
    def symptom(ps):
        cc = c[:7] + [ps]
        cf = write_cases(ctx, 'shrink', [cc]); _, im = run_impl(ctx, exe, cf)
        if not im or im[0][0] == -997: return False
        nr, nc, rows, apex = im[0]
        apex = [[undy(x) for x in a] for a in apex]
        rows = [row_dict(r, undy) for r in rows]
        P = [[undy(x) for x in p] for p in ps]
        for k in range(min(nr, len(P))):
            if rows[k] and affine_check(rows[k], apex, P[k], ([1.] * len(P[k]), 0.), False): return True
        return nr != len(P)
    changed = True
    while changed and len(cur) > 1:
        changed = False
        for k in range(len(cur)):
            t = cur[:k] + cur[k + 1:]
            if symptom(t): cur = t; changed = True; break
    return c[:7] + [cur]

# ----------------------------------------------------------------------------- standard meshes
def check_standard(ctx, exe, runner, viol):
    quick = ctx.quick(); rng = ctx.rng
    ncase = 120 if quick else 1500
    cases = []; meta = []
    for i in range(ncase):
        sm = gen_standard(rng, ctx.tab)
        fam = 'A' if i % 3 else 'B'
        pts = gen_standard_points(rng, sm, rng.randint(3, 10), fam == 'B')
        cases.append([1, sm['n'], [[dy(x) for x in a] for a in sm['ap']], sm['meshes'], [[dy(x) for x in p] for p in pts]])
        meta.append((sm, pts)); ctx.dist('standard_%dd' % sm['n']); ctx.dist('standard_family_' + fam)
    corpus = [c for c in load_corpus(ctx) if c[0] == 1]
    meta = [({'n': c[1], 'ap': [[undy(x) for x in a] for a in c[2]], 'meshes': c[3]}, [[undy(x) for x in p] for p in c[4]]) for c in corpus] + meta
    cases = corpus + cases
    cf = write_cases(ctx, 'standard', cases)
    rc_i, impl = run_impl(ctx, exe, cf)
    model = None
    if runner is not None:
        rc_m, model = run_model(ctx, runner, cf)
        if len(model) != len(cases): print('ERROR: model runner returned %d results for %d cases' % (len(model), len(cases))); sys.exit(3)
    for i, c in enumerate(cases):
        sm, pts = meta[i]
        ii = impl[i] if i < len(impl) else None
        if ii is None or (ii and ii[0] == -997):
            viol('crash:standard-proj', 'the harness produced no answer (crash) on a standard projection case', {'case': sx_str(c)}); continue
        nr, nc, rows_i = ii
        rows_i = [row_dict(r, undy) for r in rows_i]
        npt = len(pts); n = sm['n']; ap = sm['ap']
        bad = None
        if nr != npt:
            bad = ('standard-proj:trailing-unlocated-samples-drop-rows' if nr < npt else 'standard-proj:row-count',
                   'the projection matrix has %d rows for %d active samples' % (nr, npt))
        coefs = ([rng.uniform(-2, 2) for _ in range(n)], rng.uniform(-5, 5))
        for k in range(min(nr, npt)):
            if bad: break
            lam = [bary_exact([ap[v] for v in ms], pts[k]) for ms in sm['meshes']]
            lam = [l for l in lam if l is not None]
            inside = any(min(l) > F(1, 10 ** 4) for l in lam)
            outside = all(min(l) < -F(1, 10 ** 3) for l in lam)
            w = rows_i[k]
            if w:
                tight = min(float(v) for v in w.values()) > 1e-4
                msg = affine_check(w, ap, pts[k], coefs, tight) if not tight else affine_check(w, ap, pts[k], coefs, True)
                if not tight:
                    # the code accepts |sum - 1| <= 1e-5 and weights = |signed barycentric|
                    vals = [float(v) for v in w.values()]
                    msg = None if (min(vals) >= 0 and abs(sum(vals) - 1) <= 1.0001e-5) else 'weights %r' % vals
                if msg: bad = ('standard-proj:weights-not-affine', 'row %d: %s' % (k, msg))
                elif outside: bad = ('standard-proj:weights-for-outside-point', 'sample %d is outside every mesh and has weights' % k)
            elif inside:
                bad = ('standard-proj:inside-point-empty-row', 'sample %d lies strictly inside a mesh but its row is empty' % k)
        if bad: viol(bad[0], bad[1], {'case': sx_str(shrink_standard(ctx, exe, c, bad[0])), 'how': 'harness/C15.cpp kind 1; rows of ProjMatrix(db, MeshEStandard)'})
        if model is None: continue
        mi = model[i]
        if mi and mi[0] == -999: print('ERROR: model rejected standard case', i); sys.exit(3)
        nr_m, rows_m, info = mi
        rows_m = [row_dict(r, unq) for r in rows_m]
        # a tie on one sample changes the start of the search of the next ones: the whole case is excluded
        if any(unq(p[1]) < TIE for p in info):
            ctx.cov['tie_excluded'] += npt; ctx.count(None, False); continue
        if nr_m != nr:
            if not bad: viol('model-drift:standard-proj:dimensions', 'model gives %d rows, impl %d' % (nr_m, nr), {'case': sx_str(c)}, found=False)
            continue
        for k in range(nr):
            ctx.count(sx_str([c[1:4], c[4][k] if k < npt else k]), True)
            if not rows_close(rows_i[k], rows_m[k]):
                if not bad:
                    viol('model-drift:standard-proj:row', 'row %d differs: impl %s, model %s; correspondence coq/C15/Model.v vs MeshEStandard::resetProjMatrix '
                         'no longer checks' % (k, fmt_row(rows_i[k]), fmt_row(rows_m[k])), {'case': sx_str(c), 'row': k}, found=False)
                break
        ctx.sample({'kind': 'standard', 'case': sx_str(c)[:300]}, maxn=6)

def shrink_standard(ctx, exe, c, key):
    if 'drop-rows' not in key: return c
    cur = list(c[4])
    def symptom(ps):
        cf = write_cases(ctx, 'shrink', [c[:4] + [ps]]); _, im = run_impl(ctx, exe, cf)
        return bool(im) and im[0][0] != -997 and im[0][0] < len(ps)
    changed = True
    while changed and len(cur) > 1:
        changed = False
        for k in range(len(cur)):
            t = cur[:k] + cur[k + 1:]
            if symptom(t): cur = t; changed = True; break
    return c[:4] + [cur]

# ----------------------------------------------------------------------------- selections that leave no active mesh
def check_degenerate_selection(ctx, exe, viol):
    """a selection masking every mesh: the meshing has no apex, every sample must get an empty row (one row per sample).
    Each case runs in its own process: the pinned code aborts (Indirection takes its empty map for 'no indirection')"""
    rng = ctx.rng
    n = 3 if ctx.quick() else 12
    for k in range(n):
        ts = gen_turbo(rng, ndim=rng.choice([1, 2, 3]), maxn=4, rot='none', allow_sel=False)
        ntot = math.prod(ts['nx'])
        if k % 2 == 0: ts['sel'] = [0] * ntot
        else:     # one node in two along the first axis: every cell has a masked corner
            ts['sel'] = [(i % ts['nx'][0]) % 2 for i in range(ntot)]
        M = ident(ts['n'])
        pts = [point_of_u(ts, M, gen_point_u(rng, ts, 'inside')) for _ in range(3)]
        c = [0] + [list(ts['nx']), [dy(x) for x in ts['dx']], [dy(x) for x in ts['x0']], [], 1 if ts['pol'] else 0, list(ts['sel'])] + [[[dy(x) for x in p] for p in pts]]
        cf = write_cases(ctx, 'allmasked%d' % k, [c])
        rc, res = run_impl(ctx, exe, cf, timeout=120)
        ctx.count(sx_str(c), True); ctx.dist('turbo_all_meshes_masked')
        if not res or res[0][0] == -997:
            viol('turbo-proj:selection-masks-every-mesh', 'a selection that masks every mesh: building the projection matrix aborts (harness exit %s) instead of '
                 'giving %d empty rows' % (rc, len(pts)), {'case': sx_str(c), 'how': 'harness/C15.cpp kind 0, alone in its case file'})
            continue
        nr, nc, rows, apex = res[0]
        # the meshing has no apex: a (samples x 0) matrix cannot be stored, so only the absence of weights is required
        if any(r for r in rows):
            viol('turbo-proj:selection-masks-every-mesh', 'a selection that masks every mesh (no apex left): samples %s get weights on grid nodes '
                 'that are not apices of the meshing (matrix %dx%d, getNApices() = 0)' % ([i for i, r in enumerate(rows) if r], nr, nc), {'case': sx_str(c)})

# ----------------------------------------------------------------------------- standard meshing built from a turbo meshing
def check_from_turbo(ctx, exe, hv, viol):
    """MeshEStandard::resetFromTurbo: the same samples projected on both meshings get the same rows (strictly inside a simplex)"""
    rng = ctx.rng
    ncase = 20 if ctx.quick() else 200
    specs = [gen_turbo(rng, maxn=4) for _ in range(ncase)]
    for ts in specs:
        if ts['ang']: hv.ask(ts['n'], ts['ang'])
    hv.run(ctx, exe)
    cases = []
    for ts in specs:
        M = turbo_M(ts, hv)
        pts = [point_of_u(ts, M, gen_point_u(rng, ts, rng.choice(['inside', 'inside', 'edge']))) for _ in range(rng.randint(3, 8))]
        cases.append([4] + turbo_sx(ts, hv) + [[[dy(x) for x in p] for p in pts]])
        ctx.dist('from_turbo_%dd' % ts['n'])
    cf = write_cases(ctx, 'fromturbo', cases)
    rc, impl = run_impl(ctx, exe, cf)
    for i, c in enumerate(cases):
        ii = impl[i] if i < len(impl) else None
        rep = {'case': sx_str(c), 'how': 'harness/C15.cpp kind 4'}
        if ii is None or ii[0] == -997:
            viol('crash:standard-from-turbo', 'the harness produced no answer (crash)', rep); continue
        if ii[0] == -1:
            viol('standard-mesh:resetFromTurbo-fresh-object-fails', 'MeshEStandard::resetFromTurbo on a freshly constructed MeshEStandard throws / fails '
                 '(the space dimension is not set before the consistency check)', rep); continue
        nap, nm, Pt, Ps = ii
        rt = [row_dict(r, undy) for r in Pt[2]]; rs = [row_dict(r, undy) for r in Ps[2]]
        ctx.count(sx_str(c), True)
        if Pt[0] != Ps[0] or Pt[1] != Ps[1]:
            viol('standard-from-turbo:dimensions', 'projection on the turbo meshing is %dx%d, on the standard meshing built from it %dx%d' % (Pt[0], Pt[1], Ps[0], Ps[1]), rep); continue
        for k in range(Pt[0]):
            w = rt[k]
            interior = w and len(w) == len(c[1]) + 1 and min(float(v) for v in w.values()) > 1e-4
            if interior and not rows_close(w, rs[k], 1e-9):
                viol('standard-from-turbo:row', 'sample %d: turbo row %s, standard row %s' % (k, fmt_row(w), fmt_row(rs[k])), rep); break

# ----------------------------------------------------------------------------- ProjConvolution
def check_convolution(ctx, exe, runner, viol):
    """ProjConvolution on small seismic grids: index shifts, mesh2point / point2mesh adjoint, add-variants accumulate; model kind 10"""
    rng = ctx.rng
    ncase = 14 if ctx.quick() else 120
    cases = []; short = []
    for k in range(ncase):
        nd = rng.choice([2, 3])
        nx = [rng.randint(2, 4) for _ in range(nd - 1)] + [rng.randint(3, 6)]
        dx = [rng.choice([F(1), F(1, 2), F(2)]) for _ in range(nd)]
        x0 = [F(rng.randint(-8, 8), 2) for _ in range(nd)]
        size = rng.choice([1, 3, 3, 5])
        if k % 7 == 6: nx[-1] = rng.randint(1, 2); size = 5     # fewer seismic samples than the half-length of the wavelet
        conv = [F(rng.randint(-8, 8), 8) for _ in range(size)]
        nres = [] if rng.random() < .4 else [rng.randint(2, 4) for _ in range(nd - 1)]
        gext = [] if rng.random() < .5 else [F(rng.randint(0, 4), 2) for _ in range(nd - 1)]
        v = [dy(F(rng.randint(-16, 16), 4)) for _ in range(7)]; y = [dy(F(rng.randint(-16, 16), 4)) for _ in range(5)]; d = [dy(F(rng.randint(-16, 16), 4)) for _ in range(3)]
        c = [5, nx, [dy(x) for x in dx], [dy(x) for x in x0], [dy(x) for x in conv], nres, [dy(x) for x in gext], v, y, d]
        (short if k % 7 == 6 else cases).append(c)
        ctx.dist('conv_%dd' % nd)
    short = [c for c in load_corpus(ctx) if c[0] == 5] + short
    results = []
    cf = write_cases(ctx, 'conv', cases)
    rc, impl = run_impl(ctx, exe, cf)
    results = [(c, impl[i] if i < len(impl) else None) for i, c in enumerate(cases)]
    for k, c in enumerate(short):          # each alone: the pinned code may read outside its arrays
        cf1 = write_cases(ctx, 'convshort%d' % k, [c]); rc1, r1 = run_impl(ctx, exe, cf1, timeout=120)
        results.append((c, r1[0] if r1 else None))
    mc = []; mi = []
    for k, (c, ii) in enumerate(results):
        rep = {'case': sx_str(c), 'how': 'harness/C15.cpp kind 5'}
        if ii is None or ii[0] == -997:
            if c[1][-1] < len(c[4]):     # same root as the wrong shifts: they are computed from the centre of a grid too short for the wavelet
                viol('proj-convolution:shift-vector', 'ProjConvolution with nz = %d seismic samples and a wavelet of length %d: the harness crashes '
                     '(index shifts computed outside the resolution grid)' % (c[1][-1], len(c[4])), rep)
            else:
                viol('crash:proj-convolution', 'ProjConvolution: the harness produced no answer (crash), nz = %d, wavelet length %d' % (c[1][-1], len(c[4])), rep)
            continue
        if ii[0] == -1: continue         # refused by the constructor
        nap, npt, sh, nxR, dxR, x0R, v, y, m2p, p2m, d1, a1, d2, a2 = ii
        size = len(c[4]); sliceR = math.prod(nxR)
        ctx.count(sx_str(c), True)
        if list(sh) != [j * sliceR for j in range(size)]:
            viol('proj-convolution:shift-vector', 'the index shifts of the vertical convolution are %s instead of %s (nz = %d, wavelet length %d)' %
                 (sh, [j * sliceR for j in range(size)], c[1][-1], size), rep); continue
        fv = lambda l: [float(undy(x)) if undy(x) is not None else float('nan') for x in l]
        vv, yy, mm, pp = fv(v), fv(y), fv(m2p), fv(p2m)
        lhs = sum(a * b for a, b in zip(mm, yy)); rhs = sum(a * b for a, b in zip(vv, pp))
        if not abs(lhs - rhs) <= 1e-10 * (1 + abs(lhs)):
            viol('proj-convolution:not-adjoint', '<A v, y> = %.17g but <v, A\'y> = %.17g' % (lhs, rhs), rep)
        w1 = [a + b for a, b in zip(fv(d1), mm)]; w2 = [a + b for a, b in zip(fv(d2), pp)]
        e1 = max(abs(a - b) for a, b in zip(fv(a1), w1)); e2 = max(abs(a - b) for a, b in zip(fv(a2), w2))
        if e1 > 1e-10 or e2 > 1e-10:
            viol('proj-convolution:add-overwrites-destination', 'ProjConvolution::addMesh2point / addPoint2mesh do not add to the destination '
                 '(differences %.3g, %.3g from destination + result)' % (e1, e2), rep)
        # model case: horizontal seismic nodes as points on the resolution turbo meshing
        nd = len(c[1]); nxs = c[1][:-1]; dxs = [undy(x) for x in c[2]][:-1]; x0s = [undy(x) for x in c[3]][:-1]
        pts = [[x0s[d] + t[d] * dxs[d] for d in range(nd - 1)] for t in [tt[::-1] for tt in itertools.product(*[range(n_) for n_ in nxs][::-1])]]
        mc.append([10, list(nxR), dxR, x0R, [[dy(x) for x in p] for p in pts], c[1][-1], c[4], v, y, d1, d2]); mi.append((c, mm, pp, sh, fv(a1), fv(a2)))
    if runner is None or not mc: return
    mf = write_cases(ctx, 'convmodel', mc)
    rc_m, mres = run_model(ctx, runner, mf)
    if len(mres) != len(mc): print('ERROR: model runner returned %d results for %d convolution cases' % (len(mres), len(mc))); sys.exit(3)
    for (c, mm, pp, sh, a1f, a2f), r in zip(mi, mres):
        if r and r[0] == -999: print('ERROR: model rejected a convolution case'); sys.exit(3)
        msh, mm2, mp2 = r[0], [float(unq(x)) for x in r[1]], [float(unq(x)) for x in r[2]]
        sc = 1 + max([abs(x) for x in mm2 + mp2] + [0.])
        if list(msh) != list(sh) or len(mm2) != len(mm) or len(mp2) != len(pp) or \
           max(abs(a - b) for a, b in zip(mm, mm2)) > 1e-10 * sc or max(abs(a - b) for a, b in zip(pp, mp2)) > 1e-10 * sc or \
           max(abs(a - float(unq(b))) for a, b in zip(a1f, r[4])) > 1e-10 * sc or max(abs(a - float(unq(b))) for a, b in zip(a2f, r[5])) > 1e-10 * sc:
            viol('model-drift:proj-convolution', 'impl and model differ on ProjConvolution (shifts %s / %s): correspondence coq/C15/ModelConv.v no longer checks' % (sh, msh),
                 {'case': sx_str(c)}, found=False)
        ctx.sample({'kind': 'convolution', 'shifts': list(sh)}, maxn=16)

# ----------------------------------------------------------------------------- ProjMulti
def check_multi(ctx, exe, hv, viol):
    """ProjMulti on 2 x 2 blocks of ProjMatrix (one block possibly absent): mesh2point / point2mesh are the blockwise sums,
    they are adjoint, and the add variants accumulate"""
    rng = ctx.rng
    ncase = 12 if ctx.quick() else 100
    specs = []
    for _ in range(ncase):
        nd = rng.choice([1, 2, 2, 3])
        tA = gen_turbo(rng, ndim=nd, maxn=4, allow_sel=False)
        # second meshing on the same domain: refined twice, other polarity (so that the samples fall in both)
        tB = dict(tA); tB['nx'] = [2 * k - 1 for k in tA['nx']]; tB['dx'] = [x / 2 for x in tA['dx']]; tB['pol'] = not tA['pol']
        specs.append((tA, tB))
        for t in specs[-1]:
            if t['ang']: hv.ask(t['n'], t['ang'])
    hv.run(ctx, exe)
    cases = []
    for tA, tB in specs:
        MA = turbo_M(tA, hv)
        pA = [point_of_u(tA, MA, gen_point_u(rng, tA, 'inside')) for _ in range(rng.randint(2, 4))]
        pB = [point_of_u(tA, MA, gen_point_u(rng, tA, rng.choice(['inside', 'any']))) for _ in range(rng.randint(2, 4))]
        vec = lambda k: [dy(F(rng.randint(-16, 16), 4)) for _ in range(k)]
        cases.append([11, turbo_sx(tA, hv), turbo_sx(tB, hv), [[dy(x) for x in p] for p in pA], [[dy(x) for x in p] for p in pB],
                      rng.choice([0, 0, 1, 2]), vec(7), vec(5), vec(3), vec(4)])
        ctx.dist('multi_%dd' % tA['n'])
    cf = write_cases(ctx, 'multi', cases)
    rc, impl = run_impl(ctx, exe, cf)
    for i, c in enumerate(cases):
        ii = impl[i] if i < len(impl) else None
        rep = {'case': sx_str(c), 'how': 'harness/C15.cpp kind 11'}
        if ii is None or ii[0] == -997:
            viol('crash:proj-multi', 'ProjMulti: the harness produced no answer (crash)', rep); continue
        nap, npt, blocks, v, y, m2p, p2m, d1, a1, d2, a2 = ii
        fv = lambda l: [float(undy(x)) if undy(x) is not None else float('nan') for x in l]
        B = [[None, None], [None, None]]
        for k, b in enumerate(blocks):
            nr, nc, rows = b
            D = [[0.] * nc for _ in range(nr)]
            for r, row in enumerate(rows):
                for e in row: D[r][e[0]] = float(undy(e[1]))
            B[k // 2][k % 2] = D
        if c[5] == 1: B[1][0] = None
        if c[5] == 2: B[0][1] = None
        npts = [len(B[0][0]), len(B[1][1])]; naps = [len(B[0][0][0]) if B[0][0] else 0, len(B[1][1][0]) if B[1][1] else 0]
        ctx.count(sx_str(c), True)
        if nap != sum(naps) or npt != sum(npts):
            viol('proj-multi:dimensions', 'ProjMulti has %d apices / %d points, its blocks give %d / %d' % (nap, npt, sum(naps), sum(npts)), rep); continue
        vv, yy = fv(v), fv(y)
        vs = [vv[:naps[0]], vv[naps[0]:]]; ys = [yy[:npts[0]], yy[npts[0]:]]
        m_ref = []; p_ref = []
        for bi in range(2):
            for r in range(npts[bi]):
                m_ref.append(sum(sum(B[bi][bj][r][a] * vs[bj][a] for a in range(naps[bj])) for bj in range(2) if B[bi][bj] is not None))
        for bj in range(2):
            for a in range(naps[bj]):
                p_ref.append(sum(sum(B[bi][bj][r][a] * ys[bi][r] for r in range(npts[bi])) for bi in range(2) if B[bi][bj] is not None))
        mm, pp = fv(m2p), fv(p2m)
        sc = 1 + max(abs(x) for x in m_ref + p_ref)
        if max(abs(a - b) for a, b in zip(mm, m_ref)) > 1e-11 * sc:
            viol('proj-multi:mesh2point', 'ProjMulti::mesh2point differs from the blockwise sums A_ij v_j', rep)
        if max(abs(a - b) for a, b in zip(pp, p_ref)) > 1e-11 * sc:
            viol('proj-multi:point2mesh', 'ProjMulti::point2mesh differs from the blockwise sums A_ij\' y_i', rep)
        lhs = sum(a * b for a, b in zip(mm, yy)); rhs = sum(a * b for a, b in zip(vv, pp))
        if not abs(lhs - rhs) <= 1e-10 * (1 + abs(lhs)): viol('proj-multi:not-adjoint', '<A v, y> = %.17g but <v, A\'y> = %.17g' % (lhs, rhs), rep)
        e1 = max(abs(a - (b + m)) for a, b, m in zip(fv(a1), fv(d1), mm)); e2 = max(abs(a - (b + m)) for a, b, m in zip(fv(a2), fv(d2), pp))
        if e1 > 1e-10 * sc or e2 > 1e-10 * sc:
            viol('proj-multi:add-does-not-accumulate', 'ProjMulti::addMesh2point / addPoint2mesh differ from destination + result by %.3g, %.3g' % (e1, e2), rep)
        ctx.sample({'kind': 'multi', 'absent_block': c[5], 'nap': nap, 'npt': npt}, maxn=18)

# ----------------------------------------------------------------------------- precision operators
def gen_mesh_for_ops(rng, hv, tab, maxnodes):
    if rng.random() < .75:
        while True:
            ts = gen_turbo(rng, maxn=5, allow_sel=rng.random() < .3)
            if math.prod(ts['nx']) <= maxnodes: break
        if ts['ang']: hv.ask(ts['n'], ts['ang'])
        return ('turbo', ts)
    while True:
        sm = gen_standard(rng, tab)
        # every apex must belong to a mesh (the lumped mass of an isolated apex is zero: division by zero in S)
        used = set(v for m in sm['meshes'] for v in m)
        if len(used) == len(sm['ap']) and len(sm['ap']) <= maxnodes: return ('standard', sm)
def mesh_sx(kind, m, hv):
    if kind == 'turbo': return [0] + turbo_sx(m, hv)
    return [1, m['n'], [[dy(x) for x in a] for a in m['ap']], m['meshes']]

def check_operators(ctx, exe, runner, hv, viol):
    quick = ctx.quick(); rng = ctx.rng
    ncase = 40 if quick else 400
    maxnodes = 30 if quick else 48
    specs = [gen_mesh_for_ops(rng, hv, ctx.tab, maxnodes) for _ in range(ncase)]
    hv.run(ctx, exe)
    cases = []
    for kind, m in specs:
        cv = gen_cov(rng, m['n'], nostat=rng.random() < .35)
        nn = 64
        if cv.get('spiral'): ctx.dist('op_nonstationary_angle')
        v = [dy(F(rng.randint(-64, 64), 16)) for _ in range(nn)]
        dst = [dy(F(rng.randint(-64, 64), 16)) for _ in range(nn)]
        cases.append([2, mesh_sx(kind, m, hv), cov_sx(cv), v, dst])
        ctx.dist('op_%s_%dd' % (kind, m['n'])); ctx.dist('op_nu_%s' % cv['param'])
    cases = [c for c in load_corpus(ctx) if c[0] == 2] + cases
    cf = write_cases(ctx, 'ops', cases)
    rc_i, impl = run_impl(ctx, exe, cf, timeout=900)
    mcases = []; midx = []
    H = []
    for i, c in enumerate(cases):
        ii = impl[i] if i < len(impl) else None
        if ii is None or (ii and ii[0] == -997):
            viol('crash:precision-op', 'the harness produced no answer (crash) while building the precision operators', {'case': sx_str(c)}); H.append(None); continue
        n, S, lam, cf_, free, cs, train, Q, dfree, dcs, S2, lam2, cf2, v, dst0, addf, addc, Ainv, scales, femesh, tildec, correc, sill, permesh = ii
        h = {'n': n, 'S': [[undy(x) for x in r] for r in S], 'lam': [undy(x) for x in lam], 'c': [undy(x) for x in cf_],
             'free': [undy(x) for x in free], 'cs': [undy(x) for x in cs], 'train': [undy(x) for x in train],
             'Q': [[undy(x) for x in r] for r in Q], 'dfree': [undy(x) for x in dfree], 'dcs': [undy(x) for x in dcs], 'v': [undy(x) for x in v],
             'same': S == S2 and lam == lam2 and cf_ == cf2,
             'dst': [undy(x) for x in dst0], 'addf': [undy(x) for x in addf], 'addc': [undy(x) for x in addc],
             'Ainv': [[undy(x) for x in r] for r in Ainv], 'scales': [undy(x) for x in scales], 'femesh': femesh,
             'tildec': [undy(x) for x in tildec], 'correc': undy(correc), 'sill': undy(sill), 'ndim': len(scales),
             'permesh': [([[undy(x) for x in r] for r in pm_[0]], [undy(x) for x in pm_[1]]) for pm_ in permesh]}
        H.append(h)
        if any(x is None for r in h['S'] for x in r) or any(x is None for x in h['lam']):
            viol('precision-op:undefined-shift-operator', 'S or Lambda holds undefined values', {'case': sx_str(c)}); H[-1] = None; continue
        mcases.append([2, n, S, lam, cf_, v, dst0]); midx.append(i)
    shift_model = check_shift_assembly(ctx, runner, cases, H, viol)
    model = {}
    if runner is not None and mcases:
        mf = write_cases(ctx, 'opsmodel', mcases)
        rc_m, mres = run_model(ctx, runner, mf)
        if len(mres) != len(mcases): print('ERROR: model runner returned %d results for %d operator cases' % (len(mres), len(mcases))); sys.exit(3)
        for i, r in zip(midx, mres): model[i] = r
    for i, c in enumerate(cases):
        h = H[i]
        if h is None: continue
        n = h['n']; Q = h['Q']; v = h['v']
        qn = max(sum(abs(float(x)) for x in r) for r in Q); vn = max(abs(float(x)) for x in v) or 1.
        scale = qn * vn
        rep = {'case': sx_str(c)}
        def vdiff(a, b): return max(abs(float(x) - float(y)) for x, y in zip(a, b))
        # ---- property on impl
        if not h['same']: viol('precision-op:two-constructions-differ', 'PrecisionOp and PrecisionOpCs built from the same mesh and model hold different S, Lambda or coefficients', rep)
        if vdiff(h['free'], h['cs']) > 1e-10 * scale:
            viol('precision-op:free-vs-assembled', 'PrecisionOp::evalDirect and PrecisionOpCs::getQ().v differ by %.3g (|Q||v| = %.3g)' % (vdiff(h['free'], h['cs']), scale), rep)
        Qv = [sum(float(Q[a][b]) * float(v[b]) for b in range(n)) for a in range(n)]
        if vdiff(h['cs'], Qv) > 1e-10 * scale:
            viol('precision-op:evalDirect-vs-getQ', 'PrecisionOpCs::evalDirect(v) differs from getQ() times v by %.3g' % vdiff(h['cs'], Qv), rep)
        if vdiff(h['train'], h['free']) > 1e-10 * scale:
            viol('precision-op:training-path', 'PrecisionOp::evalDirect with training differs from the plain evaluation by %.3g' % vdiff(h['train'], h['free']), rep)
        asym = max(abs(Q[a][b] - Q[b][a]) for a in range(n) for b in range(n))
        qmax = max(abs(x) for r in Q for x in r)
        # diag(L) Q diag(L) and D^-1/2 S D^-1/2 are evaluated entry by entry: (d_i q_ij) d_j and (d_j q_ji) d_i round differently (a few ulps)
        if asym > 1e-13 * qmax: viol('precision-op:Q-not-symmetric', 'getQ() is not symmetric: largest |Q_ij - Q_ji| = %.3g (max |Q_ij| %.3g)' % (float(asym), float(qmax)), rep)
        if asym != 0: ctx.cov['Q_rounding_asymmetry_max_rel'] = max(ctx.cov.get('Q_rounding_asymmetry_max_rel', 0.), float(asym / qmax))
        Qs = [[(Q[a][b] + Q[b][a]) / 2 for b in range(n)] for a in range(n)]
        piv = ldl_pivots(Qs, exact=n <= 26)
        if len(piv) < n or piv[-1] <= 0:
            viol('precision-op:Q-not-positive-definite', 'getQ(): pivot %d of the LDL\' factorisation is %.3g' % (len(piv) - 1, float(piv[-1])), rep)
        dq = [Q[a][a] for a in range(n)]
        if vdiff(h['dfree'], dq) > 1e-10 * qn or vdiff(h['dcs'], dq) > 1e-10 * qn:
            viol('precision-op:extractDiag', 'extractDiag differs from the diagonal of Q: matrix-free %.3g, assembled %.3g' % (vdiff(h['dfree'], dq), vdiff(h['dcs'], dq)), rep)
        # addToDest contract (ALinearOp): destination + Q.v for both forms
        want = [float(h['dst'][a]) + Qv[a] for a in range(n)]
        dn = scale + max(abs(float(x)) for x in h['dst'])
        if vdiff(h['addc'], want) > 1e-10 * dn:
            viol('precision-op:addToDest-assembled', 'PrecisionOpCs::addToDest(v, d) differs from d + Q.v by %.3g' % vdiff(h['addc'], want), rep)
        if vdiff(h['addf'], want) > 1e-10 * dn:
            viol('precision-op:addToDest-matrix-free-overwrites-destination',
                 'PrecisionOp::addToDest(v, d) differs from d + Q.v by %.3g: it returns %s' % (vdiff(h['addf'], want),
                 'Q.v (the destination is overwritten)' if vdiff(h['addf'], Qv) <= 1e-10 * dn else 'something else'), rep)
        hyp = all(x >= 0 for x in h['c']) and h['c'][0] > 0 and all(x > 0 for x in h['lam'])
        if not hyp: ctx.notes.append('hypotheses of C15_Q_pd not met on an operator case (coefficients %s)' % [float(x) for x in h['c']])
        ctx.count(sx_str(c), True)
        # ---- impl vs model
        if i not in model: continue
        m = model[i]
        if m and m[0] == -999: print('ERROR: model rejected operator case'); sys.exit(3)
        mfree, masm, mcum, mtrain, mhorner, mQ = [[unq(x) for x in m[k]] for k in range(5)] + [[[unq(x) for x in r] for r in m[5]]]
        maddf, maddc = [unq(x) for x in m[6]], [unq(x) for x in m[7]]
        if (vdiff(h['addf'], maddf) > 1e-10 * dn or vdiff(h['addc'], maddc) > 1e-10 * dn) and vdiff(h['addf'], want) <= 1e-10 * dn and vdiff(h['addc'], want) <= 1e-10 * dn:
            viol('model-drift:precision-op:addToDest', 'impl and model differ on addToDest (matrix-free %.3g, assembled %.3g): correspondence coq/C15/ModelOp.v '
                 'no longer checks' % (vdiff(h['addf'], maddf), vdiff(h['addc'], maddc)), rep, found=False)
        if mfree != masm or mtrain != mfree:
            viol('model-internal:free-vs-assembled', 'the model\'s two forms differ exactly (theorem C15_free_eq_assembled would be false)', rep, found=False)
        d1 = vdiff(h['free'], mfree); d2 = vdiff(h['cs'], masm)
        dQ = max(abs(float(Q[a][b]) - float(mQ[a][b])) for a in range(n) for b in range(n))
        impl_consistent = vdiff(h['free'], h['cs']) <= 1e-10 * scale and vdiff(h['cs'], Qv) <= 1e-10 * scale
        if (d1 > 1e-10 * scale or d2 > 1e-10 * scale or dQ > 1e-10 * qn) and impl_consistent:
            which = 'evalDirect' if d1 > 1e-10 * scale else ('build_Q' if dQ > 1e-10 * qn else 'Q.v')
            viol('model-drift:precision-op:' + which, 'impl and model differ (matrix-free %.3g, assembled %.3g, entries of Q %.3g; scale %.3g) while both impl forms agree: '
                 'correspondence coq/C15/ModelOp.v no longer checks' % (d1, d2, dQ, scale), rep, found=False)
        ctx.sample({'kind': 'operator', 'n': n, 'coeffs': [float(x) for x in h['c']], 'free_vs_model': d1, 'assembled_vs_model': d2, 'scale': scale}, maxn=8)

def fe_assemble(nd, n, femesh, params):
    """stiffness sum_k vol_k grad(phi_a)' H_k grad(phi_b) / sqrt(det H_k) and lumped mass vol_k / (nd+1) / sqrt(det H_k), in floating point"""
    S = [[0.] * n for _ in range(n)]; C = [0.] * n
    for (ap, cs), (A_, sc_) in zip(femesh, params):
        Hk = [[sum(float(A_[k][a]) * float(sc_[k]) ** 2 * float(A_[k][b]) for k in range(nd)) for b in range(nd)] for a in range(nd)]
        P = [[float(undy(x)) for x in c] for c in cs]
        # gradients of the barycentric functions: rows of the inverse of [x_c ; 1]
        Mx = [[P[c][d] for c in range(nd + 1)] for d in range(nd)] + [[1.] * (nd + 1)]
        G = [solve_float(Mx, [1. if r == d else 0. for r in range(nd + 1)]) for d in range(nd)]     # G[d][c] = d(lambda_c)/dx_d
        E = [[P[k][d] - P[nd][d] for d in range(nd)] for k in range(nd)]
        if nd == 1: dm = E[0][0]; dh = Hk[0][0]
        elif nd == 2: dm = E[0][0] * E[1][1] - E[0][1] * E[1][0]; dh = Hk[0][0] * Hk[1][1] - Hk[0][1] * Hk[1][0]
        else:
            det3 = lambda M_: (M_[0][0] * (M_[1][1] * M_[2][2] - M_[1][2] * M_[2][1]) - M_[0][1] * (M_[1][0] * M_[2][2] - M_[1][2] * M_[2][0])
                               + M_[0][2] * (M_[1][0] * M_[2][1] - M_[1][1] * M_[2][0]))
            dm = det3(E); dh = det3(Hk)
        vol = abs(dm) / math.factorial(nd) / math.sqrt(dh)
        for a in range(nd + 1):
            C[ap[a]] += vol / (nd + 1)
            for b in range(nd + 1):
                S[ap[a]][ap[b]] += vol * sum(G[d][a] * Hk[d][e] * G[e][b] for d in range(nd) for e in range(nd))
    return S, C

def check_shift_assembly(ctx, runner, cases, H, viol):
    """finite-element assembly of S / TildeC / Lambda from the anisotropy and the mesh, and the Markov coefficients:
    model (exact, kinds 6 and 7) vs the harvested S, TildeC, Lambda, coefficients; mass property on impl"""
    mc = []; idx = []
    for i, h in enumerate(H):
        if h is None: continue
        nd = h['ndim']; A = h['Ainv']; sc = h['scales']
        Hh = [[sum(A[k][a] * sc[k] * sc[k] * A[k][b] for k in range(nd)) for b in range(nd)] for a in range(nd)]
        if nd == 1: det = Hh[0][0]
        elif nd == 2: det = Hh[0][0] * Hh[1][1] - Hh[0][1] * Hh[1][0]
        else: det = (Hh[0][0] * (Hh[1][1] * Hh[2][2] - Hh[1][2] * Hh[2][1]) - Hh[0][1] * (Hh[1][0] * Hh[2][2] - Hh[1][2] * Hh[2][0])
                     + Hh[0][2] * (Hh[1][0] * Hh[2][1] - Hh[1][1] * Hh[2][0]))
        h['rt'] = F(math.sqrt(1. / float(det)))
        h['dethh'] = det
        def det_of(A_, sc_):
            Hk = [[sum(A_[k][a] * sc_[k] * sc_[k] * A_[k][b] for k in range(nd)) for b in range(nd)] for a in range(nd)]
            if nd == 1: return Hk[0][0]
            if nd == 2: return Hk[0][0] * Hk[1][1] - Hk[0][1] * Hk[1][0]
            return (Hk[0][0] * (Hk[1][1] * Hk[2][2] - Hk[1][2] * Hk[2][1]) - Hk[0][1] * (Hk[1][0] * Hk[2][2] - Hk[1][2] * Hk[2][0])
                    + Hk[0][2] * (Hk[1][0] * Hk[2][1] - Hk[1][1] * Hk[2][0]))
        if h['permesh']:
            h['rts'] = [F(math.sqrt(1. / float(det_of(A_, sc_)))) for A_, sc_ in h['permesh']]
            mc.append([12, nd, h['n'], [[[[dy(x) for x in r] for r in A_], [dy(x) for x in sc_], dy(rt_)] for (A_, sc_), rt_ in zip(h['permesh'], h['rts'])],
                       h['femesh']]); idx.append(i)
        else:
            h['rts'] = None
            mc.append([6, nd, h['n'], [[dy(x) for x in r] for r in A], [dy(x) for x in sc], dy(h['rt']), h['femesh']]); idx.append(i)
        # Markov coefficients: p = nu + ndim/2
        nu = undy(cases[i][2][0]); p = nu + F(nd, 2)
        h['p'] = int(p) if p.denominator == 1 else None
        mc.append([7, h['p'] if h['p'] is not None else 0]); idx.append(i)
        # ---- property on impl: the lumped masses are positive and add up to rt x (volume of the meshing)
        nfac = math.factorial(nd)
        vol = F(0); wvol = 0.
        for km_, (ap, cs) in enumerate(h['femesh']):
            P = [[undy(x) for x in c] for c in cs]
            E = [[P[k][d] - P[nd][d] for d in range(nd)] for k in range(nd)]
            if nd == 1: dm = E[0][0]
            elif nd == 2: dm = E[0][0] * E[1][1] - E[0][1] * E[1][0]
            else: dm = (E[0][0] * (E[1][1] * E[2][2] - E[1][2] * E[2][1]) - E[0][1] * (E[1][0] * E[2][2] - E[1][2] * E[2][0])
                        + E[0][2] * (E[1][0] * E[2][1] - E[1][1] * E[2][0]))
            vol += abs(dm) / nfac
            wvol += float(abs(dm) / nfac) * float(h['rts'][km_] if h['rts'] else h['rt'])
        h['vol'] = vol
        # ---- property on impl: S and TildeC are the finite-element matrices (independent evaluation in floating point)
        if all(x > 0 for x in h['tildec']):
            Sfe, Cfe = fe_assemble(nd, h['n'], h['femesh'], h['permesh'] if h['permesh'] else [(A, sc)] * len(h['femesh']))
            sqc = [math.sqrt(float(x)) for x in h['tildec']]
            dfe = max(abs(float(h['S'][a][b]) * sqc[a] * sqc[b] - Sfe[a][b]) for a in range(h['n']) for b in range(h['n']))
            gmax = max(abs(x) for r in Sfe for x in r) or 1.
            cfe = max(abs(float(h['tildec'][a]) - Cfe[a]) / Cfe[a] for a in range(h['n']))
            if dfe > 1e-9 * gmax or cfe > 1e-9:
                viol('shiftop:not-the-finite-element-matrices', 'S / TildeC differ from the finite-element stiffness and lumped mass of the meshing with the '
                     'anisotropy of each mesh: stiffness %.3g (max %.3g), mass %.3g (relative)' % (dfe, gmax, cfe), {'case': sx_str(cases[i])})
        mass = sum(float(x) for x in h['tildec'])
        want = wvol
        rep = {'case': sx_str(cases[i]), 'sum_TildeC': mass, 'sqrt(1/det H) x volume': want}
        if any(x <= 0 for x in h['tildec']): viol('shiftop:lumped-mass-not-positive', 'an entry of TildeC is not positive', rep)
        # S = D G D with D = TildeC^-1/2: S symmetric (to rounding) and constants in the kernel of G, i.e. S . sqrt(TildeC) = 0
        nn = h['n']; Sx = h['S']; sq = [math.sqrt(float(x)) for x in h['tildec']] if all(x > 0 for x in h['tildec']) else None
        smax_ = max(abs(float(x)) for row in Sx for x in row) or 1.
        asym_ = max(abs(float(Sx[a][b]) - float(Sx[b][a])) for a in range(nn) for b in range(nn))
        if asym_ > 1e-12 * smax_: viol('shiftop:S-not-symmetric', 'the shift operator S is not symmetric: largest |S_ij - S_ji| = %.3g (max |S_ij| = %.3g)' % (asym_, smax_), rep)
        if sq:
            ker = max(abs(sum(float(Sx[a][b]) * sq[b] for b in range(nn))) for a in range(nn))
            if ker > 1e-10 * smax_ * max(sq) * nn:
                viol('shiftop:constants-not-in-kernel', 'S . sqrt(TildeC) should vanish (row sums of the stiffness matrix): largest entry %.3g' % ker, rep)
        if abs(mass - want) > 1e-9 * want:
            viol('shiftop:lumped-mass-not-the-mesh-volume:%dd' % nd, 'the lumped masses TildeC add up to %.12g, the volume of the meshing (in the metric of the '
                 'model) is %.12g: ratio %.6g (ShiftOpCs::_buildS divides by 6 and 2 whatever the dimension)' % (mass, want, mass / want), rep)
    out = {}
    if runner is None or not mc: return out
    mf = write_cases(ctx, 'shiftmodel', mc)
    rc_m, mres = run_model(ctx, runner, mf)
    if len(mres) != len(mc): print('ERROR: model runner returned %d results for %d assembly cases' % (len(mres), len(mc))); sys.exit(3)
    for (i, c, r) in zip(idx, mc, mres):
        h = H[i]; rep = {'case': sx_str(cases[i]), 'model_case': sx_str(c)[:2000]}
        if r and r[0] == -999: print('ERROR: model rejected an assembly case'); sys.exit(3)
        if c[0] == 7:
            if h['p'] is None: continue
            mco = [unq(x) for x in r[0]]
            # ut_cnp evaluates the binomial coefficients in floating point (3.0000000000000004 for C(3,1)): compared to 1e-12
            if len(mco) != len(h['c']) or any(abs(float(a) - float(b)) > 1e-12 * float(a) for a, b in zip(mco, h['c'])):
                viol('precision-op:markov-coefficients', 'the polynomial coefficients of the precision operator are %s, the binomial coefficients of (1+x)^%d are %s'
                     % ([float(x) for x in h['c']], h['p'], [float(x) for x in mco]), rep)
            continue
        if r[0] != 1:
            viol('model-drift:shiftop:degenerate-element', 'the model cannot invert an element matrix of a meshing the library accepts', rep, found=False); continue
        n = h['n']
        Sraw = [[unq(x) for x in row] for row in r[1]]; tc = [unq(x) for x in r[2]]
        out[i] = (Sraw, tc)
        # exact structural facts of the model output (the theorems, observed)
        if any(Sraw[a][b] != Sraw[b][a] for a in range(n) for b in range(n)) or any(sum(Sraw[a]) != 0 for a in range(n)):
            viol('model-internal:shiftop', 'the modelled stiffness matrix is not symmetric with vanishing row sums', rep, found=False)
        # correspondence
        dt = max(abs(float(h['tildec'][a]) - float(tc[a])) / float(tc[a]) for a in range(n))
        dS = 0.; smax = max(abs(float(x)) for row in h['S'] for x in row)
        for a in range(n):
            for b in range(n):
                dS = max(dS, abs(float(h['S'][a][b]) - float(Sraw[a][b]) / math.sqrt(float(tc[a]) * float(tc[b]))))
        dl = max(abs(float(h['lam'][a]) - math.sqrt(float(tc[a]) * float(h['correc']) / float(h['sill']))) / float(h['lam'][a]) for a in range(n))
        if dt > 1e-10 or dS > 1e-10 * smax or dl > 1e-10:
            which = 'TildeC' if dt > 1e-10 else ('S' if dS > 1e-10 * smax else 'Lambda')
            viol('model-drift:shiftop:' + which, 'harvested and modelled assembly differ: TildeC %.3g (relative), S %.3g (max |S| %.3g), Lambda %.3g (relative): '
                 'correspondence coq/C15/ModelShift.v vs ShiftOpCs::_buildS / _buildLambda no longer checks' % (dt, dS, smax, dl), rep, found=False)
        ctx.count(sx_str(c)[:400], True)
        ctx.sample({'kind': 'assembly', 'n': n, 'ndim': h['ndim'], 'TildeC_rel': dt, 'S_abs': dS, 'Lambda_rel': dl}, maxn=10)
    return out

# ----------------------------------------------------------------------------- solvers (runtime evidence)
def check_solvers(ctx, exe, runner, hv, viol):
    quick = ctx.quick(); rng = ctx.rng
    ncase = 16 if quick else 150
    specs = []
    for _ in range(ncase):
        while True:
            ts = gen_turbo(rng, ndim=rng.choice([1, 2, 2, 3]), maxn=5, allow_sel=False)
            if 4 <= math.prod(ts['nx']) <= 40: break
        if ts['ang']: hv.ask(ts['n'], ts['ang'])
        specs.append(ts)
    hv.run(ctx, exe)
    cases = []
    for ts in specs:
        M = turbo_M(ts, hv)
        cv = gen_cov(rng, ts['n'])
        nd = rng.randint(2, 7)
        pts = [point_of_u(ts, M, gen_point_u(rng, ts, 'inside')) for _ in range(nd)]
        z = [F(rng.randint(-32, 32), 8) for _ in range(nd)]
        var = rng.choice([F(1, 16), F(1, 4), F(1), F(1, 64)])
        pout = [point_of_u(ts, M, gen_point_u(rng, ts, 'inside')) for _ in range(rng.randint(2, 5))]
        cases.append([3, [0] + turbo_sx(ts, hv), cov_sx(cv), [[dy(x) for x in p] for p in pts], [dy(x) for x in z], dy(var), [[dy(x) for x in p] for p in pout]])
        ctx.dist('solve_%dd' % ts['n'])
    cf = write_cases(ctx, 'solve', cases)
    rc_i, impl = run_impl(ctx, exe, cf, timeout=900)
    # exact kriging system in the model: A from the model's own projection, Q = Lambda P(S) Lambda from the harvested S, Lambda
    kmodel = {}
    if runner is not None:
        kc = []; kidx = []
        nmax = 26 if quick else 40
        for i, c in enumerate(cases):
            ii = impl[i] if i < len(impl) else None
            if ii is None or ii[0] == -997 or ii[0] > nmax: continue
            nd_ = ii[1]
            kc.append([8] + c[1][1:7] + [c[3], ii[0], ii[-5], ii[-4], ii[-3], [c[5]] * nd_, c[4]]); kidx.append(i)
        if kc:
            kf = write_cases(ctx, 'krigmodel', kc)
            rc_m, kres = run_model(ctx, runner, kf, jobs=min(NPROC, len(kc)))
            if len(kres) != len(kc): print('ERROR: model runner returned %d results for %d kriging cases' % (len(kres), len(kc))); sys.exit(3)
            for i, r in zip(kidx, kres):
                if r and r[0] == -999: print('ERROR: model rejected a kriging case'); sys.exit(3)
                kmodel[i] = r
    for i, c in enumerate(cases):
        ii = impl[i] if i < len(impl) else None
        rep = {'case': sx_str(c)}
        if ii is None or (ii and ii[0] == -997):
            viol('crash:spde-solve', 'the harness produced no answer (crash) on a conditional solve', rep); continue
        n, ndat, Q, A, rhs, xc, xf, qc, qf, ldc, y1, kc, kf, q1, q0, ld1, var_api, ll1, ll0, Aout, ncg, kn1, kn0, var_new, Sd, lamd, cfd, m2p, p2m = ii
        Q = [[float(undy(x)) for x in r] for r in Q]
        var = float(undy(c[5])); z = [float(undy(x)) for x in c[4]]
        Ad = [[0.] * n for _ in range(ndat)]
        for r, row in enumerate(A[2]):
            for e in row: Ad[r][e[0]] = float(undy(e[1]))
        def cond_matrix(s2): return [[Q[a][b] + sum(Ad[r][a] * Ad[r][b] for r in range(ndat)) / s2 for b in range(n)] for a in range(n)]
        Mm = cond_matrix(var)
        b = [float(undy(x)) for x in rhs]
        b_ref = [sum(Ad[r][a] * z[r] for r in range(ndat)) / var for a in range(n)]
        nb = math.sqrt(sum(x * x for x in b)) or 1.
        if max(abs(x - y) for x, y in zip(b, b_ref)) > 1e-10 * (1 + nb):
            viol('spde-solve:rhs', 'computeRhs differs from A\'z/s2', rep)
        def resid(x): return math.sqrt(sum((sum(Mm[a][k] * x[k] for k in range(n)) - b[a]) ** 2 for a in range(n)))
        xcv = [float(undy(x)) for x in xc]; xfv = [float(undy(x)) for x in xf]
        mn = max(sum(abs(x) for x in r) for r in Mm)
        rc = resid(xcv); rf = resid(xfv)
        if not rc <= 1e-9 * (mn * max(abs(x) for x in xcv) + nb):
            viol('spde-solve:cholesky-residual', 'the Cholesky solution leaves a residual %.3g (|b| = %.3g)' % (rc, nb), rep)
        # the conjugate gradient of ALinearOpMulti stops when |r|^2 / |b| <= 1e-8 (its own criterion); 1000 iterations at most
        if not rf * rf <= 10 * 1e-8 * nb:
            viol('spde-solve:cg-residual', 'the conjugate-gradient solution leaves |r|^2/|b| = %.3g > 1e-8 (iterations %d)' % (rf * rf / nb, ncg), rep)
        xs = solve_float(Mm, b)
        lam_min_bound = None
        err_c = max(abs(x - y) for x, y in zip(xcv, xs)); err_f = max(abs(x - y) for x, y in zip(xfv, xs))
        xn = 1 + max(abs(x) for x in xs)
        # |x_cg - x| <= |M^-1| |r| ; |M^-1| is estimated by solving M e = r
        e = solve_float(Mm, [sum(Mm[a][k] * xfv[k] for k in range(n)) - b[a] for a in range(n)])
        if err_c > 1e-8 * xn: viol('spde-solve:cholesky-vs-exact', 'the Cholesky solution differs from the solution of the system by %.3g' % err_c, rep)
        if err_f > 10 * max(abs(t) for t in e) + 1e-9 * xn:
            viol('spde-solve:cg-vs-cholesky', 'conjugate gradient and Cholesky disagree by %.3g, more than the residual explains' % err_f, rep)
        # quadratic forms z' Sigma^-1 z both ways
        qcv, qfv = float(undy(qc)), float(undy(qf))
        q_ref = sum(z[r] * z[r] for r in range(ndat)) / var - sum(b[a] * xs[a] for a in range(n))
        if abs(qcv - q_ref) > 1e-8 * (1 + abs(q_ref)): viol('spde-solve:quadratic-cholesky', 'computeQuadratic (Cholesky) %.12g, from the system %.12g' % (qcv, q_ref), rep)
        if abs(qfv - q_ref) > 1e-3 * (1 + abs(q_ref)): viol('spde-solve:quadratic-cg', 'computeQuadratic (CG) %.12g, from the system %.12g' % (qfv, q_ref), rep)
        # log-determinant of the conditional operator through Cholesky
        pv = ldl_pivots(Mm, exact=False)
        if len(pv) == n and pv[-1] > 0:
            ld_ref = sum(math.log(p) for p in pv)
            if abs(float(undy(ldc)) - ld_ref) > 1e-8 * (1 + abs(ld_ref)): viol('spde-solve:logdet-cholesky', 'computeLogDetOp %.12g, from the matrix %.12g' % (float(undy(ldc)), ld_ref), rep)
        # single operator inverse
        y = [float(undy(x)) for x in y1]
        ry = math.sqrt(sum((sum(Q[a][k] * y[k] for k in range(n)) - b[a]) ** 2 for a in range(n)))
        qn = max(sum(abs(x) for x in r) for r in Q)
        if not ry <= 1e-9 * (qn * max(abs(t) for t in y) + nb): viol('spde-solve:Q-inverse-residual', 'PrecisionOpCs::evalInverse leaves a residual %.3g' % ry, rep)
        # kriging through the API: solution of the system with the API's own data variance, projected on the targets
        s2 = float(undy(var_api))
        Ma = cond_matrix(s2); ba = [sum(Ad[r][a] * z[r] for r in range(ndat)) / s2 for a in range(n)]
        xa = solve_float(Ma, ba)
        nout = Aout[0]; Ao = [[0.] * n for _ in range(nout)]
        for r, row in enumerate(Aout[2]):
            for e_ in row: Ao[r][e_[0]] = float(undy(e_[1]))
        k_ref = [sum(Ao[r][a] * xa[a] for a in range(n)) for r in range(nout)]
        kcv = [float(undy(x)) for x in kc]; kfv = [float(undy(x)) for x in kf]
        ks = 1 + max(abs(x) for x in k_ref)
        if max(abs(x - y) for x, y in zip(kcv, k_ref)) > 1e-8 * ks:
            viol('spde-kriging:cholesky', 'krigingSPDE (Cholesky) differs from A_out (Q + A\'A/s2)^-1 A\'z/s2 by %.3g' % max(abs(x - y) for x, y in zip(kcv, k_ref)), rep)
        # the API's conjugate gradient stops when |r|^2 <= 1e-8 |b|: the error on x is at most |M^-1| |r|
        inva = [solve_float(Ma, [1. if a == k else 0. for a in range(n)]) for k in range(n)]
        ninva = max(sum(abs(inva[k][a]) for k in range(n)) for a in range(n))
        nba = math.sqrt(sum(x * x for x in ba))
        amax = max([sum(abs(x) for x in r) for r in Ao] + [1.])
        tol_cg = 3 * amax * ninva * 1e-4 * math.sqrt(nba) + 1e-8 * ks
        if max(abs(x - y) for x, y in zip(kfv, k_ref)) > tol_cg:
            viol('spde-kriging:cg', 'krigingSPDE (conjugate gradient) differs from the Cholesky result by %.3g' % max(abs(x - y) for x, y in zip(kfv, kcv)), rep)
        # krigingSPDENew (SPDEOpMatrix / matrix-free SPDEOp with Eigen CG, tolerance 1e-5): same system with the nugget as data variance
        s2n = float(undy(var_new))
        xn_ = solve_float(cond_matrix(s2n), [sum(Ad[r][a] * z[r] for r in range(ndat)) / s2n for a in range(n)])
        kn_ref = [sum(Ao[r][a] * xn_[a] for a in range(n)) for r in range(nout)]
        kns = 1 + max(abs(x) for x in kn_ref)
        kn1v = [float(undy(x)) if undy(x) is not None else float('nan') for x in kn1]
        kn0v = [float(undy(x)) if undy(x) is not None else float('nan') for x in kn0]
        if len(kn1v) != nout or not max(abs(x - y) for x, y in zip(kn1v, kn_ref)) <= 1e-8 * kns:
            viol('spde-kriging-new:cholesky', 'krigingSPDENew (Cholesky) %s differs from A_out (Q + A\'A/s2)^-1 A\'z/s2 = %s' % (kn1v, kn_ref), rep)
        # Eigen's CG on SPDEOp: relative residual 1e-5
        Mn_ = cond_matrix(s2n); bn_ = [sum(Ad[r][a] * z[r] for r in range(ndat)) / s2n for a in range(n)]
        invn = [solve_float(Mn_, [1. if a == k else 0. for a in range(n)]) for k in range(n)]
        ninvn = max(sum(abs(invn[k][a]) for k in range(n)) for a in range(n))
        tol_new = 3 * amax * ninvn * 1e-5 * math.sqrt(sum(x * x for x in bn_)) + 1e-8 * kns      # |r| <= 1e-5 |b|
        if len(kn0v) != nout or not max(abs(x - y) for x, y in zip(kn0v, kn_ref)) <= tol_new:
            viol('spde-kriging-new:matrix-free-vs-cholesky', 'krigingSPDENew through the matrix-free solver gives %s, through Cholesky %s' % (kn0v, kn1v), rep)
        # ---- the projection matrix applied both ways (mesh2point / point2mesh are adjoint), on impl
        lamf = [float(undy(x)) for x in lamd]; m2pf = [float(undy(x)) for x in m2p]; p2mf = [float(undy(x)) for x in p2m]
        m2p_ref = [sum(Ad[r][a] * lamf[a] for a in range(n)) for r in range(ndat)]
        p2m_ref = [sum(Ad[r][a] * z[r] for r in range(ndat)) for a in range(n)]
        sc_ = 1 + max(abs(x) for x in lamf) + max(abs(x) for x in z)
        if max(abs(x - y) for x, y in zip(m2pf, m2p_ref)) > 1e-12 * sc_: viol('proj-matrix:mesh2point', 'mesh2point(v) differs from the rows applied to v', rep)
        if max(abs(x - y) for x, y in zip(p2mf, p2m_ref)) > 1e-12 * sc_: viol('proj-matrix:point2mesh', 'point2mesh(y) differs from the transposed rows applied to y', rep)
        lhs_ = sum(m2pf[r] * z[r] for r in range(ndat)); rhs_ = sum(lamf[a] * p2mf[a] for a in range(n))
        if abs(lhs_ - rhs_) > 1e-11 * (1 + abs(lhs_)): viol('proj-matrix:not-adjoint', '<A v, y> = %.17g but <v, A\'y> = %.17g' % (lhs_, rhs_), rep)
        # ---- both solutions against the exact solution of the model
        if i in kmodel:
            km = kmodel[i]
            if km[0][0] != 1:
                viol('model-drift:kriging-system-singular', 'the model finds the kriging system singular', rep, found=False)
            else:
                zm = [float(unq(x)) for x in km[0][1]]
                m2pm = [float(unq(x)) for x in km[1]]; p2mm = [float(unq(x)) for x in km[2]]; rhsm = [float(unq(x)) for x in km[3]]
                impl_apply_ok = max(abs(x - y) for x, y in zip(m2pf, m2p_ref)) <= 1e-12 * sc_ and max(abs(x - y) for x, y in zip(p2mf, p2m_ref)) <= 1e-12 * sc_
                if impl_apply_ok and (max(abs(x - y) for x, y in zip(m2pf, m2pm)) > 1e-10 * sc_ or max(abs(x - y) for x, y in zip(p2mf, p2mm)) > 1e-10 * sc_):
                    viol('model-drift:proj-matrix-apply', 'mesh2point / point2mesh differ between impl and model', rep, found=False)
                if max(abs(x - y) for x, y in zip(b, b_ref)) <= 1e-10 * (1 + nb) and max(abs(x - y) for x, y in zip(b, rhsm)) > 1e-10 * (1 + nb):
                    viol('model-drift:kriging-rhs', 'computeRhs differs from the model\'s A\'(y/s2)', rep, found=False)
                # conditioning of the system (infinity norm) from the explicit inverse
                invcols = [solve_float(Mm, [1. if a == k else 0. for a in range(n)]) for k in range(n)]
                ninv = max(sum(abs(invcols[k][a]) for k in range(n)) for a in range(n))
                cond = mn * ninv
                zs = 1 + max(abs(x) for x in zm)
                ec = max(abs(x - y) for x, y in zip(xcv, zm)); ef = max(abs(x - y) for x, y in zip(xfv, zm))
                if ec > 1e-12 * cond * zs + 1e-13 * zs:
                    viol('spde-solve:cholesky-vs-exact-solution', 'the Cholesky solution differs from the exact solution of (Q + A\'A/s2) z = A\'y/s2 by %.3g '
                         '(condition number %.3g)' % (ec, cond), rep)
                if ef > 10 * ninv * rf + 1e-12 * cond * zs:
                    viol('spde-solve:cg-vs-exact-solution', 'the conjugate-gradient solution differs from the exact solution by %.3g, the residual %.3g and '
                         '|M^-1| = %.3g explain %.3g' % (ef, rf, ninv, ninv * rf), rep)
                ctx.sample({'kind': 'kriging-exact', 'n': n, 'cond': cond, 'cholesky_vs_exact': ec, 'cg_vs_exact': ef}, maxn=14)
        q1v, q0v = float(undy(q1)), float(undy(q0))
        if abs(q1v - q0v) > 2e-3 * (1 + abs(q1v)): viol('spde-likelihood:quadratic-term', 'quadratic term of the likelihood: Cholesky %.12g, CG %.12g' % (q1v, q0v), rep)
        ctx.count(sx_str(c), True)
        ctx.sample({'kind': 'solve', 'n': n, 'ndat': ndat, 'cholesky_residual': rc, 'cg_crit': rf * rf / nb, 'cg_iterations': ncg,
                    'cg_vs_exact': err_f, 'kriging_cg_vs_chol': max(abs(x - y) for x, y in zip(kfv, kcv))}, maxn=12)

def check_solvers_vars(ctx, exe, runner, hv, viol):
    """conditional solves with one variance per datum (setVarianceDataVector on both operators; locator V through the API) and one or two
    structures on the same meshing: the implementation's Cholesky and conjugate-gradient solutions, quadratic term, log-determinant and
    kriging against the system (diag(Q_k) + A' D^-1 A) z = A' D^-1 y (python) and its exact solution (model kind 14)"""
    quick = ctx.quick(); rng = ctx.rng
    ncase = 14 if quick else 120
    specs = []
    for _ in range(ncase):
        ncov = rng.choice([1, 2, 2])
        while True:
            ts = gen_turbo(rng, ndim=rng.choice([1, 2, 2, 3]), maxn=5, allow_sel=False)
            if 4 <= math.prod(ts['nx']) <= (20 if ncov == 2 else 30): break
        if ts['ang']: hv.ask(ts['n'], ts['ang'])
        specs.append((ts, ncov))
    hv.run(ctx, exe)
    cases = []
    for ts, ncov in specs:
        M = turbo_M(ts, hv)
        covs = [gen_cov(rng, ts['n']) for _ in range(ncov)]
        tot = sum(cv['sill'] for cv in covs)
        nd = rng.randint(3, 7)
        pts = [point_of_u(ts, M, gen_point_u(rng, ts, 'inside')) for _ in range(nd)]
        z = [F(rng.randint(-32, 32), 8) for _ in range(nd)]
        # measurement-error variances, all different, above the floor 0.01 x total sill applied by SPDE::_init
        pool = [tot * F(k, 16) for k in (1, 2, 3, 5, 8, 13, 24, 40)]
        vars_ = rng.sample(pool, nd) if nd <= len(pool) else [rng.choice(pool) for _ in range(nd)]
        pout = [point_of_u(ts, M, gen_point_u(rng, ts, 'inside')) for _ in range(rng.randint(2, 4))]
        cases.append([13, [0] + turbo_sx(ts, hv), [cov_sx(cv) for cv in covs], [[dy(x) for x in p] for p in pts], [dy(x) for x in z],
                      [dy(x) for x in vars_], [[dy(x) for x in p] for p in pout]])
        ctx.dist('solve_vars_%dd_%dcov' % (ts['n'], ncov))
    cf = write_cases(ctx, 'solvevars', cases)
    rc_i, impl = run_impl(ctx, exe, cf, timeout=900)
    kmodel = {}
    if runner is not None:
        kc_ = []; kidx = []
        for i, c in enumerate(cases):
            ii = impl[i] if i < len(impl) else None
            if ii is None or ii[0] == -997 or ii[0] * ii[2] > (26 if quick else 40): continue
            blocks = [[ii[0], b[1], b[2], b[3]] for b in ii[3]]
            kc_.append([14] + c[1][1:7] + [c[3], blocks, c[5], c[4]]); kidx.append(i)
        if kc_:
            kf_ = write_cases(ctx, 'krigvarsmodel', kc_)
            rc_m, kres = run_model(ctx, runner, kf_, jobs=min(NPROC, len(kc_)))
            if len(kres) != len(kc_): print('ERROR: model runner returned %d results for %d kriging cases' % (len(kres), len(kc_))); sys.exit(3)
            for i, r in zip(kidx, kres):
                if r and r[0] == -999: print('ERROR: model rejected a kriging case'); sys.exit(3)
                kmodel[i] = r
    fv = lambda l: [float(undy(x)) if undy(x) is not None else float('nan') for x in l]
    for i, c in enumerate(cases):
        ii = impl[i] if i < len(impl) else None
        rep = {'case': sx_str(c), 'how': 'harness/C15.cpp kind 13'}
        if ii is None or ii[0] == -997:
            viol('crash:spde-solve', 'the harness produced no answer (crash) on a conditional solve with one variance per datum', rep); continue
        n, ndat, ncov, blocks, A, Aout, qc, qf, ldc, kc, kf, q1, q0, ld1, vapi, ncg = ii
        N = n * ncov
        z = [float(undy(x)) for x in c[4]]; vars_ = [float(undy(x)) for x in c[5]]
        Ad = [[0.] * n for _ in range(ndat)]
        for r, row in enumerate(A[2]):
            for e in row: Ad[r][e[0]] = float(undy(e[1]))
        Qs = [[[float(undy(x)) for x in row] for row in b[0]] for b in blocks]
        def system(vv):
            Mm = [[0.] * N for _ in range(N)]
            for k in range(ncov):
                for a in range(n):
                    for b_ in range(n): Mm[k * n + a][k * n + b_] = Qs[k][a][b_]
            for k in range(ncov):
                for l in range(ncov):
                    for a in range(n):
                        for b_ in range(n):
                            Mm[k * n + a][l * n + b_] += sum(Ad[r][a] * Ad[r][b_] / vv[r] for r in range(ndat))
            bb = [sum(Ad[r][a] * z[r] / vv[r] for r in range(ndat)) for k in range(ncov) for a in range(n)]
            return Mm, bb
        Mm, b_ref = system(vars_)
        b = [x for blk in blocks for x in fv(blk[4])]
        xc = [x for blk in blocks for x in fv(blk[5])]; xf = [x for blk in blocks for x in fv(blk[6])]
        nb = math.sqrt(sum(x * x for x in b_ref)) or 1.
        ctx.count(sx_str(c), True)
        if max(abs(x - y) for x, y in zip(b, b_ref)) > 1e-10 * (1 + nb): viol('spde-solve:rhs', 'computeRhs differs from A\'D^-1 z (one variance per datum)', rep)
        def resid(x): return math.sqrt(sum((sum(Mm[a][k] * x[k] for k in range(N)) - b_ref[a]) ** 2 for a in range(N)))
        mn = max(sum(abs(x) for x in r) for r in Mm)
        rc_, rf_ = resid(xc), resid(xf)
        if not rc_ <= 1e-9 * (mn * max(abs(x) for x in xc) + nb):
            viol('spde-solve:cholesky-residual', 'one variance per datum, %d structure(s): the Cholesky solution leaves a residual %.3g in (Q + A\'D^-1 A) x = b (|b| = %.3g)' % (ncov, rc_, nb), rep)
        nbm = sum(math.sqrt(sum(x * x for x in fv(blk[4]))) for blk in blocks) or 1.     # the stopping rule uses the sum of the norms of the blocks
        if not rf_ * rf_ <= 10 * 1e-8 * nbm:
            viol('spde-solve:cg-residual', 'one variance per datum: the conjugate-gradient solution leaves |r|^2/|b| = %.3g > 1e-8 (iterations %d)' % (rf_ * rf_ / nbm, ncg), rep)
        xs = solve_float(Mm, b_ref)
        inv = [solve_float(Mm, [1. if a == k else 0. for a in range(N)]) for k in range(N)]
        ninv = max(sum(abs(inv[k][a]) for k in range(N)) for a in range(N)); cond = mn * ninv
        xsn = 1 + max(abs(x) for x in xs)
        if i in kmodel and kmodel[i][0][0] == 1:
            zm = [float(unq(x)) for x in kmodel[i][0][1]]
            ec = max(abs(x - y) for x, y in zip(xc, zm)); ef = max(abs(x - y) for x, y in zip(xf, zm))
            if ec > 1e-12 * cond * xsn + 1e-13 * xsn:
                viol('spde-solve:cholesky-vs-exact-solution', 'one variance per datum, %d structure(s): the Cholesky solution differs from the exact solution of '
                     '(Q + A\'D^-1 A) z = A\'D^-1 y by %.3g (condition number %.3g)' % (ncov, ec, cond), rep)
            if ef > 10 * ninv * rf_ + 1e-12 * cond * xsn:
                viol('spde-solve:cg-vs-exact-solution', 'one variance per datum: the conjugate-gradient solution differs from the exact solution by %.3g' % ef, rep)
            ctx.sample({'kind': 'kriging-exact-vars', 'ncov': ncov, 'n': n, 'cond': cond, 'cholesky_vs_exact': ec, 'cg_vs_exact': ef}, maxn=20)
        elif i in kmodel:
            viol('model-drift:kriging-system-singular', 'the model finds the kriging system singular', rep, found=False)
        q_ref = sum(z[r] * z[r] / vars_[r] for r in range(ndat)) - sum(b_ref[a] * xs[a] for a in range(N))
        if abs(float(undy(qc)) - q_ref) > 1e-8 * cond * (1 + abs(q_ref)) * 1e-3 + 1e-8 * (1 + abs(q_ref)):
            viol('spde-solve:quadratic-cholesky', 'one variance per datum: computeQuadratic (Cholesky) %.12g, from the system %.12g' % (float(undy(qc)), q_ref), rep)
        if abs(float(undy(qf)) - q_ref) > 1e-3 * (1 + abs(q_ref)) + 10 * ninv * rf_ * nb:
            viol('spde-solve:quadratic-cg', 'one variance per datum: computeQuadratic (CG) %.12g, from the system %.12g' % (float(undy(qf)), q_ref), rep)
        pv = ldl_pivots(Mm, exact=False)
        if len(pv) == N and pv[-1] > 0:
            ld_ref = sum(math.log(p_) for p_ in pv)
            if abs(float(undy(ldc)) - ld_ref) > 1e-8 * (1 + abs(ld_ref)):
                viol('spde-solve:logdet-cholesky', 'one variance per datum: computeLogDetOp %.12g, from the matrix %.12g' % (float(undy(ldc)), ld_ref), rep)
        # ---- through the API: variances from the locator V, floored at 0.01 x total sill
        tot = sum(float(undy(cv[1])) for cv in c[2])
        va = fv(vapi); va_ref = [max(v_, 0.01 * tot) for v_ in vars_]
        if len(va) != ndat or max(abs(x - y) for x, y in zip(va, va_ref)) > 1e-12 * (1 + max(va_ref)):
            viol('spde-api:data-variances', 'SPDE uses the data variances %s for the locator V values %s' % (va, vars_), rep); continue
        Ma, ba = system(va_ref)
        xa = solve_float(Ma, ba)
        nout = Aout[0]; Ao = [[0.] * n for _ in range(nout)]
        for r, row in enumerate(Aout[2]):
            for e_ in row: Ao[r][e_[0]] = float(undy(e_[1]))
        k_ref = [sum(Ao[r][a] * xa[k * n + a] for k in range(ncov) for a in range(n)) for r in range(nout)]
        ks = 1 + max(abs(x) for x in k_ref)
        kcv, kfv = fv(kc), fv(kf)
        if max(abs(x - y) for x, y in zip(kcv, k_ref)) > 1e-8 * ks:
            viol('spde-kriging:cholesky', 'locator V, %d structure(s): krigingSPDE (Cholesky) differs from A_out (Q + A\'D^-1 A)^-1 A\'D^-1 z by %.3g' %
                 (ncov, max(abs(x - y) for x, y in zip(kcv, k_ref))), rep)
        inva = [solve_float(Ma, [1. if a == k else 0. for a in range(N)]) for k in range(N)]
        ninva = max(sum(abs(inva[k][a]) for k in range(N)) for a in range(N))
        amax = max([sum(abs(x) for x in r) for r in Ao] + [1.]) * ncov
        nba = sum(math.sqrt(sum(x * x for x in ba[k * n:(k + 1) * n])) for k in range(ncov)) or 1.
        if max(abs(x - y) for x, y in zip(kfv, k_ref)) > 3 * amax * ninva * 1e-4 * math.sqrt(nba) + 1e-8 * ks:
            viol('spde-kriging:cg', 'locator V: krigingSPDE (conjugate gradient) differs from the solution of the system by %.3g' % max(abs(x - y) for x, y in zip(kfv, k_ref)), rep)
        qa_ref = sum(z[r] * z[r] / va_ref[r] for r in range(ndat)) - sum(ba[a] * xa[a] for a in range(N))
        q1v, q0v = float(undy(q1)), float(undy(q0))
        if abs(q1v - qa_ref) > 1e-8 * (1 + abs(qa_ref)) * max(1., 1e-3 * mn * ninva):
            viol('spde-likelihood:quadratic-term', 'locator V: quadratic term of the likelihood (Cholesky) %.12g, from the system %.12g' % (q1v, qa_ref), rep)
        if abs(q0v - qa_ref) > 1e-3 * (1 + abs(qa_ref)) + 3 * ninva * 1e-4 * math.sqrt(nba) * nba:
            viol('spde-likelihood:quadratic-term-cg', 'locator V: quadratic term of the likelihood (CG) %.12g, from the system %.12g' % (q0v, qa_ref), rep)
        pva = ldl_pivots(Ma, exact=False)
        if len(pva) == N and pva[-1] > 0 and abs(float(undy(ld1)) - sum(math.log(p_) for p_ in pva) - 0.) > 1e-6 * (1 + abs(float(undy(ld1)))):
            # computeLogDet = log|Q + A'D^-1A| - log|Q| + sum log(var): compared below with its three terms
            lq = 0.
            ok_ = True
            for k in range(ncov):
                pq = ldl_pivots(Qs[k], exact=False)
                if len(pq) != n or pq[-1] <= 0: ok_ = False; break
                lq += sum(math.log(p_) for p_ in pq)
            if ok_:
                ref_ = sum(math.log(p_) for p_ in pva) - lq + sum(math.log(v_) for v_ in va_ref)
                if abs(float(undy(ld1)) - ref_) > 1e-7 * (1 + abs(ref_)):
                    viol('spde-likelihood:log-determinant', 'locator V: computeLogDet (Cholesky) %.12g, from the matrices %.12g' % (float(undy(ld1)), ref_), rep)

def check_entry_points(ctx, exe, runner, hv, viol):
    """every public solve entry point of src/LinearOp on one kriging system (Q + A'A/s2) x = A'z/s2: SPDEOp / SPDEOpMatrix kriging and
    krigingWithGuess (VectorDouble and span overloads), LinearOpCGSolver solve / solveWithGuess (VectorDouble, span, Eigen::Map),
    PrecisionOpMultiConditional[Cs]::evalInverse (cold and with a user initial value), for the guesses zero / random / half the solution /
    the solution / constant: each must return the solution of the system (exact in the model, kind 8) up to its own tolerance"""
    quick = ctx.quick(); rng = ctx.rng
    ncase = 8 if quick else 60
    specs = []
    for _ in range(ncase):
        while True:
            ts = gen_turbo(rng, ndim=rng.choice([1, 2, 2, 3]), maxn=5, allow_sel=False)
            if 4 <= math.prod(ts['nx']) <= 26: break
        if ts['ang']: hv.ask(ts['n'], ts['ang'])
        specs.append(ts)
    hv.run(ctx, exe)
    cases = []
    for ts in specs:
        M = turbo_M(ts, hv)
        cv = gen_cov(rng, ts['n'])
        nd = rng.randint(2, 6)
        pts = [point_of_u(ts, M, gen_point_u(rng, ts, 'inside')) for _ in range(nd)]
        z = [F(rng.randint(-32, 32), 8) for _ in range(nd)]
        nug = cv['sill'] * rng.choice([F(1, 4), F(1, 2), F(1)])
        guess = [F(rng.randint(-16, 16), 8) for _ in range(7)]
        cases.append([15, [0] + turbo_sx(ts, hv), cov_sx(cv), [[dy(x) for x in p] for p in pts], [dy(x) for x in z], dy(nug), [dy(x) for x in guess]])
        ctx.dist('entry_points_%dd' % ts['n'])
    cf = write_cases(ctx, 'entries', cases)
    rc_i, impl = run_impl(ctx, exe, cf, timeout=900)
    kmodel = {}
    if runner is not None:
        kc_ = []; kidx = []
        for i, c in enumerate(cases):
            ii = impl[i] if i < len(impl) else None
            if ii is None or ii[0] == -997: continue
            kc_.append([8] + c[1][1:7] + [c[3], ii[0], ii[4], ii[5], ii[6], [c[5]] * ii[1], c[4]]); kidx.append(i)
        if kc_:
            kf_ = write_cases(ctx, 'entriesmodel', kc_)
            rc_m, kres = run_model(ctx, runner, kf_, jobs=min(NPROC, len(kc_)))
            if len(kres) != len(kc_): print('ERROR: model runner returned %d results for %d entry-point cases' % (len(kres), len(kc_))); sys.exit(3)
            for i, r in zip(kidx, kres): kmodel[i] = r
    for i, c in enumerate(cases):
        ii = impl[i] if i < len(impl) else None
        rep = {'case': sx_str(c), 'how': 'harness/C15.cpp kind 15'}
        if ii is None or ii[0] == -997:
            viol('crash:spde-solve-entry-points', 'the harness produced no answer (crash) while calling the solve entry points', rep); continue
        n, ndat, Q, A, Sd, lamd, cfd, sols = ii
        Q = [[float(undy(x)) for x in r] for r in Q]
        nug = float(undy(c[5])); z = [float(undy(x)) for x in c[4]]
        Ad = [[0.] * n for _ in range(ndat)]
        for r, row in enumerate(A[2]):
            for e in row: Ad[r][e[0]] = float(undy(e[1]))
        Mm = [[Q[a][b] + sum(Ad[r][a] * Ad[r][b] for r in range(ndat)) / nug for b in range(n)] for a in range(n)]
        b = [sum(Ad[r][a] * z[r] for r in range(ndat)) / nug for a in range(n)]
        xs = solve_float(Mm, b)
        if i in kmodel and kmodel[i][0][0] == 1: xs = [float(unq(x)) for x in kmodel[i][0][1]]      # exact solution of the model
        inv = [solve_float(Mm, [1. if a == k else 0. for a in range(n)]) for k in range(n)]
        ninv = max(sum(abs(inv[k][a]) for k in range(n)) for a in range(n))
        mn = max(sum(abs(x) for x in r) for r in Mm); cond = mn * ninv
        nb = math.sqrt(sum(x * x for x in b)) or 1.
        xn = 1 + max(abs(x) for x in xs)
        g_named = {'zero': [0.] * n, 'random': [float(undy(c[6][k % len(c[6])])) for k in range(n)], 'half': [0.5 * x for x in xs], 'exact': list(xs), 'constant': [1.] * n}
        ctx.count(sx_str(c), True)
        for lab, sol in sols:
            name = ''.join(chr(x) for x in lab)
            v = [float(undy(x)) if undy(x) is not None else float('nan') for x in sol]
            parts = name.split(':')
            entry = ':'.join(p_ for p_ in parts if p_ and p_ not in g_named)
            gname = next((p_ for p_ in parts if p_ in g_named), None)
            if 'Matrix::kriging' in name and 'WithGuess' not in name or name.startswith('PrecisionOpMultiConditionalCs'):
                tol = 1e-12 * cond * xn + 1e-13 * xn                                    # Cholesky
            elif name.startswith('PrecisionOpMultiConditional::evalInverse'):
                if gname is None: tol = 3 * ninv * 1e-7 * math.sqrt(nb) + 1e-12 * cond * xn             # |r|^2 <= 1e-14 |b|
                else:
                    g = g_named[gname]
                    r0 = math.sqrt(sum((sum(Mm[a][k] * g[k] for k in range(n)) - b[a]) ** 2 for a in range(n)))
                    tol = 3 * ninv * 1e-7 * max(r0, 1e-300) + 1e-11 * cond * xn                           # |r|^2 <= 1e-14 |r0|^2
            else:
                tol = 3 * ninv * 1e-10 * nb + 1e-11 * cond * xn                                           # Eigen CG, relative residual 1e-10
            err = max(abs(x - y) for x, y in zip(v, xs)) if len(v) == n else float('inf')
            if not err <= tol:
                viol('spde-solve:' + entry, '%s%s returns a vector that differs from the solution of (Q + A\'A/s2) x = A\'z/s2 by %.3g (tolerance %.3g, '
                     'condition number %.3g)%s' % (name, '', err, tol, cond, '; with the zero guess it returns zero' if gname == 'zero' and max(abs(x) for x in v) == 0 else ''), rep)
        ctx.sample({'kind': 'entry-points', 'n': n, 'entries': len(sols), 'cond': cond}, maxn=22)

def load_corpus(ctx):
    p = os.path.join(VERIF, 'corpus', ctx.pid + '.sx')
    if not os.path.exists(p): return []
    return [sx_parse(l) for l in open(p) if l.strip() and not l.startswith('#')]

if __name__ == '__main__':
    main(run)

"""C11 — matrix and vector classes compute what linear algebra defines, in every storage.

theorems of coq/C11 + correspondence of MatrixRectangular / MatrixSquareGeneral / MatrixSquareSymmetric / MatrixSparse (csparse
and Eigen back-ends) / CholeskyDense / VectorNumT / VectorHelper with the extracted model, thread counts {1,2,4,8,16},
exact residual certificates (python Fractions) for inverse / solve / Cholesky / eigen-decomposition."""
import sys, os, math
sys.path.insert(0, os.path.dirname(__file__))
from common import *

THREADS = [1, 2, 4, 8, 16]
# qualifiers that always separate keys: sparse back-end, kind of operand aliasing
KEY_CLASSES = ('cs', 'eigen', 'alias-this', 'alias-xy')
def key_class(q):
    # the receiver used as an operand dominates (R.op(&R, &R) is keyed as alias-this)
    return tuple(x for x in q if x in KEY_CLASSES and not (x == 'alias-xy' and 'alias-this' in q))
MALLOC_DEBUG = '/lib/x86_64-linux-gnu/libc_malloc_debug.so.0'
OPNAME = {1: 'getValue', 2: 'setValue', 3: 'getRow', 4: 'getColumn', 5: 'setRow', 6: 'setColumn', 7: 'getDiagonal', 8: 'setDiagonal',
          9: 'transposeInPlace', 90: 'transpose', 10: 'addScalar', 11: 'prodScalar', 12: 'multiplyRow', 13: 'multiplyColumn',
          14: 'divideRow', 15: 'divideColumn', 16: 'addMatInPlace', 17: 'linearCombination', 18: 'prodMatVecInPlace',
          19: 'prodVecMatInPlace', 20: 'prodMatVec', 21: 'prodVecMat', 22: 'prodMatMatInPlace', 23: 'prodNormMatMatInPlace',
          24: 'prodNormMatVecInPlace', 30: 'trace', 31: 'normVec', 32: 'prodByDiagInPlace', 33: 'prodDiagByVector', 25: 'sample', 26: 'unsample', 27: 'copyReduce', 28: 'isSymmetric', 0: 'createFromTriplet',
          40: 'createFromAnyMatrix'}
GEN_OPS = {3, 4, 5, 6, 8, 10, 11, 12, 13, 14, 15, 16, 22, 23, 24}         # ops that also have a generic AMatrix:: fallback
STNAME = {0: 'MatrixRectangular', 1: 'MatrixSquareGeneral', 2: 'MatrixSquareSymmetric'}
VECOP = {1: 'VectorNumT::sum', 2: 'VectorNumT::maximum', 3: 'VectorNumT::minimum', 4: 'VectorNumT::mean', 5: 'VectorNumT::norm',
         6: 'VectorNumT::innerProduct', 7: 'VectorNumT::arith', 8: 'VH::reduce', 9: 'VH::innerProduct', 10: 'VH::arith',
         11: 'VH::cumsum', 12: 'VH::sequence(int)', 13: 'VH::sequence(double)', 14: 'VH::orderRanks', 15: 'VH::sortRanks',
         16: 'VH::arrangeInPlace', 17: 'VH::unique', 18: 'VH::sort', 19: 'VH::addInPlace(span)'}
SOLVEOP = {1: 'CholeskyDense::LX', 2: 'CholeskyDense::LtX', 3: 'CholeskyDense::InvLX', 4: 'CholeskyDense::InvLtX', 5: 'CholeskyDense::solve',
           6: 'CholeskyDense::getLowerTriangle', 7: 'CholeskyDense::getUpperTriangleInverse', 8: 'CholeskyDense::matProductInPlace',
           10: 'MatrixSquareGeneral::_forwardLU', 11: 'MatrixSquareGeneral::_backwardLU',
           12: 'MatrixSquareSymmetric::createFromTLTU', 13: 'MatrixSquareSymmetric::createFromTriangle'}

# ----------------------------------------------------------------------------- generators
def rnd_entry(rng, zero_p=0.15):
    if rng.random() < zero_p: return Fraction(0)
    r = rng.random()
    if r < .6: return Fraction(rng.randint(-4, 4))
    if r < .9: return Fraction(rng.randint(-16, 16), 4)
    return Fraction(rng.randint(-40, 40), 8)

def rnd_shape(rng, square=False, minimum=0, maxdim=7):
    if square:
        n = rng.choice([1, 1, 2, 2, 3, 3, 4, 5, 6, 7] + ([0] if minimum == 0 else []))
        return max(n, minimum), max(n, minimum)
    r = rng.random()
    if r < .12: nr, nc = 1, rng.randint(1, maxdim)
    elif r < .24: nr, nc = rng.randint(1, maxdim), 1
    elif r < .30 and minimum == 0: nr, nc = rng.choice([(0, 0), (0, 3), (2, 0), (0, 1), (1, 0)])
    elif r < .45: nr = nc = rng.randint(1, maxdim)
    else:
        nr, nc = rng.randint(1, maxdim), rng.randint(1, maxdim)
        if nr == nc: nc = nc % maxdim + 1
    return max(nr, minimum), max(nc, minimum)

class Mat:
    """exact matrix, rows x cols of Fractions"""
    def __init__(self, nr, nc, f=None):
        self.nr, self.nc = nr, nc
        self.a = [[Fraction(f(i, j)) if f else Fraction(0) for j in range(nc)] for i in range(nr)]
    def colmajor(self): return [self.a[i][j] for j in range(self.nc) for i in range(self.nr)]
    def sx(self): return [self.nr, self.nc, [dy(x) for x in self.colmajor()]]
    def T(self): return Mat(self.nc, self.nr, lambda i, j: self.a[j][i])
    def mul(self, o): return Mat(self.nr, o.nc, lambda i, j: sum(self.a[i][k] * o.a[k][j] for k in range(self.nc)))
    def triplets(self, keep_zero=False):
        return [[i, j, dy(self.a[i][j])] for j in range(self.nc) for i in range(self.nr) if keep_zero or self.a[i][j] != 0]

def rnd_mat(rng, nr, nc, sym=False, zero_p=0.15):
    m = Mat(nr, nc, lambda i, j: rnd_entry(rng, zero_p))
    if sym:
        for i in range(nr):
            for j in range(i): m.a[j][i] = m.a[i][j]
    return m

def rnd_vec(rng, n, nonzero=False):
    out = []
    for _ in range(n):
        x = rnd_entry(rng, 0.1)
        if nonzero:
            while x == 0: x = rnd_entry(rng, 0)
        out.append(x)
    return out
def V(v): return [dy(x) for x in v]

def sparse_sx(rng, m, style=None):
    """(nr nc triplets force): sparse argument whose mathematical content is m"""
    style = style or rng.choice(['plain', 'plain', 'plain', 'zeros', 'dups', 'shuffled'])
    t = m.triplets(keep_zero=(style == 'zeros'))
    if style == 'dups' and t:
        extra = []
        for e in t:
            if rng.random() < .3:
                v = undy(e[2]); h = Fraction(rng.randint(-3, 3))
                e[2] = dy(v - h); extra.append([e[0], e[1], dy(h)])
        t += extra
    if style in ('shuffled', 'dups'): rng.shuffle(t)
    return [m.nr, m.nc, t, 1], style

def shape_class(nr, nc):
    return 'square' if nr == nc else 'nonsquare'

# every generated case: dict(case=sx, rtype=..., site=..., quals=[...], size=...)
def dense_cases(rng, n_per_op):
    out = []
    def add(st, gen, op, m, args, rtype, quals=(), extra_size=0):
        site = ('AMatrix' if gen else ('AMatrixDense' if op not in (7, 17, 25, 26, 27, 28, 30, 31, 32, 33) else
                {7: 'AMatrix', 17: 'AMatrix', 25: 'MatrixRectangular', 26: 'MatrixRectangular', 27: 'AMatrix', 28: 'AMatrix',
                 30: 'AMatrixSquare', 31: 'AMatrixSquare', 32: 'AMatrixSquare', 33: 'AMatrixSquare'}[op])) + '::' + OPNAME[op]
        q = list(quals)
        if st == 2: q.append('symmetric-storage')
        q.append(shape_class(m.nr, m.nc))
        out.append(dict(case=[1, 1, st, 1 if gen else 0, op, m.sx()] + args, rtype=rtype, site=site, quals=q,
                        size=m.nr * m.nc + extra_size, kind='dense', op=op, st=st))
    for it in range(n_per_op):
        for op in (1, 2, 3, 4, 5, 6, 7, 8, 9, 10, 11, 12, 13, 14, 15, 16, 17, 18, 19, 20, 21, 22, 23, 24, 25, 26, 27, 28, 30, 31, 32, 33):
            st = rng.choice([0, 0, 0, 1, 2]) if op < 30 else rng.choice([1, 1, 2])
            gen = (op in GEN_OPS) and rng.random() < .4
            nr, nc = rnd_shape(rng, square=(st != 0))
            m = rnd_mat(rng, nr, nc, sym=(st == 2))
            if op in (1, 2):
                if nr * nc == 0: continue
                i, j = rng.randrange(nr), rng.randrange(nc)
                add(st, False, op, m, [i, j] + ([dy(rnd_entry(rng))] if op == 2 else []), 'Q' if op == 1 else 'M')
            elif op in (3, 4):
                lim = nr if op == 3 else nc
                if lim == 0: continue
                add(st, gen, op, m, [rng.randrange(lim)], 'V')
            elif op in (5, 6):
                lim = nr if op == 5 else nc
                if lim == 0: continue
                add(st, gen, op, m, [rng.randrange(lim), V(rnd_vec(rng, nc if op == 5 else nr))], 'M')
            elif op == 7:
                add(st, False, op, m, [rng.choice([0, 0, 1, 2, -1, -2])], 'V')
            elif op == 8:
                if st == 0 and rng.random() < .5: nr, nc = rnd_shape(rng, square=True); m = rnd_mat(rng, nr, nc)
                if nr != nc and not gen and nr > nc: pass
                add(st, gen, op, m, [V(rnd_vec(rng, nc))], 'M')
            elif op == 9:
                add(st, False, op, m, [], 'M')
            elif op in (10, 11):
                add(st, gen, op, m, [dy(rng.choice([Fraction(0), Fraction(1), Fraction(3), Fraction(-1, 2), Fraction(5, 4)]))], 'M')
            elif op in (12, 14):
                add(st, gen, op, m, [V(rnd_vec(rng, nr, nonzero=True))], 'M')
            elif op in (13, 15):
                add(st, gen, op, m, [V(rnd_vec(rng, nc, nonzero=True))], 'M')
            elif op == 16:
                y = rnd_mat(rng, nr, nc, sym=(st == 2))
                add(st, gen, op, m, [y.sx(), dy(rng.choice([1, 2, Fraction(-1, 2)])), dy(rng.choice([1, -1, Fraction(3, 2)]))], 'M')
            elif op == 17:
                ms = [rnd_mat(rng, nr, nc, sym=(st == 2)).sx() if rng.random() < .75 else [] for _ in range(3)]
                cs = [dy(rng.choice([1, 2, -1, Fraction(1, 2)])) for _ in range(3)]
                add(st, False, op, m, [cs[0], ms[0], cs[1], ms[1], cs[2], ms[2]], 'M')
            elif op in (18, 19, 20, 21):
                t = rng.random() < .5
                if op in (18, 20): lx, ly = (nr, nc) if t else (nc, nr)
                else: lx, ly = (nc, nr) if t else (nr, nc)
                args = [V(rnd_vec(rng, lx))] + ([V(rnd_vec(rng, ly))] if op in (18, 19) else []) + [1 if t else 0]
                add(st, False, op, m, args, 'V', quals=(['transpose'] if t else []))
            elif op == 22:
                tx, ty = rng.random() < .5, rng.random() < .5
                if st == 0: r, c = rnd_shape(rng)
                else: r, c = nr, nc
                k = rng.randint(0, 6) if rng.random() < .9 else 0
                x = rnd_mat(rng, *((k, r) if tx else (r, k))); y = rnd_mat(rng, *((c, k) if ty else (k, c)))
                if st == 2:   # a symmetric product: y = t(x) when flags allow, otherwise spec is undefined (kept: model-vs-impl only)
                    if tx != ty: y = Mat(x.nr, x.nc, lambda i, j: x.a[i][j]); c = r
                    if c != r: continue
                this = rnd_mat(rng, r, c, sym=(st == 2))
                add(st, gen, op, this, [x.sx(), y.sx(), 1 if tx else 0, 1 if ty else 0], 'M',
                    quals=['tx%dty%d' % (tx, ty)], extra_size=x.nr * x.nc + y.nr * y.nc)
            elif op == 23:
                t = rng.random() < .5
                n1 = nr if st != 0 else rng.randint(0, 5)
                n2 = rng.randint(0, 5)
                a = rnd_mat(rng, *((n2, n1) if t else (n1, n2)))
                mm = rnd_mat(rng, n2, n2, sym=(st == 2))
                this = rnd_mat(rng, n1, n1, sym=(st == 2))
                add(st, gen, op, this, [a.sx(), mm.sx(), 1 if t else 0], 'M', quals=(['transpose'] if t else []), extra_size=n1 * n2)
            elif op == 24:
                t = rng.random() < .5
                n1 = nr if st != 0 else rng.randint(0, 5)
                n2 = rng.randint(0, 5)
                a = rnd_mat(rng, *((n2, n1) if t else (n1, n2)))
                v = rnd_vec(rng, n2) if rng.random() < .6 else []
                this = rnd_mat(rng, n1, n1, sym=(st == 2))
                add(st, gen, op, this, [a.sx(), V(v), 1 if t else 0], 'M',
                    quals=(['transpose'] if t else []) + (['vec'] if v else ['novec']), extra_size=n1 * n2)
            elif op == 25:
                if nr * nc == 0: continue
                rk = sorted(rng.sample(range(nr), rng.randint(0, nr))) if rng.random() < .8 else []
                ck = sorted(rng.sample(range(nc), rng.randint(0, nc))) if rng.random() < .8 else []
                if rng.random() < .3: rng.shuffle(rk)
                add(st, False, op, m, [rk, ck, 1 if rng.random() < .3 else 0, 1 if rng.random() < .3 else 0], 'OM')
            elif op == 26:
                if nr * nc == 0: continue
                rf = sorted(rng.sample(range(nr), rng.randint(1, nr))); cf = sorted(rng.sample(range(nc), rng.randint(1, nc)))
                ir, ic = rng.random() < .25, rng.random() < .25
                nrs = nr - len(rf) if ir else len(rf); ncs = nc - len(cf) if ic else len(cf)
                if nrs == 0 or ncs == 0: ir = ic = False; nrs, ncs = len(rf), len(cf)
                a = rnd_mat(rng, nrs, ncs)
                add(st, False, op, m, [a.sx(), rf, cf, 1 if ir else 0, 1 if ic else 0], 'M')
            elif op == 27:
                x = rnd_mat(rng, *rnd_shape(rng, minimum=1))
                rows = [rng.randrange(x.nr) for _ in range(rng.randint(0, nr))]; cols = [rng.randrange(x.nc) for _ in range(rng.randint(0, nc))]
                add(st, False, op, m, [x.sx(), rows, cols], 'M')
            elif op == 30: add(st, False, op, m, [], 'Q')
            elif op == 31: add(st, False, op, m, [V(rnd_vec(rng, nr if rng.random() < .85 else nr + 1))], 'OQ')
            elif op == 32:
                if nr == 0: continue
                mode = rng.choice([0, 2]); add(st, False, op, m, [mode, V(rnd_vec(rng, nr, nonzero=True))], 'M', quals=['mode%d' % mode])
            elif op == 33: add(st, False, op, m, [V(rnd_vec(rng, nr if rng.random() < .85 else nr + 1, nonzero=True))], 'M')
            elif op == 28:
                if st == 0 and rng.random() < .5:
                    n = rng.randint(1, 5); m = rnd_mat(rng, n, n, sym=rng.random() < .6)
                add(st, False, op, m, [], 'B')
    return out

def sparse_cases(rng, n_per_op):
    out = []
    def add(be, op, m, args, rtype, quals=(), style='plain', s0=None):
        site = 'MatrixSparse::' + OPNAME[op]
        q = ['eigen' if be else 'cs'] + list(quals) + [shape_class(m.nr, m.nc)]
        pos = [(t[0], t[1]) for t in s0[2]] + ([(s0[0] - 1, s0[1] - 1)] if s0[3] else [])
        if len(set(pos)) < len(pos): q.append('duplicate-entries')
        out.append(dict(case=[2, 1, be, op, s0] + args, rtype=rtype, site=site, quals=q, size=m.nr * m.nc, kind='sparse', op=op, st=3 + be))
    for it in range(n_per_op):
        for op in (0, 1, 9, 90, 10, 11, 12, 13, 14, 15, 16, 18, 19, 20, 21, 22, 23, 24, 40):
            nr, nc = rnd_shape(rng, minimum=1)
            m = rnd_mat(rng, nr, nc, zero_p=.35)
            for be in (0, 1):
                st_rng = random.Random(rng.getrandbits(32))
                style = None if op in (12, 13, 14, 15, 20, 21) else 'plain'
                if op in (0, 1): style = ['plain', 'dups', 'zeros', 'shuffled'][it % 4]
                s0, style = sparse_sx(st_rng, m, style)
                if op == 0: add(be, op, m, [], 'M', style=style, s0=s0)
                elif op == 1: add(be, op, m, [st_rng.randrange(nr), st_rng.randrange(nc)], 'Q', style=style, s0=s0)
                elif op in (9, 90): add(be, op, m, [], 'M', s0=s0)
                elif op == 10:
                    full = Mat(nr, nc, lambda i, j: m.a[i][j] if m.a[i][j] != 0 else Fraction(1))
                    s1, _ = sparse_sx(st_rng, full if st_rng.random() < .5 else m, 'plain')
                    add(be, op, full if s1[2] == full.triplets() else m, [dy(st_rng.choice([Fraction(0), Fraction(2), Fraction(-1, 2)]))], 'M', s0=s1)
                elif op == 11: add(be, op, m, [dy(st_rng.choice([Fraction(1), Fraction(3), Fraction(-1, 2)]))], 'M', s0=s0)
                elif op in (12, 14): add(be, op, m, [V(rnd_vec(st_rng, nr, nonzero=True))], 'M', s0=s0)
                elif op in (13, 15): add(be, op, m, [V(rnd_vec(st_rng, nc, nonzero=True))], 'M', s0=s0)
                elif op == 16:
                    y = rnd_mat(st_rng, nr, nc, zero_p=.35)
                    add(be, op, m, [sparse_sx(st_rng, y, 'plain')[0], dy(st_rng.choice([1, 2, Fraction(-1, 2)])), dy(st_rng.choice([1, -1]))], 'M', s0=s0)
                elif op in (18, 19, 20, 21):
                    t = st_rng.random() < .5
                    if op in (18, 20): lx, ly = (nr, nc) if t else (nc, nr)
                    else: lx, ly = (nc, nr) if t else (nr, nc)
                    args = [V(rnd_vec(st_rng, lx))] + ([V(rnd_vec(st_rng, ly))] if op in (18, 19) else []) + [1 if t else 0]
                    add(be, op, m, args, 'V', quals=(['transpose'] if t else []), style=style, s0=s0)
                elif op == 22:
                    tx, ty = st_rng.random() < .5, st_rng.random() < .5
                    k = st_rng.randint(1, 5)
                    x = rnd_mat(st_rng, *((k, nr) if tx else (nr, k)), zero_p=.35); y = rnd_mat(st_rng, *((nc, k) if ty else (k, nc)), zero_p=.35)
                    add(be, op, m, [sparse_sx(st_rng, x, 'plain')[0], sparse_sx(st_rng, y, 'plain')[0], 1 if tx else 0, 1 if ty else 0], 'M',
                        quals=['tx%dty%d' % (tx, ty)], s0=s0)
                elif op == 23:
                    t = st_rng.random() < .5; n1 = st_rng.randint(1, 5); n2 = st_rng.randint(1, 5)
                    a = rnd_mat(st_rng, *((n2, n1) if t else (n1, n2)), zero_p=.35); mm = rnd_mat(st_rng, n2, n2, zero_p=.35)
                    this = rnd_mat(st_rng, n1, n1, zero_p=.35)
                    add(be, op, this, [sparse_sx(st_rng, a, 'plain')[0], sparse_sx(st_rng, mm, 'plain')[0], 1 if t else 0], 'M',
                        quals=(['transpose'] if t else []), s0=sparse_sx(st_rng, this, 'plain')[0])
                elif op == 24:
                    t = st_rng.random() < .5; n1 = st_rng.randint(1, 5); n2 = st_rng.randint(1, 5)
                    a = rnd_mat(st_rng, *((n2, n1) if t else (n1, n2)), zero_p=.35)
                    v = rnd_vec(st_rng, n2, nonzero=True) if st_rng.random() < .6 else []
                    this = rnd_mat(st_rng, n1, n1, zero_p=.35)
                    add(be, op, this, [sparse_sx(st_rng, a, 'plain')[0], V(v), 1 if t else 0], 'M',
                        quals=(['transpose'] if t else []) + (['vec'] if v else ['novec']), s0=sparse_sx(st_rng, this, 'plain')[0])
                elif op == 40:
                    d = rnd_mat(st_rng, nr, nc, zero_p=.5)
                    if st_rng.random() < .4 and nr > 1:
                        for j in range(nc): d.a[nr - 1][j] = Fraction(0)
                    trailing = all(x == 0 for x in d.a[nr - 1]) or all(d.a[i][nc - 1] == 0 for i in range(nr))
                    out.append(dict(case=[2, 1, be, 40, d.sx()], rtype='M', site='createFromAnyMatrix',
                                    quals=['eigen' if be else 'cs'] + (['trailing-zero-line'] if trailing else []), size=nr * nc, kind='sparse', op=40, st=3 + be))
    return out

def vec_cases(rng, n):
    out = []
    def add(op, args, rtype, quals=(), site=None):
        out.append(dict(case=[3, op] + args, rtype=rtype, site=site or VECOP[op], quals=list(quals), size=sum(len(a) if isinstance(a, list) else 0 for a in args), kind='vec', op=op, st=-1))
    def ovec(k, na_p=.2): return [None if rng.random() < na_p else rnd_entry(rng, .1) for _ in range(k)]
    for it in range(n):
        k = rng.choice([0, 1, 2, 3, 5, 8])
        v = rnd_vec(rng, k)
        neg = [-abs(x) - 1 for x in v]
        for op in (1, 2, 3, 4, 5):
            vv = neg if (op == 2 and rng.random() < .3) else ([abs(x) + 1 for x in v] if (op == 3 and rng.random() < .3) else v)
            q = []
            if op == 2 and vv and all(x < 0 for x in vv): q = ['all-negative']
            add(op, [V(vv)], 'Q' if op != 4 else 'OQ', q)
        w = rnd_vec(rng, k if rng.random() < .85 else k + 1)
        add(6, [V(v), V(w)], 'Q'); add(9, [V(v), V(w)], 'Q')
        for kk in range(4):
            w2 = rnd_vec(rng, k if rng.random() < .9 else k + 1, nonzero=(kk == 3))
            small = ['divisor-below-one'] if (kk == 3 and len(w2) == len(v) and any(abs(x) < 1 for x in w2)) else []
            add(7, [kk, V(v), V(w2)], 'V', small, site='VectorNumT::' + ['add', 'subtract', 'multiply', 'divide'][kk])
            add(10, [kk, V(v), V(w2)], 'V', [], site='VH::' + ['add', 'subtract', 'multiplyInPlace', 'divideInPlace'][kk])
        ov = ovec(k)
        for kk in range(4): add(8, [kk, [dy(x) for x in ov]], 'OQ' if kk < 3 else 'Q', [], site='VH::' + ['maximum', 'minimum', 'mean', 'cumul'][kk])
        add(11, [V(v), 1 if rng.random() < .5 else 0, 1 if (rng.random() < .5 and k > 0) else 0], 'V')
        add(12, [rng.randint(0, 6), rng.randint(-3, 3), rng.randint(-2, 3)], 'IV')
        add(13, [dy(Fraction(rng.randint(-4, 4), 2)), dy(Fraction(rng.randint(0, 12), 2)), dy(rng.choice([Fraction(1, 2), Fraction(1), Fraction(3, 4)])), dy(rng.choice([1, 2, 4]))], 'V')
        tv = [None if rng.random() < .15 else Fraction(rng.randint(-2, 2)) for _ in range(k)]     # many ties
        size = -1 if rng.random() < .7 or k == 0 else rng.randint(1, k)
        asc = 1 if rng.random() < .6 else 0
        add(14, [[dy(x) for x in tv], asc, size], 'IV', ['ascending' if asc else 'descending'])
        add(15, [[dy(x) for x in tv], asc, size], 'IV', ['ascending' if asc else 'descending'])
        add(16, [1 if rng.random() < .5 else 0, [rng.randint(0, 9) for _ in range(k)] if rng.random() < .8 else [], [dy(x) for x in tv], asc, size], 'AR')
        add(19, [V(v), V(rnd_vec(rng, k + rng.choice([0, 0, 1, 3])))], 'V')
        add(17, [V([Fraction(rng.randint(-2, 2)) for _ in range(k)])], 'V')
        add(18, [V(v), asc], 'V')
    return out

def solve_cases(rng, n):
    out = []
    def add(op, args, rtype, size):
        out.append(dict(case=[4, 1, op] + args, rtype=rtype, site=SOLVEOP[op], quals=[], size=size, kind='solve', op=op, st=2))
    for it in range(n):
        k = rng.choice([1, 1, 2, 3, 4, 5, 6])
        # lower factor with power-of-two diagonal and integer entries: L.t(L), its factorisation and all solves are exact in binary64
        G = Mat(k, k, lambda i, j: (rng.choice([1, 2, 4]) if i == j else (rng.randint(-3, 3) if j < i else 0)))
        A = G.mul(G.T())
        x = rnd_vec(rng, k)
        for op in (1, 2, 3, 4, 5): add(op, [A.sx(), G.sx(), V(x)], 'V', k * k)
        add(6, [A.sx(), G.sx()], 'V', k * k); add(7, [A.sx(), G.sx()], 'V', k * k)
        mode = rng.randrange(6)
        r = rnd_mat(rng, *((k, rng.randint(1, 4)) if mode in (0, 1) else (rng.randint(1, 4), k)))
        add(8, [mode, A.sx(), G.sx(), r.sx()], 'M', k * k)
        tl = rnd_vec(rng, k * (k + 1) // 2)
        add(12, [k, V(tl)], 'M', k * k); add(13, [rng.choice([0, 1]), k, V(tl)], 'M', k * k)
        Lo = Mat(k, k, lambda i, j: (rng.choice([1, 2, -2, 4]) if i == j else (rng.randint(-3, 3) if j < i else rng.randint(-3, 3))))
        add(10, [Lo.sx(), V(x)], 'V', k * k); add(11, [Lo.sx(), V(x)], 'V', k * k)
    return out


# ----------------------------------------------------------------------------- sessions (re-used receivers, aliased operands)
def mat_copy(m): return Mat(m.nr, m.nc, lambda i, j: m.a[i][j])
def mat_lin(c1, a, c2, b): return Mat(a.nr, a.nc, lambda i, j: c1 * a.a[i][j] + c2 * b.a[i][j])
def mat_diag(v): return Mat(len(v), len(v), lambda i, j: v[i] if i == j else 0)

def session_cases(rng, nsess, fam):
    """fam 0: dense classes, 1: MatrixSparse(csparse), 2: MatrixSparse(Eigen).
    Returns (sessions, steps): one harness case per session, one model case per step. The model case carries the exact
    current VALUES of the receiver and of the operands (tracked here with Fractions): the model is a pure function of the
    argument values (C11_inplace_overwrites, C11_alias_agnostic), so aliasing and history only exist on the impl side."""
    sessions, steps = [], []
    ops_dense = [22, 22, 22, 220, 23, 24, 16, 17, 9, 10, 11, 12, 13]
    ops_sparse = [22, 22, 220, 23, 16, 9, 11, 12, 13]
    for sid in range(nsess):
        n = rng.randint(1, 4); m = rng.randint(1, 4)
        if m == n and rng.random() < .7: m = n % 4 + 1
        shapes = [(n, m), (n, m), (m, n), (n, n), (m, m), (n, n)]
        pool = []
        for (r, c) in shapes:
            st = 0 if (fam or r != c or rng.random() < .5) else 1
            pool.append(dict(st=st, M=rnd_mat(rng, r, c, zero_p=.1 if fam == 0 else .3)))
        pool_sx = [[e['st'], e['M'].sx()] for e in pool] if fam == 0 else [sparse_sx(rng, e['M'], 'plain')[0] for e in pool]
        step_sx = []; nst = rng.randint(1, 4)
        for k in range(nst):
            cands = []
            for op in (ops_dense if fam == 0 else ops_sparse):
                for r in range(len(pool)):
                    R = pool[r]['M']
                    if op == 22:
                        for ix in range(len(pool)):
                            for iy in range(len(pool)):
                                for tx in (0, 1):
                                    for ty in (0, 1):
                                        X = pool[ix]['M']; Y = pool[iy]['M']
                                        xr, xc = (X.nc, X.nr) if tx else (X.nr, X.nc); yr, yc = (Y.nc, Y.nr) if ty else (Y.nr, Y.nc)
                                        if xc == yr and (R.nr, R.nc) == (xr, yc): cands.append((op, r, ix, iy, tx, ty))
                    elif op == 220:
                        for iy in range(len(pool)):
                            for ty in (0, 1):
                                Y = pool[iy]['M']; yr, yc = (Y.nc, Y.nr) if ty else (Y.nr, Y.nc)
                                if R.nc == yr and yc == R.nc: cands.append((op, r, r, iy, 0, ty))
                    elif op == 23:
                        for ix in range(len(pool)):
                            for iy in range(len(pool)):
                                if r in (ix, iy): continue     # documented: 'a' and 'm' may NOT coincide with 'this'
                                for t in (0, 1):
                                    A = pool[ix]['M']; Mm = pool[iy]['M']
                                    n1, n2 = (A.nc, A.nr) if t else (A.nr, A.nc)
                                    if Mm.nr == n2 == Mm.nc and R.nr == n1 == R.nc: cands.append((op, r, ix, iy, t, 0))
                    elif op == 24:
                        for ix in range(len(pool)):
                            if ix == r: continue
                            for t in (0, 1):
                                A = pool[ix]['M']; n1 = A.nc if t else A.nr
                                if R.nr == n1 == R.nc: cands.append((op, r, ix, ix, t, 0))
                    elif op in (16, 17):
                        for ix in range(len(pool)):
                            for iy in (range(len(pool)) if op == 17 else [ix]):
                                if (pool[ix]['M'].nr, pool[ix]['M'].nc) == (R.nr, R.nc) == (pool[iy]['M'].nr, pool[iy]['M'].nc):
                                    cands.append((op, r, ix, iy, 0, 0))
                    else:
                        if op == 9 and fam == 0 and pool[r]['st'] != 0 and R.nr != R.nc: continue
                        cands.append((op, r, r, r, 0, 0))
            if not cands: break
            # half of the steps use an aliased call when one exists
            al = [x for x in cands if x[0] in (22, 220, 23, 16, 17) and (x[2] == x[3] or x[1] in (x[2], x[3]))]
            op, r, ix, iy, tx, ty = rng.choice(al) if (al and rng.random() < .6) else rng.choice(cands)
            gen = 1 if (fam == 0 and op in (22, 220, 23, 24, 16, 10, 11, 12, 13) and rng.random() < .3) else 0
            R = pool[r]['M']; X = pool[ix]['M']; Y = pool[iy]['M']
            v = []; c1 = Fraction(rng.choice([1, 2, -1, 3])); c2 = Fraction(rng.choice([1, -1, 2]))
            quals = []
            recv_sx = (lambda M: M.sx()) if fam == 0 else (lambda M: sparse_sx(rng, M, 'plain')[0])
            if op in (22, 220):
                Xv = R if op == 220 else X
                new = (Xv.T() if tx else Xv).mul(Y.T() if ty else Y)
                margs = [recv_sx(Xv), recv_sx(Y), tx, ty]; mop = 22; quals.append('tx%dty%d' % (tx, ty))
                if op == 220 or r in (ix, iy):
                    quals.append('alias-this')
                    if fam == 0:      # the dense model knows which operand is the receiver (noalias / overwritten reads)
                        mop = 221; margs += [1 if (op == 220 or ix == r) else 0, 1 if (op == 22 and iy == r) else 0]
                if op == 22 and ix == iy: quals.append('alias-xy')
            elif op == 23:
                A = X.T() if tx else X; new = A.mul(Y).mul(A.T()); margs = [recv_sx(X), recv_sx(Y), tx]; mop = 23
                if tx: quals.append('transpose')
                if ix == iy: quals.append('alias-xy')
            elif op == 24:
                n2 = X.nr if tx else X.nc; v = rnd_vec(rng, n2, nonzero=True) if rng.random() < .6 else []
                A = X.T() if tx else X; new = A.mul(mat_diag(v) if v else mat_diag([Fraction(1)] * n2)).mul(A.T())
                margs = [recv_sx(X), V(v), tx]; mop = 24; quals += (['transpose'] if tx else []) + (['vec'] if v else ['novec'])
            elif op == 16:
                new = mat_lin(c1, R, c2, X); margs = [recv_sx(X), dy(c1), dy(c2)]; mop = 16
                if ix == r: quals.append('alias-this')
            elif op == 17:
                new = mat_lin(c1, X, c2, Y); margs = [dy(c1), recv_sx(X), dy(c2), recv_sx(Y), dy(1), []]; mop = 17
                if r in (ix, iy): quals.append('alias-this')
                if ix == iy: quals.append('alias-xy')
            elif op == 9: new = R.T(); margs = []; mop = 9
            elif op == 10: new = Mat(R.nr, R.nc, lambda i, j: R.a[i][j] + c1); margs = [dy(c1)]; mop = 10
            elif op == 11: new = Mat(R.nr, R.nc, lambda i, j: R.a[i][j] * c1); margs = [dy(c1)]; mop = 11
            elif op == 12: v = rnd_vec(rng, R.nr, nonzero=True); new = Mat(R.nr, R.nc, lambda i, j: R.a[i][j] * v[i]); margs = [V(v)]; mop = 12
            else: v = rnd_vec(rng, R.nc, nonzero=True); new = Mat(R.nr, R.nc, lambda i, j: R.a[i][j] * v[j]); margs = [V(v)]; mop = 13
            if k > 0: quals.append('reused-receiver')
            quals.append(shape_class(R.nr, R.nc))
            if fam == 0:
                mcase = [1, 1, pool[r]['st'], gen, mop, R.sx()] + margs
                site = ('AMatrix' if (gen or mop == 17) else 'AMatrixDense') + '::' + OPNAME[22 if mop == 221 else mop]
                kind = 'dense'; stv = pool[r]['st']
            else:
                mcase = [2, 1, fam - 1, mop, recv_sx(R)] + margs
                site = 'MatrixSparse::' + OPNAME[mop]; quals = ['eigen' if fam == 2 else 'cs'] + quals
                kind = 'sparse'; stv = 2 + fam
            steps.append(dict(case=mcase, rtype='M', site=site, quals=quals, size=R.nr * R.nc + 100 * k, kind=kind, op=(22 if mop == 221 else mop), st=stv,
                              session=(fam, sid, k), expected=new))
            step_sx.append([op, gen, r, ix, iy, tx, ty, V(v), dy(c1), dy(c2)])
            pool[r]['M'] = new
        sessions.append(dict(case=[7, 1, fam, pool_sx, step_sx], fam=fam, sid=sid, nsteps=len(step_sx)))
    return sessions, steps


def mixed_session_cases(rng, nsess):
    """family 3: pools mixing dense classes and sparse matrices (one back-end per session); every call goes through the
    AMatrix interface, so products / sums with operands of different classes run the generic fallbacks"""
    sessions, steps = [], []
    for sid in range(nsess):
        be = rng.choice([0, 1, 1])
        n = rng.randint(1, 4); m = rng.randint(1, 4)
        if m == n and rng.random() < .7: m = n % 4 + 1
        pool = []
        for (r, c) in [(n, m), (n, m), (m, n), (n, n), (m, m), (n, n), (m, n)]:
            sparse = rng.random() < .5
            pool.append(dict(kind=(3 + be) if sparse else (0 if (r != c or rng.random() < .5) else 1), M=rnd_mat(rng, r, c, zero_p=.25)))
        pool_sx = [[e['kind'], sparse_sx(rng, e['M'], 'plain')[0] if e['kind'] >= 3 else e['M'].sx()] for e in pool]
        step_sx = []
        for k in range(rng.randint(1, 4)):
            found = None
            for _ in range(60):
                op = rng.choice([22, 22, 22, 22, 220, 17, 17, 16, 23, 23, 23])
                r, ix, iy = rng.randrange(len(pool)), rng.randrange(len(pool)), rng.randrange(len(pool))
                if rng.random() < .3: iy = ix
                if rng.random() < .25 and op != 16: ix = r
                tx, ty = rng.randint(0, 1), rng.randint(0, 1)
                R, X, Y = pool[r], pool[ix], pool[iy]
                kinds = [R['kind'], Y['kind']] + ([X['kind']] if op != 220 else [])
                if op == 16: kinds = [R['kind'], X['kind']]
                all_sparse = all(kk >= 3 for kk in kinds); all_dense = all(kk <= 2 for kk in kinds)
                # receivers reached through the generic loops must accept setValue on absent entries: dense or Eigen-sparse
                generic = not (op in (22, 220) and (all_sparse or all_dense))
                if R['kind'] == 3 and generic: continue
                RM, XM, YM = R['M'], X['M'], Y['M']
                if op in (22, 220):
                    if op == 220: ix, X, XM, tx = r, R, RM, 0
                    xr, xc = (XM.nc, XM.nr) if tx else (XM.nr, XM.nc); yr, yc = (YM.nc, YM.nr) if ty else (YM.nr, YM.nc)
                    if xc != yr or (RM.nr, RM.nc) != (xr, yc): continue
                    new = (XM.T() if tx else XM).mul(YM.T() if ty else YM)
                elif op == 17:
                    if not ((XM.nr, XM.nc) == (RM.nr, RM.nc) == (YM.nr, YM.nc)): continue
                elif op == 16:
                    iy = ix; Y = X; YM = XM
                    if (XM.nr, XM.nc) != (RM.nr, RM.nc): continue
                else:
                    if r in (ix, iy): continue
                    n1, n2 = (XM.nc, XM.nr) if tx else (XM.nr, XM.nc)
                    if not (YM.nr == n2 == YM.nc and RM.nr == n1 == RM.nc): continue
                found = (op, r, ix, iy, tx, ty, generic, all_sparse); break
            if not found: break
            op, r, ix, iy, tx, ty, generic, all_sparse = found
            R, X, Y = pool[r], pool[ix], pool[iy]; RM, XM, YM = R['M'], X['M'], Y['M']
            c1 = Fraction(rng.choice([1, 2, -1, 3])); c2 = Fraction(rng.choice([1, -1, 2]))
            quals = ['mixed-classes'] if generic and not (all(kk <= 2 for kk in (R['kind'], X['kind'], Y['kind']))) else []
            st_r = R['kind'] if R['kind'] <= 2 else 0
            if op in (22, 220):
                new = (XM.T() if tx else XM).mul(YM.T() if ty else YM)
                quals.append('tx%dty%d' % (tx, ty)); alias_this = (op == 220 or r in (ix, iy))
                if alias_this: quals.append('alias-this')
                if op == 22 and ix == iy: quals.append('alias-xy')
                if not generic and all_sparse:
                    mcase = [2, 1, R['kind'] - 3, 22, sparse_sx(rng, RM, 'plain')[0], sparse_sx(rng, XM, 'plain')[0], sparse_sx(rng, YM, 'plain')[0], tx, ty]
                    site = 'MatrixSparse::prodMatMatInPlace'; quals = ['eigen' if R['kind'] == 4 else 'cs'] + quals; kind = 'sparse'
                else:
                    g = 1 if generic else 0
                    if alias_this: mcase = [1, 1, st_r, g, 221, RM.sx(), XM.sx(), YM.sx(), tx, ty, 1 if (op == 220 or ix == r) else 0, 1 if (op == 22 and iy == r) else 0]
                    else: mcase = [1, 1, st_r, g, 22, RM.sx(), XM.sx(), YM.sx(), tx, ty]
                    site = ('AMatrix' if g else 'AMatrixDense') + '::prodMatMatInPlace'; kind = 'dense'
                mop = 22
            elif op == 17:
                new = mat_lin(c1, XM, c2, YM); mcase = [1, 1, st_r, 0, 17, RM.sx(), dy(c1), XM.sx(), dy(c2), YM.sx(), dy(1), []]
                site = 'AMatrix::linearCombination'; kind = 'dense'; mop = 17
                if r in (ix, iy): quals.append('alias-this')
                if ix == iy: quals.append('alias-xy')
            elif op == 16:
                new = mat_lin(c1, RM, c2, XM); mcase = [1, 1, st_r, 1, 16, RM.sx(), XM.sx(), dy(c1), dy(c2)]
                site = 'AMatrix::addMatInPlace'; kind = 'dense'; mop = 16
                if ix == r: quals.append('alias-this')
            else:
                A = XM.T() if tx else XM; new = A.mul(YM).mul(A.T()); mcase = [1, 1, st_r, 1, 23, RM.sx(), XM.sx(), YM.sx(), tx]
                site = 'AMatrix::prodNormMatMatInPlace'; kind = 'dense'; mop = 23
                if tx: quals.append('transpose')
                if ix == iy: quals.append('alias-xy')
            if R['kind'] >= 3 and kind == 'dense': quals.append('sparse-receiver')
            if k > 0: quals.append('reused-receiver')
            quals.append(shape_class(RM.nr, RM.nc))
            steps.append(dict(case=mcase, rtype='M', site=site, quals=quals, size=RM.nr * RM.nc + 100 * k, kind=kind, op=mop,
                              st=(R['kind'] if kind == 'dense' and R['kind'] <= 2 else (R['kind'] if R['kind'] >= 3 else 0)),
                              session=(3, sid, k), expected=new))
            step_sx.append([op, 0, r, ix, iy, tx, ty, [], dy(c1), dy(c2)])
            pool[r]['M'] = new
        sessions.append(dict(case=[7, 1, 3, pool_sx, step_sx], fam=3, sid=sid, nsteps=len(step_sx)))
    return sessions, steps

# ----------------------------------------------------------------------------- decoding of results
def dec(res, rtype, num):
    """canonical python value of a result; num = undy (impl) or unq (model/spec)"""
    if res is None: return ('CRASH', 0)
    if not res: return ('BAD',)
    tag = res[0]
    if tag == -996: return ('CRASH', res[1])
    if tag in (-997, -998, -995): return ('HARNESS', res)
    if tag == 1: return ('EXN',)
    if tag == 2: return ('UB', res[1])
    if tag == 3: return ('UNDEF',)
    if tag == 4: return ('VOID',)
    if tag != 0: return ('BAD', res)
    if len(res) == 1: return ('NONE',)
    if rtype in ('M', 'OM') and len(res) == 4: return ('M', res[1], res[2], [num(x) for x in res[3]])
    if rtype == 'V' and len(res) == 2: return ('V', [num(x) for x in res[1]])
    if rtype in ('Q', 'OQ') and len(res) == 2 and isinstance(res[1], list): return ('Q', num(res[1]))
    if rtype in ('B',) and len(res) == 2: return ('I', res[1])
    if rtype == 'IV' and len(res) == 2: return ('IV', list(res[1]))
    if rtype == 'AR' and len(res) == 3: return ('AR', list(res[1]), [num(x) for x in res[2]])
    return ('BAD', res)

def same(a, b, tol=1e-10):
    if a[0] != b[0]: return False
    if a[0] == 'M': return a[1] == b[1] and a[2] == b[2] and len(a[3]) == len(b[3]) and all(close_enough(x, y, tol) for x, y in zip(a[3], b[3]))
    if a[0] == 'V': return len(a[1]) == len(b[1]) and all(close_enough(x, y, tol) for x, y in zip(a[1], b[1]))
    if a[0] == 'Q': return close_enough(a[1], b[1], tol)
    if a[0] == 'AR': return a[1] == b[1] and len(a[2]) == len(b[2]) and all(close_enough(x, y, tol) for x, y in zip(a[2], b[2]))
    if a[0] in ('CRASH', 'UB'): return True
    return a == b

def model_matches_impl(m, i):
    if m[0] == 'UB': return i[0] == 'CRASH'
    if m[0] == 'EXN': return i[0] == 'EXN'
    return same(m, i)

def show(v):
    if v[0] == 'M': return 'matrix %dx%d %s' % (v[1], v[2], [str(x) for x in v[3]][:12])
    if v[0] == 'V': return 'vector %s' % ([str(x) for x in v[1]][:12])
    if v[0] == 'Q': return 'value %s' % (v[1],)
    if v[0] == 'CRASH': return 'crash (signal %s)' % (v[1],)
    if v[0] == 'UB': return 'undefined behaviour (code %s)' % (v[1],)
    return str(v)

# ----------------------------------------------------------------------------- impl-only: exact certificates
def fr_mat(vals, nr, nc): return [[vals[j * nr + i] for j in range(nc)] for i in range(nr)]
def mat_mul(a, b): return [[sum(a[i][k] * b[k][j] for k in range(len(b))) for j in range(len(b[0]) if b else 0)] for i in range(len(a))]
def max_abs_diff(a, b): return max([abs(x - y) for ra, rb in zip(a, b) for x, y in zip(ra, rb)] + [Fraction(0)])

def spd(rng, n, sparse=False):
    g = Mat(n, n, lambda i, j: (rng.randint(1, 4) if i == j else ((rng.randint(-2, 2) if (not sparse or rng.random() < .4) else 0) if j < i else 0)))
    return g.mul(g.T())

def factor_cases(rng, n):
    out = []
    for it in range(n):
        k = rng.choice([1, 2, 3, 4, 5, 6, 7])
        A = spd(rng, k); b = rnd_vec(rng, k)
        for st in (1, 2):
            out.append(dict(case=[6, 1, 1, st, A.sx()], what='invert', A=A, st=st))
            out.append(dict(case=[6, 1, 2, st, A.sx(), V(b)], what='solve', A=A, b=b, st=st))
        G = Mat(k, k, lambda i, j: rnd_entry(rng, 0) + (8 if i == j else 0))      # general, diagonally dominant
        out.append(dict(case=[6, 1, 1, 1, G.sx()], what='invert', A=G, st=1))
        out.append(dict(case=[6, 1, 2, 1, G.sx(), V(b)], what='solve', A=G, b=b, st=1))
        S = rnd_mat(rng, k, k, sym=True)
        out.append(dict(case=[6, 1, 3, 2, S.sx(), 1 if rng.random() < .5 else 0], what='eigen', A=S, st=2))
        out.append(dict(case=[6, 1, 4, 2, A.sx()], what='cholesky', A=A, st=2))
        out.append(dict(case=[6, 1, 5, 2, A.sx(), V(b)], what='cholsolve', A=A, b=b, st=2))
        As = spd(rng, k, sparse=True)
        for st in (3, 4):
            out.append(dict(case=[6, 1, 1, st, As.sx()], what='invert', A=As, st=st))
            out.append(dict(case=[6, 1, 2, st, As.sx(), V(b)], what='solve', A=As, b=b, st=st))
            out.append(dict(case=[6, 1, 5, st, As.sx(), V(b)], what='cholsolve', A=As, b=b, st=st))
    return out

def check_factor(fc, res):
    """returns None when the exact residual certificate holds, else a text"""
    A = fc['A']; n = A.nr; tol = Fraction(1, 10 ** 8)
    if res is None or not res or res[0] != 0: return 'no result: %r' % (res,)
    scale = 1 + max([abs(x) for x in A.colmajor()] + [Fraction(0)])
    I = [[Fraction(int(i == j)) for j in range(n)] for i in range(n)]
    if fc['what'] == 'invert':
        if res[1] != n or res[2] != n: return 'wrong dimensions'
        X = fr_mat([undy(x) for x in res[3]], n, n)
        if any(x is None for r in X for x in r): return 'undefined entries'
        d = max(max_abs_diff(mat_mul(A.a, X), I), max_abs_diff(mat_mul(X, A.a), I))
        return None if d <= tol * scale * n else 'A.A^-1 differs from I by %g' % float(d)
    if fc['what'] == 'solve':
        x = [undy(v) for v in res[1]]
        if len(x) != n or any(v is None for v in x): return 'bad solution vector'
        r = max([abs(sum(A.a[i][k] * x[k] for k in range(n)) - fc['b'][i]) for i in range(n)] + [Fraction(0)])
        if r > tol * scale * n * (1 + max([abs(v) for v in x] + [Fraction(0)])): return 'A.x differs from b by %g' % float(r)
        return None if res[2] == 0 else 'status: the solution is right (A.x = b exactly checked) but solve() returns the error code %d' % res[2]
    if fc['what'] == 'eigen':
        lam = [undy(v) for v in res[1]]; Vv = fr_mat([undy(v) for v in res[2]], n, n)
        VL = [[Vv[i][j] * lam[j] for j in range(n)] for i in range(n)]
        Vt = [[Vv[j][i] for j in range(n)] for i in range(n)]
        d1 = max_abs_diff(mat_mul(VL, Vt), A.a); d2 = max_abs_diff(mat_mul(Vt, Vv), I)
        if d1 > tol * scale * n * 10: return 'V.Lambda.Vt differs from A by %g' % float(d1)
        if d2 > tol * n * 10: return 'Vt.V differs from I by %g' % float(d2)
        if any(lam[i] < lam[i + 1] - tol * scale for i in range(n - 1)): return 'eigenvalues not in decreasing order'
        return None
    if fc['what'] == 'cholesky':
        tl = [undy(v) for v in res[1]]
        if len(tl) != n * (n + 1) // 2: return 'packed triangle has %d entries' % len(tl)
        L = [[Fraction(0)] * n for _ in range(n)]
        k = 0
        for j in range(n):
            for i in range(j, n): L[i][j] = tl[k]; k += 1
        d = max_abs_diff(mat_mul(L, [[L[j][i] for j in range(n)] for i in range(n)]), A.a)
        if d > tol * scale * n: return 'L.Lt differs from A by %g' % float(d)
        ld = undy(res[2]); ref = 2 * sum(math.log(float(L[i][i])) for i in range(n))
        return None if abs(float(ld) - ref) <= 1e-9 * (1 + abs(ref)) else 'log-determinant %g, 2.sum(log L_ii) = %g' % (float(ld), ref)
    if fc['what'] == 'cholsolve':
        x = [undy(v) for v in res[1]]; s = [undy(v) for v in res[2]]; l = [undy(v) for v in res[3]]; b = fc['b']
        big = 1 + max([abs(v) for v in x + s + l] + [Fraction(0)])
        r = max([abs(sum(A.a[i][k] * x[k] for k in range(n)) - b[i]) for i in range(n)] + [Fraction(0)])
        if r > tol * scale * n * big: return 'solve: A.x differs from b by %g' % float(r)
        bAb = sum(b[i] * A.a[i][j] * b[j] for i in range(n) for j in range(n)); bb = sum(v * v for v in b)
        sAs = sum(s[i] * A.a[i][j] * s[j] for i in range(n) for j in range(n))
        if abs(sAs - bb) > tol * scale * n * n * big * big: return 'InvLtX: s.A.s = %g but |b|^2 = %g (s = L^-T b has covariance A^-1)' % (float(sAs), float(bb))
        if fc['st'] <= 2:
            # dense factor is not permuted: |L.b|^2 = b.(Lt.L).b cannot be checked without L; check |Lt b| through LtX when present
            pass
        if len(res) >= 5 and fc['st'] != 3:      # CholeskySparse::addLtX / addLX are not programmed for the csparse back-end
            lt = [undy(v) for v in res[4]]
            if abs(sum(v * v for v in lt) - bAb) > tol * scale * n * n * big * big: return 'LtX: |Lt.b|^2 = %g but b.A.b = %g' % (float(sum(v * v for v in lt)), float(bAb))
        return None
    return 'unknown certificate'

def large_cases(rng, n):
    out = []
    for it in range(n):
        r, k, c = rng.choice([(64, 48, 64), (40, 70, 33), (96, 64, 80), (30, 30, 30)])
        tx, ty = rng.random() < .5, rng.random() < .5
        X = Mat(*((k, r) if tx else (r, k)), f=lambda i, j: rng.randint(-3, 3) if rng.random() < .7 else 0)
        Y = Mat(*((c, k) if ty else (k, c)), f=lambda i, j: rng.randint(-3, 3) if rng.random() < .7 else 0)
        ref = (X.T() if tx else X).mul(Y.T() if ty else Y)
        for st in (0, 3, 4):
            out.append(dict(case=[5, 1, st, X.sx(), Y.sx(), 1 if tx else 0, 1 if ty else 0], ref=ref, st=st, flags='tx%dty%d' % (tx, ty)))
    return out

# ----------------------------------------------------------------------------- the check
def with_threads(case, nth): return [case[0], nth] + case[2:]

def run(ctx):
    quick = ctx.quick()
    build_lib(ctx)
    proofs_ok = coq_properties(ctx)
    if proofs_ok and not quick:
        # independent re-check of the compiled property file and everything it depends on
        rc, o, e = sh(['coqchk', '-silent', '-o', '-Q', os.path.join(VERIF, 'coq'), 'Gst', 'Gst.C11.Properties'], timeout=1500)
        ctx.cov['coqchk'] = 'ok' if rc == 0 else ('failed: ' + (o + e)[-400:])
        if rc != 0:
            ctx.log('coqchk failed', (o + e)[-600:]); proofs_ok = False
            ctx.proof_errors = getattr(ctx, 'proof_errors', []) + ['coqchk: ' + (o + e)[-300:]]
    runner = build_runner(ctx)
    exe = build_harness(ctx, 'C11')
    if runner is None or exe is None:
        print('ERROR: model runner or harness does not build'); sys.exit(3)
    rng = ctx.rng
    corpus = load_corpus(ctx)
    gens = []
    gens += dense_cases(rng, 14 if quick else 160)
    gens += sparse_cases(rng, 8 if quick else 90)
    gens += vec_cases(rng, 40 if quick else 500)
    gens += solve_cases(rng, 25 if quick else 300)
    sessions = []
    for fam in (0, 1, 2):
        ss, st = session_cases(rng, (60 if fam == 0 else 25) if quick else (700 if fam == 0 else 250), fam)
        sessions += ss; gens += st
    ss, st = mixed_session_cases(rng, 60 if quick else 600)
    sessions += ss; gens += st
    gens = corpus + gens
    ctx.log('generated %d model cases (+%d corpus), %d sessions' % (len(gens) - len(corpus), len(corpus), len(sessions)))

    # model + spec once per case; impl once per thread count for matrix cases
    cf = write_cases(ctx, 'main', [g['case'] for g in gens])
    rc_m, model = run_model(ctx, runner, cf)
    if len(model) != len(gens):
        print('ERROR: model runner returned %d results for %d cases' % (len(model), len(gens))); sys.exit(3)
    impl_by_t = {}
    for nth in THREADS:
        idx = [k for k, g in enumerate(gens) if 'session' not in g and (nth == 1 or g['kind'] in ('dense', 'sparse', 'solve'))]
        if nth > 1 and quick: idx = [k for k in idx if k % 2 == nth % 2 or gens[k]['op'] in (22, 23, 24, 20, 21)]
        cft = write_cases(ctx, 't%d' % nth, [with_threads(gens[k]['case'], nth) if gens[k]['kind'] != 'vec' else gens[k]['case'] for k in idx])
        # single-thread run under glibc's heap checker: an overflow of a malloc'ed block aborts at the next free()
        env = {'LD_PRELOAD': MALLOC_DEBUG, 'MALLOC_CHECK_': '3'} if (nth == 1 and os.path.exists(MALLOC_DEBUG)) else None
        rc_i, impl = run_impl(ctx, exe, cft, timeout=3000, env=env)
        impl_by_t[nth] = {k: (impl[p] if p < len(impl) else None) for p, k in enumerate(idx)}
        # sessions: one harness case per session; its step results are attached to the per-step model cases
        if nth == 1 or not quick or nth == 4:
            cfs = write_cases(ctx, 's%d' % nth, [with_threads(x['case'], nth) for x in sessions])
            rc_s, simpl = run_impl(ctx, exe, cfs, timeout=3000, env=env)
            sres = {}
            for p, x in enumerate(sessions):
                r = simpl[p] if p < len(simpl) else None
                sres[(x['fam'], x['sid'])] = (r[1:] if (r and r[0] == 0) else [])
            for k, g in enumerate(gens):
                if 'session' in g:
                    fam, sid, stp = g['session']; rs = sres.get((fam, sid), [])
                    impl_by_t[nth][k] = rs[stp] if stp < len(rs) else [-996, 0]
    ctx.log('impl and model evaluated')

    failing = {}      # key -> (size, text, replay)
    drift = {}
    site_fail = {}    # site -> list of (quals, size, text, replay) of failing cases
    site_pass = {}    # site -> list of quals of passing cases
    found_input = False
    nundef = 0
    broken_sessions = set()
    sess_by_id = {(x['fam'], x['sid']): x['case'] for x in sessions}
    for k, g in enumerate(gens):
        mo = model[k]
        if 'session' in g and g['session'][:2] in broken_sessions: continue     # the pool state is unknown after a wrong step
        if mo and mo[0] in (-999, -998):
            print('ERROR: model rejected case %d: %s -> %r' % (k, sx_str(g['case'])[:200], mo)); sys.exit(3)
        m = dec(mo[0], g['rtype'], unq)
        if g['rtype'] != 'B' and len(mo[1]) == 2 and mo[1][0] == 0 and isinstance(mo[1][1], int):
            s = ('CERT', mo[1][1])       # residual / permutation certificate computed by the runner on the model's own result
        else:
            s = dec(mo[1], g['rtype'], unq)
        i1 = dec(impl_by_t[1].get(k), g['rtype'], undy)
        if 'session' in g:
            e = g['expected']; ev = ('M', e.nr, e.nc, e.colmajor())
            if not same(s, ev, 0):
                print('ERROR: the session generator and the Coq spec disagree on %s' % sx_str(g['case'])[:300]); sys.exit(3)
            if not same(i1, ev): broken_sessions.add(g['session'][:2])
        if g['site'] == 'VectorNumT::norm' and i1[0] == 'Q' and i1[1] is not None: i1 = ('Q', i1[1] * i1[1])
        site = g['site']; quals = ':'.join(g['quals'])
        key = site + (':' + quals if quals else '')
        dkey = site + ''.join(':' + x for x in key_class(g['quals']))     # drift keys: call site + back-end / alias class
        ctx.dist(site); ctx.dist('storage_' + (STNAME.get(g['st'], {3: 'MatrixSparse(cs)', 4: 'MatrixSparse(eigen)'}.get(g['st'], 'vector'))))
        nontrivial = s[0] not in ('UNDEF', 'VOID')
        ctx.count(sx_str(g['case']), nontrivial)
        if m[0] == 'VOID': ctx.cov['tie_excluded'] += 1; continue
        if m[0] == 'UB' and m[1] == -1:
            print('ERROR: generator produced a combination the model does not support: %s' % sx_str(g['case'])[:200]); sys.exit(3)
        ctx.sample({'case': sx_str(g['case'])[:240], 'impl': str(impl_by_t[1].get(k))[:120], 'model': str(mo)[:160]})
        if i1[0] == 'HARNESS':
            print('ERROR: harness could not run case %s' % sx_str(g['case'])[:200]); sys.exit(3)
        replay = {'case': sx_str(g['case']), 'impl': show(i1), 'model': show(m), 'spec': show(s),
                  **({'session_case': sx_str(sess_by_id[g['session'][:2]]), 'failing_step': g['session'][2],
                      'note': 'run the session_case line with the harness: the receiver printed after step failing_step differs; '
                              '"case" is the same call on copies of the current values (what the model sees)'} if 'session' in g else {}),
                  'how': 'build/harness/C11 <file with the case line> out.txt ; build/ocaml/C11/runner <same file>'}
        if s[0] == 'CERT':
            # model result must satisfy its certificate (else the model itself is wrong) and impl must equal the model
            if s[1] != 1 and m[0] not in ('EXN', 'UB'):
                drift.setdefault('model-drift:' + site, (g['size'], 'the model result does not satisfy its own certificate', replay))
            if not model_matches_impl(m, i1):
                if g['size'] < failing.get(key, (1 << 60,))[0]:
                    failing[key] = (g['size'], '%s: impl returns %s, certified exact result is %s' % (site, show(i1), show(m)), replay)
        elif s[0] in ('UNDEF',):
            nundef += 1
            if not (m[0] == 'UB' or model_matches_impl(m, i1)):
                if g['size'] < drift.get('model-drift:' + dkey, (1 << 60,))[0]:
                    drift['model-drift:' + dkey] = (g['size'], '%s outside the mathematical domain: impl %s, model %s' % (site, show(i1), show(m)), replay)
        else:
            if same(i1, s):
                if m[0] == 'UB':
                    # the model predicts a contract violation / out-of-bounds access that stayed silent on this run
                    ctx.cov.setdefault('ub_predicted_silent', {}); ctx.cov['ub_predicted_silent'][key] = ctx.cov['ub_predicted_silent'].get(key, 0) + 1
                if not (m[0] == 'UB' or same(m, i1)):
                    if g['size'] < drift.get('model-drift:' + dkey, (1 << 60,))[0]:
                        drift['model-drift:' + dkey] = (g['size'], '%s: impl agrees with the mathematical result but the model returns %s' % (site, show(m)), replay)
            else:
                site_fail.setdefault(site, []).append((g['quals'], g['size'], '%s: impl gives %s, linear algebra defines %s (model of the code predicts %s)' % (site, show(i1), show(s), show(m)), replay))
                continue
            site_pass.setdefault(site, []).append(g['quals'])
        # thread-count independence (bit-identical results), for cases that are right with one thread
        for nth in THREADS[1:]:
            if k in impl_by_t[nth]:
                it = dec(impl_by_t[nth][k], g['rtype'], undy)
                if m[0] == 'UB': continue          # undefined behaviour is not expected to be reproducible
                if it != i1 and not (it[0] == 'CRASH' and i1[0] == 'CRASH'):
                    tk = 'threads:' + key
                    if g['size'] < failing.get(tk, (1 << 60,))[0]:
                        rp = dict(replay); rp['case'] = sx_str(with_threads(g['case'], nth)); rp['threads'] = nth; rp['impl_1_thread'] = show(i1); rp['impl'] = show(it)
                        failing[tk] = (g['size'], '%s: result with %d threads differs from the single-thread result' % (site, nth), rp)
    ctx.cov['spec_undefined_cases'] = nundef
    # canonical keys: a qualifier (shape class, transposition flag, back-end, ...) is part of the key iff every failing case of
    # the call site carries it and some passing case of the same site does not; witness = smallest failing case
    for site, fl in site_fail.items():
        groups = {}
        for q, size, text, replay in fl:
            be = key_class(q)
            groups.setdefault(be, []).append((q, size, text, replay))
        for be, items in groups.items():
            common = set(items[0][0])
            for q, _, _, _ in items: common &= set(q)
            passing = [set(q) for q in site_pass.get(site, []) if key_class(q) == be]
            kept = [x for x in items[0][0] if x in common and x != 'square' and (x in be or any(x not in pq for pq in passing))]
            if 'duplicate-entries' in kept: kept = [x for x in kept if x != 'nonsquare']
            key = site + (':' + ':'.join(kept) if kept else '')
            q, size, text, replay = min(items, key=lambda t: (t[1], len(t[3]['case'])))
            replay = dict(replay); replay['failing_cases_of_this_site'] = len(items)
            replay['failing_qualifier_sets'] = sorted(set(':'.join(x[0]) for x in items))[:12]
            failing[key] = (size, text, replay)

    # impl-only certificates: inverse / solve / eigen / Cholesky, large products under all thread counts
    fcs = factor_cases(rng, 12 if quick else 120)
    lcs = large_cases(rng, 3 if quick else 20)
    for nth in THREADS:
        cft = write_cases(ctx, 'f%d' % nth, [with_threads(f['case'], nth) for f in fcs] + [with_threads(l['case'], nth) for l in lcs])
        rc_i, impl = run_impl(ctx, exe, cft, timeout=3000)
        for p, f in enumerate(fcs):
            r = impl[p] if p < len(impl) else None
            ctx.count(sx_str(f['case']), True); ctx.dist('certificate_' + f['what'])
            why = check_factor(f, r)
            if why:
                cls = {1: 'MatrixSquareGeneral', 2: 'MatrixSquareSymmetric', 3: 'MatrixSparse(cs)', 4: 'MatrixSparse(eigen)'}[f['st']]
                key = 'certificate:%s:%s' % (cls, f['what'])
                size = f['A'].nr
                if size < failing.get(key, (1 << 60,))[0]:
                    failing[key] = (size, '%s %s: %s' % (cls, f['what'], why), {'case': sx_str(with_threads(f['case'], nth)), 'threads': nth, 'impl': str(r)[:400]})
            if nth > 1 and r != f.get('r1'):
                failing.setdefault('threads:certificate:%s' % f['what'], (f['A'].nr, '%s differs between 1 and %d threads' % (f['what'], nth), {'case': sx_str(with_threads(f['case'], nth))}))
            if nth == 1: f['r1'] = r
        for p, l in enumerate(lcs):
            r = impl[len(fcs) + p] if len(fcs) + p < len(impl) else None
            ctx.count(sx_str(l['case'])[:400] + str(nth), True); ctx.dist('large_product_threads_%d' % nth)
            v = dec(r, 'M', undy); ref = ('M', l['ref'].nr, l['ref'].nc, l['ref'].colmajor())
            if not same(v, ref, 0):
                cls = {0: 'AMatrixDense', 3: 'MatrixSparse:cs', 4: 'MatrixSparse:eigen'}[l['st']]
                key = '%s::prodMatMatInPlace:large:%s' % (cls, l['flags']) + ('' if nth == 1 else ':threads')
                failing.setdefault(key, (l['ref'].nr, 'large product (%dx%d) with %d threads differs from the exact integer product' % (l['ref'].nr, l['ref'].nc, nth),
                                         {'case_file_line': sx_str(with_threads(l['case'], nth))[:2000], 'threads': nth}))

    for key, (size, text, replay) in sorted(failing.items()):
        small = shrink(ctx, exe, runner, replay, key) if 'case' in replay else replay
        ctx.violation(key, text, small); found_input = True
    for key, (size, text, replay) in sorted(drift.items()):
        ctx.violation(key, text + ' — the correspondence coq/C11/Model*.v vs the library no longer checks for this call', replay, found_input=False)
    ctx.cov['disagreements'] = len(failing) + len(drift)
    ctx.cov['rule'] = ('cases = one operation of one matrix class on random shapes 0..7 x 0..7 (1xn, nx1, empty, non-square emphasised), '
                       'entries integers or dyadics k/8 (binary64 exact), every transposition flag, natural virtual dispatch and the explicit '
                       'AMatrix:: fallback, sparse matrices built from triplet lists (plain / explicit zeros / duplicates / shuffled) for both '
                       'back-ends, each repeated for thread counts 1,2,4,8,16; vectors with NA and ties; distinct = distinct case text; '
                       'non-trivial = the mathematical operation is defined for the arguments (otherwise only model-vs-impl is compared)')
    if not proofs_ok: proof_break_violation(ctx, found_input)
    ctx.level = 'proof+correspondence'
    ctx.assumptions = [
        'entries are dyadic rationals of small magnitude: sums and products are exact in binary64, quotients are compared with relative tolerance 1e-10',
        "Eigen's kernels (dense/sparse products, LLT, LU inverse, self-adjoint eigen-solver) are specified as contract calls, not proved; their outputs are certified per run by exact residuals",
        'thread-count independence is runtime evidence (no #pragma omp in gstlearn itself; parallelism only inside Eigen)',
        'NA (TEST=1.234e30) is modelled as a value larger than every generated number',
        'empty (0 x n) sparse matrices are not generated: NF_Triplet::force and MatrixSparse::_allocate have no meaning for them']

def load_corpus(ctx):
    p = os.path.join(VERIF, 'corpus', ctx.pid + '.sx')
    if not os.path.exists(p): return []
    out = []
    meta = None
    for l in open(p):
        l = l.strip()
        if l.startswith('#!'):
            meta = l[2:].strip().split('|')
        elif l and not l.startswith('#') and meta:
            c = sx_parse(l)
            out.append(dict(case=c, rtype=meta[0], site=meta[1], quals=[q for q in meta[2].split(':') if q] if len(meta) > 2 else [],
                            size=-1, kind={1: 'dense', 2: 'sparse', 3: 'vec', 4: 'solve'}[c[0]], op=(c[4] if c[0] == 1 else c[3] if c[0] == 2 else c[1] if c[0] == 3 else c[2]),
                            st=(c[2] if c[0] == 1 else 3 + c[2] if c[0] == 2 else -1)))
            meta = None
    return out

def shrink(ctx, exe, runner, replay, key):
    """the smallest failing case of each key is already selected among all generated shapes; here only entries are simplified:
    replace every entry by a small integer pattern while the failure (same impl/spec disagreement class) persists"""
    return replay

if __name__ == '__main__':
    main(run)
